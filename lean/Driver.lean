/-
  Driver.lean — line-protocol executable (Model + Generated only, no Mathlib).
  One request per line on stdin, one answer per line on stdout.
-/
import YalafiVerif.Model.Proto
import YalafiVerif.Model.Tex2txt
import YalafiVerif.Model.Shell
import YalafiVerif.Model.Html
import YalafiVerif.Model.ProtoChecks
import YalafiVerif.Model.ProtoReports
import YalafiVerif.Model.ProtoHtmlText
import YalafiVerif.Generated.Tables
open Yalafi Yalafi.Proto
open Yalafi.Html (generateHtml normContext firstRows)

def PT : PTables := Yalafi.Generated.theTables
def T : Tables := PT.toTables

def opScan : R (List String) := do
  let src ← str
  let r := scan T src
  pure (["ok", encBool r.complete] ++ encToks r.toks ++ encDiags r.diags)

def opTxtPos : R (List String) := do
  let ts ← toks
  pure ("ok" :: encTxtPos (getTxtPos ts))

def opLatexErr : R (List String) := do
  let err ← str
  let pos ← nat
  let src ← str
  let verbose ← bool
  let T' := { T with markVerbose := verbose }
  pure (["ok"] ++ encToks (latexErrorToks T' err pos src.length) ++ encDiag (latexErrorDiag err pos src))

def opLines : R (List String) := do
  let ts ← toks
  match removeLines ts with
  | some out => pure ("ok" :: encToks out)
  | none => pure ["fuel"]

def span : R Span := do
  let s ← nat
  let l ← nat
  pure { start := s, len := l }

def opSubst : R (List String) := do
  let txt ← str
  let pos ← natList
  let ms ← list span
  let repl ← str
  pure ("ok" :: encTxtPos (substitute txt pos ms repl))

def opRepl : R (List String) := do
  let txt ← str
  let pos ← natList
  let lines ← list str
  pure ("ok" :: encTxtPos (replacePhrases T txt pos lines))

def opSpans : R (List String) := do
  let txt ← str
  let line ← str
  match parseRule T line with
  | none => pure ["ok", "norule"]
  | some r =>
    let sp := findSpans T r.phrase txt.length 0 none txt
    pure (["ok", "rule", encStr r.repl, toString sp.length] ++ (sp.map (fun s => [toString s.start, toString s.len])).flatten)

def langChange : R LangChange := list (do let k ← str; let v ← list str; pure (k, v))

def opML : R (List String) := do
  let ts ← toks
  let main ← str
  let thresh ← nat
  let lc ← langChange
  match getTxtPosML ts main thresh lc with
  | none => pure ["crash"]
  | some (parts, lc') =>
    pure (["ok"] ++ encParts parts ++
      (toString lc'.length :: (lc'.map (fun e => encStr e.1 :: toString e.2.length :: e.2.map encStr)).flatten))

def opT2T : R (List String) := do
  let lang ← str; let pack ← str; let dcls ← str; let extr ← str
  let seqs ← bool; let nosp ← bool; let unkn ← bool
  let defs ← str
  let multi ← bool; let thresh ← nat
  let hasRepl ← bool
  let repl ← list str
  let files ← list (do let n ← str; let c ← str; pure (n, c))
  let fuel ← nat
  let src ← str
  let o : Options := { lang := lang, pack := pack, dcls := dcls, defs := defs, extr := extr, seqs := seqs,
                       nosp := nosp, unkn := unkn, repl := repl, hasRepl := hasRepl }
  match tex2txt PT fuel src o multi thresh files with
  | .fatal m => pure ["fatal", encStr m]
  | .crash c => pure ["crash", c]
  | .outOfFuel => pure ["fuel"]
  | .ok r =>
    pure (["ok"] ++ encToks r.toks ++ encTxtPos (r.txt, r.pos) ++ encParts r.parts
          ++ (toString r.unknowns.length :: r.unknowns.map encStr) ++ encDiags r.diags ++ [encBool r.foreign])

/-! cleveref: the hand-written matchers against Python `re` (harness/corr_cref.py) -/

/-- SEDLINE line → the three patterns tried independently, with `re_remove_escaped_symbols` of the
    replacement group:  ok | r? name star label repl clean | g? name star l1 l2 repl clean | c? name cC nargs repl clean -/
def opSedLine : R (List String) := do
  let s ← str
  let r := match Cleveref.matchRef s with
    | some m => ["1", encStr m.name, encStr m.star, encStr m.label, encStr m.repl, encStr (Cleveref.removeEscaped m.repl)]
    | none => ["0"]
  let g := match Cleveref.matchRange s with
    | some m => ["1", encStr m.name, encStr m.star, encStr m.label1, encStr m.label2, encStr m.repl,
                 encStr (Cleveref.removeEscaped m.repl)]
    | none => ["0"]
  let c := match Cleveref.matchCmd s with
    | some m => ["1", encStr m.name, encBool m.cC, toString m.nargs, encStr m.repl, encStr (Cleveref.removeEscaped m.repl)]
    | none => ["0"]
  pure (["ok"] ++ r ++ g ++ c)

def encPairs (t : List (Str × Str)) : List String :=
  toString t.length :: (t.map (fun e => [encStr e.1, encStr e.2])).flatten
def encTriples (t : List ((Str × Str) × Str)) : List String :=
  toString t.length :: (t.map (fun e => [encStr e.1.1, encStr e.1.2, encStr e.2])).flatten

/-- SEDFILE text → the body of `h_read_sed` behind the file access, run on an empty macro table:
    ok nMacros (name args nRepl toks… handler)* diags | fatal msg -/
def opSedFile : R (List String) := do
  let sed ← str
  match readSedText PT sed ({} : PState) with
  | .fatal m => pure ["fatal", encStr m]
  | .crash c => pure ["crash", c]
  | .outOfFuel => pure ["fuel"]
  | .ok (_, st) =>
    pure (["ok", toString st.macros.length] ++
      (st.macros.map (fun m => [encStr m.name, encStr m.args] ++ encToks m.repl ++
        (match m.handler with
         | .none => ["n"]
         | .cref a b => ["c"] ++ encPairs a ++ encPairs b
         | .crefrange a b => ["r"] ++ encTriples a ++ encTriples b
         | _ => ["?"]))).flatten ++ encDiags st.diags)

/-- the JSON value of one field, by a tag: n (missing) | i <int> | t | f | s | d | z | a | o -/
def jfield : R (Option Json) := do
  let tag ← next
  match tag with
  | "n" => pure none
  | "i" => do let v ← int; pure (some (.int v))
  | "t" => pure (some (.bool true))
  | "f" => pure (some (.bool false))
  | "s" => pure (some (.str []))
  | "d" => pure (some .float)
  | "z" => pure (some .null)
  | "a" => pure (some (.arr []))
  | "o" => pure (some (.obj []))
  | _ => throw "bad json tag"

def encSOut {α} (x : SOut α) (f : α → List String) : List String :=
  match x with
  | .ok a => "ok" :: f a
  | .fatal => ["fatal"]
  | .crash s => ["crash", s]

def opMap : R (List String) := do
  let cm ← intList
  let latex ← str
  let off ← int
  let len ← jfield
  pure (encSOut (mapMatch cm latex off len) (fun r => [toString r.1, toString r.2]))

def opAsmSort : R (List String) := do
  let parts ← list (do
    let plain ← str
    let cm ← intList
    let offs ← intList
    pure (({ plain := plain, charmap := cm } : Part), offs.map (fun o => ({ offset := o, rest := .null } : RawMatch))))
  let a := assemble parts
  pure (encSOut (sortMatches a.charmapTot a.hits) (fun ms =>
    [encStr a.plainTot, encIntList a.charmapTot, encIntList (ms.map (·.offset))]))

def opLineCol : R (List String) := do
  let tex ← str
  let off ← nat
  let len ← nat
  let tl := textLineCol tex off
  let x := xmlFields tex off len
  pure ["ok", toString tl.1, toString tl.2, toString x.1, toString x.2.1, toString x.2.2.1, toString x.2.2.2,
        toString (utf8Size ((tex.take off).drop (off - colIdx tex off)))]

def opProtect : R (List String) := do
  let s ← str
  pure ["ok", encStr (protectHtml s)]

/-- HTML tex charmap matches context: the structure of `generate_html` (Model/Html.lean).
    Answer: ok | nH (idx unsure beg fin beglin endlin lin)* | nRegions (beglin endlin nPieces
    (kind idx text)* lineNumbers nOverlaps (idx lin text)* nRows rowText*)* | first? text numbers nRows rowText* -/
def opHtml : R (List String) := do
  let tex ← str
  let cm ← intList
  let ms ← list (do let o ← int; let l ← int; pure (o, l))
  let ctx ← int
  pure (encSOut (generateHtml T tex cm ms (normContext ctx)) (fun r =>
    [toString r.hdata.length] ++
    (r.hdata.map (fun h => [toString h.idx, encBool h.unsure, toString h.beg, toString h.fin,
                            toString h.beglin, toString h.endlin, toString h.lin])).flatten ++
    [toString r.regions.length] ++
    (r.regions.map (fun g =>
      [toString g.beglin, toString g.endlin, toString g.pieces.length] ++
      (g.pieces.map (fun p => match p with
        | .plain s => ["p", "0", encStr s]
        | .hi i s => ["h", toString i, encStr s])).flatten ++
      [encIntList g.lineNumbers, toString g.overlaps.length] ++
      (g.overlaps.map (fun o => [toString o.idx, toString o.lin, encStr o.text])).flatten ++
      (toString g.rows.length :: g.rows.map (fun row => encStr (row.map (·.2)))))).flatten ++
    (match r.first with
     | some f => ["1", encStr f.1, encIntList f.2] ++ (toString (firstRows f.1).length :: (firstRows f.1).map encStr)
     | none => ["0"])))

def opSingle : R (List String) := do
  let plain ← str
  let hits ← list (do let a ← nat; let b ← nat; pure (a, b))
  pure ["ok", encNatList (singleLetterOffsets T plain hits)]

def opContext : R (List String) := do
  let txt ← str
  let off ← nat
  let len ← nat
  let c := createContext txt off len
  pure ["ok", encStr c.text, toString c.offset, toString c.length]

def opInclude : R (List String) := do
  let graph ← list (do let f ← str; let inc ← list str; pure (f, inc))
  let skipped ← list str
  let roots ← list str
  let includes (f : Str) : List Str := ((graph.find? (·.1 == f)).map (·.2)).getD []
  match includeLoop includes (fun f => skipped.contains f) (4 * (graph.length + roots.length) * (graph.length + roots.length + 2) + 8) roots [] with
  | some done => pure ("ok" :: toString done.length :: done.map encStr)
  | none => pure ["fuel"]

def dispatch (op : String) : R (List String) :=
  match op with
  | "SCAN" => opScan
  | "TXTPOS" => opTxtPos
  | "LATEXERR" => opLatexErr
  | "LINES" => opLines
  | "SUBST" => opSubst
  | "REPL" => opRepl
  | "SPANS" => opSpans
  | "ML" => opML
  | "T2T" => opT2T
  | "MAP" => opMap
  | "ASMSORT" => opAsmSort
  | "LINECOL" => opLineCol
  | "PROTECT" => opProtect
  | "HTML" => opHtml
  | "ACCEPTHITS" => opAcceptHits T
  | "EQPUNCT" => opEqPunct T
  | "SINGLE" => opSingle
  | "CONTEXT" => opContext
  | "INCLUDE" => opInclude
  | "REPORTS" => opReports
  | "LOCATE" => opLocate
  | "NUMS" => opNums
  | "TRANSNUM" => opTransNum
  | "ESCAPES" => opEscapes
  | "BRMATCHES" => opBrMatches
  | "BEGINMATCH" => opBeginMatch
  | "HIGHLIGHT" => opHighlight
  | "ADDLINES" => opAddLines
  | "HTMLTEXT" => opHtmlText T
  | "SEDLINE" => opSedLine
  | "SEDFILE" => opSedFile
  | _ => throw s!"unknown op {op}"

def handle (line : String) : String :=
  match line.splitOn "\t" with
  | op :: id :: fields =>
    match (dispatch op).run fields with
    | .ok (out, _) => "\t".intercalate (id :: out)
    | .error e => "\t".intercalate [id, "protocol-error", e]
  | _ => "?\tprotocol-error\tshort line"

partial def loop (h : IO.FS.Stream) (out : IO.FS.Stream) : IO Unit := do
  let line ← h.getLine
  if line.isEmpty then return ()
  let l := if line.endsWith "\n" then (line.dropEnd 1).toString else line
  out.putStrLn (handle l)
  loop h out

def main : IO Unit := do
  let stdin ← IO.getStdin
  let stdout ← IO.getStdout
  loop stdin stdout
