import YalafiVerif.Properties.C04
#print axioms Yalafi.C04_latexError_anchor
#print axioms Yalafi.C04_restamp
#print axioms Yalafi.C04_genRepl_anchor
