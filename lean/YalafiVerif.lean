import YalafiVerif.Model.Basic
import YalafiVerif.Model.Tables
import YalafiVerif.Model.Utils
import YalafiVerif.Model.Scanner
