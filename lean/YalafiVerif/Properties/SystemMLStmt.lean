/-
  Properties/SystemMLStmt.lean — SYSTEM-LEVEL statements for MULTI-LANGUAGE mode: the multi-language
  filter theorem (C12, `tex2txt … multi := true`, `r.parts`) COMPOSED with the shell's assembly of the
  submitted pieces (`run_proofreader_options`: `plain_tot`, `charmap_tot`, `matches_tot`, the
  delimiter `'\n\n'`; C14 `C14_assemble_shift`) and with `map_match_position`, the report generators,
  the HTML highlight and the sort of the matches (`C14_run_reported`, `C14_sorted`).

  C14 "… This holds when the text was split into several parts (multi-language mode): offsets are
  shifted per part, each part is submitted under its own language code …":
    `C14_assemble_run`          (1) EVERY list of pieces: a run of the map of piece number `i` is a run of
                                the total map at the offset shifted by the length of the texts (plus
                                delimiters) in front (`C14_shift_is_text_length`)
    `C14_ml_run_reported`       (2) EVERY list of pieces, every source: the shifted match is in
                                `matches_tot`, and `map_match_position` on the TOTAL map, the text / JSON
                                / XML / XML-b reports and the HTML highlight are those of the source
                                word `src[q … q+l)`
    `C14_ml_runs_sorted`        (4) EVERY list of pieces: of two flagged runs — in the same or in
                                different pieces — the one that stands first in the file is reported
                                first
    `C14_flagged_word_ml_e2e`   (3) documents of `C12_selectlanguage_e2e` (inert text, `\selectlanguage`):
                                a word of a text segment is a run in EXACTLY ONE request of the shell,
                                at exactly one offset; that request is submitted under the language
                                code in force at the word (`langAt`); whatever the proofreader answers
                                for the requests, the flagged word is reported at its line, column and
                                length in the LaTeX file, in all formats
    `C14_sorted_ml_e2e`         (4) the same documents: two flagged words, possibly in pieces of
                                different languages, are reported in file order
  Instances on the tables of the current /repo with package babel (`_current`), and the whole
  pipeline evaluated by the kernel on the three-language document of `C12_selectlanguage_e2e_current`.

  Vocabulary (Proofs/SystemML.lean, Proofs/SystemMLLang.lean; `RunAt`, `WordReported`, `HtmlWord`,
  `natMap` as in Properties/SystemStmt.lean):
    `Sub` = `((txt, pos), matches)`   one request of the shell with the proofreader's answer;
    `submit subs`     what `run_proofreader_options` assembles (`plainTot`, `charmapTot`, `hits`);
    `shiftOf A`       `len(plain_tot)` after the requests `A`;  `shiftMatch s m` = `m` with `offset + s`;
    `totMap`          the total map as natural numbers;
    `Req` = `(code, (txt, pos))`, `shellPieces r.parts`   the requests in the order of the shell's loops
                      (`for lang in plain_map: for plain, charmap in plain_map[lang]`), blank pieces
                      skipped (`if not plain.strip(): continue`), each with its language code;
    `withAnswers`     requests and answers zipped.
  Proofs and side conditions: headers of Proofs/SystemML.lean and Proofs/SystemMLLang.lean.
  NOT covered: `\foreignlanguage` and the `otherlanguage` environments (`C12_mixed_languages_e2e`: there
  a piece may hold PLACEHOLDERS whose map entries repeat the position of an inclusion, so "no
  position twice" fails and the word-level statement needs the plan of `C12_mix_word_once`; the
  grammar-free theorems (1), (2), (4) apply to those parts as they are); the rule options of a request
  (`--ml-disable`, `--ml-disablecategories` for pieces of at most `--ml-rule-threshold` words: not
  part of the model); the matches the shell creates itself (single letters, equation punctuation);
  flagged stretches with white space at their ends; the texts of the reports other than the numbers.
-/
import YalafiVerif.Proofs.SystemMLLang
import YalafiVerif.Properties.PlainLangStmt
import YalafiVerif.Generated.Init
namespace Yalafi
open SystemML SystemWord Reports Html

/-! ## grammar-free: every list of pieces, every answer of the proofreader -/

/-- the shift of the offsets of a piece: the lengths of the texts submitted before it, two
    characters of delimiter each -/
theorem C14_shift_is_text_length (A : List Sub) :
    shiftOf A = (A.map (fun y => y.1.1.length + 2)).sum :=
  shiftOf_eq A

/-- what `run_proofreader_options` assembles from `A ++ x :: B`: the text of `x` (and its delimiter)
    behind the text of `A`, its map behind the map of `A`, its matches — offsets shifted by the
    length of the text of `A` — behind the matches of `A` (`C14_assemble_shift`, iterated) -/
theorem C14_submit_split (A B : List Sub) (x : Sub) :
    ∃ P C H, submit (A ++ x :: B) =
      { plainTot := (submit A).plainTot ++ (x.1.1 ++ ['\n', '\n'] ++ P),
        charmapTot := (submit A).charmapTot ++ natMap x.1.2 ++ C,
        hits := (submit A).hits ++ x.2.map (shiftMatch (shiftOf A)) ++ H } :=
  submit_split A B x

/-- **(1) a run of a piece is a run of the total map, at the shifted offset.**  The piece `x` is
    submitted behind the pieces `A` (whose maps are as long as their texts): if the `l` map entries
    of `x` from offset `o` are `q, q+1, …`, then so are the `l` entries of the total map from offset
    `o + shiftOf A`; an entry follows them (the delimiter); the total map of the model is
    `natMap (totMap …)`. -/
theorem C14_assemble_run (A B : List Sub) (x : Sub) (o l q : Nat)
    (hlen : ∀ y ∈ A, y.1.1.length = y.1.2.length) (hrun : RunAt x.1.2 o l q) :
    (submit (A ++ x :: B)).charmapTot = natMap (totMap ((A ++ x :: B).map (·.1.2))) ∧
    RunAt (totMap ((A ++ x :: B).map (·.1.2))) (o + shiftOf A) l q ∧
    (1 ≤ l → o + shiftOf A + l < (totMap ((A ++ x :: B).map (·.1.2))).length) :=
  ⟨charmapTot_natMap _, assemble_run A B x o l q hlen hrun⟩

/-- **(2) every source, every list of pieces**: the proofreader flags in the piece `x` (submitted
    behind `A`) the `l ≥ 1` characters from offset `o`, whose map entries are `q+1, …, q+l`, a stretch
    of the file that is not one single backslash.  Then every match `m` of the answer for `x` is in
    `matches_tot` with the offset `m.offset + shiftOf A`; an entry of the total map follows the
    shifted stretch; `map_match_position` on the TOTAL map yields offset `q`, length `l`; all reports
    are those of the source word `src[q … q+l)` (`WordReported`: line, column, length in the LaTeX
    file, text report, JSON, XML, XML-b), the HTML report accepts the match and highlights that word
    (`HtmlWord`). -/
theorem C14_ml_run_reported (src : Str) (A B : List Sub) (x : Sub) (o l q : Nat) (hl : 1 ≤ l)
    (hlen : ∀ y ∈ A, y.1.1.length = y.1.2.length)
    (hrun : RunAt x.1.2 o l (q + 1)) (hin : q + l ≤ src.length)
    (hbs : ¬ (l = 1 ∧ src[q]? = some '\\')) :
    (∀ m ∈ x.2, shiftMatch (shiftOf A) m ∈ (submit (A ++ x :: B)).hits) ∧
    o + shiftOf A + l < (submit (A ++ x :: B)).charmapTot.length ∧
    mapMatch (submit (A ++ x :: B)).charmapTot src ((o + shiftOf A : Nat) : Int) (some (.int l))
      = .ok ((q : Int), (l : Int)) ∧
    reportAll (submit (A ++ x :: B)).charmapTot src ((o + shiftOf A : Nat) : Int) (some (.int l))
      = .ok (locate src q l) ∧
    WordReported src q l (locate src q l) ∧
    HtmlWord src (submit (A ++ x :: B)).charmapTot (o + shiftOf A) l q := by
  obtain ⟨h1, _, _, h4, h5, h6, h7, h8⟩ := ml_run_reported src A B x o l q hl hlen hrun hin hbs
  exact ⟨h1, h4, h5, h6, h7, h8⟩

/-- **(4) every list of pieces**: two flagged runs, in the pieces `x1` (behind `A1`) and `x2` (behind
    `A2`) of the same list of requests — the same piece or different ones, in any order —: after the
    shell's sort of `matches_tot` (`C14_sorted`, key: the total map at the shifted offset) the match
    whose word stands first in the LaTeX file comes first. -/
theorem C14_ml_runs_sorted (subs A1 B1 A2 B2 : List Sub) (x1 x2 : Sub)
    (h1 : subs = A1 ++ x1 :: B1) (h2 : subs = A2 ++ x2 :: B2)
    (hlen1 : ∀ y ∈ A1, y.1.1.length = y.1.2.length) (hlen2 : ∀ y ∈ A2, y.1.1.length = y.1.2.length)
    (m1 m2 : RawMatch) (hm1 : m1 ∈ x1.2) (hm2 : m2 ∈ x2.2) (o1 l1 q1 o2 l2 q2 : Nat)
    (ho1 : m1.offset = (o1 : Int)) (ho2 : m2.offset = (o2 : Int)) (hl1 : 1 ≤ l1) (hl2 : 1 ≤ l2)
    (hr1 : RunAt x1.1.2 o1 l1 (q1 + 1)) (hr2 : RunAt x2.1.2 o2 l2 (q2 + 1)) (hlt : q1 < q2)
    (out : List RawMatch) (hs : sortMatches (submit subs).charmapTot (submit subs).hits = .ok out) :
    ∃ X Y Z, out = X ++ shiftMatch (shiftOf A1) m1 :: (Y ++ shiftMatch (shiftOf A2) m2 :: Z) :=
  ml_runs_sorted subs A1 B1 A2 B2 x1 x2 h1 h2 hlen1 hlen2 m1 m2 hm1 hm2 o1 l1 q1 o2 l2 q2 ho1 ho2 hl1 hl2
    hr1 hr2 hlt out hs

/-! ## (3) documents with `\selectlanguage`, end to end -/

/-- **a flagged word in multi-language mode, end to end through filter and shell** (the documents and
    hypotheses of `C12_selectlanguage_e2e`: inert text and hard switches `\selectlanguage{name}`,
    package babel, `multi = true`).  Let `w` be a stretch of a text segment
    (`segs = pre ++ .txt (a ++ w ++ b) :: post`) whose first and last characters are no white space,
    `q = |render pre| + |a|`, `l = |w|`.  Then
    * `w` stands at offset `q` of the LaTeX file;
    * `tex2txt` succeeds; every request of the shell (`shellPieces r.parts`) has a map as long as its
      text and is not blank;
    * EXACTLY ONE PIECE: there are a request number `i` and an offset `off` such that the `l` map
      entries of that request from `off` are `q+1, …, q+l` and its text there is `w`; and no other
      request, and no other offset, has these map entries;
    * for EVERY request number `i` and offset `off` with these map entries (the proofreader flags this
      occurrence):
      - the request is submitted under the language code in force at the word: the code of the last
        `\selectlanguage` in front of it, `o.lang` if there is none (`langAt`);
      - whatever the proofreader answers for the requests (`subs`: the requests with ANY lists of
        matches): every match `m` of the answer for request `i` is in `matches_tot` with the offset
        `m.offset + shiftOf (requests before i)`; at the shifted offset `off + shiftOf …` of the
        TOTAL map `map_match_position` yields offset `q` and length `l`; the text report prints the
        line and column of the first character of `w` in the file; JSON `offset` / `length` are `q` /
        `l`; JSON `priv`, XML, XML-b name that line and column and those of the last character (all
        in `WordReported`); the HTML report accepts the match and highlights `src[q : q+l] = w`
        (`HtmlWord`) — exactly as in single-language mode (`C14_flagged_word_e2e`). -/
theorem C14_flagged_word_ml_e2e (T : PTables) (o : Options) (fs : FS) (thresh : Nat)
    (segs : List PlainLang.Seg) (fuel : Nat) (st1 : PState)
    (hdefs : o.defs = []) (hextr : o.extr = []) (hrepl : o.hasRepl = false)
    (hbrk : T.selectBrk = true)
    (hinit : initParser T fuel o (initialState T o true fs) = .ok ((), st1))
    (hml : st1.multiLanguage = true) (hok : PlainLang.segsOk T st1 segs = true)
    (hf : (PlainLang.render segs).length + 2 ≤ fuel)
    (pre post : List PlainLang.Seg) (a w b : Str) (hsegs : segs = pre ++ .txt (a ++ (w ++ b)) :: post)
    (hw : wordEnds w = true) :
    ((PlainLang.render segs).drop ((PlainLang.render pre).length + a.length)).take w.length = w ∧
    (PlainLang.render pre).length + a.length + w.length ≤ (PlainLang.render segs).length ∧
    ∃ r, tex2txt T fuel (PlainLang.render segs) o true thresh fs = .ok r ∧
      (∀ pc ∈ shellPieces r.parts, pc.2.1.length = pc.2.2.length ∧ isBlank pc.2.1 = false) ∧
      (∃ (i : Nat) (pc : Req) (off : Nat), (shellPieces r.parts)[i]? = some pc ∧
        off + w.length ≤ pc.2.1.length ∧
        RunAt pc.2.2 off w.length ((PlainLang.render pre).length + a.length + 1) ∧
        (pc.2.1.drop off).take w.length = w ∧
        ∀ (j : Nat) (pc' : Req) (off' : Nat), (shellPieces r.parts)[j]? = some pc' →
          RunAt pc'.2.2 off' w.length ((PlainLang.render pre).length + a.length + 1) → j = i ∧ off' = off) ∧
      ∀ (i : Nat) (pc : Req) (off : Nat), (shellPieces r.parts)[i]? = some pc →
        RunAt pc.2.2 off w.length ((PlainLang.render pre).length + a.length + 1) →
        pc.1 = PlainLang.langAt T o.lang 0 segs ((PlainLang.render pre).length + a.length) ∧
        ∀ (subs : List Sub), subs.map (·.1) = (shellPieces r.parts).map (·.2) →
          ∃ x, subs[i]? = some x ∧ x.1 = pc.2 ∧
            (∀ m ∈ x.2, shiftMatch (shiftOf (subs.take i)) m ∈ (submit subs).hits) ∧
            off + shiftOf (subs.take i) + w.length < (submit subs).charmapTot.length ∧
            mapMatch (submit subs).charmapTot (PlainLang.render segs)
                ((off + shiftOf (subs.take i) : Nat) : Int) (some (.int w.length))
              = .ok ((((PlainLang.render pre).length + a.length : Nat) : Int), (w.length : Int)) ∧
            reportAll (submit subs).charmapTot (PlainLang.render segs)
                ((off + shiftOf (subs.take i) : Nat) : Int) (some (.int w.length))
              = .ok (locate (PlainLang.render segs) (((PlainLang.render pre).length + a.length : Nat) : Int)
                  (w.length : Int)) ∧
            WordReported (PlainLang.render segs) ((PlainLang.render pre).length + a.length) w.length
              (locate (PlainLang.render segs) (((PlainLang.render pre).length + a.length : Nat) : Int)
                (w.length : Int)) ∧
            HtmlWord (PlainLang.render segs) (submit subs).charmapTot (off + shiftOf (subs.take i)) w.length
              ((PlainLang.render pre).length + a.length) :=
  flagged_word_ml T o fs thresh segs fuel st1 hdefs hextr hrepl hbrk hinit hml hok hf pre post a w b hsegs hw

/-- **(4) two flagged words are reported in the order of the file, across language parts** (the same
    documents).  Two words of text segments, the first one standing first in the file: each is a run
    in a request of the shell; and whenever the proofreader flags them — matches `m1`, `m2` anywhere
    in its answers for the requests number `i1`, `i2` (the same request, or requests of different
    languages in any order), offsets with the map entries of the words — the shell's sort of
    `matches_tot` puts the (shifted) `m1` in front of the (shifted) `m2`. -/
theorem C14_sorted_ml_e2e (T : PTables) (o : Options) (fs : FS) (thresh : Nat)
    (segs : List PlainLang.Seg) (fuel : Nat) (st1 : PState)
    (hdefs : o.defs = []) (hextr : o.extr = []) (hrepl : o.hasRepl = false)
    (hbrk : T.selectBrk = true)
    (hinit : initParser T fuel o (initialState T o true fs) = .ok ((), st1))
    (hml : st1.multiLanguage = true) (hok : PlainLang.segsOk T st1 segs = true)
    (hf : (PlainLang.render segs).length + 2 ≤ fuel)
    (pre1 post1 : List PlainLang.Seg) (a1 w1 b1 : Str)
    (hsegs1 : segs = pre1 ++ .txt (a1 ++ (w1 ++ b1)) :: post1)
    (pre2 post2 : List PlainLang.Seg) (a2 w2 b2 : Str)
    (hsegs2 : segs = pre2 ++ .txt (a2 ++ (w2 ++ b2)) :: post2)
    (hw1 : wordEnds w1 = true) (hw2 : wordEnds w2 = true)
    (hlt : (PlainLang.render pre1).length + a1.length < (PlainLang.render pre2).length + a2.length) :
    ∃ r, tex2txt T fuel (PlainLang.render segs) o true thresh fs = .ok r ∧
      (∃ (i1 : Nat) (pc1 : Req) (off1 i2 : Nat) (pc2 : Req) (off2 : Nat),
        (shellPieces r.parts)[i1]? = some pc1 ∧ (shellPieces r.parts)[i2]? = some pc2 ∧
        RunAt pc1.2.2 off1 w1.length ((PlainLang.render pre1).length + a1.length + 1) ∧
        RunAt pc2.2.2 off2 w2.length ((PlainLang.render pre2).length + a2.length + 1)) ∧
      ∀ (subs : List Sub) (i1 i2 : Nat) (x1 x2 : Sub) (m1 m2 : RawMatch) (off1 off2 : Nat) (out : List RawMatch),
        subs.map (·.1) = (shellPieces r.parts).map (·.2) →
        subs[i1]? = some x1 → subs[i2]? = some x2 → m1 ∈ x1.2 → m2 ∈ x2.2 →
        m1.offset = (off1 : Int) → m2.offset = (off2 : Int) →
        RunAt x1.1.2 off1 w1.length ((PlainLang.render pre1).length + a1.length + 1) →
        RunAt x2.1.2 off2 w2.length ((PlainLang.render pre2).length + a2.length + 1) →
        sortMatches (submit subs).charmapTot (submit subs).hits = .ok out →
        ∃ X Y Z, out = X ++ shiftMatch (shiftOf (subs.take i1)) m1
          :: (Y ++ shiftMatch (shiftOf (subs.take i2)) m2 :: Z) :=
  sorted_words_ml T o fs thresh segs fuel st1 hdefs hextr hrepl hbrk hinit hml hok hf
    pre1 post1 a1 w1 b1 hsegs1 pre2 post2 a2 w2 b2 hsegs2 hw1 hw2 hlt

/-- requests zipped with one list of matches each are "the requests with answers" of the theorems -/
theorem C14_withAnswers (pieces : List Req) (answers : List (List RawMatch))
    (h : answers.length = pieces.length) : (withAnswers pieces answers).map (·.1) = pieces.map (·.2) :=
  withAnswers_pieces pieces answers h

/-! ## instances on the tables of the current /repo (package babel, `--lang en-GB`) -/

open Generated

/-- `C14_flagged_word_ml_e2e` for the CURRENT code: tables translated from /repo, `--pack babel
    --lang en-GB`, multi-language mode, parser initialisation evaluated by the kernel
    (`initParser_babel`); `selectlang_break` is set in `babel.py` -/
theorem C14_flagged_word_ml_e2e_current (segs : List PlainLang.Seg) (thresh : Nat)
    (hok : PlainLang.segsOk theTables stBabel segs = true)
    (hf : (PlainLang.render segs).length + 2 ≤ bigFuel)
    (pre post : List PlainLang.Seg) (a w b : Str) (hsegs : segs = pre ++ .txt (a ++ (w ++ b)) :: post)
    (hw : wordEnds w = true) :
    ((PlainLang.render segs).drop ((PlainLang.render pre).length + a.length)).take w.length = w ∧
    ∃ r, tex2txt theTables bigFuel (PlainLang.render segs) babelOptions true thresh [] = .ok r ∧
      (∃ (i : Nat) (pc : Req) (off : Nat), (shellPieces r.parts)[i]? = some pc ∧
        RunAt pc.2.2 off w.length ((PlainLang.render pre).length + a.length + 1) ∧
        (pc.2.1.drop off).take w.length = w ∧
        ∀ (j : Nat) (pc' : Req) (off' : Nat), (shellPieces r.parts)[j]? = some pc' →
          RunAt pc'.2.2 off' w.length ((PlainLang.render pre).length + a.length + 1) → j = i ∧ off' = off) ∧
      ∀ (i : Nat) (pc : Req) (off : Nat), (shellPieces r.parts)[i]? = some pc →
        RunAt pc.2.2 off w.length ((PlainLang.render pre).length + a.length + 1) →
        pc.1 = PlainLang.langAt theTables babelOptions.lang 0 segs ((PlainLang.render pre).length + a.length) ∧
        ∀ (subs : List Sub), subs.map (·.1) = (shellPieces r.parts).map (·.2) →
          ∃ x, subs[i]? = some x ∧ x.1 = pc.2 ∧
            (∀ m ∈ x.2, shiftMatch (shiftOf (subs.take i)) m ∈ (submit subs).hits) ∧
            reportAll (submit subs).charmapTot (PlainLang.render segs)
                ((off + shiftOf (subs.take i) : Nat) : Int) (some (.int w.length))
              = .ok (locate (PlainLang.render segs) (((PlainLang.render pre).length + a.length : Nat) : Int)
                  (w.length : Int)) ∧
            WordReported (PlainLang.render segs) ((PlainLang.render pre).length + a.length) w.length
              (locate (PlainLang.render segs) (((PlainLang.render pre).length + a.length : Nat) : Int)
                (w.length : Int)) ∧
            HtmlWord (PlainLang.render segs) (submit subs).charmapTot (off + shiftOf (subs.take i)) w.length
              ((PlainLang.render pre).length + a.length) := by
  obtain ⟨h1, _, r, h3, _, ⟨i, pc, off, e1, _, e3, e4, e5⟩, h6⟩ := C14_flagged_word_ml_e2e theTables babelOptions []
    thresh segs bigFuel stBabel rfl rfl rfl (by decide +kernel) initParser_babel PlainLang.stBabel_multi hok hf
    pre post a w b hsegs hw
  refine ⟨h1, r, h3, ⟨i, pc, off, e1, e3, e4, e5⟩, ?_⟩
  intro i pc off hi hrun
  obtain ⟨g1, g2⟩ := h6 i pc off hi hrun
  refine ⟨g1, ?_⟩
  intro subs hsub
  obtain ⟨x, k1, k2, k3, _, _, k6, k7, k8⟩ := g2 subs hsub
  exact ⟨x, k1, k2, k3, k6, k7, k8⟩

/-- the three-language document of `C12_selectlanguage_e2e_current`

        Hello world.
        \selectlanguage{german}
        Hallo Welt.
        \selectlanguage{russian}
        Привет, мир.
        \selectlanguage{english}
        Bye.

    and the words `Welt` (file offset 43: line 3, column 7), `мир` (offset 82: line 5, column 9) and
    `Bye` (offset 112: line 7, column 1): the side conditions of the theorem hold, and the language
    codes in force at the words are `de-DE`, `ru-RU`, `en-GB` -/
theorem C14_flagged_word_ml_example_current :
    PlainLang.segsOk theTables stBabel PlainLang.exSegs = true ∧
    (PlainLang.exSegs = PlainLang.exSegs.take 2
        ++ .txt ("\nHallo ".toList ++ ("Welt".toList ++ ".\n".toList)) :: PlainLang.exSegs.drop 3 ∧
      wordEnds "Welt".toList = true ∧
      (PlainLang.render (PlainLang.exSegs.take 2)).length + "\nHallo ".toList.length = 43 ∧
      PlainLang.langAt theTables babelOptions.lang 0 PlainLang.exSegs 43 = "de-DE".toList) ∧
    (PlainLang.exSegs = PlainLang.exSegs.take 4
        ++ .txt ("\nПривет, ".toList ++ ("мир".toList ++ ".\n".toList)) :: PlainLang.exSegs.drop 5 ∧
      wordEnds "мир".toList = true ∧
      (PlainLang.render (PlainLang.exSegs.take 4)).length + "\nПривет, ".toList.length = 82 ∧
      PlainLang.langAt theTables babelOptions.lang 0 PlainLang.exSegs 82 = "ru-RU".toList) ∧
    (PlainLang.exSegs = PlainLang.exSegs.take 6
        ++ .txt ("\n".toList ++ ("Bye".toList ++ ".".toList)) :: PlainLang.exSegs.drop 7 ∧
      wordEnds "Bye".toList = true ∧
      (PlainLang.render (PlainLang.exSegs.take 6)).length + "\n".toList.length = 112 ∧
      PlainLang.langAt theTables babelOptions.lang 0 PlainLang.exSegs 112 = "en-GB".toList) := by
  decide +kernel

/-- … so the theorem says about the word `Welt` (no evaluation of the filter or of the shell's
    assembly, only of `locate` on the source): it is a run (map entries `44 … 47`) in exactly one
    request; that request is submitted under `de-DE`; and whatever the proofreader answers for the
    requests, the match at the shifted offset is reported at line 3, column 7, length 4 in all
    formats -/
theorem C14_flagged_word_ml_example :
    ∃ r, tex2txt theTables bigFuel (PlainLang.render PlainLang.exSegs) babelOptions true 2 [] = .ok r ∧
      (∃ (i : Nat) (pc : Req) (off : Nat), (shellPieces r.parts)[i]? = some pc ∧ RunAt pc.2.2 off 4 44 ∧
        (pc.2.1.drop off).take 4 = "Welt".toList ∧
        ∀ (j : Nat) (pc' : Req) (off' : Nat), (shellPieces r.parts)[j]? = some pc' →
          RunAt pc'.2.2 off' 4 44 → j = i ∧ off' = off) ∧
      ∀ (i : Nat) (pc : Req) (off : Nat), (shellPieces r.parts)[i]? = some pc → RunAt pc.2.2 off 4 44 →
        pc.1 = "de-DE".toList ∧
        ∀ (subs : List Sub), subs.map (·.1) = (shellPieces r.parts).map (·.2) →
          ∃ x, subs[i]? = some x ∧ x.1 = pc.2 ∧
            (∀ m ∈ x.2, shiftMatch (shiftOf (subs.take i)) m ∈ (submit subs).hits) ∧
            reportAll (submit subs).charmapTot (PlainLang.render PlainLang.exSegs)
                ((off + shiftOf (subs.take i) : Nat) : Int) (some (.int 4))
              = .ok { offset := 43, length := 4, lin := 3, col := 7, json := ⟨2, 6, 2, 10⟩,
                      xml := ⟨2, 6, 2, 10⟩, xmlb := ⟨2, 6, 2, 10⟩ } := by
  obtain ⟨hok, ⟨hsegs, hw, hp, hlang⟩, _, _⟩ := C14_flagged_word_ml_example_current
  obtain ⟨_, r, h1, h2, h3⟩ := C14_flagged_word_ml_e2e_current PlainLang.exSegs 2 hok (by decide +kernel)
    _ _ _ _ _ hsegs hw
  rw [hp, hlang] at h3
  rw [hp] at h2
  have hl : "Welt".toList.length = 4 := rfl
  rw [hl] at h2 h3
  have hloc : locate (PlainLang.render PlainLang.exSegs) ((43 : Nat) : Int) ((4 : Nat) : Int)
      = { offset := 43, length := 4, lin := 3, col := 7, json := ⟨2, 6, 2, 10⟩,
          xml := ⟨2, 6, 2, 10⟩, xmlb := ⟨2, 6, 2, 10⟩ } := by decide +kernel
  refine ⟨r, h1, h2, ?_⟩
  intro i pc off hi hrun
  obtain ⟨g1, g2⟩ := h3 i pc off hi hrun
  refine ⟨g1, ?_⟩
  intro subs hsub
  obtain ⟨x, k1, k2, k3, k4, _, _⟩ := g2 subs hsub
  rw [hloc] at k4
  exact ⟨x, k1, k2, k3, k4⟩

/-- … and the whole pipeline evaluated by the kernel: `tex2txt` in multi-language mode, the shell's
    requests (language codes `en-GB`, `en-GB`, `de-DE`, `ru-RU`: the two English pieces first), the
    proofreader's answers "offset 0, length 3" for the second request (`Bye`), "offset 6, length 4"
    for the third (`Welt`), "offset 8, length 3" for the fourth (`мир`), the assembly (`plain_tot`
    = `Hello world.⏎⏎⏎Bye.⏎⏎Hallo Welt.⏎⏎⏎Привет, мир.⏎⏎⏎`; the offsets become 15, 27, 43 — the shifts
    are 15, 21, 35), `map_match_position` on the total map, the generators, the HTML highlight, the
    sort:
    `Welt` is reported at line 3, column 7, length 4 (file offset 43); `мир` at line 5, column 9,
    length 3 (offset 82; byte column 14: six two-byte letters in front); `Bye` at line 7, column 1,
    length 3 (offset 112); the sort puts them in file order `Welt`, `мир`, `Bye` although `Bye` was
    submitted and answered first. -/
theorem C14_flagged_word_ml_example_eval :
    (match tex2txt theTables bigFuel (PlainLang.render PlainLang.exSegs) babelOptions true 2 [] with
     | .ok r =>
       (shellPieces r.parts).map (·.1)
         == ["en-GB".toList, "en-GB".toList, "de-DE".toList, "ru-RU".toList] &&
       (let subs := withAnswers (shellPieces r.parts)
          [[], [{ offset := 0, rest := .null }], [{ offset := 6, rest := .null }],
           [{ offset := 8, rest := .null }]]
        let asm := submit subs
        asm.plainTot == "Hello world.\n\n\nBye.\n\nHallo Welt.\n\n\nПривет, мир.\n\n\n".toList &&
        asm.hits.map (·.offset) == [15, 27, 43] &&
        [shiftOf (subs.take 1), shiftOf (subs.take 2), shiftOf (subs.take 3)] == [15, 21, 35] &&
        (asm.plainTot.drop 27).take 4 == "Welt".toList &&
        (asm.plainTot.drop 43).take 3 == "мир".toList &&
        (asm.plainTot.drop 15).take 3 == "Bye".toList &&
        (match reportAll asm.charmapTot (PlainLang.render PlainLang.exSegs) 27 (some (.int 4)),
               reportAll asm.charmapTot (PlainLang.render PlainLang.exSegs) 43 (some (.int 3)),
               reportAll asm.charmapTot (PlainLang.render PlainLang.exSegs) 15 (some (.int 3)),
               computeH theTables.toTables (PlainLang.render PlainLang.exSegs) asm.charmapTot 0 27 4,
               sortMatches asm.charmapTot asm.hits with
         | .ok L1, .ok L2, .ok L3, .ok h, .ok out =>
           L1 == { offset := 43, length := 4, lin := 3, col := 7, json := ⟨2, 6, 2, 10⟩,
                   xml := ⟨2, 6, 2, 10⟩, xmlb := ⟨2, 6, 2, 10⟩ } &&
           L2 == { offset := 82, length := 3, lin := 5, col := 9, json := ⟨4, 8, 4, 11⟩,
                   xml := ⟨4, 8, 4, 11⟩, xmlb := ⟨4, 14, 4, 20⟩ } &&
           L3 == { offset := 112, length := 3, lin := 7, col := 1, json := ⟨6, 0, 6, 3⟩,
                   xml := ⟨6, 0, 6, 3⟩, xmlb := ⟨6, 0, 6, 3⟩ } &&
           h == { idx := 0, unsure := false, beg := 43, fin := 47, beglin := 2, endlin := 3, lin := 2 } &&
           slice (PlainLang.render PlainLang.exSegs) 43 47 == "Welt".toList &&
           out.map (·.offset) == [27, 43, 15]
         | _, _, _, _, _ => false))
     | _ => false) = true := by
  decide +kernel

/-- the loop of the shell over ALL pieces of a filter result (`assemble`, which skips blank pieces as
    `if not plain.strip(): continue` does) is the assembly `submit` of the non-blank ones: what the theorems above say
    about `submit` of the requests really sent is what the loop computes -/
theorem C14_shell_loop_is_submit (subs : List SystemML.Sub) :
    assemble (subs.map SystemML.toPart) = SystemML.submit (subs.filter (fun x => !isBlank x.1.1)) := by
  rw [assemble_eq_filter, SystemML.submit, List.filter_map]
  rfl

end Yalafi
