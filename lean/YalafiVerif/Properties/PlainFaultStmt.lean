/-
  Properties/PlainFaultStmt.lean — C08 "LaTeX problems yield the full error mark at the right place",
  end to end on the filter model, for the fault kinds other than unterminated `\verb` and
  unterminated inline maths (those: Properties/C08.lean, Properties/PlainMathOpenStmt.lean).
  Proofs: Proofs/PlainFault*.lean (common frame: Proofs/PlainFaultBase.lean).

  Every theorem is about a document `pre ++ F ++ post`: inert text, ONE faulty construct, inert text
  (`PlainFootnote.textOk`), default-like options (no --defs, --extr, --repl, --unkn; single-language
  mode), `st1` = parser state after `Parser.__init__`.  It gives the complete result record:
  `r.txt`, `r.pos` (1-based), `r.unknowns = []`, `r.diags = st1.diags ++ [d]` with message, line and
  column of `d`.  The mark is `errMark` = `" " ++ T.mark ++ " "` (+ `"(" ++ message ++ ") "` in
  verbose mode); its positions are `markPos1 … n p`: `min |mark| (n - p)` characters at the problem
  (1-based `p + 1`), the others — only if the mark is longer than the rest of the source — at the
  last position, as `utils.latex_error` does (`C08_mark_shape`).

    (1) `C08_accent_nonletter`       `\'1`, `\"{2}`, `\c{?}`            problem = backslash of the accent
    (2) `C08_arg_open`               `\label{…` (vanishing macros)      problem = the `{`
        `C08_arg_open_footnote`      `\footnote{…`                      problem = the `{`
    (3) `C08_verbatim_unterminated`  `\begin{verbatim}` without end     problem = backslash of `\begin`
    (4) `C08_skip_unclosed`          `%%% LT-SKIP-BEGIN` without end     problem = the `%`
    (5) `C08_input_unreadable`       `\LTinput{file}`, file missing     problem = backslash of `\LTinput`
  each with `…_current`: the side conditions hold on the tables translated from /repo for a concrete
  document (`decide +kernel`), the theorem is applied, and text / positions / diagnostics are
  computed; `…_eval_current`: kernel evaluations of `tex2txt` on further documents.

  Behaviour of the model (= the Python code) that the theorems follow and that one may not expect
    * (2) `\footnote{` never closed: the mark appears TWICE — in the main text at the `{`, and as the
      "footnote" (the recovery of `arg_buffer` returns the short mark as the argument) in a text flow
      of its own behind the main text; the would-be footnote text stays in the main text.
      `\section{` never closed: `" MARK . MARK body"` (the heading handler adds a full stop) — only
      evaluated (`C08_arg_open_eval_current`), no theorem.
    * (3) the mark replaces the token `\begin` only; `{verbatim}` and the would-be verbatim text are
      read as ordinary LaTeX: the word `verbatim` shows up in the plain text.
    * (4) the opening comment token includes the line break and the indentation of the next line
      (unless a blank line follows): they are replaced by the mark together with the comment.
    * with a mark longer than the rest of the source the position list is not monotone.

  NOT covered by a theorem: unterminated DISPLAYED maths (`$$`, `\[`, equation environments); an open
  OPTIONAL argument (`\footnote[1`, message `cannot find closing "]"`); open arguments of macros with
  a handler (`\section{`), of macros with several arguments, of environments (`\begin{itemize`);
  white space between a macro name and its `{`; the other `latex_error` sites (`\def` and
  `\newcommand` problems, accent without Unicode character, `\gls` without label); several faults in
  one document; a fault inside a macro argument, a group or a formula; text around the fault that
  contains macros, comments, maths or special sequences; multi-language mode; --defs, --extr, --repl,
  --unkn.  In (5) "unreadable" is a condition on `st1.fs` (the file system of the initialised parser,
  which `initialState` sets to the argument `fs` and no function of the model changes — the latter is not
  proved here for arbitrary options; for the
  `_current` instance it is evaluated).
-/
import YalafiVerif.Proofs.PlainFaultAccent
import YalafiVerif.Proofs.PlainFaultArg
import YalafiVerif.Proofs.PlainFaultVerbatim
import YalafiVerif.Proofs.PlainFaultSkip
import YalafiVerif.Proofs.PlainFaultInput
import YalafiVerif.Generated.Init
namespace Yalafi

open PlainFault

/-- **(1) a text-mode accent on a non-letter** (`\'1`, `\"{2}`, `\c{?}`) yields exactly one
    diagnostic "text-mode accent for non-letter" at the line and column of the backslash of the
    accent macro and the complete error mark at that position; the text behind the argument is kept.
    `src = pre ++ \name ws arg ++ post`, `arg` = `c` or `{c}` with `c` no ASCII letter; `pre`, `post`
    inert text (all side conditions: `accFaultOk`, computable).  With `P = |pre|`:

    * text: `pre`, the complete mark `errMark` = `" " ++ T.mark ++ " "` (plus the message in verbose
      mode), `post`;
    * positions (1-based): `pre` and `post` at their own positions; the first
      `mx = min |mark| (|src| - P)` characters of the mark at `P + 1` (the backslash), the others —
      only if the mark is longer than the rest of the source — at the last position (`markPos1`);
    * diagnostics: exactly one more; line = line breaks in `pre` + 1, column = characters behind the
      last line break of `pre` + 1; nothing is reported as unknown. -/
theorem C08_accent_nonletter (T : PTables) (o : Options) (fs : FS) (thresh : Nat)
    (pre name ws : Str) (br : Bool) (c : Char) (post : Str) (fuel : Nat) (st1 : PState)
    (hdefs : o.defs = []) (hextr : o.extr = []) (hrepl : o.hasRepl = false) (hunkn : o.unkn = false)
    (hinit : initParser T fuel o (initialState T o false fs) = .ok ((), st1))
    (hok : accFaultOk T st1 pre name ws br c post = true)
    (hf : (pre ++ (accSrc name ws br c ++ post)).length + 6 ≤ fuel) :
    let src := pre ++ (accSrc name ws br c ++ post)
    let P := pre.length
    let d := latexErrorDiag errAccent P src
    ∃ r, tex2txt T fuel src o false thresh fs = .ok r ∧
      r.txt = pre ++ (errMark T.toTables errAccent ++ post) ∧
      r.pos = List.range' 1 pre.length ++ (markPos1 T.toTables errAccent src.length P
        ++ List.range' (P + (accSrc name ws br c).length + 1) post.length) ∧
      r.unknowns = [] ∧ r.diags = st1.diags ++ [d] ∧
      d.msg = errAccent ∧ d.line = countNl pre + 1 ∧ d.col = (afterLastNl pre).length + 1 :=
  tex2txt_accent_nonletter T o fs thresh pre name ws br c post fuel st1 hdefs hextr hrepl hunkn hinit hok hf

/-- the mark in the output is complete and its first character is mapped to the problem -/
theorem C08_mark_shape (T : Tables) (err : Str) (n p : Nat) (hp : p < n) :
    (∃ v, errMark T err = ' ' :: (T.mark ++ ' ' :: v)) ∧
    (markPos1 T err n p).length = (errMark T err).length ∧
    (markPos1 T err n p).head? = some (p + 1) :=
  ⟨⟨if T.markVerbose then ['('] ++ err ++ [')', ' '] else [], by simp [errMark]⟩, markPos1_length T err n p, markPos1_head T err n p hp⟩

/-! ### (2) a mandatory argument that is still open at the end of the text -/

/-- **(2a) `\name{` of a vanishing macro (`\label`, `\index`, …) whose `{` is never closed** yields
    exactly one diagnostic `cannot find closing "}"` at the line and column of the `{` and the
    complete error mark at that position — ONCE —; the text behind the `{` is kept in the main text
    with its own positions (the recovery of "issue 23": `arg_buffer` pushes back the `{`, the mark
    and everything it had collected).  `src = pre ++ \name{ ++ post`, side conditions `argOpenVanOk`.
    `Q = |pre| + |\name|` is the 0-based offset of the `{`. -/
theorem C08_arg_open (T : PTables) (o : Options) (fs : FS) (thresh : Nat)
    (pre name post : Str) (fuel : Nat) (st1 : PState)
    (hdefs : o.defs = []) (hextr : o.extr = []) (hrepl : o.hasRepl = false) (hunkn : o.unkn = false)
    (hinit : initParser T fuel o (initialState T o false fs) = .ok ((), st1))
    (hok : argOpenVanOk T st1 pre name post = true)
    (hf : (pre ++ (openSrc name ++ post)).length + 9 ≤ fuel) :
    let src := pre ++ (openSrc name ++ post)
    let Q := pre.length + (name.length + 1)
    let d := latexErrorDiag errBrace Q src
    ∃ r, tex2txt T fuel src o false thresh fs = .ok r ∧
      r.txt = pre ++ (errMark T.toTables errBrace ++ post) ∧
      r.pos = List.range' 1 pre.length ++ (markPos1 T.toTables errBrace src.length Q
        ++ List.range' (Q + 2) post.length) ∧
      r.unknowns = [] ∧ r.diags = st1.diags ++ [d] ∧
      d.msg = errBrace ∧ d.line = countNl (pre ++ '\\' :: name) + 1 ∧
      d.col = (afterLastNl (pre ++ '\\' :: name)).length + 1 :=
  tex2txt_arg_open_van T o fs thresh pre name post fuel st1 hdefs hextr hrepl hunkn hinit hok hf

/-- **(2b) `\footnote{` whose `{` is never closed**: one diagnostic at the `{`, the complete mark at
    that position, the "footnote text" `post` STAYS in the main text at its own positions — and the
    argument that `arg_buffer` returns in its recovery, the short mark `" " ++ T.mark ++ " "`, is
    extracted as the footnote: it appears A SECOND TIME, as a separate text flow behind the main
    text (`footFlowTxt`: three line breaks, short mark, line break), all characters mapped to the
    `{`.  `src = pre ++ \footnote{ ++ post`, side conditions `argOpenFootOk`. -/
theorem C08_arg_open_footnote (T : PTables) (o : Options) (fs : FS) (thresh : Nat)
    (pre post : Str) (fuel : Nat) (st1 : PState)
    (hdefs : o.defs = []) (hextr : o.extr = []) (hrepl : o.hasRepl = false) (hunkn : o.unkn = false)
    (hinit : initParser T fuel o (initialState T o false fs) = .ok ((), st1))
    (hok : argOpenFootOk T st1 pre post = true)
    (hf : (pre ++ (openSrc footName ++ post)).length + 12 ≤ fuel) :
    let src := pre ++ (openSrc footName ++ post)
    let Q := pre.length + 9
    let d := latexErrorDiag errBrace Q src
    ∃ r, tex2txt T fuel src o false thresh fs = .ok r ∧
      r.txt = pre ++ (errMark T.toTables errBrace ++ (post ++ footFlowTxt T.toTables)) ∧
      r.pos = List.range' 1 pre.length ++ (markPos1 T.toTables errBrace src.length Q
        ++ (List.range' (Q + 2) post.length
        ++ List.replicate (footFlowTxt T.toTables).length (Q + 1))) ∧
      r.unknowns = [] ∧ r.diags = st1.diags ++ [d] ∧
      d.msg = errBrace ∧ d.line = countNl (pre ++ PlainFootnote.sFootnote) + 1 ∧
      d.col = (afterLastNl (pre ++ PlainFootnote.sFootnote)).length + 1 :=
  tex2txt_arg_open_foot T o fs thresh pre post fuel st1 hdefs hextr hrepl hunkn hinit hok hf

/-! ### (3) `\begin{verbatim}` without `\end{verbatim}` -/

/-- **(3) an unterminated `verbatim` environment** yields exactly one diagnostic "missing end of
    verbatim" at the line and column of the backslash of `\begin` and the complete error mark at that
    position; the text behind the construct is kept with its own positions.  As in the Python code the
    mark replaces the token `\begin` only: `{verbatim}` is then read as ordinary text, so the WORD
    `verbatim` appears in the plain text (the braces vanish).
    `src = pre ++ \begin{verbatim} ++ post`, side conditions `verbatimFaultOk` (among them: no
    `\end{verbatim}` in `post`). -/
theorem C08_verbatim_unterminated (T : PTables) (o : Options) (fs : FS) (thresh : Nat)
    (pre post : Str) (fuel : Nat) (st1 : PState)
    (hdefs : o.defs = []) (hextr : o.extr = []) (hrepl : o.hasRepl = false) (hunkn : o.unkn = false)
    (hinit : initParser T fuel o (initialState T o false fs) = .ok ((), st1))
    (hok : verbatimFaultOk T st1 pre post = true)
    (hf : (pre ++ (verbatimSrc ++ post)).length + 14 ≤ fuel) :
    let src := pre ++ (verbatimSrc ++ post)
    let P := pre.length
    let d := latexErrorDiag errMissingEndVerbatim P src
    ∃ r, tex2txt T fuel src o false thresh fs = .ok r ∧
      r.txt = pre ++ (errMark T.toTables errMissingEndVerbatim ++ (sVerbWord ++ post)) ∧
      r.pos = List.range' 1 pre.length ++ (markPos1 T.toTables errMissingEndVerbatim src.length P
        ++ (List.range' (P + 8) 8 ++ List.range' (P + 17) post.length)) ∧
      r.unknowns = [] ∧ r.diags = st1.diags ++ [d] ∧
      d.msg = errMissingEndVerbatim ∧ d.line = countNl pre + 1 ∧
      d.col = (afterLastNl pre).length + 1 :=
  tex2txt_verbatim_unterminated T o fs thresh pre post fuel st1 hdefs hextr hrepl hunkn hinit hok hf

/-! ### (4) an unclosed skip comment -/

/-- **(4) `%%% LT-SKIP-BEGIN` without `%%% LT-SKIP-END`** yields exactly one diagnostic
    `cannot find closing LaTeX comment '<closing marker>'` at the line and column of the `%` of the
    opening comment and the complete error mark at that position; nothing behind the comment is
    skipped: `post` is kept with its own positions.  `src = pre ++ %body ++ post`, where `%body` is the
    whole comment token (`commentLen`) and starts with the opening marker `st1.skipBegin`; side
    conditions `skipFaultOk`. -/
theorem C08_skip_unclosed (T : PTables) (o : Options) (fs : FS) (thresh : Nat)
    (pre body post : Str) (fuel : Nat) (st1 : PState)
    (hdefs : o.defs = []) (hextr : o.extr = []) (hrepl : o.hasRepl = false) (hunkn : o.unkn = false)
    (hinit : initParser T fuel o (initialState T o false fs) = .ok ((), st1))
    (hok : skipFaultOk T st1 pre body post = true)
    (hf : (pre ++ ('%' :: body ++ post)).length + 4 ≤ fuel) :
    let src := pre ++ ('%' :: body ++ post)
    let P := pre.length
    let d := latexErrorDiag (errSkip st1) P src
    ∃ r, tex2txt T fuel src o false thresh fs = .ok r ∧
      r.txt = pre ++ (errMark T.toTables (errSkip st1) ++ post) ∧
      r.pos = List.range' 1 pre.length ++ (markPos1 T.toTables (errSkip st1) src.length P
        ++ List.range' (P + body.length + 2) post.length) ∧
      r.unknowns = [] ∧ r.diags = st1.diags ++ [d] ∧
      d.msg = errSkip st1 ∧ d.line = countNl pre + 1 ∧ d.col = (afterLastNl pre).length + 1 :=
  tex2txt_skip_unclosed T o fs thresh pre body post fuel st1 hdefs hextr hrepl hunkn hinit hok hf

/-! ### (5) an unreadable `\LTinput` file -/

/-- **(5) `\LTinput{file}` with a file that cannot be read** (`st1.fs` — the file system handed to
    `tex2txt`, as the initialised parser sees it — has no entry `file`) yields exactly one diagnostic
    `could not read file '<file>'` at the line and column of the backslash of `\LTinput` and the
    complete error mark at that position; the text behind the call is kept with its own positions.
    `src = pre ++ \name{file} ++ post` with `\name` declared with the handler `h_load_defs`; side
    conditions `inputFaultOk`. -/
theorem C08_input_unreadable (T : PTables) (o : Options) (fs : FS) (thresh : Nat)
    (pre name file post : Str) (fuel : Nat) (st1 : PState)
    (hdefs : o.defs = []) (hextr : o.extr = []) (hrepl : o.hasRepl = false) (hunkn : o.unkn = false)
    (hinit : initParser T fuel o (initialState T o false fs) = .ok ((), st1))
    (hok : inputFaultOk T st1 pre name file post = true)
    (hf : (pre ++ (inputSrc name file ++ post)).length + file.length + 8 ≤ fuel) :
    let src := pre ++ (inputSrc name file ++ post)
    let P := pre.length
    let d := latexErrorDiag (errRead file) P src
    ∃ r, tex2txt T fuel src o false thresh fs = .ok r ∧
      r.txt = pre ++ (errMark T.toTables (errRead file) ++ post) ∧
      r.pos = List.range' 1 pre.length ++ (markPos1 T.toTables (errRead file) src.length P
        ++ List.range' (P + (inputSrc name file).length + 1) post.length) ∧
      r.unknowns = [] ∧ r.diags = st1.diags ++ [d] ∧
      d.msg = errRead file ∧ d.line = countNl pre + 1 ∧ d.col = (afterLastNl pre).length + 1 :=
  tex2txt_input_unreadable T o fs thresh pre name file post fuel st1 hdefs hextr hrepl hunkn hinit hok hf

/-! ### the current code -/

/-- the side conditions of (1) hold on the tables translated from /repo for the documents
    `"ab\nxy \'1 cd"`, `"ab \"{2} cd"`, `"ab \c{?} cd"` and `"ab \' 3"` -/
theorem C08_accent_current_facts :
    accFaultOk Generated.theTables Generated.stDefault "ab\nxy ".toList "'".toList [] false '1' " cd".toList = true ∧
    accFaultOk Generated.theTables Generated.stDefault "ab ".toList "\"".toList [] true '2' " cd".toList = true ∧
    accFaultOk Generated.theTables Generated.stDefault "ab ".toList "c".toList [] true '?' " cd".toList = true ∧
    accFaultOk Generated.theTables Generated.stDefault "ab ".toList "'".toList " ".toList false '3' [] = true := by
  decide +kernel

/-- **(1) applies to the current code**: for `"ab\nxy \'1 cd"` the filter returns
    `"ab\nxy  LATEXXXERROR  cd"`, the mark at position 7 = line 2, column 4 (the source has only 6
    characters from there on: the last 8 characters of the mark are mapped to the last position 12),
    exactly one diagnostic -/
theorem C08_accent_nonletter_current (thresh : Nat) :
    ∃ r, tex2txt Generated.theTables Generated.bigFuel "ab\nxy \\'1 cd".toList
        Generated.defaultOptions false thresh [] = .ok r ∧
      r.txt = "ab\nxy  LATEXXXERROR  cd".toList ∧
      r.pos = [1, 2, 3, 4, 5, 6, 7, 7, 7, 7, 7, 7, 12, 12, 12, 12, 12, 12, 12, 12, 10, 11, 12] ∧
      r.unknowns = [] ∧
      r.diags = Generated.stDefault.diags
        ++ [{ line := 2, col := 4, msg := "text-mode accent for non-letter".toList }] := by
  obtain ⟨r, h, h1, h2, h3, h4, _⟩ := C08_accent_nonletter Generated.theTables Generated.defaultOptions []
    thresh "ab\nxy ".toList "'".toList [] false '1' " cd".toList Generated.bigFuel Generated.stDefault
    rfl rfl rfl rfl Generated.initParser_default C08_accent_current_facts.1 (by decide +kernel)
  refine ⟨r, h, ?_, ?_, h3, ?_⟩
  · rw [h1]; decide +kernel
  · rw [h2]; decide +kernel
  · rw [h4]; decide +kernel

/-- the same by kernel evaluation of the model, braced form: `"ab \"{2} cd"` -/
theorem C08_accent_eval_current :
    (match tex2txt Generated.theTables Generated.bigFuel "ab \\\"{2} cd".toList
        Generated.defaultOptions false 0 [] with
     | .ok r => r.txt == "ab  LATEXXXERROR  cd".toList &&
                r.pos == [1, 2, 3, 4, 4, 4, 4, 4, 4, 4, 4, 11, 11, 11, 11, 11, 11, 9, 10, 11] &&
                r.diags == Generated.stDefault.diags
                  ++ [{ line := 1, col := 4, msg := "text-mode accent for non-letter".toList }] &&
                r.unknowns == []
     | _ => false) = true := by
  decide +kernel

/-- the side conditions of (2) hold on the tables translated from /repo: `"ab \label{body cd"`,
    `"ab\n\index{x y"`, `"ab \footnote{body cd"` -/
theorem C08_arg_open_current_facts :
    argOpenVanOk Generated.theTables Generated.stDefault "ab ".toList "label".toList "body cd".toList = true ∧
    argOpenVanOk Generated.theTables Generated.stDefault "ab\n".toList "index".toList "x y".toList = true ∧
    argOpenFootOk Generated.theTables Generated.stDefault "ab ".toList "body cd".toList = true := by
  decide +kernel

/-- **(2a) applies to the current code**: `"ab \label{body cd"` gives `"ab  LATEXXXERROR body cd"`, the
    mark at position 10 = the `{` (line 1, column 10; 8 characters fit, the other 6 go to the last
    position 17), the text behind the `{` at its own positions -/
theorem C08_arg_open_current (thresh : Nat) :
    ∃ r, tex2txt Generated.theTables Generated.bigFuel "ab \\label{body cd".toList
        Generated.defaultOptions false thresh [] = .ok r ∧
      r.txt = "ab  LATEXXXERROR body cd".toList ∧
      r.pos = [1, 2, 3, 10, 10, 10, 10, 10, 10, 10, 10, 17, 17, 17, 17, 17, 17, 11, 12, 13, 14, 15, 16, 17] ∧
      r.unknowns = [] ∧
      r.diags = Generated.stDefault.diags
        ++ [{ line := 1, col := 10, msg := "cannot find closing \"}\"".toList }] := by
  obtain ⟨r, h, h1, h2, h3, h4, _⟩ := C08_arg_open Generated.theTables Generated.defaultOptions []
    thresh "ab ".toList "label".toList "body cd".toList Generated.bigFuel Generated.stDefault
    rfl rfl rfl rfl Generated.initParser_default C08_arg_open_current_facts.1 (by decide +kernel)
  refine ⟨r, h, ?_, ?_, h3, ?_⟩
  · rw [h1]; decide +kernel
  · rw [h2]; decide +kernel
  · rw [h4]; decide +kernel

/-- **(2b) applies to the current code**: `"ab \footnote{body cd"` gives
    `"ab  LATEXXXERROR body cd\n\n\n LATEXXXERROR \n"` -/
theorem C08_arg_open_footnote_current (thresh : Nat) :
    ∃ r, tex2txt Generated.theTables Generated.bigFuel "ab \\footnote{body cd".toList
        Generated.defaultOptions false thresh [] = .ok r ∧
      r.txt = "ab  LATEXXXERROR body cd\n\n\n LATEXXXERROR \n".toList ∧
      r.pos = [1, 2, 3, 13, 13, 13, 13, 13, 13, 13, 13, 20, 20, 20, 20, 20, 20, 14, 15, 16, 17, 18, 19, 20,
               13, 13, 13, 13, 13, 13, 13, 13, 13, 13, 13, 13, 13, 13, 13, 13, 13, 13] ∧
      r.unknowns = [] ∧
      r.diags = Generated.stDefault.diags
        ++ [{ line := 1, col := 13, msg := "cannot find closing \"}\"".toList }] := by
  obtain ⟨r, h, h1, h2, h3, h4, _⟩ := C08_arg_open_footnote Generated.theTables Generated.defaultOptions []
    thresh "ab ".toList "body cd".toList Generated.bigFuel Generated.stDefault
    rfl rfl rfl rfl Generated.initParser_default C08_arg_open_current_facts.2.2 (by decide +kernel)
  refine ⟨r, h, ?_, ?_, h3, ?_⟩
  · rw [h1]; decide +kernel
  · rw [h2]; decide +kernel
  · rw [h4]; decide +kernel

/-- kernel evaluation of the model: `"ab\n\index{x y"` (the mark in line 2, column 7), and — not
    covered by a theorem — `"ab \section{body cd"`, where the heading handler copies the short mark
    and adds a full stop in front of the pushed-back mark -/
theorem C08_arg_open_eval_current :
    (match tex2txt Generated.theTables Generated.bigFuel "ab\n\\index{x y".toList
        Generated.defaultOptions false 0 [] with
     | .ok r => r.txt == "ab\n LATEXXXERROR x y".toList &&
                r.diags == Generated.stDefault.diags
                  ++ [{ line := 2, col := 7, msg := "cannot find closing \"}\"".toList }] &&
                r.unknowns == []
     | _ => false) = true ∧
    (match tex2txt Generated.theTables Generated.bigFuel "ab \\section{body cd".toList
        Generated.defaultOptions false 0 [] with
     | .ok r => r.txt == "ab  LATEXXXERROR . LATEXXXERROR body cd".toList &&
                r.diags == Generated.stDefault.diags
                  ++ [{ line := 1, col := 12, msg := "cannot find closing \"}\"".toList }]
     | _ => false) = true := by
  decide +kernel

/-- the side conditions of (3), (4), (5) hold on the tables translated from /repo -/
theorem C08_fault_current_facts :
    verbatimFaultOk Generated.theTables Generated.stDefault "ab ".toList " body cd".toList = true ∧
    verbatimFaultOk Generated.theTables Generated.stDefault "ab\n".toList "\nx = 1\n".toList = true ∧
    skipFaultOk Generated.theTables Generated.stDefault "ab\n".toList "%% LT-SKIP-BEGIN\n ".toList
      "body cd".toList = true ∧
    skipFaultOk Generated.theTables Generated.stDefault "ab ".toList "%% LT-SKIP-BEGIN xyz".toList [] = true ∧
    inputFaultOk Generated.theTables Generated.stDefault "ab ".toList "LTinput".toList "file".toList
      " body cd".toList = true := by
  decide +kernel

/-- **(3) applies to the current code**: `"ab \begin{verbatim} body cd"` gives
    `"ab  LATEXXXERROR verbatim body cd"`, the mark at position 4 (line 1, column 4) -/
theorem C08_verbatim_unterminated_current (thresh : Nat) :
    ∃ r, tex2txt Generated.theTables Generated.bigFuel "ab \\begin{verbatim} body cd".toList
        Generated.defaultOptions false thresh [] = .ok r ∧
      r.txt = "ab  LATEXXXERROR verbatim body cd".toList ∧
      r.pos = [1, 2, 3, 4, 4, 4, 4, 4, 4, 4, 4, 4, 4, 4, 4, 4, 4, 11, 12, 13, 14, 15, 16, 17, 18,
               20, 21, 22, 23, 24, 25, 26, 27] ∧
      r.unknowns = [] ∧
      r.diags = Generated.stDefault.diags
        ++ [{ line := 1, col := 4, msg := "missing end of verbatim".toList }] := by
  obtain ⟨r, h, h1, h2, h3, h4, _⟩ := C08_verbatim_unterminated Generated.theTables
    Generated.defaultOptions [] thresh "ab ".toList " body cd".toList Generated.bigFuel Generated.stDefault
    rfl rfl rfl rfl Generated.initParser_default C08_fault_current_facts.1 (by decide +kernel)
  have e : "ab ".toList ++ (verbatimSrc ++ " body cd".toList) = "ab \\begin{verbatim} body cd".toList := by
    decide +kernel
  rw [e] at h
  refine ⟨r, h, ?_, ?_, h3, ?_⟩
  · rw [h1]; decide +kernel
  · rw [h2]; decide +kernel
  · rw [h4]; decide +kernel

/-- **(4) applies to the current code**: `"ab\n%%% LT-SKIP-BEGIN\n body cd"` gives
    `"ab\n LATEXXXERROR body cd"`, the mark at position 4 (line 2, column 1) -/
theorem C08_skip_unclosed_current (thresh : Nat) :
    ∃ r, tex2txt Generated.theTables Generated.bigFuel "ab\n%%% LT-SKIP-BEGIN\n body cd".toList
        Generated.defaultOptions false thresh [] = .ok r ∧
      r.txt = "ab\n LATEXXXERROR body cd".toList ∧
      r.pos = [1, 2, 3, 4, 4, 4, 4, 4, 4, 4, 4, 4, 4, 4, 4, 4, 4, 23, 24, 25, 26, 27, 28, 29] ∧
      r.unknowns = [] ∧
      r.diags = Generated.stDefault.diags
        ++ [{ line := 2, col := 1, msg := "cannot find closing LaTeX comment '%%% LT-SKIP-END'".toList }] := by
  obtain ⟨r, h, h1, h2, h3, h4, _⟩ := C08_skip_unclosed Generated.theTables
    Generated.defaultOptions [] thresh "ab\n".toList "%% LT-SKIP-BEGIN\n ".toList "body cd".toList
    Generated.bigFuel Generated.stDefault
    rfl rfl rfl rfl Generated.initParser_default C08_fault_current_facts.2.2.1 (by decide +kernel)
  refine ⟨r, h, ?_, ?_, h3, ?_⟩
  · rw [h1]; decide +kernel
  · rw [h2]; decide +kernel
  · rw [h4]; decide +kernel

/-- **(5) applies to the current code**: `"ab \LTinput{file} body cd"` with an empty file system gives
    `"ab  LATEXXXERROR  body cd"`, the mark at position 4 (line 1, column 4) -/
theorem C08_input_unreadable_current (thresh : Nat) :
    ∃ r, tex2txt Generated.theTables Generated.bigFuel "ab \\LTinput{file} body cd".toList
        Generated.defaultOptions false thresh [] = .ok r ∧
      r.txt = "ab  LATEXXXERROR  body cd".toList ∧
      r.pos = [1, 2, 3, 4, 4, 4, 4, 4, 4, 4, 4, 4, 4, 4, 4, 4, 4, 18, 19, 20, 21, 22, 23, 24, 25] ∧
      r.unknowns = [] ∧
      r.diags = Generated.stDefault.diags
        ++ [{ line := 1, col := 4, msg := "could not read file 'file'".toList }] := by
  obtain ⟨r, h, h1, h2, h3, h4, _⟩ := C08_input_unreadable Generated.theTables
    Generated.defaultOptions [] thresh "ab ".toList "LTinput".toList "file".toList " body cd".toList
    Generated.bigFuel Generated.stDefault
    rfl rfl rfl rfl Generated.initParser_default C08_fault_current_facts.2.2.2.2 (by decide +kernel)
  refine ⟨r, h, ?_, ?_, h3, ?_⟩
  · rw [h1]; decide +kernel
  · rw [h2]; decide +kernel
  · rw [h4]; decide +kernel

/-- kernel evaluation of the model on further documents: a `verbatim` environment opened in line 2
    whose would-be content spans lines; a skip comment at the very end of the text; `\LTinput` of a
    file that IS readable (no diagnostic: the fault of (5) is the missing file) -/
theorem C08_fault_eval_current :
    (match tex2txt Generated.theTables Generated.bigFuel "ab\n\\begin{verbatim}\nx = 1\n".toList
        Generated.defaultOptions false 0 [] with
     | .ok r => r.txt == "ab\n LATEXXXERROR verbatim\nx = 1\n".toList &&
                r.diags == Generated.stDefault.diags
                  ++ [{ line := 2, col := 1, msg := "missing end of verbatim".toList }] &&
                r.unknowns == []
     | _ => false) = true ∧
    (match tex2txt Generated.theTables Generated.bigFuel "ab %%% LT-SKIP-BEGIN xyz".toList
        Generated.defaultOptions false 0 [] with
     | .ok r => r.txt == "ab  LATEXXXERROR ".toList &&
                r.diags == Generated.stDefault.diags
                  ++ [{ line := 1, col := 4,
                        msg := "cannot find closing LaTeX comment '%%% LT-SKIP-END'".toList }]
     | _ => false) = true ∧
    (match tex2txt Generated.theTables Generated.bigFuel "ab \\LTinput{file} cd".toList
        Generated.defaultOptions false 0 [("file".toList, "\\newcommand{\\x}{y}".toList)] with
     | .ok r => r.txt == "ab  cd".toList && r.diags == Generated.stDefault.diags
     | _ => false) = true := by
  decide +kernel

end Yalafi
