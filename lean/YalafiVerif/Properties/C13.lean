/-
  Properties/C13.lean — phrase replacement keeps text and position map consistent.

  Property theorems only (helper lemmas live in Proofs/).  `substitute` is
  verified for an arbitrary list of disjoint, increasing, non-empty match spans
  (the regex engine is abstracted); `findSpans` (the hand-written matcher for the
  pattern `replace_phrases` builds) is shown to produce such spans and to respect
  word boundaries / paragraph breaks.
-/
import YalafiVerif.Proofs.Replace
namespace Yalafi

/-- C13 (bookkeeping, full): equal lengths, and the output is exactly the per-index
    specification — for *any* position list (also non-monotonic) and any replacement. -/
theorem C13_substitute_spec (txt : Str) (pos : List Nat) (ms : List Span) (repl : Str)
    (hlen : txt.length = pos.length) (hok : SpansOk 0 txt.length ms) :
    (substitute txt pos ms repl).1.length = (substitute txt pos ms repl).2.length ∧
    (substitute txt pos ms repl).1.zip (substitute txt pos ms repl).2 =
      (List.range txt.length).flatMap (substSpecAt txt pos ms repl) :=
  substitute_spec txt pos ms repl hlen hok

/-- C13: every position in the result was a position of the input -/
theorem C13_substitute_positions (txt : Str) (pos : List Nat) (ms : List Span) (repl : Str)
    (hlen : txt.length = pos.length) (hok : SpansOk 0 txt.length ms) :
    ∀ p ∈ (substitute txt pos ms repl).2, p ∈ pos :=
  substitute_positions txt pos ms repl hlen hok

/-- the matcher yields spans of the shape `substitute` is verified for -/
theorem C13_findSpans_ok (T : Tables) (ph : Phrase) (txt : Str) :
    SpansOk 0 txt.length (findSpans T ph txt.length 0 none txt) :=
  findSpans_ok T ph txt

/-- the text between two words of a matched phrase is blanks/tabs with at most one line
    break: a match never crosses a paragraph break -/
theorem C13_match_no_par_break (ws : List Str) (s : Str) (m : Nat)
    (hws : ∀ w ∈ ws, ∀ c ∈ w, c ≠ nl)
    (h : matchWords ws s = some m) : countNl (s.take m) + 1 ≤ ws.length ∨ ws = [] :=
  matchWords_nl ws s m hws h

/-- a phrase starting (ending) with a letter matches only at a `\b` word boundary -/
theorem C13_match_boundaries (T : Tables) (ph : Phrase) (prev : Option Char) (s : Str) (m : Nat)
    (h : matchAt T ph prev s = some m) :
    (ph.bLeft = true → wordBoundary T prev s.head? = true) ∧
    (ph.bRight = true → wordBoundary T ((s.take m).getLast?) (s.drop m).head? = true) ∧ 1 ≤ m :=
  matchAt_boundaries T ph prev s m h

/-- `#` starts a comment; a line without left-hand side is ignored -/
theorem C13_parseRule_comment (T : Tables) (l r : Str) (h : ∀ c ∈ l, c ≠ '#') :
    parseRule T (l ++ '#' :: r) = parseRule T l :=
  parseRule_comment T l r h

theorem C13_parseRule_no_lhs (T : Tables) (line : Str)
    (h : (splitWs (line.takeWhile (· != '#'))).head? = some ['&'] ∨ splitWs (line.takeWhile (· != '#')) = []) :
    parseRule T line = none :=
  parseRule_no_lhs T line h

/-- C13 for a whole replacement file: lengths stay equal and positions stay inside the
    input positions, for every rule list applied in sequence -/
theorem C13_replacePhrases (T : Tables) (txt : Str) (pos : List Nat) (lines : List Str)
    (hlen : txt.length = pos.length) :
    (replacePhrases T txt pos lines).1.length = (replacePhrases T txt pos lines).2.length ∧
    ∀ p ∈ (replacePhrases T txt pos lines).2, p ∈ pos :=
  replacePhrases_ok T txt pos lines hlen

/-- non-vacuity: a concrete two-rule run -/
example : SpansOk 0 9 [⟨0, 2⟩, ⟨5, 3⟩] := by simp [SpansOk]

end Yalafi
