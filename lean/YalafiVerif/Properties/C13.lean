/-
  Properties/C13.lean — phrase replacement keeps text and position map consistent.

  Property theorems only (helper lemmas live in Proofs/).  `substitute` is
  verified for an arbitrary list of disjoint, increasing, non-empty match spans
  (the regex engine is abstracted); `findSpans` (the hand-written matcher for the
  pattern `replace_phrases` builds) is shown to produce such spans and to respect
  word boundaries / paragraph breaks.
-/
import YalafiVerif.Proofs.Replace
import YalafiVerif.Proofs.PlainRepl
import YalafiVerif.Proofs.ReplGeneral
import YalafiVerif.Generated.Init
namespace Yalafi

/-- C13 (bookkeeping, full): equal lengths, and the output is exactly the per-index
    specification — for *any* position list (also non-monotonic) and any replacement. -/
theorem C13_substitute_spec (txt : Str) (pos : List Nat) (ms : List Span) (repl : Str)
    (hlen : txt.length = pos.length) (hok : SpansOk 0 txt.length ms) :
    (substitute txt pos ms repl).1.length = (substitute txt pos ms repl).2.length ∧
    (substitute txt pos ms repl).1.zip (substitute txt pos ms repl).2 =
      (List.range txt.length).flatMap (substSpecAt txt pos ms repl) :=
  substitute_spec txt pos ms repl hlen hok

/-- C13: every position in the result was a position of the input -/
theorem C13_substitute_positions (txt : Str) (pos : List Nat) (ms : List Span) (repl : Str)
    (hlen : txt.length = pos.length) (hok : SpansOk 0 txt.length ms) :
    ∀ p ∈ (substitute txt pos ms repl).2, p ∈ pos :=
  substitute_positions txt pos ms repl hlen hok

/-- the matcher yields spans of the shape `substitute` is verified for -/
theorem C13_findSpans_ok (T : Tables) (ph : Phrase) (txt : Str) :
    SpansOk 0 txt.length (findSpans T ph txt.length 0 none txt) :=
  findSpans_ok T ph txt

/-- the text between two words of a matched phrase is blanks/tabs with at most one line
    break: a match never crosses a paragraph break -/
theorem C13_match_no_par_break (ws : List Str) (s : Str) (m : Nat)
    (hws : ∀ w ∈ ws, ∀ c ∈ w, c ≠ nl)
    (h : matchWords ws s = some m) : countNl (s.take m) + 1 ≤ ws.length ∨ ws = [] :=
  matchWords_nl ws s m hws h

/-- a phrase starting (ending) with a letter matches only at a `\b` word boundary -/
theorem C13_match_boundaries (T : Tables) (ph : Phrase) (prev : Option Char) (s : Str) (m : Nat)
    (h : matchAt T ph prev s = some m) :
    (ph.bLeft = true → wordBoundary T prev s.head? = true) ∧
    (ph.bRight = true → wordBoundary T ((s.take m).getLast?) (s.drop m).head? = true) ∧ 1 ≤ m :=
  matchAt_boundaries T ph prev s m h

/-- `#` starts a comment; a line without left-hand side is ignored -/
theorem C13_parseRule_comment (T : Tables) (l r : Str) (h : ∀ c ∈ l, c ≠ '#') :
    parseRule T (l ++ '#' :: r) = parseRule T l :=
  parseRule_comment T l r h

theorem C13_parseRule_no_lhs (T : Tables) (line : Str)
    (h : (splitWs (line.takeWhile (· != '#'))).head? = some ['&'] ∨ splitWs (line.takeWhile (· != '#')) = []) :
    parseRule T line = none :=
  parseRule_no_lhs T line h

/-- C13 for a whole replacement file: lengths stay equal and positions stay inside the
    input positions, for every rule list applied in sequence -/
theorem C13_replacePhrases (T : Tables) (txt : Str) (pos : List Nat) (lines : List Str)
    (hlen : txt.length = pos.length) :
    (replacePhrases T txt pos lines).1.length = (replacePhrases T txt pos lines).2.length ∧
    ∀ p ∈ (replacePhrases T txt pos lines).2, p ∈ pos :=
  replacePhrases_ok T txt pos lines hlen

/-- **phrase replacement end to end on the filter model**: for a source of inert characters and any
    replacement list (`--repl`), `tex2txt` returns exactly `replace_phrases` of the source with the
    identity map (so everything above applies to the filter's output): text and position list have
    equal length and every reported position lies in 1 … len(source); no unknowns, no diagnostics -/
theorem C13_tex2txt_plain_repl (T : PTables) (o : Options) (fs : FS) (thresh : Nat) (src : Str) (fuel : Nat)
    (st1 : PState) (hdefs : o.defs = []) (hextr : o.extr = []) (hrepl : o.hasRepl = true)
    (hunkn : o.unkn = false)
    (hinit : initParser T fuel o (initialState T o false fs) = .ok ((), st1))
    (h : ∀ c ∈ src, inertChar T st1 c = true) (hf : src.length + 2 ≤ fuel) :
    ∃ r, tex2txt T fuel src o false thresh fs = .ok r ∧
      r.txt = (replacePhrases T.toTables src (List.range src.length) o.repl).1 ∧
      r.pos = (replacePhrases T.toTables src (List.range src.length) o.repl).2.map (· + 1) ∧
      r.txt.length = r.pos.length ∧ (∀ p ∈ r.pos, 1 ≤ p ∧ p ≤ src.length) ∧
      r.unknowns = [] ∧ r.diags = st1.diags :=
  tex2txt_plain_repl T o fs thresh src fuel st1 hdefs hextr hrepl hunkn hinit h hf

/-- **for EVERY source text**: the option `--repl` does nothing but apply `replace_phrases` to the text and the
    position list that the filter returns without it (all theorems above then apply to the filter's output) -/
theorem C13_tex2txt_repl_commutes (T : PTables) (fuel : Nat) (latex : Str) (o : Options) (thresh : Nat) (fs : FS)
    (r0 : T2TResult) (hunkn : o.unkn = false)
    (h0 : tex2txt T fuel latex { o with hasRepl := false } false thresh fs = .ok r0) :
    tex2txt T fuel latex { o with hasRepl := true } false thresh fs =
      .ok { r0 with
            txt := (replacePhrases T.toTables r0.txt (r0.pos.map (· - 1)) o.repl).1,
            pos := (replacePhrases T.toTables r0.txt (r0.pos.map (· - 1)) o.repl).2.map (· + 1) } :=
  tex2txt_repl_commutes T fuel latex o thresh fs r0 hunkn h0

/-- … hence, for every source: equal lengths, and every position reported with the list is a position
    reported without it (so it lies in the source whenever C01 holds for the run without the list) -/
theorem C13_tex2txt_repl_ok (T : PTables) (fuel : Nat) (latex : Str) (o : Options) (thresh : Nat) (fs : FS)
    (r0 : T2TResult) (hunkn : o.unkn = false)
    (h0 : tex2txt T fuel latex { o with hasRepl := false } false thresh fs = .ok r0)
    (hlen : r0.txt.length = r0.pos.length) :
    ∃ r, tex2txt T fuel latex { o with hasRepl := true } false thresh fs = .ok r ∧
      r.txt.length = r.pos.length ∧ (∀ p ∈ r.pos, p - 1 ∈ r0.pos.map (· - 1)) ∧
      r.unknowns = r0.unknowns ∧ r.diags = r0.diags :=
  tex2txt_repl_ok T fuel latex o thresh fs r0 hunkn h0 hlen

/-- **multi-language mode, every source text**: `--repl` rewrites exactly the pieces of the MAIN language, each by
    `replace_phrases` on its own text and map (`replPart`); pieces of the other languages, unknowns, diagnostics unchanged -/
theorem C13_tex2txt_repl_commutes_ml (T : PTables) (fuel : Nat) (latex : Str) (o : Options) (thresh : Nat) (fs : FS)
    (r0 : T2TResult)
    (h0 : tex2txt T fuel latex { o with hasRepl := false } true thresh fs = .ok r0) :
    tex2txt T fuel latex { o with hasRepl := true } true thresh fs =
      .ok { r0 with parts := r0.parts.map (replPart T o) } :=
  tex2txt_repl_commutes_ml T fuel latex o thresh fs r0 h0

/-- options with a replacement list: initialisation of the parser does not look at it -/
def replOptions (lines : List Str) : Options := { Generated.defaultOptions with repl := lines, hasRepl := true }

theorem initParser_repl (lines : List Str) :
    initParser Generated.theTables Generated.bigFuel (replOptions lines)
      (initialState Generated.theTables (replOptions lines) false []) = .ok ((), Generated.stDefault) :=
  Generated.initParser_default

/-- instance for the tables of the current /repo: the rule `z. B. & zum Beispiel` on a German sentence -/
theorem C13_tex2txt_plain_repl_current :
    ∃ r, tex2txt Generated.theTables Generated.bigFuel "Das ist z. B. so.".toList
          (replOptions ["z. B. & zum Beispiel".toList]) false 2 [] = .ok r ∧
      r.txt = "Das ist zum Beispiel so.".toList ∧
      r.pos = [1, 2, 3, 4, 5, 6, 7, 8, 9, 10, 11, 12, 13, 13, 13, 13, 13, 13, 13, 13, 14, 15, 16, 17] := by
  obtain ⟨r, hr, ht, hp, _⟩ := C13_tex2txt_plain_repl Generated.theTables (replOptions ["z. B. & zum Beispiel".toList]) [] 2
    "Das ist z. B. so.".toList Generated.bigFuel Generated.stDefault rfl rfl rfl rfl (initParser_repl _)
    (by decide +kernel) (by decide)
  refine ⟨r, hr, ?_, ?_⟩
  · rw [ht]; decide +kernel
  · rw [hp]; decide +kernel

/-- non-vacuity: a concrete two-rule run -/
example : SpansOk 0 9 [⟨0, 2⟩, ⟨5, 3⟩] := by simp [SpansOk]

end Yalafi
