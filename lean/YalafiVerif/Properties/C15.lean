/-
  Properties/C15.lean — any proofreader answer gives an in-file report or a clean error.

  Proved (all inputs, model of the pure shell functions): typed JSON access returns a value
  of the requested type or ends in the shell's own error exit, never in an exception; with
  an integer `length` (which the caller checks since the `fix:` commit 92ac830) and a
  non-empty map `map_match_position` never raises, and if the map satisfies C01 the reported
  offset lies inside the file and `offset + length` does not pass its end, for every offset
  and length the proofreader may send; sorting validates every offset.
  The composition with the four report generators is checked with malformed answers
  (field deletions, type changes, value perturbations, truncations) in all output modes.
-/
import YalafiVerif.Proofs.Shell
namespace Yalafi

theorem C15_mapMatch_total (cm : List Int) (latex : Str) (offset len : Int) (h : cm ≠ []) :
    ∃ r, mapMatch cm latex offset (some (.int len)) = .ok r :=
  mapMatch_total cm latex offset len h

theorem C15_mapMatch_in_file (cm : List Int) (latex : Str) (offset len : Int) (r : Int × Int)
    (hcm : ∀ p ∈ cm, 1 ≤ iabs p ∧ iabs p ≤ latex.length)
    (h : mapMatch cm latex offset (some (.int len)) = .ok r) :
    0 ≤ r.1 ∧ r.1 < latex.length ∧ r.1 + r.2 ≤ latex.length :=
  mapMatch_in_file cm latex offset len r hcm h

theorem C15_jsonGet_typed (dic : Json) (item : Str) (typ : JType) (v : Json) (h : jsonGet dic item typ = .ok v) :
    v.hasType typ = true ∧ dic.get item = some v :=
  jsonGet_typed dic item typ v h

theorem C15_jsonGet_no_crash (dic : Json) (item : Str) (typ : JType) : ∀ s, jsonGet dic item typ ≠ .crash s :=
  jsonGet_no_crash dic item typ

theorem C15_sort_checks_offsets (cmt : List Int) (ms out : List RawMatch) (h : sortMatches cmt ms = .ok out) :
    ∀ m ∈ out, 0 ≤ m.offset ∧ m.offset < cmt.length :=
  (sortMatches_sorted cmt ms out h).2.2

end Yalafi
