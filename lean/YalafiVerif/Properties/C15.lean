/-
  Properties/C15.lean — any proofreader answer gives an in-file report or a clean error.

  Proved (all inputs, model of the pure shell functions): typed JSON access returns a value
  of the requested type or ends in the shell's own error exit, never in an exception; with
  an integer `length` (which the caller checks since the `fix:` commit 92ac830) and a
  non-empty map `map_match_position` never raises, and if the map satisfies C01 the reported
  offset lies inside the file and `offset + length` does not pass its end, for every offset
  and length the proofreader may send; sorting validates every offset.
  The composition with the four report generators is checked with malformed answers
  (field deletions, type changes, value perturbations, truncations) in all output modes.
-/
import YalafiVerif.Proofs.Shell
import YalafiVerif.Proofs.Reports
import YalafiVerif.Properties.SystemStmt
namespace Yalafi

theorem C15_mapMatch_total (cm : List Int) (latex : Str) (offset len : Int) (h : cm ≠ []) :
    ∃ r, mapMatch cm latex offset (some (.int len)) = .ok r :=
  mapMatch_total cm latex offset len h

theorem C15_mapMatch_in_file (cm : List Int) (latex : Str) (offset len : Int) (r : Int × Int)
    (hcm : ∀ p ∈ cm, 1 ≤ iabs p ∧ iabs p ≤ latex.length)
    (h : mapMatch cm latex offset (some (.int len)) = .ok r) :
    0 ≤ r.1 ∧ r.1 < latex.length ∧ r.1 + r.2 ≤ latex.length :=
  mapMatch_in_file cm latex offset len r hcm h

theorem C15_jsonGet_typed (dic : Json) (item : Str) (typ : JType) (v : Json) (h : jsonGet dic item typ = .ok v) :
    v.hasType typ = true ∧ dic.get item = some v :=
  jsonGet_typed dic item typ v h

theorem C15_jsonGet_no_crash (dic : Json) (item : Str) (typ : JType) : ∀ s, jsonGet dic item typ ≠ .crash s :=
  jsonGet_no_crash dic item typ

theorem C15_sort_checks_offsets (cmt : List Int) (ms out : List RawMatch) (h : sortMatches cmt ms = .ok out) :
    ∀ m ∈ out, 0 ≤ m.offset ∧ m.offset < cmt.length :=
  (sortMatches_sorted cmt ms out h).2.2

end Yalafi

/-
  Every location of every report lies inside the file (Model/Reports.lean, Proofs/Reports.lean;
  tied to gentext.py / genjson.py / genxml.py by harness/corr_reports.py).
  `InText tex p`: `p` is the offset of a character of the text.  `InFileLC tex lin col`: line `lin`
  exists and column `col` lies on it or directly behind its last character (where its line break
  stands).  `lineAt tex n0`: the line that begins at `n0`, without its line break.
-/
namespace Yalafi
open Reports Html

/-- (d) If the first character `offset` and the last character `offset + length - 1` of the match
    are characters of the text — in particular for `0 ≤ offset`, `1 ≤ length`,
    `offset + length ≤ len(tex)`, see `C15_report_in_file` — then the text report, JSON `priv`, XML
    name existing lines and columns on them (`1 ≤ lin ≤ #lines`, `col - 1 ≤ len(line)`), XML-b
    names the same lines and byte columns within the UTF-8 length of the line (`+ 1` for the end
    column: the line break); for a text that ends in a line break (what the shell hands over)
    `lin ≤ number of line breaks`, i.e. never the empty "line" behind the last line break. -/
theorem C15_located_in_file (tex : Str) (offset length : Int) (h0 : InText tex offset) (he : InText tex (offset + length - 1)) :
    let L := locate tex offset length
    let starts := getLineStarts tex
    InFileLC tex L.lin L.col ∧
    InFileLC tex (L.json.fromy + 1) (L.json.fromx + 1) ∧ InFileLC tex (L.json.toy + 1) L.json.tox ∧
    L.xml = L.json ∧ L.xmlb.fromy = L.json.fromy ∧ L.xmlb.toy = L.json.toy ∧
    0 ≤ L.xmlb.fromx ∧ L.xmlb.fromx ≤ utf8Size (lineAt tex (starts.getD L.json.fromy.toNat 0)) ∧
    0 ≤ L.xmlb.tox ∧ L.xmlb.tox ≤ utf8Size (lineAt tex (starts.getD L.json.toy.toNat 0)) + 1 ∧
    (EndsNl tex → L.lin ≤ tex.count '\n' ∧ L.json.fromy + 1 ≤ tex.count '\n' ∧ L.json.toy + 1 ≤ tex.count '\n') :=
  report_in_file tex offset length h0 he

/-- (d) in the form asked for: `0 ≤ offset`, `1 ≤ length`, `offset + length ≤ len(tex)` -/
theorem C15_report_in_file (tex : Str) (offset length : Int) (h0 : 0 ≤ offset) (hl : 1 ≤ length)
    (he : offset + length ≤ tex.length) :
    let L := locate tex offset length
    InFileLC tex L.lin L.col ∧
    InFileLC tex (L.json.fromy + 1) (L.json.fromx + 1) ∧ InFileLC tex (L.json.toy + 1) L.json.tox ∧
    L.xml = L.json ∧ L.xmlb.fromy = L.json.fromy ∧ L.xmlb.toy = L.json.toy ∧
    0 ≤ L.xmlb.fromx ∧ L.xmlb.fromx ≤ utf8Size (lineAt tex ((getLineStarts tex).getD L.json.fromy.toNat 0)) ∧
    0 ≤ L.xmlb.tox ∧ L.xmlb.tox ≤ utf8Size (lineAt tex ((getLineStarts tex).getD L.json.toy.toNat 0)) + 1 ∧
    (EndsNl tex → L.lin ≤ tex.count '\n' ∧ L.json.fromy + 1 ≤ tex.count '\n' ∧ L.json.toy + 1 ≤ tex.count '\n') :=
  report_in_file tex offset length ⟨h0, by omega⟩ ⟨by omega, by omega⟩

/-- the place named for an offset inside the text is the place of that very character; the column
    equals the length of the line exactly when the character is the line break of the line
    (e.g. file `abc`: the shell appends a line break; a match at offset 3 is reported at line 1,
    column 4 — the appended line break, one behind the `c`) -/
theorem C15_located_char (tex : Str) (p : Nat) (hp : p < tex.length) :
    let lc := textLineCol tex p
    InFileLC tex lc.1 lc.2 ∧
    (EndsNl tex → lc.1 ≤ tex.count '\n') ∧
    tex[(getLineStarts tex).getD (lc.1 - 1) 0 + (lc.2 - 1)]? = tex[p]? ∧
    ((lc.2 - 1 = (lineAt tex ((getLineStarts tex).getD (lc.1 - 1) 0)).length) ↔ tex[p]? = some '\n') :=
  located_in_file tex p hp

/-- (d) composed with `map_match_position`: with a C01 map (every entry in `1 … len(tex)` up to
    sign), WHATEVER offset and integer length the proofreader sends — zero and negative lengths
    included — the first and the last character of the reported match are characters of the text,
    so `C15_located_in_file` applies to what the reports print -/
theorem C15_mapped_report_in_file (cm : List Int) (tex : Str) (offset len : Int) (L : Located)
    (hcm : ∀ p ∈ cm, 1 ≤ iabs p ∧ iabs p ≤ tex.length)
    (h : reportAll cm tex offset (some (.int len)) = .ok L) :
    InText tex L.offset ∧ InText tex (L.offset + L.length - 1) ∧ L = locate tex L.offset L.length ∧
    InFileLC tex L.lin L.col ∧
    InFileLC tex (L.json.fromy + 1) (L.json.fromx + 1) ∧ InFileLC tex (L.json.toy + 1) L.json.tox ∧
    L.xml = L.json ∧ L.xmlb.fromy = L.json.fromy ∧ L.xmlb.toy = L.json.toy ∧
    0 ≤ L.xmlb.fromx ∧ 0 ≤ L.xmlb.tox := by
  have ⟨a, b, c⟩ := mapped_report_in_file cm tex offset len L hcm h
  have r := report_in_file tex L.offset L.length a b
  rw [← c] at r
  exact ⟨a, b, c, r.1, r.2.1, r.2.2.1, r.2.2.2.1, r.2.2.2.2.1, r.2.2.2.2.2.1, r.2.2.2.2.2.2.1, r.2.2.2.2.2.2.2.2.1⟩

/-- zero-length answer at plain offset `o ≥ 1`: the mapped length is `|cm[o-1]| - |cm[o]| + 1` —
    `0` if the two characters are neighbours in the LaTeX text, NEGATIVE if markup was removed
    between them (`ab{}cd`, plain `abcd`, offset 2, length 0: JSON `offset 4, length -2`, XML
    `fromx 4, tox 2`): the reported end is the character in front of the removed markup.  Both ends
    are characters of the file (`C15_mapped_report_in_file`), but the end precedes the begin. -/
theorem C15_zero_length_mapped (cm : List Int) (tex : Str) (o : Nat) (cp cb : Int) (ho : 1 ≤ o)
    (h1 : cm[o - 1]? = some cp) (h2 : cm[o]? = some cb) :
    mapMatch cm tex o (some (.int 0)) =
      .ok (iabs cb - 1, correctMarkMacroname (iabs cb - 1) (iabs cp - iabs cb + 1) tex) :=
  mapMatch_zero_length cm tex o cp cb ho h1 h2

/-- what is printed for a match of (mapped) length 0 at offset `b ≥ 1`: Python computes
    `end = b - 1`; the "end" is the character in front — same line, `tox = fromx` — or, at the
    begin of a line, the line break of the line above: `toy = fromy - 1`, `tox = len(line) + 1` -/
theorem C15_zero_length_report (tex : Str) (b : Nat) (hb : 1 ≤ b) (hlt : b ≤ tex.length) :
    let j := jsonPriv tex b 0
    (tex[b - 1]? ≠ some '\n' → j.toy = j.fromy ∧ j.tox = j.fromx) ∧
    (tex[b - 1]? = some '\n' → j.toy = j.fromy - 1 ∧ j.fromx = 0 ∧
       j.tox = (lineAt tex ((getLineStarts tex).getD j.toy.toNat 0)).length + 1) :=
  zero_length_report tex b hb hlt

/-! the two observations, on the model (= the real code, by correspondence) -/

/-- file `abc` + appended line break, match at offset 3, length 1: line 1, column 4 -/
example : locate "abc\n".toList 3 1 =
    { offset := 3, length := 1, lin := 1, col := 4, json := ⟨0, 3, 0, 4⟩, xml := ⟨0, 3, 0, 4⟩, xmlb := ⟨0, 3, 0, 4⟩ } := by decide

/-- `ab{}cd`, plain text `abcd` + the two padding entries, zero-length answer at plain offset 2 -/
example : reportAll [1, 2, 5, 6, 7, 7, 7] "ab{}cd\n".toList 2 (some (.int 0)) =
    .ok { offset := 4, length := -2, lin := 1, col := 5, json := ⟨0, 4, 0, 2⟩, xml := ⟨0, 4, 0, 2⟩, xmlb := ⟨0, 4, 0, 2⟩ } := by decide

/-- `length = 0` at offset 0 — Python's `end = -1` counts from the END of the text: JSON / XML
    would name the last line and a NEGATIVE column (outside the file) … -/
example : jsonPriv "a\nb\n".toList 0 0 = { fromy := 0, fromx := 0, toy := 1, tox := -2 } := by decide

/-- … but `map_match_position` never delivers that pair: at plain offset 0 a zero length becomes 1
    (and with a C01 map `1 ≤ offset + length` always: `C15_mapped_report_in_file`); it takes a map
    entry `0` (no C01 map) to get there -/
example : mapMatch [1, 2, 3, 4] "a\nb\n".toList 0 (some (.int 0)) = .ok (0, 1) := by decide
example : reportAll [0, 2, 3, 4] "a\nb\n".toList 0 (some (.int 0)) =
    .ok { offset := -1, length := 1, lin := 2, col := -2, json := ⟨1, -3, 1, -2⟩, xml := ⟨1, -3, 1, -2⟩, xmlb := ⟨1, 1, 1, 0⟩ } := by decide

/-- non-vacuity of `C15_mapped_report_in_file`: a C01 map and an answer behind the end of the map -/
example : reportAll [1, 5, 6, 7, 7, 7] "aä\n€b c\nxy\n".toList 40 (some (.int (-3))) =
    .ok (locate "aä\n€b c\nxy\n".toList 6 (-1)) := by decide

end Yalafi
