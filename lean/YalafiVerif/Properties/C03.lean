/-
  Properties/C03.lean — prose is conserved; hidden text never leaks; no markup left.

  Proved for the whole filter model, all inputs (corollary of the bundle, Proofs/Inv):
  `C03_kinds` — no control-sequence, \begin/\end/\item, special, accent, verbatim-class or
  maths-class token ever reaches the output of `parser_work`; control sequences, grouping
  braces and `$` can therefore appear in the plain text only as the *text* of a text token
  (from `\{ \} \$`, verbatim material, error marks).  Blank-line removal emits only
  non-empty text and language tokens; comment tokens are dropped by the main loop.
  Conservation of words (multiplicity, order, detached flows last) is *not* a theorem: it is
  checked against a reference TeX-substitution semantics of generated documents.
  Known finding (recorded, see known_findings.json): a heading argument is expanded twice.
-/
import YalafiVerif.Proofs.Inv.Main
import YalafiVerif.Proofs.Lines
namespace Yalafi

/-- tokens returned by `parser_work` (the main flow) are of output classes, whatever the text -/
theorem C03_kinds (T : PTables) (hw : T.WFInv) (nroot fuel : Nat) (latex : Str) (st : PState)
    (hg : G0 T nroot st) (h0 : st.nest = 0 → latex.length = nroot) (h1 : st.nest = 1 → st.latex.length = nroot) :
    Post (parserWork T fuel latex st) (fun r _ => ∀ t ∈ r, outKind t = true) := by
  have h := (allSpecs T hw nroot fuel).work latex st hg h0 h1
  exact Post_mono _ _ _ h (fun r _ hr t ht => (hr.2.2 t ht).2)

theorem C03_removeLines_kinds (ts out : List Tok) (hr : removeLines ts = some out) :
    ∀ t ∈ out, t.txt ≠ [] ∨ isLang t = true :=
  removeLines_kinds ts out hr

end Yalafi
