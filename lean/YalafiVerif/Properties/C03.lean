/-
  Properties/C03.lean — prose is conserved; hidden text never leaks; no markup left.

  Proved for the whole filter model, all inputs (corollary of the bundle, Proofs/Inv):
  `C03_kinds` — no control-sequence, \begin/\end/\item, special, accent, verbatim-class or
  maths-class token ever reaches the output of `parser_work`; control sequences, grouping
  braces and `$` can therefore appear in the plain text only as the *text* of a text token
  (from `\{ \} \$`, verbatim material, error marks).  Blank-line removal emits only
  non-empty text and language tokens; comment tokens are dropped by the main loop.
  Conservation of words (multiplicity, order, detached flows last) is *not* a theorem: it is
  checked against a reference TeX-substitution semantics of generated documents.
  Known finding (recorded, see known_findings.json): a heading argument is expanded twice.
-/
import YalafiVerif.Proofs.Inv.Main
import YalafiVerif.Proofs.Lines
import YalafiVerif.Proofs.PlainComment
import YalafiVerif.Generated.Init
import YalafiVerif.Proofs.PlainFootnote
import YalafiVerif.Properties.PlainVanishStmt
import YalafiVerif.Properties.PlainGroupStmt
import YalafiVerif.Properties.PlainMixStmt
import YalafiVerif.Properties.PlainMix2Stmt
import YalafiVerif.Properties.PlainMix3Stmt
import YalafiVerif.Properties.PlainMix4Stmt
import YalafiVerif.Properties.PlainFlowsStmt
import YalafiVerif.Properties.PlainSkipStmt
namespace Yalafi

/-- tokens returned by `parser_work` (the main flow) are of output classes, whatever the text -/
theorem C03_kinds (T : PTables) (hw : T.WFInv) (nroot fuel : Nat) (latex : Str) (st : PState)
    (hg : G0 T nroot st) (h0 : st.nest = 0 → latex.length = nroot) (h1 : st.nest = 1 → st.latex.length = nroot) :
    Post (parserWork T fuel latex st) (fun r _ => ∀ t ∈ r, outKind t = true) := by
  have h := (allSpecs T hw nroot fuel).work latex st hg h0 h1
  exact Post_mono _ _ _ h (fun r _ hr t ht => (hr.2.2 t ht).2)

theorem C03_removeLines_kinds (ts out : List Tok) (hr : removeLines ts = some out) :
    ∀ t ∈ out, t.txt ≠ [] ∨ isLang t = true :=
  removeLines_kinds ts out hr

/-- **the text of a comment never leaks**, end to end on the filter model: for documents made of
    inert text and `%` comments (trailing comments, comment-only lines, several in a row, a comment
    at the very end of the source; a comment must not start with the skip marker — `segsOk`), the
    output is the source with every comment span deleted — from `%` to what the scanner's comment
    token takes: the line break and the indentation of the next line too, unless a blank line
    follows (then the paragraph break survives) — and every remaining character keeps its own
    source position; no unknowns, no diagnostics.  `Comment.strip_avoids_comments`: no output
    position lies inside a comment. -/
theorem C03_comments_dropped (T : PTables) (o : Options) (fs : FS) (thresh : Nat)
    (segs : List Comment.Seg) (fuel : Nat) (st1 : PState)
    (hdefs : o.defs = []) (hextr : o.extr = []) (hrepl : o.hasRepl = false)
    (hunkn : o.unkn = false)
    (hinit : initParser T fuel o (initialState T o false fs) = .ok ((), st1))
    (hok : Comment.segsOk T st1 segs = true) (hf : (Comment.render segs).length + 2 ≤ fuel) :
    ∃ r, tex2txt T fuel (Comment.render segs) o false thresh fs = .ok r ∧
      r.txt = (Comment.stripComments (Comment.render segs)).map (·.1) ∧
      r.pos = (Comment.stripComments (Comment.render segs)).map (·.2 + 1) ∧
      r.unknowns = [] ∧ r.diags = st1.diags := by
  obtain ⟨r, h1, h2, h3, h4, h5, _⟩ :=
    Comment.tex2txt_comments T o fs thresh segs fuel st1 hdefs hextr hrepl hunkn hinit hok hf
  exact ⟨r, h1, h2, h3, h4, h5⟩

theorem C03_comment_positions_outside (src : Str) (cp : Char × Nat) (q : Nat × Nat)
    (h : cp ∈ Comment.stripComments src) (hq : q ∈ Comment.comments src) : cp.2 < q.1 ∨ q.1 + q.2 ≤ cp.2 :=
  Comment.strip_avoids_comments src cp q h hq

/-- comments never leak, for the CURRENT code (tables translated from /repo, default options,
    parser initialisation evaluated by the kernel) -/
theorem C03_comments_dropped_current (segs : List Comment.Seg) (thresh : Nat)
    (hok : Comment.segsOk Generated.theTables Generated.stDefault segs = true)
    (hf : (Comment.render segs).length + 2 ≤ Generated.bigFuel) :
    ∃ r, tex2txt Generated.theTables Generated.bigFuel (Comment.render segs) Generated.defaultOptions false thresh [] = .ok r ∧
      r.txt = (Comment.stripComments (Comment.render segs)).map (·.1) ∧
      r.pos = (Comment.stripComments (Comment.render segs)).map (·.2 + 1) ∧
      r.unknowns = [] ∧ r.diags = Generated.stDefault.diags :=
  C03_comments_dropped Generated.theTables Generated.defaultOptions [] thresh segs Generated.bigFuel
    Generated.stDefault rfl rfl rfl rfl Generated.initParser_default hok hf

/-- a concrete document with a trailing comment, a comment-only line and a comment at the end of
    the text satisfies the side conditions on the real tables -/
theorem C03_comments_example_current :
    Comment.segsOk Generated.theTables Generated.stDefault
      [.txt "Alpha ".toList, .com " note \\secret{x} $".toList, .txt "  beta gamma\n".toList, .com "only".toList,
       .txt "\nDelta. ".toList, .comEof " the end".toList] = true := by
  decide +kernel

/-- **footnote text is detached and appears exactly once, after the main text**, end to end on the
    filter model: for documents of inert text and `\\footnote{body}` (inert non-empty body with
    visible text on its first and last line; no main-text line of white space and footnotes only;
    `stateOk`: `\\footnote` declared as in the real tables, single-language mode), the output is
    the main text with every `\\footnote{…}` deleted, followed for each footnote in order by
    `"\\n\\n\\n" ++ body ++ "\\n"`; main-text and body characters map to their own source positions,
    the separator to the first character of the body and the final line break to its last token;
    no unknowns, no diagnostics, no foreign flow -/
theorem C03_footnote_detached (T : PTables) (o : Options) (fs : FS) (thresh : Nat)
    (segs : List PlainFootnote.Seg) (fuel : Nat) (st1 : PState)
    (hdefs : o.defs = []) (hextr : o.extr = []) (hrepl : o.hasRepl = false) (hunkn : o.unkn = false)
    (hinit : initParser T fuel o (initialState T o false fs) = .ok ((), st1))
    (hst : PlainFootnote.stateOk T st1 = true) (hok : PlainFootnote.segsOk T st1 segs = true)
    (hlines : PlainFootnote.linesOK segs = true)
    (hf : (PlainFootnote.render segs).length + 2 ≤ fuel) :
    ∃ r, tex2txt T fuel (PlainFootnote.render segs) o false thresh fs = .ok r ∧
      r.txt = PlainFootnote.mainText segs ++ PlainFootnote.flowsText segs ∧
      r.txt = (PlainFootnote.refOut segs).map (·.1) ∧
      r.pos = (PlainFootnote.refOut segs).map (fun cp => cp.2 + 1) ∧
      r.unknowns = [] ∧ r.diags = st1.diags ∧ r.foreign = false :=
  PlainFootnote.tex2txt_footnote T o fs thresh segs fuel st1 hdefs hextr hrepl hunkn hinit hst hok hlines hf

/-- the state hypothesis holds for the parser initialised from the tables of the current /repo, and
    a concrete document satisfies the side conditions -/
theorem C03_footnote_current :
    PlainFootnote.stateOk Generated.theTables Generated.stDefault = true ∧
    PlainFootnote.segsOk Generated.theTables Generated.stDefault
      [.txt "Alpha".toList, .foot "first note".toList, .txt " beta gamma".toList, .foot "second".toList, .txt ".\n".toList] = true := by
  decide +kernel

end Yalafi
