/-
  Properties/C09.lean — user macro definitions expand by TeX substitution.

  Proved so far (all inputs): after a definition the table maps the name to the new entry
  and every other name to what it was (a redefinition affects later uses only, since the
  table is consulted at each use); an empty body expands to nothing; `#k` selects the k-th
  actual argument (`pyIndex`).  `genRepl_subst` / the route theorem of the design are being
  added; substitution semantics and the equivalence of the three supply routes (in document,
  --defs, \LTinput: same text, positions shifted by a constant) are checked on the
  implementation against the AST reference.
-/
import YalafiVerif.Model.Expander
import YalafiVerif.Proofs.GenRepl
import YalafiVerif.Proofs.PlainMacro
import YalafiVerif.Generated.Init
import YalafiVerif.Properties.PlainMacroArgsStmt
import YalafiVerif.Properties.PlainDefsStmt
import YalafiVerif.Properties.PlainOptArgStmt
import YalafiVerif.Properties.PlainDefTexStmt
namespace Yalafi

theorem C09_genRepl_nil (arguments : List (List Tok)) (start : Nat) :
    generateReplacements arguments [] start = some [] := by
  simp [generateReplacements, initCurPos, genReplLoop]

/-- `the_macros[name] = m`: a later look-up of that name finds the new definition … -/
theorem C09_setMacro_lookup (ms : List MacroDef) (m : MacroDef) :
    (setMacro ms m).find? (·.name == m.name) = some m := by
  unfold setMacro
  split
  · rename_i h
    induction ms with
    | nil => simp at h
    | cons x xs ih =>
      simp only [List.map_cons, List.find?_cons]
      by_cases hx : x.name == m.name
      · simp [hx]
      · simp only [hx, Bool.false_eq_true, if_false]
        have : xs.any (·.name == m.name) = true := by simpa [hx] using h
        simpa [hx] using ih this
  · rename_i h
    rw [List.find?_append]
    have : ms.find? (·.name == m.name) = none := by
      rw [List.find?_eq_none]
      intro x hx hc
      exact h (List.any_eq_true.mpr ⟨x, hx, hc⟩)
    simp [this]

theorem setMacro_map_other (ms : List MacroDef) (m : MacroDef) (name : Str) (hn : (m.name == name) = false) :
    (ms.map (fun x => if x.name == m.name then m else x)).find? (·.name == name) = ms.find? (·.name == name) := by
  induction ms with
  | nil => rfl
  | cons x xs ih =>
    simp only [List.map_cons, List.find?_cons]
    by_cases hx : (x.name == m.name) = true
    · have hxn : (x.name == name) = false := by
        have h1 : x.name = m.name := by simpa using hx
        rw [h1]; exact hn
      rw [if_pos hx]
      simp only [hn, hxn]
      exact ih
    · rw [if_neg hx]
      cases hq : (x.name == name)
      · simpa using ih
      · rfl

/-- … and every other name keeps its definition -/
theorem C09_setMacro_other (ms : List MacroDef) (m : MacroDef) (name : Str) (hn : (m.name == name) = false) :
    (setMacro ms m).find? (·.name == name) = ms.find? (·.name == name) := by
  unfold setMacro
  split
  · exact setMacro_map_other ms m name hn
  · rw [List.find?_append]
    cases h : ms.find? (·.name == name) <;> simp [hn]

/-- `#k` is the k-th actual argument -/
theorem C09_pyIndex (args : List (List Tok)) (k : Nat) (hk : 1 ≤ k) : pyIndex args k = args[k - 1]? := by
  unfold pyIndex
  have : (k == 0) = false := by simp; omega
  simp [this]

/-- a user definition expands by substitution: up to the position markers (Action tokens), the
    expansion of a body is the body with every `#k` replaced by the tokens of the k-th argument
    (kinds and texts; where the tokens map to is C04's subject), for all argument lists and bodies -/
theorem C09_genRepl_subst (args : List (List Tok)) (repl : List Tok) (start : Nat) (out : List Tok)
    (h : generateReplacements args repl start = some out) :
    (noAction out).map (fun t => (t.kind, t.txt)) = (noAction (substRef args repl)).map (fun t => (t.kind, t.txt)) :=
  genRepl_subst args repl start out h

/-- **a user definition expands by substitution**, end to end on the filter model: for documents of
    inert text, definitions `\\newcommand{\\name}{body}` (no parameters, inert non-empty body, name not
    declared before) and uses `\\name` / `\\name{}`: every use of a defined name is replaced by the
    body of the LATEST earlier definition (redefinition allowed), every character of an inserted
    body maps to the backslash of the use (C04), text keeps its own positions, the definitions
    leave no text (a line that holds only a definition disappears: `delLines`), a use before the
    definition is an unknown macro and is listed; no diagnostics -/
theorem C09_newcommand_e2e (T : PTables) (o : Options) (fs : FS) (thresh : Nat)
    (segs : List PlainMacro.Seg) (fuel : Nat) (st1 : PState)
    (hdefs : o.defs = []) (hextr : o.extr = []) (hrepl : o.hasRepl = false) (hunkn : o.unkn = false)
    (hinit : initParser T fuel o (initialState T o false fs) = .ok ((), st1))
    (hok : PlainMacro.SegsOk T st1 segs)
    (hf : (PlainMacro.render segs).length + PlainMacro.segInserted [] segs + 5 ≤ fuel) :
    ∃ r, tex2txt T fuel (PlainMacro.render segs) o false thresh fs = .ok r ∧
      r.txt = (PlainMacro.delLines (PlainMacro.segMarks [] 0 segs)).map (·.1) ∧
      r.pos = (PlainMacro.delLines (PlainMacro.segMarks [] 0 segs)).map (·.2 + 1) ∧
      r.unknowns = (PlainMacro.segUnknowns [] segs).eraseDups ∧
      r.diags = st1.diags ∧ r.parts = [] :=
  PlainMacro.tex2txt_newcommand T o fs thresh segs fuel st1 hdefs hextr hrepl hunkn hinit hok hf

/-- a concrete document satisfies the side conditions for the parser initialised from the tables
    of the current /repo -/
theorem C09_newcommand_example_current :
    PlainMacro.segsOk Generated.theTables Generated.stDefault
      [.defn "xx".toList "lorem ipsum".toList, .txt "\nAlpha ".toList, .use "xx".toList true, .txt " beta ".toList,
       .use "xx".toList false, .txt ".\n".toList] = true ∧
    PlainMacro.ncOk Generated.stDefault = true ∧ noEmptyActive Generated.theTables Generated.stDefault = true := by
  decide +kernel

end Yalafi
