/-
  Properties/C17.lean — results do not depend on what was processed before.

  The model `tex2txt` is a function of (tables, source, options, files): there is no state
  outside its arguments, so independence from the history is by construction *of the model*;
  the tie to the code is (a) `C17_globals_accounted`: every module-level mutable object and
  `global` declaration found by the AST scan of the working tree (Generated.moduleGlobals)
  is on the examined list — decided by the kernel on every run, so a new cache or
  module-level table breaks this obligation; (b) every document starts from the same parser
  state (`C17_initialState_fresh`), with the glossary inside it (since fix 777336d);
  (c) the correspondence check, whose implementation side runs hundreds of documents one
  after the other in the same interpreter and is compared with the pure model; (d) call
  sequences in one interpreter against the same calls in fresh interpreters, and request
  sequences against one `--as-server` process.
-/
import YalafiVerif.Spec.Globals
import YalafiVerif.Generated.Tables
import YalafiVerif.Model.Tex2txt
namespace Yalafi

theorem C17_globals_accounted :
    Generated.moduleGlobals.all (fun g => examinedGlobals.contains g) = true := by
  decide +kernel

/-- every function that changes a module-level mutable object in place (item assignment or a
    mutating method on a module-level dict / list / set of its own module, found by the AST scan of
    the working tree) is on the examined list: a new writer of shared state breaks this obligation -/
theorem C17_writers_accounted :
    Generated.moduleWriters.all (fun g => examinedWriters.contains g) = true := by
  decide +kernel

/-- every call starts with empty definitions, packages, unknowns, flows, glossary; the
    rotating placeholder lists are those of the tables -/
theorem C17_initialState_fresh (T : PTables) (o : Options) (multi : Bool) (fs : FS) :
    let st := initialState T o multi fs
    st.macros = [] ∧ st.envs = [] ∧ st.packages = [] ∧ st.globalOptions = [] ∧ st.unknowns = [] ∧
    st.extracted = [] ∧ st.glossary = [] ∧ st.itemStack.length = 1 ∧
    st.rots = T.langs.map (fun l => { code := l.code, inl := l.inlineRepl, disp := l.displayRepl, chg := l.langChange }) := by
  simp [initialState]

end Yalafi
