/-
  Properties/SystemMix3Stmt.lean — SYSTEM-LEVEL statements (C14) on the union grammar of TWENTY-TWO
  construct kinds (`PlainMix3`, the grammar of `C03_mix3_e2e`: the fourteen kinds of `PlainMix2` plus
  accent calls, rich inline formulas in both delimiters, `\newcommand` with parameters and uses,
  `\[…\]` and equation environments, list environments with `\item`): the filter's theorem
  `C03_mix3_e2e` COMPOSED with the shell's pipeline (`map_match_position`, the report generators, the
  HTML highlight, the sort of the matches).  The lift of `C14_flagged_word_e2e`, `C14_sorted_e2e`
  of Properties/SystemStmt.lean; proofs: Proofs/SystemWordMix3.lean.

  C14 "When the proofreader flags a word of the plain text, the shell reports it at the 1-based line
  and column, with the length, of that very word in the LaTeX file — identically in the text report,
  the JSON and XML outputs (xml-b in bytes), the HTML highlight; the reports are ordered by the
  position in the file":
    `C14_copied_run_mix3`, `C14_copied_run_footnote_mix3`   every run of character marks of the
                                    reference is a run of the output
    `C14_flagged_run_mix3_e2e`      … through the shell, for every such run that is the stretch of the
                                    file at its position (text, `\verb` content, note, title, ARGUMENT
                                    of a use where the body substitutes it)
    `C14_flagged_word_mix3_e2e`     a word of a `txt` segment (also inside groups, arguments of
                                    undeclared macros, list items, behind displayed equations)
    `C14_flagged_word_head_mix3_e2e`, `C14_flagged_word_foot_mix3_e2e`   … of a title, a footnote body
    `C14_sorted_mix3_e2e`           two flagged words are reported in the order of the file
    `…_current`, `…_example…`       instances on the tables of the current /repo, on the 17-line
                                    document `C03_mix3_doc`
-/
import YalafiVerif.Proofs.SystemWordMix3
import YalafiVerif.Properties.PlainMix3Stmt
import YalafiVerif.Generated.Init
namespace Yalafi
open SystemWord Reports Html

/-! ## every run of copied characters of the reference is a run of the output -/

/-- **`copied_run_contiguous`** on the 22-kind grammar: every run of character marks
    `some (c₀, p), some (c₁, p+1), …` of the reference (`(posText p w).map some`: the text of a
    segment, the content of `\verb`, the note of a citation, the title of a heading, an argument of a
    use at the place where the body of the definition substitutes it) whose first and last
    characters are no white space appears in the plain text as one block, and the map entries there
    are `p+1, p+2, …`. -/
theorem C14_copied_run_mix3 (T : PTables) (o : Options) (fs : FS) (thresh : Nat)
    (segs : List PlainMix3.Seg) (fuel : Nat) (st1 : PState) (repls drepls : List Str)
    (hdefs : o.defs = []) (hextr : o.extr = []) (hrepl : o.hasRepl = false) (hunkn : o.unkn = false)
    (hinit : initParser T fuel o (initialState T o false fs) = .ok ((), st1))
    (hok : PlainMix3.SegsOk T st1 repls drepls segs)
    (hf : (PlainMix3.render segs).length + PlainMix3.inserted [] 0 segs + 6 ≤ fuel)
    (A B : List PlainMacro.Mark) (p : Nat) (w : Str)
    (hmarks : PlainMix3.marks T st1 repls drepls [] st1.itemStack 0 0 0 segs
      = A ++ ((posText p w).map some ++ B))
    (hw : wordEnds w = true) :
    ∃ r, tex2txt T fuel (PlainMix3.render segs) o false thresh fs = .ok r ∧
      r.txt.length = r.pos.length ∧
      ∃ off, off + w.length ≤ r.txt.length ∧ RunAt r.pos off w.length (p + 1) ∧
        (r.txt.drop off).take w.length = w :=
  copied_run_mix3 T o fs thresh segs fuel st1 repls drepls hdefs hextr hrepl hunkn hinit hok hf A B p w
    hmarks hw

/-- … and every stretch of the detached flows with consecutive positions (a stretch of a footnote
    body) -/
theorem C14_copied_run_footnote_mix3 (T : PTables) (o : Options) (fs : FS) (thresh : Nat)
    (segs : List PlainMix3.Seg) (fuel : Nat) (st1 : PState) (repls drepls : List Str)
    (hdefs : o.defs = []) (hextr : o.extr = []) (hrepl : o.hasRepl = false) (hunkn : o.unkn = false)
    (hinit : initParser T fuel o (initialState T o false fs) = .ok ((), st1))
    (hok : PlainMix3.SegsOk T st1 repls drepls segs)
    (hf : (PlainMix3.render segs).length + PlainMix3.inserted [] 0 segs + 6 ≤ fuel)
    (F1 F2 : List (Char × Nat)) (p : Nat) (w : Str)
    (hflows : PlainMix3.flows 0 segs = F1 ++ (posText p w ++ F2)) :
    ∃ r, tex2txt T fuel (PlainMix3.render segs) o false thresh fs = .ok r ∧
      r.txt.length = r.pos.length ∧
      ∃ off, off + w.length ≤ r.txt.length ∧ RunAt r.pos off w.length (p + 1) ∧
        (r.txt.drop off).take w.length = w :=
  copied_run_flows3 T o fs thresh segs fuel st1 repls drepls hdefs hextr hrepl hunkn hinit hok hf F1 F2 p w
    hflows

/-! ## a flagged word, through filter and shell -/

/-- **a flagged word, end to end through filter and shell** (the union grammar of twenty-two
    construct kinds, hypotheses of `C03_mix3_e2e`).  Let `w` be a stretch of a text segment of the
    document (`segs = pre ++ .txt (a ++ w ++ b) :: post`) whose first and last character are no white
    space — a word or a phrase, at any depth of groups and arguments of undeclared macros, in the
    text of a list item, behind displayed equations, definitions, uses, accents —,
    `p = |render pre| + |a|`, `l = |w|`.  Then
    * `w` stands at offset `p` of the LaTeX file: `src[p … p+l) = w`;
    * `tex2txt` succeeds and `w` appears in the plain text at an offset `off` whose `l` map entries
      are `p+1, …, p+l`;
    * for EVERY plain offset `off` with these map entries (the proofreader flags this occurrence)
      and any padding of the map: `map_match_position` yields offset `p` and length `l`;
      the text report prints the line and column of the first character of `w` in the file;
      JSON `offset` / `length` are `p` / `l`; JSON `priv` and XML name (0-based) that line and
      column and the line and column of the last character of `w`; XML-b the same lines and the
      UTF-8 byte lengths of the line prefixes (all in `WordReported`); the HTML highlight is
      `src[p : p+l] = w` on that line (`HtmlWord`). -/
theorem C14_flagged_word_mix3_e2e (T : PTables) (o : Options) (fs : FS) (thresh : Nat)
    (segs : List PlainMix3.Seg) (fuel : Nat) (st1 : PState) (repls drepls : List Str)
    (hdefs : o.defs = []) (hextr : o.extr = []) (hrepl : o.hasRepl = false) (hunkn : o.unkn = false)
    (hinit : initParser T fuel o (initialState T o false fs) = .ok ((), st1))
    (hok : PlainMix3.SegsOk T st1 repls drepls segs)
    (hf : (PlainMix3.render segs).length + PlainMix3.inserted [] 0 segs + 6 ≤ fuel)
    (pre post : List PlainMix3.Seg) (a w b : Str) (hsegs : segs = pre ++ .txt (a ++ (w ++ b)) :: post)
    (hw : wordEnds w = true) :
    ((PlainMix3.render segs).drop ((PlainMix3.render pre).length + a.length)).take w.length = w ∧
    (PlainMix3.render pre).length + a.length + w.length ≤ (PlainMix3.render segs).length ∧
    ∃ r, tex2txt T fuel (PlainMix3.render segs) o false thresh fs = .ok r ∧
      r.txt.length = r.pos.length ∧
      (∃ off, off + w.length ≤ r.txt.length ∧
        RunAt r.pos off w.length ((PlainMix3.render pre).length + a.length + 1) ∧
        (r.txt.drop off).take w.length = w) ∧
      ∀ (off : Nat) (pad : List Int),
        RunAt r.pos off w.length ((PlainMix3.render pre).length + a.length + 1) →
        mapMatch (natMap r.pos ++ pad) (PlainMix3.render segs) (off : Int) (some (.int w.length))
          = .ok ((((PlainMix3.render pre).length + a.length : Nat) : Int), (w.length : Int)) ∧
        reportAll (natMap r.pos ++ pad) (PlainMix3.render segs) (off : Int) (some (.int w.length))
          = .ok (locate (PlainMix3.render segs) (((PlainMix3.render pre).length + a.length : Nat) : Int) (w.length : Int)) ∧
        WordReported (PlainMix3.render segs) ((PlainMix3.render pre).length + a.length) w.length
          (locate (PlainMix3.render segs) (((PlainMix3.render pre).length + a.length : Nat) : Int) (w.length : Int)) ∧
        ((∀ c ∈ pad, 0 ≤ c) → HtmlWord (PlainMix3.render segs) (natMap r.pos ++ pad) off w.length
          ((PlainMix3.render pre).length + a.length)) :=
  flagged_word_mix3 T o fs thresh segs fuel st1 repls drepls hdefs hextr hrepl hunkn hinit hok hf
    pre post a w b hsegs hw

/-- **every run of copied characters, through filter and shell.**  `SystemWord.FlaggedAt T o fs
    thresh fuel src p w` is the conclusion of `C14_flagged_word_mix3_e2e` for the file `src`, the
    offset `p` and the word `w` (the word stands at `p` in the file; `tex2txt` succeeds; the word is a
    run of the output with the map entries `p+1 …`; every flagged occurrence with these map entries is
    reported at offset `p`, length `|w|`, with the line and column of the word in the file, in all
    formats, and highlighted in the HTML report).  It holds for EVERY run of character marks of the
    reference (`hmarks`) with visible ends that does not start with a backslash and IS the stretch of
    the file at its position (`hsrc`, decidable): text, `\verb` contents, notes of citations, titles,
    arguments of uses of user macros where the body substitutes them. -/
theorem C14_flagged_run_mix3_e2e (T : PTables) (o : Options) (fs : FS) (thresh : Nat)
    (segs : List PlainMix3.Seg) (fuel : Nat) (st1 : PState) (repls drepls : List Str)
    (hdefs : o.defs = []) (hextr : o.extr = []) (hrepl : o.hasRepl = false) (hunkn : o.unkn = false)
    (hinit : initParser T fuel o (initialState T o false fs) = .ok ((), st1))
    (hok : PlainMix3.SegsOk T st1 repls drepls segs)
    (hf : (PlainMix3.render segs).length + PlainMix3.inserted [] 0 segs + 6 ≤ fuel)
    (A B : List PlainMacro.Mark) (p : Nat) (w : Str)
    (hmarks : PlainMix3.marks T st1 repls drepls [] st1.itemStack 0 0 0 segs
      = A ++ ((posText p w).map some ++ B))
    (hw : wordEnds w = true) (hbs : w.head? ≠ some '\\')
    (hsrc : ((PlainMix3.render segs).drop p).take w.length = w) :
    FlaggedAt T o fs thresh fuel (PlainMix3.render segs) p w :=
  flagged_run_mix3 T o fs thresh segs fuel st1 repls drepls hdefs hextr hrepl hunkn hinit hok hf A B p w
    hmarks hw hbs hsrc

/-- **a flagged word of the title of a heading** `\name{a w b}`: `FlaggedAt` (the conclusion of
    `C14_flagged_word_mix3_e2e`) at the offset `|render pre| + |name| + 2 + |a|` of `w` in the file -/
theorem C14_flagged_word_head_mix3_e2e (T : PTables) (o : Options) (fs : FS) (thresh : Nat)
    (segs : List PlainMix3.Seg) (fuel : Nat) (st1 : PState) (repls drepls : List Str)
    (hdefs : o.defs = []) (hextr : o.extr = []) (hrepl : o.hasRepl = false) (hunkn : o.unkn = false)
    (hinit : initParser T fuel o (initialState T o false fs) = .ok ((), st1))
    (hok : PlainMix3.SegsOk T st1 repls drepls segs)
    (hf : (PlainMix3.render segs).length + PlainMix3.inserted [] 0 segs + 6 ≤ fuel)
    (pre post : List PlainMix3.Seg) (name a w b : Str)
    (hsegs : segs = pre ++ .head name (a ++ (w ++ b)) :: post)
    (hw : wordEnds w = true) :
    FlaggedAt T o fs thresh fuel (PlainMix3.render segs)
      ((PlainMix3.render pre).length + name.length + 2 + a.length) w :=
  flagged_word_head3 T o fs thresh segs fuel st1 repls drepls hdefs hextr hrepl hunkn hinit hok hf
    pre post name a w b hsegs hw

/-- **a flagged word of a footnote body** `\footnote{a w b}` (the body is moved behind the main
    text; its characters keep their own positions): `FlaggedAt` at the offset
    `|render pre| + 10 + |a|` of `w` in the file -/
theorem C14_flagged_word_foot_mix3_e2e (T : PTables) (o : Options) (fs : FS) (thresh : Nat)
    (segs : List PlainMix3.Seg) (fuel : Nat) (st1 : PState) (repls drepls : List Str)
    (hdefs : o.defs = []) (hextr : o.extr = []) (hrepl : o.hasRepl = false) (hunkn : o.unkn = false)
    (hinit : initParser T fuel o (initialState T o false fs) = .ok ((), st1))
    (hok : PlainMix3.SegsOk T st1 repls drepls segs)
    (hf : (PlainMix3.render segs).length + PlainMix3.inserted [] 0 segs + 6 ≤ fuel)
    (pre post : List PlainMix3.Seg) (a w b : Str)
    (hsegs : segs = pre ++ .foot (a ++ (w ++ b)) :: post)
    (hne : w ≠ []) :
    FlaggedAt T o fs thresh fuel (PlainMix3.render segs)
      ((PlainMix3.render pre).length + 10 + a.length) w :=
  flagged_word_foot3 T o fs thresh segs fuel st1 repls drepls hdefs hextr hrepl hunkn hinit hok hf
    pre post a w b hsegs hne

/-! ## (C) the reports are ordered by the position in the file -/

/-- **two flagged words are reported in the order of the file** (the 22-kind union grammar).  Two
    words of text segments, the first one standing first in the file: both appear in the plain text,
    and whenever the proofreader flags them (matches `m1`, `m2` anywhere in its answer `ms`, offsets
    with the map entries of the words), the shell's sort puts `m1` in front of `m2`. -/
theorem C14_sorted_mix3_e2e (T : PTables) (o : Options) (fs : FS) (thresh : Nat)
    (segs : List PlainMix3.Seg) (fuel : Nat) (st1 : PState) (repls drepls : List Str)
    (hdefs : o.defs = []) (hextr : o.extr = []) (hrepl : o.hasRepl = false) (hunkn : o.unkn = false)
    (hinit : initParser T fuel o (initialState T o false fs) = .ok ((), st1))
    (hok : PlainMix3.SegsOk T st1 repls drepls segs)
    (hf : (PlainMix3.render segs).length + PlainMix3.inserted [] 0 segs + 6 ≤ fuel)
    (pre1 post1 : List PlainMix3.Seg) (a1 w1 b1 : Str) (hsegs1 : segs = pre1 ++ .txt (a1 ++ (w1 ++ b1)) :: post1)
    (pre2 post2 : List PlainMix3.Seg) (a2 w2 b2 : Str) (hsegs2 : segs = pre2 ++ .txt (a2 ++ (w2 ++ b2)) :: post2)
    (hw1 : wordEnds w1 = true) (hw2 : wordEnds w2 = true)
    (hlt : (PlainMix3.render pre1).length + a1.length < (PlainMix3.render pre2).length + a2.length) :
    ∃ r, tex2txt T fuel (PlainMix3.render segs) o false thresh fs = .ok r ∧
      (∃ off1 off2, RunAt r.pos off1 w1.length ((PlainMix3.render pre1).length + a1.length + 1) ∧
        RunAt r.pos off2 w2.length ((PlainMix3.render pre2).length + a2.length + 1)) ∧
      ∀ (pad : List Int) (ms out : List RawMatch) (m1 m2 : RawMatch) (off1 off2 : Nat),
        sortMatches (natMap r.pos ++ pad) ms = .ok out → m1 ∈ ms → m2 ∈ ms →
        m1.offset = (off1 : Int) → m2.offset = (off2 : Int) →
        RunAt r.pos off1 w1.length ((PlainMix3.render pre1).length + a1.length + 1) →
        RunAt r.pos off2 w2.length ((PlainMix3.render pre2).length + a2.length + 1) →
        ∃ X Y Z, out = X ++ m1 :: (Y ++ m2 :: Z) :=
  sorted_words_mix3 T o fs thresh segs fuel st1 repls drepls hdefs hextr hrepl hunkn hinit hok hf
    pre1 post1 a1 w1 b1 hsegs1 pre2 post2 a2 w2 b2 hsegs2 hw1 hw2 hlt

/-! ## instances on the tables of the current /repo -/

/-- `C14_flagged_word_mix3_e2e` for the CURRENT code (tables translated from /repo, default options,
    parser initialisation evaluated by the kernel), the map padded as the shell pads it -/
theorem C14_flagged_word_mix3_e2e_current (segs : List PlainMix3.Seg) (repls drepls : List Str) (thresh : Nat)
    (hok : PlainMix3.SegsOk Generated.theTables Generated.stDefault repls drepls segs)
    (hf : (PlainMix3.render segs).length + PlainMix3.inserted [] 0 segs + 6 ≤ Generated.bigFuel)
    (pre post : List PlainMix3.Seg) (a w b : Str) (hsegs : segs = pre ++ .txt (a ++ (w ++ b)) :: post)
    (hw : wordEnds w = true) :
    ((PlainMix3.render segs).drop ((PlainMix3.render pre).length + a.length)).take w.length = w ∧
    ∃ r, tex2txt Generated.theTables Generated.bigFuel (PlainMix3.render segs) Generated.defaultOptions
          false thresh [] = .ok r ∧
      (∃ off, off + w.length ≤ r.txt.length ∧
        RunAt r.pos off w.length ((PlainMix3.render pre).length + a.length + 1) ∧
        (r.txt.drop off).take w.length = w) ∧
      ∀ (off : Nat), RunAt r.pos off w.length ((PlainMix3.render pre).length + a.length + 1) →
        reportAll (natMap r.pos ++ shellPad r.pos) (PlainMix3.render segs) (off : Int) (some (.int w.length))
          = .ok (locate (PlainMix3.render segs) (((PlainMix3.render pre).length + a.length : Nat) : Int) (w.length : Int)) ∧
        WordReported (PlainMix3.render segs) ((PlainMix3.render pre).length + a.length) w.length
          (locate (PlainMix3.render segs) (((PlainMix3.render pre).length + a.length : Nat) : Int) (w.length : Int)) ∧
        HtmlWord (PlainMix3.render segs) (natMap r.pos ++ shellPad r.pos) off w.length
          ((PlainMix3.render pre).length + a.length) := by
  obtain ⟨h1, _, r, h3, h4, h5, h6⟩ := C14_flagged_word_mix3_e2e Generated.theTables Generated.defaultOptions []
    thresh segs Generated.bigFuel Generated.stDefault repls drepls rfl rfl rfl rfl Generated.initParser_default
    hok hf pre post a w b hsegs hw
  refine ⟨h1, r, h3, h5, ?_⟩
  intro off hrun
  obtain ⟨_, b2, b3, b4⟩ := h6 off (shellPad r.pos) hrun
  refine ⟨b2, b3, b4 ?_⟩
  have hp : r.pos ≠ [] := by
    obtain ⟨off', hle, _, _⟩ := h5
    obtain ⟨⟨c, cs, hc, _⟩, _⟩ := wordEnds_facts hw
    intro he
    have h0 : r.txt.length = 0 := by rw [h4, he]; rfl
    have hwl : 1 ≤ w.length := by rw [hc]; simp
    omega
  exact fun c hc => (shellPad_mem r.pos hp c hc).2

/-- `C14_sorted_mix3_e2e` for the CURRENT code -/
theorem C14_sorted_mix3_e2e_current (segs : List PlainMix3.Seg) (repls drepls : List Str) (thresh : Nat)
    (hok : PlainMix3.SegsOk Generated.theTables Generated.stDefault repls drepls segs)
    (hf : (PlainMix3.render segs).length + PlainMix3.inserted [] 0 segs + 6 ≤ Generated.bigFuel)
    (pre1 post1 : List PlainMix3.Seg) (a1 w1 b1 : Str) (hsegs1 : segs = pre1 ++ .txt (a1 ++ (w1 ++ b1)) :: post1)
    (pre2 post2 : List PlainMix3.Seg) (a2 w2 b2 : Str) (hsegs2 : segs = pre2 ++ .txt (a2 ++ (w2 ++ b2)) :: post2)
    (hw1 : wordEnds w1 = true) (hw2 : wordEnds w2 = true)
    (hlt : (PlainMix3.render pre1).length + a1.length < (PlainMix3.render pre2).length + a2.length) :
    ∃ r, tex2txt Generated.theTables Generated.bigFuel (PlainMix3.render segs) Generated.defaultOptions
          false thresh [] = .ok r ∧
      (∃ off1 off2, RunAt r.pos off1 w1.length ((PlainMix3.render pre1).length + a1.length + 1) ∧
        RunAt r.pos off2 w2.length ((PlainMix3.render pre2).length + a2.length + 1)) ∧
      ∀ (ms out : List RawMatch) (m1 m2 : RawMatch) (off1 off2 : Nat),
        sortMatches (natMap r.pos ++ shellPad r.pos) ms = .ok out → m1 ∈ ms → m2 ∈ ms →
        m1.offset = (off1 : Int) → m2.offset = (off2 : Int) →
        RunAt r.pos off1 w1.length ((PlainMix3.render pre1).length + a1.length + 1) →
        RunAt r.pos off2 w2.length ((PlainMix3.render pre2).length + a2.length + 1) →
        ∃ X Y Z, out = X ++ m1 :: (Y ++ m2 :: Z) := by
  obtain ⟨r, h1, h2, h3⟩ := C14_sorted_mix3_e2e Generated.theTables Generated.defaultOptions [] thresh segs
    Generated.bigFuel Generated.stDefault repls drepls rfl rfl rfl rfl Generated.initParser_default hok hf
    pre1 post1 a1 w1 b1 hsegs1 pre2 post2 a2 w2 b2 hsegs2 hw1 hw2 hlt
  exact ⟨r, h1, h2, fun ms out m1 m2 o1 o2 => h3 (shellPad r.pos) ms out m1 m2 o1 o2⟩

/-- the 17-line document `C03_mix3_doc` of Properties/PlainMix3Stmt.lean, the word `inner` (the text
    of the `\item` of an `itemize` nested in an `enumerate`, behind two displayed equations, a
    definition and four uses): the side conditions of the theorem hold — the document is
    `pre ++ .txt ("" ++ "inner" ++ "\n") :: post` with `|render pre| = 436`; and the word `more`
    behind the displayed equation `\[ a+b = c. \]`: `pre' ++ .txt ("\n" ++ "more" ++ " ") :: post'`
    with `|render pre'| + 1 = 334` -/
theorem C14_flagged_word_mix3_example_current :
    PlainMix3.SegsOk Generated.theTables Generated.stDefault C03_mix3_repls C03_mix3_drepls C03_mix3_doc ∧
    (PlainMix3.render C03_mix3_doc).length + PlainMix3.inserted [] 0 C03_mix3_doc + 6 ≤ Generated.bigFuel ∧
    C03_mix3_doc = C03_mix3_doc.take 63 ++ .txt ([] ++ ("inner".toList ++ "\n".toList)) :: C03_mix3_doc.drop 64 ∧
    wordEnds "inner".toList = true ∧
    (PlainMix3.render (C03_mix3_doc.take 63)).length + ([] : Str).length = 436 ∧
    C03_mix3_doc = C03_mix3_doc.take 51 ++ .txt ("\n".toList ++ ("more".toList ++ " ".toList)) :: C03_mix3_doc.drop 52 ∧
    wordEnds "more".toList = true ∧
    (PlainMix3.render (C03_mix3_doc.take 51)).length + "\n".toList.length = 334 := by
  decide +kernel

/-- … so the theorem says about it (no evaluation of the filter, only of `locate` on the source):
    `inner` appears in the plain text, and wherever the proofreader flags five characters whose map
    entries are `437 … 441`, the shell reports line 11, column 7, length 5 in all formats (source
    line 11 is `\item inner`) -/
theorem C14_flagged_word_mix3_example :
    ∃ r, tex2txt Generated.theTables Generated.bigFuel (PlainMix3.render C03_mix3_doc)
          Generated.defaultOptions false 0 [] = .ok r ∧
      (∃ off, RunAt r.pos off 5 437 ∧ (r.txt.drop off).take 5 = "inner".toList) ∧
      ∀ (off : Nat), RunAt r.pos off 5 437 →
        reportAll (natMap r.pos ++ shellPad r.pos) (PlainMix3.render C03_mix3_doc) (off : Int) (some (.int 5))
          = .ok { offset := 436, length := 5, lin := 11, col := 7, json := ⟨10, 6, 10, 11⟩,
                  xml := ⟨10, 6, 10, 11⟩, xmlb := ⟨10, 6, 10, 11⟩ } := by
  obtain ⟨hok, hfuel, hsegs, hw, hp, _⟩ := C14_flagged_word_mix3_example_current
  obtain ⟨_, r, h1, ⟨off, _, h2, h3⟩, h4⟩ := C14_flagged_word_mix3_e2e_current C03_mix3_doc C03_mix3_repls
    C03_mix3_drepls 0 hok hfuel _ _ _ _ _ hsegs hw
  rw [hp] at h2 h4
  have hl : "inner".toList.length = 5 := rfl
  rw [hl] at h2 h3 h4
  have hloc : locate (PlainMix3.render C03_mix3_doc) ((436 : Nat) : Int) ((5 : Nat) : Int)
      = { offset := 436, length := 5, lin := 11, col := 7, json := ⟨10, 6, 10, 11⟩,
          xml := ⟨10, 6, 10, 11⟩, xmlb := ⟨10, 6, 10, 11⟩ } := by decide +kernel
  refine ⟨r, h1, ⟨off, h2, h3⟩, ?_⟩
  intro off' hrun
  have := (h4 off' hrun).1
  rw [hloc] at this
  exact this

/-- … and (C) for `more` (file offset 334) and `inner` (file offset 436): whatever the order of the
    proofreader's answer, `more` is reported first -/
theorem C14_sorted_mix3_example :
    ∃ r, tex2txt Generated.theTables Generated.bigFuel (PlainMix3.render C03_mix3_doc)
          Generated.defaultOptions false 0 [] = .ok r ∧
      (∃ off1 off2, RunAt r.pos off1 4 335 ∧ RunAt r.pos off2 5 437) ∧
      ∀ (ms out : List RawMatch) (m1 m2 : RawMatch) (off1 off2 : Nat),
        sortMatches (natMap r.pos ++ shellPad r.pos) ms = .ok out → m1 ∈ ms → m2 ∈ ms →
        m1.offset = (off1 : Int) → m2.offset = (off2 : Int) →
        RunAt r.pos off1 4 335 → RunAt r.pos off2 5 437 →
        ∃ X Y Z, out = X ++ m1 :: (Y ++ m2 :: Z) := by
  obtain ⟨hok, hfuel, hsegs2, hw2, hp2, hsegs1, hw1, hp1⟩ := C14_flagged_word_mix3_example_current
  have h := C14_sorted_mix3_e2e_current C03_mix3_doc C03_mix3_repls C03_mix3_drepls 0 hok hfuel
    _ _ _ _ _ hsegs1 _ _ _ _ _ hsegs2 hw1 hw2 (by rw [hp1, hp2]; decide)
  rw [hp1, hp2] at h
  exact h

/-- … and the whole pipeline evaluated by the kernel: `tex2txt`, the shell's padding,
    `map_match_position`, the generators, for the proofreader's answers "offset 184, length 5" (the
    word `inner` in the plain text `… 1. one (p, q)\n  inner\n 2. two E-E-E …`), "offset 153, length
    4" (`more`, behind the first displayed equation), "offset 219, length 5" (`note.` in the footnote
    body, which stands at the END of the plain text), "offset 8, length 5" (`Intro`, the title of the
    heading) and "offset 115, length 2" (`bc`, the second argument of `\pair{a}{bc}`, which the body
    `(#1, #2)` of the definition substitutes).  Source line 11 is `\item inner` (`inner` at column 7,
    offset 436); line 7 is `more \begin{equation}= z,\end{equation}` (`more` at column 1, offset 334);
    `note.` stands at line 4, column 146 (offset 208); `Intro` at line 3, column 10 (offset 56);
    `bc` at line 5, column 45 (offset 280).  The HTML highlight of the first answer is `src[436:441]`
    on line 11 (0-based 10). -/
theorem C14_flagged_word_mix3_example_eval :
    (match tex2txt Generated.theTables Generated.bigFuel (PlainMix3.render C03_mix3_doc)
        Generated.defaultOptions false 0 [] with
     | .ok r =>
       (r.txt.drop 184).take 5 == "inner".toList && decide (RunAt r.pos 184 5 437) &&
       (r.txt.drop 153).take 4 == "more".toList && decide (RunAt r.pos 153 4 335) &&
       (r.txt.drop 219).take 5 == "note.".toList && decide (RunAt r.pos 219 5 209) &&
       (r.txt.drop 8).take 5 == "Intro".toList && decide (RunAt r.pos 8 5 57) &&
       (r.txt.drop 115).take 2 == "bc".toList && decide (RunAt r.pos 115 2 281) &&
       (match reportAll (natMap r.pos ++ shellPad r.pos) (PlainMix3.render C03_mix3_doc) 184 (some (.int 5)),
              reportAll (natMap r.pos ++ shellPad r.pos) (PlainMix3.render C03_mix3_doc) 153 (some (.int 4)),
              reportAll (natMap r.pos ++ shellPad r.pos) (PlainMix3.render C03_mix3_doc) 219 (some (.int 5)),
              reportAll (natMap r.pos ++ shellPad r.pos) (PlainMix3.render C03_mix3_doc) 8 (some (.int 5)),
              reportAll (natMap r.pos ++ shellPad r.pos) (PlainMix3.render C03_mix3_doc) 115 (some (.int 2)),
              computeH Generated.theTables.toTables (PlainMix3.render C03_mix3_doc)
                (natMap r.pos ++ shellPad r.pos) 0 184 5 with
        | .ok L1, .ok L2, .ok L3, .ok L4, .ok L5, .ok h =>
          L1 == { offset := 436, length := 5, lin := 11, col := 7, json := ⟨10, 6, 10, 11⟩,
                  xml := ⟨10, 6, 10, 11⟩, xmlb := ⟨10, 6, 10, 11⟩ } &&
          L2 == { offset := 334, length := 4, lin := 7, col := 1, json := ⟨6, 0, 6, 4⟩,
                  xml := ⟨6, 0, 6, 4⟩, xmlb := ⟨6, 0, 6, 4⟩ } &&
          L3 == { offset := 208, length := 5, lin := 4, col := 146, json := ⟨3, 145, 3, 150⟩,
                  xml := ⟨3, 145, 3, 150⟩, xmlb := ⟨3, 145, 3, 150⟩ } &&
          L4 == { offset := 56, length := 5, lin := 3, col := 10, json := ⟨2, 9, 2, 14⟩,
                  xml := ⟨2, 9, 2, 14⟩, xmlb := ⟨2, 9, 2, 14⟩ } &&
          L5 == { offset := 280, length := 2, lin := 5, col := 45, json := ⟨4, 44, 4, 46⟩,
                  xml := ⟨4, 44, 4, 46⟩, xmlb := ⟨4, 44, 4, 46⟩ } &&
          h == { idx := 0, unsure := false, beg := 436, fin := 441, beglin := 10, endlin := 11, lin := 10 } &&
          slice (PlainMix3.render C03_mix3_doc) 436 441 == "inner".toList
        | _, _, _, _, _, _ => false)
     | _ => false) = true := by
  decide +kernel

/-- (C) on the same document: the proofreader answers `note.` (plain offset 219, file offset 208),
    `inner` (plain offset 184, file offset 436) and `more` (plain offset 153, file offset 334) in this
    order; the shell's sort reports the footnote word first, then `more`, then `inner` — the order
    of the file, not of the plain text -/
theorem C14_sorted_mix3_example_eval :
    (match tex2txt Generated.theTables Generated.bigFuel (PlainMix3.render C03_mix3_doc)
        Generated.defaultOptions false 0 [] with
     | .ok r =>
       (match sortMatches (natMap r.pos ++ shellPad r.pos)
                [{ offset := 219, rest := .null }, { offset := 184, rest := .null },
                 { offset := 153, rest := .null }] with
        | .ok out => out.map (·.offset) == [219, 153, 184]
        | _ => false)
     | _ => false) = true := by
  decide +kernel

/-- the footnote word, the title word and the argument `bc` of `\pair{a}{bc}` of the same document:
    the hypotheses of `C14_flagged_word_foot_mix3_e2e`, `C14_flagged_word_head_mix3_e2e` and
    `C14_flagged_run_mix3_e2e` hold (the marks of `bc` are the marks 146 and 147 of the reference) -/
theorem C14_flagged_extra_mix3_example_current :
    (C03_mix3_doc = C03_mix3_doc.take 27 ++ .foot ("A ".toList ++ ("note.".toList ++ [])) :: C03_mix3_doc.drop 28 ∧
      (PlainMix3.render (C03_mix3_doc.take 27)).length + 10 + "A ".toList.length = 208) ∧
    (C03_mix3_doc = C03_mix3_doc.take 4 ++ .head "section".toList ([] ++ ("Intro".toList ++ [])) :: C03_mix3_doc.drop 5 ∧
      wordEnds "Intro".toList = true ∧
      (PlainMix3.render (C03_mix3_doc.take 4)).length + "section".toList.length + 2 + ([] : Str).length = 56) ∧
    (PlainMix3.marks Generated.theTables Generated.stDefault C03_mix3_repls C03_mix3_drepls []
        Generated.stDefault.itemStack 0 0 0 C03_mix3_doc
      = (PlainMix3.marks Generated.theTables Generated.stDefault C03_mix3_repls C03_mix3_drepls []
          Generated.stDefault.itemStack 0 0 0 C03_mix3_doc).take 146
        ++ ((posText 280 "bc".toList).map some
          ++ (PlainMix3.marks Generated.theTables Generated.stDefault C03_mix3_repls C03_mix3_drepls []
              Generated.stDefault.itemStack 0 0 0 C03_mix3_doc).drop 148) ∧
      wordEnds "bc".toList = true ∧
      ((PlainMix3.render C03_mix3_doc).drop 280).take "bc".toList.length = "bc".toList) := by
  decide +kernel

/-- … so the three theorems apply: `FlaggedAt` for `note.` at file offset 208, `Intro` at 56, `bc`
    at 280 -/
theorem C14_flagged_extra_mix3_example :
    FlaggedAt Generated.theTables Generated.defaultOptions [] 0 Generated.bigFuel
      (PlainMix3.render C03_mix3_doc) 208 "note.".toList ∧
    FlaggedAt Generated.theTables Generated.defaultOptions [] 0 Generated.bigFuel
      (PlainMix3.render C03_mix3_doc) 56 "Intro".toList ∧
    FlaggedAt Generated.theTables Generated.defaultOptions [] 0 Generated.bigFuel
      (PlainMix3.render C03_mix3_doc) 280 "bc".toList := by
  obtain ⟨hok, hfuel, _⟩ := C14_flagged_word_mix3_example_current
  obtain ⟨⟨f1, f2⟩, ⟨g1, g2, g3⟩, ⟨u1, u2, u3⟩⟩ := C14_flagged_extra_mix3_example_current
  refine ⟨?_, ?_, ?_⟩
  · have := C14_flagged_word_foot_mix3_e2e Generated.theTables Generated.defaultOptions [] 0 C03_mix3_doc
      Generated.bigFuel Generated.stDefault C03_mix3_repls C03_mix3_drepls rfl rfl rfl rfl
      Generated.initParser_default hok hfuel _ _ _ _ _ f1 (by decide)
    rw [f2] at this
    exact this
  · have := C14_flagged_word_head_mix3_e2e Generated.theTables Generated.defaultOptions [] 0 C03_mix3_doc
      Generated.bigFuel Generated.stDefault C03_mix3_repls C03_mix3_drepls rfl rfl rfl rfl
      Generated.initParser_default hok hfuel _ _ _ _ _ _ g1 g2
    rw [g3] at this
    exact this
  · exact C14_flagged_run_mix3_e2e Generated.theTables Generated.defaultOptions [] 0 C03_mix3_doc
      Generated.bigFuel Generated.stDefault C03_mix3_repls C03_mix3_drepls rfl rfl rfl rfl
      Generated.initParser_default hok hfuel _ _ 280 _ u1 u2 (by decide) u3

end Yalafi
