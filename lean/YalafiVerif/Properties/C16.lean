/-
  Properties/C16.lean — HTML report: content cannot break the markup.

  Proved (all strings): `protect_html` leaves no double quote, and `<`/`>` occur exactly once
  per line break of the input (the `<br>` the report uses for line ends) — so neither source
  text nor messages nor suggestions can open a tag or close an attribute; escaping
  distributes over concatenation (the report is assembled piecewise).  Region grouping,
  overlap handling, per-line highlight spans and line numbers are checked on reports parsed
  with `html.parser` for generated files and match sets.
-/
import YalafiVerif.Proofs.Shell
namespace Yalafi

theorem C16_protect_no_quote (s : Str) : '"' ∉ protectHtml s := protectHtml_no_quote s

theorem C16_protect_lt_count (s : Str) :
    (protectHtml s).count '<' = s.count '\n' ∧ (protectHtml s).count '>' = s.count '\n' :=
  protectHtml_lt_count s

theorem C16_protect_append (a b : Str) : protectHtml (a ++ b) = protectHtml a ++ protectHtml b :=
  protectHtml_append a b

end Yalafi
