/-
  Properties/C16.lean — HTML report: faithful source, each match once, content cannot break the markup.

  Proved for ALL texts, position maps, match lists and contexts (no bound):

  1. Escaping (all strings): `protect_html` leaves no double quote, and `<`/`>` occur exactly once
     per line break of the input (the `<br>` the report uses for line ends) — so neither source
     text nor messages nor suggestions can open a tag or close an attribute; escaping
     distributes over concatenation (the report is assembled piecewise).

  2. Structure of the report (`Html.generateHtml`, Model/Html.lean = `generate_html` with every
     highlight tag abstracted to an opaque piece `hi i text`; tied to the Python function by the
     differential test harness/corr_html.py, driver operation HTML):
     * `C16_region_text` — the cells of a region, plain and highlighted in order, are exactly the
       source slice `tex[starts[beglin] : starts[endlin]]` = the lines `beglin … endlin-1`; no
       character lost, none shown twice, whatever overlaps there are (an overlapping match
       contributes no piece).  Needs: the text ends in a line break (`EndsNl`; `proofreader.py`
       appends one before the report is made).  NOT needed: sorted matches, a sane position map.
       `C16_region_text_needs_final_newline` shows by evaluation that the claim fails for a text
       without final line break (its last line has no line start behind it and is cut off after
       the match).
     * `C16_line_numbers` — the numbers of a region are `beglin, …, endlin-1` and the separator
       `-1`, one per table row (rows = tagged characters of the pieces split at the line breaks,
       as `protect_html`/`generate_highlight`/`add_line_numbers` do with `<br>\n`).
     * `C16_rows` — cut at the line breaks the cells of a region are the source lines
       `beglin … endlin-1` in this order plus one empty row for the separator: row `j` shows line
       `beglin + j` beside the number `beglin + j`.  `C16_no_problems`: without a match the report
       shows the first `context` lines, numbered from 0.
     * `C16_each_match_once` — every index `i < len(matches)` occurs exactly once in the
       highlights in place of all regions together with the list of overlapping messages (so:
       in exactly one region or in the list, never both, never twice), no other index occurs;
       `C16_highlight_text` / `C16_overlap_text` — the highlighted text is `tex[h.beg:h.end]`
       for the data `h` the first loop computes from match `i`, an overlapping message carries the
       line `h.lin + 1`.  `C16_no_overlaps` — matches that do not overlap (mapped spans in file
       order, `h.end ≤ h'.beg`) are all highlighted in place: the list of overlapping messages
       is used only for real overlaps or matches out of order.
     * `C16_regions_ordered` — a region ends before or where the next one begins (lines), by
       construction of the grouping; no hypothesis (in particular no sortedness: `shell.py` hands
       over matches sorted by position, but the grouping compares every new match with the complete
       last region).  `C16_regions_disjoint` — if the position map has no entry 0 (the filter's
       positions are 1-based; Python would read `tex[-1]` for one) every region has
       `beglin ≤ endlin` and any two regions are disjoint: no source line is shown twice.
     * `C16_whole_file`, `C16_whole_file_negative` — with a context of at least as many lines as
       the file has (what `shell.py` makes of a negative `--context`: 10^8) and at least one
       match there is ONE region, lines `0 … N-1`, whose cells are the whole file.
     Only results `.ok` are spoken of: the function ends in the shell's error exit (`fatal`) for an
     offset/length outside the plain text, and raises IndexError (`crash`) if the position map
     points behind the end of the file — both are outcomes of the model, compared with Python.

  Not proved here, checked on real reports parsed with `html.parser` (harness/props/C16.py): the
  tag a highlight becomes (title attribute with message, rule, suggestions, context; `--link`), the
  page frame, the index of several files.
-/
import YalafiVerif.Proofs.Shell
import YalafiVerif.Proofs.Html
import YalafiVerif.Generated.Tables
namespace Yalafi
open Html

theorem C16_protect_no_quote (s : Str) : '"' ∉ protectHtml s := protectHtml_no_quote s

theorem C16_protect_lt_count (s : Str) :
    (protectHtml s).count '<' = s.count '\n' ∧ (protectHtml s).count '>' = s.count '\n' :=
  protectHtml_lt_count s

theorem C16_protect_append (a b : Str) : protectHtml (a ++ b) = protectHtml a ++ protectHtml b :=
  protectHtml_append a b

/-- (a) For a text that ends in a line break: the concatenated texts of the pieces of every region
    are the source slice from the begin of line `beglin` to the begin of line `endlin`. -/
theorem C16_region_text (T : Tables) (tex : Str) (charmap : List Int) (ms : List (Int × Int)) (context : Nat)
    (rep : Report) (hnl : EndsNl tex) (hok : generateHtml T tex charmap ms context = .ok rep) :
    ∀ r ∈ rep.regions,
      r.text = slice tex ((getLineStarts tex).getD r.beglin 0) ((getLineStarts tex).getD r.endlin 0) :=
  region_text T tex charmap ms context rep hnl hok

/-- (b) line numbers `beglin … endlin-1`, then the separator; as many numbers as table rows -/
theorem C16_line_numbers (T : Tables) (tex : Str) (charmap : List Int) (ms : List (Int × Int)) (context : Nat)
    (rep : Report) (hnl : EndsNl tex) (hok : generateHtml T tex charmap ms context = .ok rep) :
    ∀ r ∈ rep.regions,
      r.lineNumbers = (List.range' r.beglin (r.endlin - r.beglin)).map Int.ofNat ++ [-1] ∧
      r.rows.length = r.lineNumbers.length :=
  region_line_numbers T tex charmap ms context rep hnl hok

/-- (b') the rows of a region show the source lines `beglin … endlin-1` in this order (each without its
    line break), then one empty row — the separator that carries the number `-1` -/
theorem C16_rows (T : Tables) (tex : Str) (charmap : List Int) (ms : List (Int × Int)) (context : Nat)
    (rep : Report) (hnl : EndsNl tex) (hok : generateHtml T tex charmap ms context = .ok rep) :
    ∀ r ∈ rep.regions,
      r.rowTexts = (List.range' r.beglin (r.endlin - r.beglin)).map (Html.lineOf tex) ++ [[]] :=
  region_rows T tex charmap ms context rep hnl hok

/-- no match: the first `context` lines, numbered from 0, one row per line (any text) -/
theorem C16_no_problems (T : Tables) (tex : Str) (charmap : List Int) (context : Nat) :
    ∃ txt, generateHtml T tex charmap [] context
        = .ok (Report.mk [] [] (some (txt, (List.range (min context (tex.count '\n'))).map Int.ofNat))) ∧
      firstRows txt = (List.range (min context (tex.count '\n'))).map (Html.lineOf tex) :=
  no_problems T tex charmap context

/-- (c) every match exactly once, in place or in the list of overlapping messages -/
theorem C16_each_match_once (T : Tables) (tex : Str) (charmap : List Int) (ms : List (Int × Int)) (context : Nat)
    (rep : Report) (hok : generateHtml T tex charmap ms context = .ok rep) (i : Nat) :
    (rep.hiIdx ++ rep.ovIdx).count i = if i < ms.length then 1 else 0 :=
  each_match_once T tex charmap ms context rep hok i

/-- (c) the highlighted text is the source span of the match -/
theorem C16_highlight_text (T : Tables) (tex : Str) (charmap : List Int) (ms : List (Int × Int)) (context : Nat)
    (rep : Report) (hok : generateHtml T tex charmap ms context = .ok rep) :
    ∀ r ∈ rep.regions, ∀ i s, Piece.hi i s ∈ r.pieces →
      ∃ m h, ms[i]? = some m ∧ computeH T tex charmap i m.1 m.2 = .ok h ∧ 0 ≤ h.beg ∧
        s = slice tex h.beg.toNat h.fin :=
  hi_text T tex charmap ms context rep hok

theorem C16_overlap_text (T : Tables) (tex : Str) (charmap : List Int) (ms : List (Int × Int)) (context : Nat)
    (rep : Report) (hok : generateHtml T tex charmap ms context = .ok rep) :
    ∀ o ∈ rep.overlaps,
      ∃ m h, ms[o.idx]? = some m ∧ computeH T tex charmap o.idx m.1 m.2 = .ok h ∧
        o.lin = h.lin + 1 ∧ o.text = sliceI tex h.beg h.fin :=
  overlap_text T tex charmap ms context rep hok

/-- (c') matches that follow each other in the file without overlapping (`h.end ≤ h'.beg` for the mapped
    data of consecutive matches; map without entry 0) are all highlighted in place, in the order
    of the matches; the list of overlapping messages is empty -/
theorem C16_no_overlaps (T : Tables) (tex : Str) (charmap : List Int) (ms : List (Int × Int)) (context : Nat)
    (rep : Report) (hcm : ∀ c ∈ charmap, c ≠ 0) (hok : generateHtml T tex charmap ms context = .ok rep)
    (hd : Html.Disjoint rep.hdata) :
    rep.overlaps = [] ∧ rep.hiIdx = List.range ms.length :=
  no_overlaps T tex charmap ms context rep hcm hok hd

/-- (d) the regions follow each other without overlapping in lines -/
theorem C16_regions_ordered (T : Tables) (tex : Str) (charmap : List Int) (ms : List (Int × Int)) (context : Nat)
    (rep : Report) (hok : generateHtml T tex charmap ms context = .ok rep) (k : Nat)
    (hk : k + 1 < rep.regions.length) :
    rep.regions[k].endlin ≤ rep.regions[k + 1].beglin :=
  regions_ordered T tex charmap ms context rep hok k hk

/-- (d') for a position map without the entry 0 (positions are 1-based) every region begins in front
    of its end and ANY two regions are disjoint in lines: no source line is shown twice -/
theorem C16_regions_disjoint (T : Tables) (tex : Str) (charmap : List Int) (ms : List (Int × Int)) (context : Nat)
    (rep : Report) (hcm : ∀ c ∈ charmap, c ≠ 0) (hok : generateHtml T tex charmap ms context = .ok rep) :
    (∀ r ∈ rep.regions, r.beglin ≤ r.endlin) ∧
    rep.regions.Pairwise (fun r r' => r.endlin ≤ r'.beglin) :=
  regions_disjoint T tex charmap ms context rep hcm hok

/-- (e) a context of at least the number of lines of the file: one region = the whole file -/
theorem C16_whole_file (T : Tables) (tex : Str) (charmap : List Int) (ms : List (Int × Int)) (context : Nat)
    (rep : Report) (hnl : EndsNl tex) (hctx : tex.count '\n' ≤ context) (hms : ms ≠ [])
    (hok : generateHtml T tex charmap ms context = .ok rep) :
    ∃ r, rep.regions = [r] ∧ r.beglin = 0 ∧ r.endlin = tex.count '\n' ∧ r.text = tex ∧
      r.lineNumbers = (List.range (tex.count '\n')).map Int.ofNat ++ [-1] ∧ rep.first = none :=
  whole_file T tex charmap ms context rep hnl hctx hms hok

/-- (e) `--context -1` as `shell.py` normalises it, for files of at most 10^8 lines -/
theorem C16_whole_file_negative (T : Tables) (tex : Str) (charmap : List Int) (ms : List (Int × Int)) (c : Int)
    (rep : Report) (hc : c < 0) (hnl : EndsNl tex) (hsize : tex.count '\n' ≤ 100000000) (hms : ms ≠ [])
    (hok : generateHtml T tex charmap ms (normContext c) = .ok rep) :
    ∃ r, rep.regions = [r] ∧ r.beglin = 0 ∧ r.endlin = tex.count '\n' ∧ r.text = tex ∧
      r.lineNumbers = (List.range (tex.count '\n')).map Int.ofNat ++ [-1] ∧ rep.first = none :=
  whole_file_negative T tex charmap ms c rep hc hnl hsize hms hok

/-! ### non-vacuity on the real tables: a file of four lines, three matches, the second overlaps the first -/

namespace C16ex
def T : Tables := Generated.theTables.toTables
def tex : Str := "ab \\emph{x}\ncd <e>\n\nlast \"line\"\n".toList
/-- the identity map `1 … len`, padded as the shell pads a part -/
def charmap : List Int := (List.range (tex.length + 2)).map (fun i => ((min (i + 1) tex.length : Nat) : Int))
def ms : List (Int × Int) := [(0, 2), (1, 4), (20, 4)]

def report0 : Report :=
  { hdata := [{ idx := 0, unsure := false, beg := 0, fin := 2, beglin := 0, endlin := 1, lin := 0 },
              { idx := 1, unsure := false, beg := 1, fin := 5, beglin := 0, endlin := 1, lin := 0 },
              { idx := 2, unsure := false, beg := 20, fin := 24, beglin := 3, endlin := 4, lin := 3 }],
    regions := [{ beglin := 0, endlin := 1,
                  pieces := [.plain [], .hi 0 "ab".toList, .plain " \\emph{x}\n".toList],
                  lineNumbers := [0, -1],
                  overlaps := [{ idx := 1, lin := 1, text := "b \\e".toList }] },
                { beglin := 3, endlin := 4,
                  pieces := [.plain [], .hi 2 "last".toList, .plain " \"line\"\n".toList],
                  lineNumbers := [3, -1],
                  overlaps := [] }],
    first := none }

theorem ends : EndsNl tex := by decide
/-- context 0: two regions, match 1 in the list of overlapping messages -/
theorem run0 : generateHtml T tex charmap ms 0 = .ok report0 := by decide +kernel

example : report0.hiIdx = [0, 2] ∧ report0.ovIdx = [1] := by decide
example : (report0.regions.map Region.text) = ["ab \\emph{x}\n".toList, "last \"line\"\n".toList] := by decide
example : (report0.regions.map (fun r => r.rows.length)) = [2, 2] := by decide
example : (report0.regions.map Region.rowTexts) = [["ab \\emph{x}".toList, []], ["last \"line\"".toList, []]] := by decide
example : Html.lineOf tex 3 = "last \"line\"".toList ∧ Html.lineOf tex 2 = [] := by decide

/-- the theorems apply to it -/
example : ∀ i, (report0.hiIdx ++ report0.ovIdx).count i = if i < 3 then 1 else 0 :=
  fun i => C16_each_match_once T tex charmap ms 0 report0 run0 i
example := C16_region_text T tex charmap ms 0 report0 ends run0
example := C16_line_numbers T tex charmap ms 0 report0 ends run0

/-- `C16_no_overlaps` is not vacuous: report0 has the two disjoint matches 0 and 2 … -/
example : Html.Disjoint [report0.hdata[0], report0.hdata[2]] := ⟨by decide, trivial⟩
/-- … and match 1 overlaps match 0 -/
example : ¬ Html.Disjoint report0.hdata := fun h => absurd h.1 (by decide)
example : (generateHtml T tex charmap [(0, 2), (20, 4)] 0).bind (fun r => .ok (r.hiIdx, r.ovIdx, r.regions.length))
    = .ok ([0, 1], [], 2) := by decide +kernel

/-- negative context: one region with all four lines -/
theorem runNeg : (generateHtml T tex charmap ms (normContext (-1))).bind
      (fun r => .ok (r.regions.map (fun g => (g.beglin, g.endlin, g.lineNumbers, decide (g.text = tex)))))
    = .ok [(0, 4, [0, 1, 2, 3, -1], true)] := by decide +kernel

/-- unsure positions (negative map entries): one character, extended to the end of the word
    for a letter (`last`), a single character otherwise -/
example : (generateHtml T tex (charmap.map (fun x => -x)) ms 0).bind
      (fun r => .ok (r.hdata.map (fun h => (h.unsure, h.beg, h.fin))))
    = .ok [(true, 0, 2), (true, 1, 2), (true, 20, 24)] := by decide +kernel

/-- offsets outside the plain text: the shell's error exit; a map that points behind the file: IndexError -/
example : generateHtml T tex charmap [(40, 1)] 0 = .fatal := by decide +kernel
example : generateHtml T tex [99, 99, 99] [(0, 1)] 0 = .crash "genhtml.py:generate_html" := by decide +kernel
end C16ex

/-- `C16_region_text` needs the final line break: in `a⏎bc` with a match on `b` the region shows `b`
    alone — the slice of its lines is empty (there is no line start behind the last line), the `c`
    is not shown at all.  (`proofreader.py` never hands over such a text.) -/
theorem C16_region_text_needs_final_newline :
    ¬ EndsNl "a\nbc".toList ∧
    (generateHtml C16ex.T "a\nbc".toList [1, 2, 3, 4, 4, 4] [(2, 1)] 0).bind
      (fun r => .ok (r.regions.map (fun g => (g.text, slice "a\nbc".toList
          ((getLineStarts "a\nbc".toList).getD g.beglin 0) ((getLineStarts "a\nbc".toList).getD g.endlin 0)))))
      = .ok [("b".toList, [])] := by
  constructor
  · decide
  · decide +kernel

end Yalafi
