/-
  Properties/C16.lean — HTML report: faithful source, each match once, content cannot break the markup.

  Proved for ALL texts, position maps, match lists and contexts (no bound):

  1. Escaping (all strings): `protect_html` leaves no double quote, and `<`/`>` occur exactly once
     per line break of the input (the `<br>` the report uses for line ends) — so neither source
     text nor messages nor suggestions can open a tag or close an attribute; escaping
     distributes over concatenation (the report is assembled piecewise).

  2. Structure of the report (`Html.generateHtml`, Model/Html.lean = `generate_html` with every
     highlight tag abstracted to an opaque piece `hi i text`; tied to the Python function by the
     differential test harness/corr_html.py, driver operation HTML):
     * `C16_region_text` — the cells of a region, plain and highlighted in order, are exactly the
       source slice `tex[starts[beglin] : starts[endlin]]` = the lines `beglin … endlin-1`; no
       character lost, none shown twice, whatever overlaps there are (an overlapping match
       contributes no piece).  Needs: the text ends in a line break (`EndsNl`; `proofreader.py`
       appends one before the report is made).  NOT needed: sorted matches, a sane position map.
       `C16_region_text_needs_final_newline` shows by evaluation that the claim fails for a text
       without final line break (its last line has no line start behind it and is cut off after
       the match).
     * `C16_line_numbers` — the numbers of a region are `beglin, …, endlin-1` and the separator
       `-1`, one per table row (rows = tagged characters of the pieces split at the line breaks,
       as `protect_html`/`generate_highlight`/`add_line_numbers` do with `<br>\n`).
     * `C16_rows` — cut at the line breaks the cells of a region are the source lines
       `beglin … endlin-1` in this order plus one empty row for the separator: row `j` shows line
       `beglin + j` beside the number `beglin + j`.  `C16_no_problems`: without a match the report
       shows the first `context` lines, numbered from 0.
     * `C16_each_match_once` — every index `i < len(matches)` occurs exactly once in the
       highlights in place of all regions together with the list of overlapping messages (so:
       in exactly one region or in the list, never both, never twice), no other index occurs;
       `C16_highlight_text` / `C16_overlap_text` — the highlighted text is `tex[h.beg:h.end]`
       for the data `h` the first loop computes from match `i`, an overlapping message carries the
       line `h.lin + 1`.  `C16_no_overlaps` — matches that do not overlap (mapped spans in file
       order, `h.end ≤ h'.beg`) are all highlighted in place: the list of overlapping messages
       is used only for real overlaps or matches out of order.
     * `C16_regions_ordered` — a region ends before or where the next one begins (lines), by
       construction of the grouping; no hypothesis (in particular no sortedness: `shell.py` hands
       over matches sorted by position, but the grouping compares every new match with the complete
       last region).  `C16_regions_disjoint` — if the position map has no entry 0 (the filter's
       positions are 1-based; Python would read `tex[-1]` for one) every region has
       `beglin ≤ endlin` and any two regions are disjoint: no source line is shown twice.
     * `C16_whole_file`, `C16_whole_file_negative` — with a context of at least as many lines as
       the file has (what `shell.py` makes of a negative `--context`: 10^8) and at least one
       match there is ONE region, lines `0 … N-1`, whose cells are the whole file.
     Only results `.ok` are spoken of: the function ends in the shell's error exit (`fatal`) for an
     offset/length outside the plain text, and raises IndexError (`crash`) if the position map
     points behind the end of the file — both are outcomes of the model, compared with Python.

  3. The text of the report (`HtmlText.generateHtmlText`, Model/HtmlText.lean = the strings that
     `begin_match`, `generate_highlight`, `add_line_numbers` and `generate_html` really build, regular
     expression included; tied to the Python functions by the differential test
     harness/corr_htmltext.py, driver operations BEGINMATCH, HIGHLIGHT, ADDLINES, HTMLTEXT, BRMATCHES,
     ESCAPES; the structure of item 2 is what it is composed with).  Data = source text, proofreader
     message, rule id/subId, suggestions, context text, rule URL.
     * `C16_title_safe` — the `title="…"` value of the tag of a match is a concatenation of
       `protect_title` images and of the program's literals `\n`, `Suggestion: `, `Context: `; it
       contains no `"`, `<`, `>`, and exactly three line breaks — the program's own: no line break of
       the data survives (`&#10;`), so the page is never split inside a tag by `add_line_numbers`.
       `C16_href_safe` — the `href` value of `--link` is an `html.escape` image: no `"`, `'`, `<`, `>`.
     * `C16_tags_from_templates` — for style strings of `vars` without `"` and `<` (`VarsOk`; the real
       ones: `C16ex.varsOk`) and a file name without `"` (the ONLY data written unescaped:
       `<a id="FILE">`, `<a href="#FILE-@@@">`; `C16ex.file_name_becomes_markup` shows what a hostile
       file name does): the page text of one file is `renderPieces (reportPieces …)`, an explicit list
       of pieces in which every literal is one of the 27 string constants of `genhtml.py`, a style
       string or a decimal number (`AllOk`), every `protect_html` image stands in text and every
       `protect_title`/`html.escape` image inside a double-quoted attribute value (`flow`); the page
       ends in text (no tag or attribute left open).  Hence the tags of the page (`tagsOf`: a
       conservative tokenizer — every `<` in text opens a tag, attribute values are left out) are a
       function of the literals and of the NUMBER of line breaks of each text piece (`skel`): any other
       data of the same shape, e.g. all data characters except line breaks replaced by `x`
       (`TPiece.blank`), gives the same tags.  No `<`, `>`, `&`, `"` of source, messages or suggestions
       becomes markup.
     * `C16_text_roundtrip` — reading the entities back (`unprotect`: `&amp; &quot; &lt; &gt; &ensp;`
       and `<br>` + line break) gives the text with every tab replaced by eight blanks; exactly the text
       if it has no tab (`C16_text_roundtrip_no_tab`).  Not invertible: a tab and eight blanks have the
       same image (`C16_tab_not_invertible`).  With `C16_rows`: the cells show the source lines.
     * `C16_highlight_pieces` — `generate_highlight` (its regular expression modelled on arbitrary
       strings, `brMatches`) puts one tag pair around every line piece of the protected text — the
       lines of the text, the rest behind the last line break only if not empty —, what stands between
       a tag pair has no line break and no `<`, `>`, `"`, and without the tags the result is
       `protect_html(text)`.
     A defect of /repo the model records (not part of C16's claim): `begin_match` reads the global
     `highlight_style_unsure`, which `genhtml.init` never sets — a match at an unsure position
     (negative map entry) would end the HTML report with NameError (`Vars.highlightStyleUnsure = none`
     in the model: `crash`; `C16ex.unsure_crashes`).  Latent: the filter's position map has natural
     numbers only (`T2TResult.pos : List Nat` in Model/Tex2txt.lean), the shell never hands over a
     negative entry.

  Not proved here, checked on real reports parsed with `html.parser` (harness/props/C16.py): the
  page frame and the index of several files (`generate_html_report`; the index writes the file name
  unescaped into `href`).
-/
import YalafiVerif.Proofs.Shell
import YalafiVerif.Proofs.Html
import YalafiVerif.Proofs.HtmlText
import YalafiVerif.Generated.Tables
namespace Yalafi
open Html

theorem C16_protect_no_quote (s : Str) : '"' ∉ protectHtml s := protectHtml_no_quote s

theorem C16_protect_lt_count (s : Str) :
    (protectHtml s).count '<' = s.count '\n' ∧ (protectHtml s).count '>' = s.count '\n' :=
  protectHtml_lt_count s

theorem C16_protect_append (a b : Str) : protectHtml (a ++ b) = protectHtml a ++ protectHtml b :=
  protectHtml_append a b

/-- (a) For a text that ends in a line break: the concatenated texts of the pieces of every region
    are the source slice from the begin of line `beglin` to the begin of line `endlin`. -/
theorem C16_region_text (T : Tables) (tex : Str) (charmap : List Int) (ms : List (Int × Int)) (context : Nat)
    (rep : Report) (hnl : EndsNl tex) (hok : generateHtml T tex charmap ms context = .ok rep) :
    ∀ r ∈ rep.regions,
      r.text = slice tex ((getLineStarts tex).getD r.beglin 0) ((getLineStarts tex).getD r.endlin 0) :=
  region_text T tex charmap ms context rep hnl hok

/-- (b) line numbers `beglin … endlin-1`, then the separator; as many numbers as table rows -/
theorem C16_line_numbers (T : Tables) (tex : Str) (charmap : List Int) (ms : List (Int × Int)) (context : Nat)
    (rep : Report) (hnl : EndsNl tex) (hok : generateHtml T tex charmap ms context = .ok rep) :
    ∀ r ∈ rep.regions,
      r.lineNumbers = (List.range' r.beglin (r.endlin - r.beglin)).map Int.ofNat ++ [-1] ∧
      r.rows.length = r.lineNumbers.length :=
  region_line_numbers T tex charmap ms context rep hnl hok

/-- (b') the rows of a region show the source lines `beglin … endlin-1` in this order (each without its
    line break), then one empty row — the separator that carries the number `-1` -/
theorem C16_rows (T : Tables) (tex : Str) (charmap : List Int) (ms : List (Int × Int)) (context : Nat)
    (rep : Report) (hnl : EndsNl tex) (hok : generateHtml T tex charmap ms context = .ok rep) :
    ∀ r ∈ rep.regions,
      r.rowTexts = (List.range' r.beglin (r.endlin - r.beglin)).map (Html.lineOf tex) ++ [[]] :=
  region_rows T tex charmap ms context rep hnl hok

/-- no match: the first `context` lines, numbered from 0, one row per line (any text) -/
theorem C16_no_problems (T : Tables) (tex : Str) (charmap : List Int) (context : Nat) :
    ∃ txt, generateHtml T tex charmap [] context
        = .ok (Report.mk [] [] (some (txt, (List.range (min context (tex.count '\n'))).map Int.ofNat))) ∧
      firstRows txt = (List.range (min context (tex.count '\n'))).map (Html.lineOf tex) :=
  no_problems T tex charmap context

/-- (c) every match exactly once, in place or in the list of overlapping messages -/
theorem C16_each_match_once (T : Tables) (tex : Str) (charmap : List Int) (ms : List (Int × Int)) (context : Nat)
    (rep : Report) (hok : generateHtml T tex charmap ms context = .ok rep) (i : Nat) :
    (rep.hiIdx ++ rep.ovIdx).count i = if i < ms.length then 1 else 0 :=
  each_match_once T tex charmap ms context rep hok i

/-- (c) the highlighted text is the source span of the match -/
theorem C16_highlight_text (T : Tables) (tex : Str) (charmap : List Int) (ms : List (Int × Int)) (context : Nat)
    (rep : Report) (hok : generateHtml T tex charmap ms context = .ok rep) :
    ∀ r ∈ rep.regions, ∀ i s, Piece.hi i s ∈ r.pieces →
      ∃ m h, ms[i]? = some m ∧ computeH T tex charmap i m.1 m.2 = .ok h ∧ 0 ≤ h.beg ∧
        s = slice tex h.beg.toNat h.fin :=
  hi_text T tex charmap ms context rep hok

theorem C16_overlap_text (T : Tables) (tex : Str) (charmap : List Int) (ms : List (Int × Int)) (context : Nat)
    (rep : Report) (hok : generateHtml T tex charmap ms context = .ok rep) :
    ∀ o ∈ rep.overlaps,
      ∃ m h, ms[o.idx]? = some m ∧ computeH T tex charmap o.idx m.1 m.2 = .ok h ∧
        o.lin = h.lin + 1 ∧ o.text = sliceI tex h.beg h.fin :=
  overlap_text T tex charmap ms context rep hok

/-- (c') matches that follow each other in the file without overlapping (`h.end ≤ h'.beg` for the mapped
    data of consecutive matches; map without entry 0) are all highlighted in place, in the order
    of the matches; the list of overlapping messages is empty -/
theorem C16_no_overlaps (T : Tables) (tex : Str) (charmap : List Int) (ms : List (Int × Int)) (context : Nat)
    (rep : Report) (hcm : ∀ c ∈ charmap, c ≠ 0) (hok : generateHtml T tex charmap ms context = .ok rep)
    (hd : Html.Disjoint rep.hdata) :
    rep.overlaps = [] ∧ rep.hiIdx = List.range ms.length :=
  no_overlaps T tex charmap ms context rep hcm hok hd

/-- (d) the regions follow each other without overlapping in lines -/
theorem C16_regions_ordered (T : Tables) (tex : Str) (charmap : List Int) (ms : List (Int × Int)) (context : Nat)
    (rep : Report) (hok : generateHtml T tex charmap ms context = .ok rep) (k : Nat)
    (hk : k + 1 < rep.regions.length) :
    rep.regions[k].endlin ≤ rep.regions[k + 1].beglin :=
  regions_ordered T tex charmap ms context rep hok k hk

/-- (d') for a position map without the entry 0 (positions are 1-based) every region begins in front
    of its end and ANY two regions are disjoint in lines: no source line is shown twice -/
theorem C16_regions_disjoint (T : Tables) (tex : Str) (charmap : List Int) (ms : List (Int × Int)) (context : Nat)
    (rep : Report) (hcm : ∀ c ∈ charmap, c ≠ 0) (hok : generateHtml T tex charmap ms context = .ok rep) :
    (∀ r ∈ rep.regions, r.beglin ≤ r.endlin) ∧
    rep.regions.Pairwise (fun r r' => r.endlin ≤ r'.beglin) :=
  regions_disjoint T tex charmap ms context rep hcm hok

/-- (e) a context of at least the number of lines of the file: one region = the whole file -/
theorem C16_whole_file (T : Tables) (tex : Str) (charmap : List Int) (ms : List (Int × Int)) (context : Nat)
    (rep : Report) (hnl : EndsNl tex) (hctx : tex.count '\n' ≤ context) (hms : ms ≠ [])
    (hok : generateHtml T tex charmap ms context = .ok rep) :
    ∃ r, rep.regions = [r] ∧ r.beglin = 0 ∧ r.endlin = tex.count '\n' ∧ r.text = tex ∧
      r.lineNumbers = (List.range (tex.count '\n')).map Int.ofNat ++ [-1] ∧ rep.first = none :=
  whole_file T tex charmap ms context rep hnl hctx hms hok

/-- (e) `--context -1` as `shell.py` normalises it, for files of at most 10^8 lines -/
theorem C16_whole_file_negative (T : Tables) (tex : Str) (charmap : List Int) (ms : List (Int × Int)) (c : Int)
    (rep : Report) (hc : c < 0) (hnl : EndsNl tex) (hsize : tex.count '\n' ≤ 100000000) (hms : ms ≠ [])
    (hok : generateHtml T tex charmap ms (normContext c) = .ok rep) :
    ∃ r, rep.regions = [r] ∧ r.beglin = 0 ∧ r.endlin = tex.count '\n' ∧ r.text = tex ∧
      r.lineNumbers = (List.range (tex.count '\n')).map Int.ofNat ++ [-1] ∧ rep.first = none :=
  whole_file_negative T tex charmap ms c rep hc hnl hsize hms hok

/-! ### non-vacuity on the real tables: a file of four lines, three matches, the second overlaps the first -/

namespace C16ex
def T : Tables := Generated.theTables.toTables
def tex : Str := "ab \\emph{x}\ncd <e>\n\nlast \"line\"\n".toList
/-- the identity map `1 … len`, padded as the shell pads a part -/
def charmap : List Int := (List.range (tex.length + 2)).map (fun i => ((min (i + 1) tex.length : Nat) : Int))
def ms : List (Int × Int) := [(0, 2), (1, 4), (20, 4)]

def report0 : Report :=
  { hdata := [{ idx := 0, unsure := false, beg := 0, fin := 2, beglin := 0, endlin := 1, lin := 0 },
              { idx := 1, unsure := false, beg := 1, fin := 5, beglin := 0, endlin := 1, lin := 0 },
              { idx := 2, unsure := false, beg := 20, fin := 24, beglin := 3, endlin := 4, lin := 3 }],
    regions := [{ beglin := 0, endlin := 1,
                  pieces := [.plain [], .hi 0 "ab".toList, .plain " \\emph{x}\n".toList],
                  lineNumbers := [0, -1],
                  overlaps := [{ idx := 1, lin := 1, text := "b \\e".toList }] },
                { beglin := 3, endlin := 4,
                  pieces := [.plain [], .hi 2 "last".toList, .plain " \"line\"\n".toList],
                  lineNumbers := [3, -1],
                  overlaps := [] }],
    first := none }

theorem ends : EndsNl tex := by decide
/-- context 0: two regions, match 1 in the list of overlapping messages -/
theorem run0 : generateHtml T tex charmap ms 0 = .ok report0 := by decide +kernel

example : report0.hiIdx = [0, 2] ∧ report0.ovIdx = [1] := by decide
example : (report0.regions.map Region.text) = ["ab \\emph{x}\n".toList, "last \"line\"\n".toList] := by decide
example : (report0.regions.map (fun r => r.rows.length)) = [2, 2] := by decide
example : (report0.regions.map Region.rowTexts) = [["ab \\emph{x}".toList, []], ["last \"line\"".toList, []]] := by decide
example : Html.lineOf tex 3 = "last \"line\"".toList ∧ Html.lineOf tex 2 = [] := by decide

/-- the theorems apply to it -/
example : ∀ i, (report0.hiIdx ++ report0.ovIdx).count i = if i < 3 then 1 else 0 :=
  fun i => C16_each_match_once T tex charmap ms 0 report0 run0 i
example := C16_region_text T tex charmap ms 0 report0 ends run0
example := C16_line_numbers T tex charmap ms 0 report0 ends run0

/-- `C16_no_overlaps` is not vacuous: report0 has the two disjoint matches 0 and 2 … -/
example : Html.Disjoint [report0.hdata[0], report0.hdata[2]] := ⟨by decide, trivial⟩
/-- … and match 1 overlaps match 0 -/
example : ¬ Html.Disjoint report0.hdata := fun h => absurd h.1 (by decide)
example : (generateHtml T tex charmap [(0, 2), (20, 4)] 0).bind (fun r => .ok (r.hiIdx, r.ovIdx, r.regions.length))
    = .ok ([0, 1], [], 2) := by decide +kernel

/-- negative context: one region with all four lines -/
theorem runNeg : (generateHtml T tex charmap ms (normContext (-1))).bind
      (fun r => .ok (r.regions.map (fun g => (g.beglin, g.endlin, g.lineNumbers, decide (g.text = tex)))))
    = .ok [(0, 4, [0, 1, 2, 3, -1], true)] := by decide +kernel

/-- unsure positions (negative map entries): one character, extended to the end of the word
    for a letter (`last`), a single character otherwise -/
example : (generateHtml T tex (charmap.map (fun x => -x)) ms 0).bind
      (fun r => .ok (r.hdata.map (fun h => (h.unsure, h.beg, h.fin))))
    = .ok [(true, 0, 2), (true, 1, 2), (true, 20, 24)] := by decide +kernel

/-- offsets outside the plain text: the shell's error exit; a map that points behind the file: IndexError -/
example : generateHtml T tex charmap [(40, 1)] 0 = .fatal := by decide +kernel
example : generateHtml T tex [99, 99, 99] [(0, 1)] 0 = .crash "genhtml.py:generate_html" := by decide +kernel
end C16ex

/-! ### the text of the report -/
section Text
open HtmlText

/-- a `protect_title` image: no double quote, no `<`, no `>`, no line break -/
theorem C16_protect_title_chars (s : Str) :
    ∀ c ∈ protectTitle s, c ≠ '"' ∧ c ≠ '<' ∧ c ≠ '>' ∧ c ≠ '\n' := protectTitle_safe s

/-- (a) whatever message, rule, suggestions and context the proofreader sends: the tag `begin_match` builds
    is `<span style="STYLE" title="` + title + `">` (+ the link tag), the title consists of `protect_title`
    images and the three literals; its value has no `"`, `<`, `>` and exactly the program's three line breaks -/
theorem C16_title_safe (V : Vars) (m : Json) (lin : Int) (unsure : Bool) (t : Tag)
    (h : beginMatch V m lin unsure = .ok t) :
    ∃ d style url, matchData m = .ok d ∧
      t.1 = spanOpen style (titlePieces d lin unsure) ++ linkOpen url ∧ t.2 = linkClose url ∧
      (∀ p ∈ titlePieces d lin unsure,
          (∃ s, p = .escTitle s) ∨ p = L "\n" ∨ p = L "Suggestion: " ∨ p = L "Context: ") ∧
      (∀ c ∈ renderPieces (titlePieces d lin unsure), c ≠ '"' ∧ c ≠ '<' ∧ c ≠ '>') ∧
      (renderPieces (titlePieces d lin unsure)).count '\n' = 3 :=
  title_safe V m lin unsure t h

/-- (a) the link tag of `--link`: the URL goes through `html.escape`, whose image has no quote of either
    kind, no `<`, no `>` -/
theorem C16_href_safe (u : Str) :
    linkOpen (some u) = [L "<a href=\"", .escAttr u, L "\" target=\"_blank\">"] ∧
    ∀ c ∈ htmlEscape u, c ≠ '"' ∧ c ≠ '<' ∧ c ≠ '>' ∧ c ≠ '\'' :=
  href_safe u

/-- (b) the page text of one file: pieces whose literals are the program's templates, all data escaped and
    placed in text resp. inside a double-quoted attribute value; the tags of the page are determined by the
    literals and the numbers of line breaks — independent of the content of source, messages, suggestions -/
theorem C16_tags_from_templates (T : Tables) (V : Vars) (tex : Str) (charmap : List Int) (ms : List Json) (file : Str)
    (context : Nat) (r : FileReport) (hV : VarsOk V) (hf : file.all (· != '"') = true)
    (h : generateHtmlText T V tex charmap ms file context = .ok r) :
    ∃ rep tags, generateHtml T tex charmap (olPrefix ms) context = .ok rep ∧ matchTags V ms rep.hdata = .ok tags ∧
      r.body = renderPieces (reportPieces V file ms.length rep tags) ∧
      AllOk V file (reportPieces V file ms.length rep tags) ∧
      flow .text (reportPieces V file ms.length rep tags) = some .text ∧
      HtmlText.scan TokSt.text r.body = (TokSt.text, skel TokSt.text (reportPieces V file ms.length rep tags)) ∧
      (∀ qs, qs.map TPiece.shape = (reportPieces V file ms.length rep tags).map TPiece.shape →
        tagsOf (renderPieces qs) = tagsOf r.body) ∧
      tagsOf (renderPieces ((reportPieces V file ms.length rep tags).map TPiece.blank)) = tagsOf r.body :=
  tags_from_templates T V tex charmap ms file context r hV hf h

/-- (b) the general fact behind it: well-placed pieces of the same shape have the same tags -/
theorem C16_tags_shape (ps qs : List TPiece) (st' : TokSt) (h : flow .text ps = some st')
    (hs : qs.map TPiece.shape = ps.map TPiece.shape) : tagsOf (renderPieces qs) = tagsOf (renderPieces ps) :=
  tagsOf_shape ps qs st' h hs

/-- (c) reading the entities back gives the text, tabs as eight blanks -/
theorem C16_text_roundtrip (s : Str) : unprotect (protectHtml s) = untab s := unprotect_protectHtml s

theorem C16_text_roundtrip_no_tab (s : Str) (h : '\t' ∉ s) : unprotect (protectHtml s) = s := by
  rw [unprotect_protectHtml, untab_id s h]

/-- (c) what is lost: a tab and eight blanks are shown alike -/
theorem C16_tab_not_invertible : protectHtml ['\t'] = protectHtml (List.replicate 8 ' ') := by decide

/-- (d) `generate_highlight` -/
theorem C16_highlight_pieces (pre post s : Str) :
    highlightWith pre post s = (hlLines s).flatMap (fun l => pre ++ protectHtml l.1 ++ post ++ brGroup2 l.2) ∧
    (∀ l ∈ hlLines s, '\n' ∉ l.1 ∧ ∀ c ∈ protectHtml l.1, c ≠ '<' ∧ c ≠ '>' ∧ c ≠ '\n' ∧ c ≠ '"') ∧
    joinLines (hlLines s) = s ∧
    ((hlLines s).filter (·.2)).length = s.count '\n' ∧
    (∃ (ls : List Str) (last : Str),
        hlLines s = ls.map (fun l => (l, true)) ++ (if last.isEmpty then [] else [(last, false)])) ∧
    highlightWith [] [] s = protectHtml s :=
  highlight_pieces pre post s

/-- (d) the function with its tag: `pre` = the rendered tag of `begin_match`, `post` = `</a>`? + `</span>` -/
theorem C16_generate_highlight (V : Vars) (m : Json) (s : Str) (lin : Int) (unsure : Bool) (out : Str)
    (h : generateHighlight V m s lin unsure = .ok out) :
    ∃ t, beginMatch V m lin unsure = .ok t ∧ out = highlightWith (Tag.pre t) (Tag.post t) s :=
  generateHighlight_ok V m s lin unsure out h

/-- (d) the regular expression on a protected text finds its lines -/
theorem C16_regex_on_protected (s : Str) :
    brMatches (protectHtml s) = (hlLines s).map (fun l => (protectHtml l.1, l.2)) := brMatches_protectHtml s

/-- the regular expression on the three kinds of string: nothing for the empty string, no empty match behind
    a final `<br>\n`, one match for a string without `<br>\n`; a lone `<br` or `<br>` is text -/
example : brMatches [] = [] := by decide
example : brMatches "a<br>\n".toList = [("a".toList, true)] := by decide
example : brMatches "ab".toList = [("ab".toList, false)] := by decide
example : brMatches "<br>\n<br>\nx<br<br>y".toList = [([], true), ([], true), ("x<br<br>y".toList, false)] := by decide

end Text

namespace C16ex
open HtmlText

/-- the style strings of `shell.py` (and `--link`) -/
def V : Vars :=
  { highlightStyle := "background: orange; border: solid thin black".toList,
    highlightStyleUnsure := some "background: yellow; border: solid thin black".toList,
    numberStyle := "color: grey".toList, link := true }

theorem varsOk : VarsOk V :=
  ⟨by decide, fun s h => by
      have h' : some "background: yellow; border: solid thin black".toList = some s := h
      cases h'; decide, by decide⟩

def hostile : Str := "x\"><script>alert(1)</script>".toList

/-- a proofreader message whose every text field is hostile -/
def mrec (offset length : Int) : Json :=
  .obj [("offset".toList, .int offset), ("length".toList, .int length), ("message".toList, .str hostile),
        ("context".toList, .obj [("text".toList, .str "ab <e> \"q\"\n".toList), ("offset".toList, .int 3),
                                 ("length".toList, .int 3)]),
        ("rule".toList, .obj [("id".toList, .str "R<1>".toList), ("subId".toList, .str "\"2".toList),
                              ("urls".toList, .arr [.obj [("value".toList, .str "http://x/?a=1&b=\"'><script>".toList)]])]),
        ("replacements".toList, .arr [.obj [("value".toList, .str "</span>".toList)],
                                      .obj [("value".toList, .str "a\nb".toList)]])]

theorem hostile_title : protectTitle hostile = "x&quot;&gt;&lt;script&gt;alert(1)&lt;/script&gt;".toList := by decide

/-- the tag of the hostile message.  As it is written (`#eval`):
    `<span style="background: orange; border: solid thin black" title="x&quot;&gt;&lt;script&gt;alert(1)&lt;/script&gt;⏎`
    `Line&ensp;1:&ensp;&gt;&gt;&gt;&lt;e&gt;&lt;&lt;&lt;&ensp;&ensp;&ensp;&ensp;(Rule&ensp;ID:&ensp;R&lt;1&gt;[&quot;2])⏎`
    `Suggestion: &lt;/span&gt;;&ensp;a&#10;b⏎Context: ab&ensp;&gt;&gt;&gt;&lt;e&gt;&lt;&lt;&lt;&ensp;&quot;q&quot;&#10;">`
    `<a href="http://x/?a=1&amp;b=&quot;&#x27;&gt;&lt;script&gt;" target="_blank">`.
    Checked here: its only `<`, `>`, `"` are those of the two templates (2, 2, 8), its line breaks the three of the
    title, its tokens one `span` and one `a`; the closing part is `</a>`. -/
theorem hostile_tag :
    (beginMatch V (mrec 0 2) 1 false).bind (fun t => .ok
      [(renderPieces t.1).count '<', (renderPieces t.1).count '>', (renderPieces t.1).count '"',
       (renderPieces t.1).count '\n'])
    = .ok [2, 2, 8, 3] := by decide +kernel

theorem hostile_tag_tokens :
    (beginMatch V (mrec 0 2) 1 false).bind (fun t => .ok (tagsOf (renderPieces t.1) ++ [renderPieces t.2]))
    = .ok ["<span style=\"\" title=\"\">".toList, "<a href=\"\" target=\"\">".toList, "</a>".toList] := by
  decide +kernel

def strs (l : List String) : List Str := l.map String.toList

def rowTags : List String :=
  ["<tr>", "<td style=\"\" align=\"\" valign=\"\">", "</td>", "<td>", "<span style=\"\" title=\"\">",
   "<a href=\"\" target=\"\">", "</a>", "</span>", "</td>", "</tr>"]
def emptyRowTags : List String := ["<tr>", "<td style=\"\" align=\"\" valign=\"\">", "</td>", "<td>", "</td>", "</tr>"]

/-- the report of the file of `run0` with three hostile messages (the second one overlapping): its tags are the
    templates' — anchor, title, link to the overlapping messages, a table of four rows (two with a highlight),
    the table of overlapping messages with one row -/
theorem hostile_report :
    (generateHtmlText T V tex charmap [mrec 0 2, mrec 1 4, mrec 20 4] "d.tex".toList 0).bind
      (fun r => .ok (tagsOf r.body))
    = .ok (strs (["<a id=\"\">", "</a>", "<H3>", "</H3>", "<a href=\"\">", "<H3>", "</H3>", "</a>", "<table cellspacing=\"\">"]
           ++ rowTags ++ emptyRowTags ++ rowTags ++ emptyRowTags ++
           ["</table>", "<a id=\"\">", "</a>", "<H3>", "</H3>", "<table cellspacing=\"\">",
            "<tr>", "<td style=\"\" align=\"\" valign=\"\">", "</td>", "<td>", "<span style=\"\" title=\"\">",
            "<a href=\"\" target=\"\">", "</a>", "</span>", "</td>", "</tr>", "</table>"])) := by decide +kernel

/-- the theorem applies: the side conditions hold for the real style strings and this file name -/
example (r : FileReport) (h : generateHtmlText T V tex charmap [mrec 0 2, mrec 1 4, mrec 20 4] "d.tex".toList 0 = .ok r) :=
  C16_tags_from_templates T V tex charmap _ _ 0 r varsOk (by decide) h

/-- the side condition on the file name is needed: the file name is written as it is -/
theorem file_name_becomes_markup :
    (generateHtmlText T V tex charmap [] "a\"><script>".toList 0).bind
      (fun r => .ok (tagsOf r.body))
    = .ok (strs ["<a id=\"\">", "<script>", "</a>", "<H3>", "</H3>"]) := by decide +kernel

/-- /repo as it is: the style of an unsure match is an undefined name -/
theorem unsure_crashes :
    beginMatch { V with highlightStyleUnsure := none } (mrec 0 2) 1 true
      = .crash "genhtml.py:begin_match:highlight_style_unsure" := by decide +kernel

end C16ex

/-- `C16_region_text` needs the final line break: in `a⏎bc` with a match on `b` the region shows `b`
    alone — the slice of its lines is empty (there is no line start behind the last line), the `c`
    is not shown at all.  (`proofreader.py` never hands over such a text.) -/
theorem C16_region_text_needs_final_newline :
    ¬ EndsNl "a\nbc".toList ∧
    (generateHtml C16ex.T "a\nbc".toList [1, 2, 3, 4, 4, 4] [(2, 1)] 0).bind
      (fun r => .ok (r.regions.map (fun g => (g.text, slice "a\nbc".toList
          ((getLineStarts "a\nbc".toList).getD g.beglin 0) ((getLineStarts "a\nbc".toList).getD g.endlin 0)))))
      = .ok [("b".toList, [])] := by
  constructor
  · decide
  · decide +kernel

end Yalafi
