/-
  Properties/SystemStmt.lean — SYSTEM-LEVEL statements: theorems about the filter (`tex2txt`, C01 /
  C02 / C03) COMPOSED with theorems about the shell (`map_match_position`, the report generators, the
  HTML highlight, the sort of the matches; C14 / C15).

  C14 "When the proofreader flags a word of the plain text, the shell reports it at the 1-based line
  and column, with the length, of that very word in the LaTeX file — identically in the text report,
  the JSON and XML outputs (xml-b in bytes), the HTML highlight; the reports are ordered by the
  position in the file":
    `C14_run_reported`              every source: a flagged stretch whose map entries are consecutive
    `C14_flagged_word_group_e2e`    documents of text, groups, undeclared macros with arguments: EVERY
                                    flagged stretch with consecutive map entries
    `C14_copied_run_group`          … and every stretch of text with visible ends is one
    `C14_copied_run_contiguous`, `C14_copied_run_footnote`   the union grammar of fourteen kinds:
                                    every run of character marks of the reference is a run of the output
    `C14_flagged_word_e2e`          the union grammar: a word of a text segment, end to end
    `C14_sorted_e2e`                the union grammar: two flagged words are reported in file order
    `C14_shell_assembly`            what the shell appends to text and map (the `pad` of the theorems)
    `C14_line_column_unique`        "THE line and column"
  C01 + C15 "every location in the file":
    `C15_every_location_in_file_e2e`   EVERY source text, any offset and integer length
    `C15_shell_dichotomy_e2e`          … or the shell's own error exit, never an exception
  Instances on the tables of the current /repo (`_current`), evaluated by the kernel.

  Proofs, side conditions and what is not covered: Proofs/SystemWord.lean (grammar-free part, (B), (C)),
  Proofs/SystemWordRun.lean (a word survives blank-line removal), Proofs/SystemWordGroup.lean,
  Proofs/SystemWordMix2.lean.

  Vocabulary (Proofs/SystemWord.lean): `natMap r.pos` = the filter's position map as the shell
  receives it; `pad` = what the shell appends to it (`shellPad r.pos` = the last entry twice, for
  the delimiter `'\n\n'`; the theorems hold for ANY padding); `RunAt pos off l q` = the `l` map
  entries from plain offset `off` are `q, q+1, …, q+l-1`; `WordReported src p l L` = the numbers of
  the text report, JSON (offset, length, priv), XML and XML-b in `L` are those of the source word
  `src[p … p+l)`, its first character standing at line `lin`, column `col` in the sense of
  `IsLineCol` (line `lin` begins at `starts[lin-1]`, the character stands `col-1` characters behind
  that begin, no line break in between); `HtmlWord` = the HTML highlight is that word;
  `ReportInFile src L` = every location in `L` is a place of the file.
-/
import YalafiVerif.Proofs.SystemWordMix2
import YalafiVerif.Properties.PlainMix2Stmt
import YalafiVerif.Properties.PlainGroupStmt
import YalafiVerif.Generated.Init
import YalafiVerif.Generated.WF
namespace Yalafi
open SystemWord Reports Html

/-! ## (B) every location of every report lies in the file — for EVERY source text -/

/-- **C01 ∘ C15, end to end, for every source text.**  Let `r` be the result of the filter on ANY
    source text `src` (any options but `--unkn`, any file system and fuel; tables with the decidable
    well-formedness `WFInv`; the ghost flag `foreign` false, as for every run with the bundled
    modules), the plain text not empty (the shell does not send an empty text to the proofreader).
    Then for ANY offset and ANY integer length in the proofreader's answer — negative, zero, behind
    the end — and any padding of the map with entries of its own, `map_match_position` followed by
    the generators answers, and every location it prints is a place of the file (`ReportInFile`:
    first and last character of the reported match are characters of `src`; text report, JSON and
    XML name existing lines and columns on them or directly behind them; XML-b the same lines and
    byte columns within the UTF-8 length of the line). -/
theorem C15_every_location_in_file_e2e (T : PTables) (hw : T.WFInv) (fuel : Nat) (src : Str)
    (o : Options) (thresh : Nat) (fs : FS) (r : T2TResult)
    (hr : tex2txt T fuel src o false thresh fs = .ok r)
    (hfor : r.foreign = false) (hunkn : o.unkn = false) (pad : List Int)
    (hpad : ∀ c ∈ pad, c ∈ natMap r.pos) (hne : r.txt ≠ []) (offset len : Int) :
    ∃ L, reportAll (natMap r.pos ++ pad) src offset (some (.int len)) = .ok L ∧ ReportInFile src L :=
  every_location_in_file T hw fuel src o thresh fs r hr hfor hunkn pad hpad hne offset len

/-- **… or the shell's own error exit.**  The same with the offset check of the shell's sort key
    function in front (`shellOne`), the map padded as `run_proofreader_options` pads it: the shell
    stops with `tex2txt.fatal` exactly when the offset lies outside the padded plain text, otherwise
    every printed location is a place of the file; no third outcome (no Python exception). -/
theorem C15_shell_dichotomy_e2e (T : PTables) (hw : T.WFInv) (fuel : Nat) (src : Str) (o : Options)
    (thresh : Nat) (fs : FS) (r : T2TResult) (hr : tex2txt T fuel src o false thresh fs = .ok r)
    (hfor : r.foreign = false) (hunkn : o.unkn = false) (hne : r.txt ≠ []) (offset len : Int) :
    ((offset < 0 ∨ offset ≥ (r.txt.length : Int) + 2) ∧
      shellOne (natMap r.pos ++ shellPad r.pos) src offset len = .fatal) ∨
    ((0 ≤ offset ∧ offset < (r.txt.length : Int) + 2) ∧
      ∃ L, shellOne (natMap r.pos ++ shellPad r.pos) src offset len = .ok L ∧ ReportInFile src L) :=
  shell_dichotomy_tex2txt T hw fuel src o thresh fs r hr hfor hunkn hne offset len

/-- the same for the tables translated from /repo (`Generated/WF.lean` decides `WFInv`) -/
theorem C15_every_location_in_file_current (fuel : Nat) (src : Str) (o : Options) (thresh : Nat)
    (fs : FS) (r : T2TResult) (hr : tex2txt Generated.theTables fuel src o false thresh fs = .ok r)
    (hfor : r.foreign = false) (hunkn : o.unkn = false) (hne : r.txt ≠ []) (offset len : Int) :
    (∃ L, reportAll (natMap r.pos ++ shellPad r.pos) src offset (some (.int len)) = .ok L ∧
      ReportInFile src L) ∧
    (((offset < 0 ∨ offset ≥ (r.txt.length : Int) + 2) ∧
      shellOne (natMap r.pos ++ shellPad r.pos) src offset len = .fatal) ∨
    ((0 ≤ offset ∧ offset < (r.txt.length : Int) + 2) ∧
      ∃ L, shellOne (natMap r.pos ++ shellPad r.pos) src offset len = .ok L ∧ ReportInFile src L)) := by
  refine ⟨?_, shell_dichotomy_tex2txt _ Generated.wfInv fuel src o thresh fs r hr hfor hunkn hne offset len⟩
  apply every_location_in_file _ Generated.wfInv fuel src o thresh fs r hr hfor hunkn _ _ hne
  intro c hc
  have hp : r.pos ≠ [] := by
    have h := tex2txt_inRange Generated.theTables Generated.wfInv fuel src o false thresh fs
    rw [hr] at h
    obtain ⟨hlen, _, _⟩ := h
    intro he; rw [he] at hlen; exact hne (List.eq_nil_of_length_eq_zero hlen)
  exact (shellPad_mem r.pos hp c hc).1

/-! ## (A) a flagged word is reported at that very word -/

/-- what `run_proofreader_options` hands on in single-language mode: text and map padded by two
    entries (the delimiter `'\n\n'`, mapped to the last position), the offsets of the matches
    unchanged — `shellPad r.pos` is the `pad` of the theorems below -/
theorem C14_shell_assembly (txt : Str) (pos : List Nat) (ms : List RawMatch) :
    assembleNB [({ plain := txt, charmap := natMap pos }, ms)] =
      { plainTot := txt ++ ['\n', '\n'], charmapTot := natMap pos ++ shellPad pos, hits := ms } :=
  assemble_single txt pos ms

/-- a place of the file has exactly one (line, column): the pair the text report prints -/
theorem C14_line_column_unique (src : Str) (q lin col : Nat) (h : IsLineCol src q lin col) :
    (lin, col) = textLineCol src q :=
  isLineCol_unique src q lin col h

/-- **every source text**: if the `l ≥ 1` map entries of the flagged stretch are `p+1, …, p+l` (the
    1-based positions of the `l` consecutive source characters from offset `p`) and these lie in the
    file, then — unless the stretch is one single backslash, where the documented macro-name
    extension applies — `map_match_position` yields offset `p` and length `l`, and all reports are
    those of the source word `src[p … p+l)`. -/
theorem C14_run_reported (src : Str) (pos : List Nat) (pad : List Int) (off l p : Nat) (hl : 1 ≤ l)
    (hrun : RunAt pos off l (p + 1)) (hin : p + l ≤ src.length)
    (hbs : ¬ (l = 1 ∧ src[p]? = some '\\')) :
    mapMatch (natMap pos ++ pad) src (off : Int) (some (.int l)) = .ok ((p : Int), (l : Int)) ∧
    reportAll (natMap pos ++ pad) src (off : Int) (some (.int l)) = .ok (locate src p l) ∧
    WordReported src p l (locate src p l) ∧
    ((∀ c ∈ pad, 0 ≤ c) → HtmlWord src (natMap pos ++ pad) off l p) :=
  ⟨mapMatch_run src pos pad off l p hl hrun hbs, reportAll_run src pos pad off l p hl hrun hbs,
   locate_word src p l hl hin, fun hpad => html_run src pos pad off l p hl hrun hbs (by omega) hpad⟩

/-- **text, groups, undeclared macros with arguments, end to end** (the documents of
    `C03_unknown_args_e2e`).  `tex2txt` succeeds, and for EVERY plain offset `off` and length
    `l ≥ 1` whose map entries are consecutive, `p+1, …, p+l` (no markup was removed inside the
    flagged stretch):
    * the stretch lies in the file and the flagged text IS the source text `src[p … p+l)`;
    * `map_match_position` yields offset `p`, length `l` (no side condition: a text character is no
      backslash);
    * text report, JSON, XML, XML-b are those of that source word (`WordReported`), the HTML
      highlight is that word (`HtmlWord`). -/
theorem C14_flagged_word_group_e2e (T : PTables) (o : Options) (fs : FS) (thresh : Nat)
    (doc : List PlainGroup.Item) (fuel : Nat) (st1 : PState)
    (hdefs : o.defs = []) (hextr : o.extr = []) (hrepl : o.hasRepl = false) (hunkn : o.unkn = false)
    (hinit : initParser T fuel o (initialState T o false fs) = .ok ((), st1))
    (hok : PlainGroup.DocOk T st1 doc) (hf : (PlainGroup.render doc).length + 2 ≤ fuel) :
    ∃ r, tex2txt T fuel (PlainGroup.render doc) o false thresh fs = .ok r ∧
      r.txt.length = r.pos.length ∧
      ∀ (off l p : Nat) (pad : List Int), 1 ≤ l → RunAt r.pos off l (p + 1) →
        p + l ≤ (PlainGroup.render doc).length ∧
        (r.txt.drop off).take l = ((PlainGroup.render doc).drop p).take l ∧
        mapMatch (natMap r.pos ++ pad) (PlainGroup.render doc) (off : Int) (some (.int l))
          = .ok ((p : Int), (l : Int)) ∧
        reportAll (natMap r.pos ++ pad) (PlainGroup.render doc) (off : Int) (some (.int l))
          = .ok (locate (PlainGroup.render doc) p l) ∧
        WordReported (PlainGroup.render doc) p l (locate (PlainGroup.render doc) p l) ∧
        ((∀ c ∈ pad, 0 ≤ c) → HtmlWord (PlainGroup.render doc) (natMap r.pos ++ pad) off l p) :=
  flagged_run_group T o fs thresh doc fuel st1 hdefs hextr hrepl hunkn hinit hok hf

/-- … and every stretch `w` of text characters of the flattened document (no brace or control word
    in between) whose first and last character are no white space is such a stretch: it stands at
    offset `|renderA A|` of the file, it appears in the plain text, and its map entries there are
    consecutive, beginning with its own position. -/
theorem C14_copied_run_group (T : PTables) (o : Options) (fs : FS) (thresh : Nat)
    (doc : List PlainGroup.Item) (fuel : Nat) (st1 : PState)
    (hdefs : o.defs = []) (hextr : o.extr = []) (hrepl : o.hasRepl = false) (hunkn : o.unkn = false)
    (hinit : initParser T fuel o (initialState T o false fs) = .ok ((), st1))
    (hok : PlainGroup.DocOk T st1 doc) (hf : (PlainGroup.render doc).length + 2 ≤ fuel)
    (A B : List PlainGroup.Atom) (w : Str) (hdoc : PlainGroup.atoms doc = A ++ (w.map .chr ++ B))
    (hw : wordEnds w = true) :
    ((PlainGroup.render doc).drop (PlainGroup.renderA A).length).take w.length = w ∧
    ∃ r, tex2txt T fuel (PlainGroup.render doc) o false thresh fs = .ok r ∧
      ∃ off, off + w.length ≤ r.txt.length ∧
        RunAt r.pos off w.length ((PlainGroup.renderA A).length + 1) ∧
        (r.txt.drop off).take w.length = w :=
  copied_run_group T o fs thresh doc fuel st1 hdefs hextr hrepl hunkn hinit hok hf A B w hdoc hw

/-- **`copied_run_contiguous`** (the union grammar of `C03_mix2_e2e`): every run of character marks
    `some (c₀, p), some (c₁, p+1), …` of the reference (`(posText p w).map some`: the text of a
    segment, the content of `\verb`, the note of a citation, the title of a heading) whose first and
    last characters are no white space appears in the plain text as one block, and the map entries
    there are `p+1, p+2, …`. -/
theorem C14_copied_run_contiguous (T : PTables) (o : Options) (fs : FS) (thresh : Nat)
    (segs : List PlainMix2.Seg) (fuel : Nat) (st1 : PState) (repls : List Str)
    (hdefs : o.defs = []) (hextr : o.extr = []) (hrepl : o.hasRepl = false) (hunkn : o.unkn = false)
    (hinit : initParser T fuel o (initialState T o false fs) = .ok ((), st1))
    (hok : PlainMix2.SegsOk T st1 repls segs) (hf : (PlainMix2.render segs).length + 4 ≤ fuel)
    (A B : List PlainMacro.Mark) (p : Nat) (w : Str)
    (hmarks : PlainMix2.marks T st1 repls 0 0 segs = A ++ ((posText p w).map some ++ B))
    (hw : wordEnds w = true) :
    ∃ r, tex2txt T fuel (PlainMix2.render segs) o false thresh fs = .ok r ∧
      r.txt.length = r.pos.length ∧
      ∃ off, off + w.length ≤ r.txt.length ∧ RunAt r.pos off w.length (p + 1) ∧
        (r.txt.drop off).take w.length = w :=
  copied_run_mix2 T o fs thresh segs fuel st1 repls hdefs hextr hrepl hunkn hinit hok hf A B p w hmarks hw

/-- … and every stretch of the detached flows with consecutive positions (a stretch of a footnote
    body) -/
theorem C14_copied_run_footnote (T : PTables) (o : Options) (fs : FS) (thresh : Nat)
    (segs : List PlainMix2.Seg) (fuel : Nat) (st1 : PState) (repls : List Str)
    (hdefs : o.defs = []) (hextr : o.extr = []) (hrepl : o.hasRepl = false) (hunkn : o.unkn = false)
    (hinit : initParser T fuel o (initialState T o false fs) = .ok ((), st1))
    (hok : PlainMix2.SegsOk T st1 repls segs) (hf : (PlainMix2.render segs).length + 4 ≤ fuel)
    (F1 F2 : List (Char × Nat)) (p : Nat) (w : Str)
    (hflows : PlainMix2.flows 0 segs = F1 ++ (posText p w ++ F2)) :
    ∃ r, tex2txt T fuel (PlainMix2.render segs) o false thresh fs = .ok r ∧
      r.txt.length = r.pos.length ∧
      ∃ off, off + w.length ≤ r.txt.length ∧ RunAt r.pos off w.length (p + 1) ∧
        (r.txt.drop off).take w.length = w :=
  copied_run_flows T o fs thresh segs fuel st1 repls hdefs hextr hrepl hunkn hinit hok hf F1 F2 p w hflows

/-- **a flagged word, end to end through filter and shell** (the union grammar of fourteen construct
    kinds, hypotheses of `C03_mix2_e2e`).  Let `w` be a stretch of a text segment of the document
    (`segs = pre ++ .txt (a ++ w ++ b) :: post`) whose first and last character are no white space — a
    word or a phrase, at any depth of groups and macro arguments —, `p = |render pre| + |a|`,
    `l = |w|`.  Then
    * `w` stands at offset `p` of the LaTeX file: `src[p … p+l) = w`;
    * `tex2txt` succeeds and `w` appears in the plain text at an offset `off` whose `l` map entries
      are `p+1, …, p+l`;
    * for EVERY plain offset `off` with these map entries (the proofreader flags this occurrence)
      and any padding of the map: `map_match_position` yields offset `p` and length `l`;
      the text report prints the line and column of the first character of `w` in the file;
      JSON `offset` / `length` are `p` / `l`; JSON `priv` and XML name (0-based) that line and
      column and the line and column of the last character of `w`; XML-b the same lines and the
      UTF-8 byte lengths of the line prefixes (all in `WordReported`); the HTML highlight is
      `src[p : p+l] = w` on that line (`HtmlWord`). -/
theorem C14_flagged_word_e2e (T : PTables) (o : Options) (fs : FS) (thresh : Nat)
    (segs : List PlainMix2.Seg) (fuel : Nat) (st1 : PState) (repls : List Str)
    (hdefs : o.defs = []) (hextr : o.extr = []) (hrepl : o.hasRepl = false) (hunkn : o.unkn = false)
    (hinit : initParser T fuel o (initialState T o false fs) = .ok ((), st1))
    (hok : PlainMix2.SegsOk T st1 repls segs) (hf : (PlainMix2.render segs).length + 4 ≤ fuel)
    (pre post : List PlainMix2.Seg) (a w b : Str) (hsegs : segs = pre ++ .txt (a ++ (w ++ b)) :: post)
    (hw : wordEnds w = true) :
    ((PlainMix2.render segs).drop ((PlainMix2.render pre).length + a.length)).take w.length = w ∧
    (PlainMix2.render pre).length + a.length + w.length ≤ (PlainMix2.render segs).length ∧
    ∃ r, tex2txt T fuel (PlainMix2.render segs) o false thresh fs = .ok r ∧
      r.txt.length = r.pos.length ∧
      (∃ off, off + w.length ≤ r.txt.length ∧
        RunAt r.pos off w.length ((PlainMix2.render pre).length + a.length + 1) ∧
        (r.txt.drop off).take w.length = w) ∧
      ∀ (off : Nat) (pad : List Int),
        RunAt r.pos off w.length ((PlainMix2.render pre).length + a.length + 1) →
        mapMatch (natMap r.pos ++ pad) (PlainMix2.render segs) (off : Int) (some (.int w.length))
          = .ok ((((PlainMix2.render pre).length + a.length : Nat) : Int), (w.length : Int)) ∧
        reportAll (natMap r.pos ++ pad) (PlainMix2.render segs) (off : Int) (some (.int w.length))
          = .ok (locate (PlainMix2.render segs) (((PlainMix2.render pre).length + a.length : Nat) : Int) (w.length : Int)) ∧
        WordReported (PlainMix2.render segs) ((PlainMix2.render pre).length + a.length) w.length
          (locate (PlainMix2.render segs) (((PlainMix2.render pre).length + a.length : Nat) : Int) (w.length : Int)) ∧
        ((∀ c ∈ pad, 0 ≤ c) → HtmlWord (PlainMix2.render segs) (natMap r.pos ++ pad) off w.length
          ((PlainMix2.render pre).length + a.length)) :=
  flagged_word_mix2 T o fs thresh segs fuel st1 repls hdefs hextr hrepl hunkn hinit hok hf
    pre post a w b hsegs hw

/-! ## (C) the reports are ordered by the position in the file -/

/-- **two flagged words are reported in the order of the file** (the union grammar).  Two words of
    text segments, the first one standing first in the file: both appear in the plain text, and
    whenever the proofreader flags them (matches `m1`, `m2` anywhere in its answer `ms`, offsets with
    the map entries of the words), the shell's sort (`C14_sorted`) puts `m1` in front of `m2`. -/
theorem C14_sorted_e2e (T : PTables) (o : Options) (fs : FS) (thresh : Nat)
    (segs : List PlainMix2.Seg) (fuel : Nat) (st1 : PState) (repls : List Str)
    (hdefs : o.defs = []) (hextr : o.extr = []) (hrepl : o.hasRepl = false) (hunkn : o.unkn = false)
    (hinit : initParser T fuel o (initialState T o false fs) = .ok ((), st1))
    (hok : PlainMix2.SegsOk T st1 repls segs) (hf : (PlainMix2.render segs).length + 4 ≤ fuel)
    (pre1 post1 : List PlainMix2.Seg) (a1 w1 b1 : Str) (hsegs1 : segs = pre1 ++ .txt (a1 ++ (w1 ++ b1)) :: post1)
    (pre2 post2 : List PlainMix2.Seg) (a2 w2 b2 : Str) (hsegs2 : segs = pre2 ++ .txt (a2 ++ (w2 ++ b2)) :: post2)
    (hw1 : wordEnds w1 = true) (hw2 : wordEnds w2 = true)
    (hlt : (PlainMix2.render pre1).length + a1.length < (PlainMix2.render pre2).length + a2.length) :
    ∃ r, tex2txt T fuel (PlainMix2.render segs) o false thresh fs = .ok r ∧
      (∃ off1 off2, RunAt r.pos off1 w1.length ((PlainMix2.render pre1).length + a1.length + 1) ∧
        RunAt r.pos off2 w2.length ((PlainMix2.render pre2).length + a2.length + 1)) ∧
      ∀ (pad : List Int) (ms out : List RawMatch) (m1 m2 : RawMatch) (off1 off2 : Nat),
        sortMatches (natMap r.pos ++ pad) ms = .ok out → m1 ∈ ms → m2 ∈ ms →
        m1.offset = (off1 : Int) → m2.offset = (off2 : Int) →
        RunAt r.pos off1 w1.length ((PlainMix2.render pre1).length + a1.length + 1) →
        RunAt r.pos off2 w2.length ((PlainMix2.render pre2).length + a2.length + 1) →
        ∃ X Y Z, out = X ++ m1 :: (Y ++ m2 :: Z) :=
  sorted_words_mix2 T o fs thresh segs fuel st1 repls hdefs hextr hrepl hunkn hinit hok hf
    pre1 post1 a1 w1 b1 hsegs1 pre2 post2 a2 w2 b2 hsegs2 hw1 hw2 hlt

/-- the grammar-free core of (C): of two flagged stretches with consecutive map entries the one
    with the smaller source position comes first after the shell's sort -/
theorem C14_runs_sorted (pos : List Nat) (pad : List Int) (ms out : List RawMatch)
    (h : sortMatches (natMap pos ++ pad) ms = .ok out)
    (m1 m2 : RawMatch) (h1 : m1 ∈ ms) (h2 : m2 ∈ ms) (o1 l1 p1 o2 l2 p2 : Nat)
    (ho1 : m1.offset = (o1 : Int)) (ho2 : m2.offset = (o2 : Int)) (hl1 : 1 ≤ l1) (hl2 : 1 ≤ l2)
    (hr1 : RunAt pos o1 l1 (p1 + 1)) (hr2 : RunAt pos o2 l2 (p2 + 1)) (hlt : p1 < p2) :
    ∃ X Y Z, out = X ++ m1 :: (Y ++ m2 :: Z) :=
  runs_sorted pos pad ms out h m1 m2 h1 h2 o1 l1 p1 o2 l2 p2 ho1 ho2 hl1 hl2 hr1 hr2 hlt

/-! ## instances on the tables of the current /repo -/

/-- `C14_flagged_word_e2e` for the CURRENT code (tables translated from /repo, default options,
    parser initialisation evaluated by the kernel), the map padded as the shell pads it -/
theorem C14_flagged_word_e2e_current (segs : List PlainMix2.Seg) (repls : List Str) (thresh : Nat)
    (hok : PlainMix2.SegsOk Generated.theTables Generated.stDefault repls segs)
    (hf : (PlainMix2.render segs).length + 4 ≤ Generated.bigFuel)
    (pre post : List PlainMix2.Seg) (a w b : Str) (hsegs : segs = pre ++ .txt (a ++ (w ++ b)) :: post)
    (hw : wordEnds w = true) :
    ((PlainMix2.render segs).drop ((PlainMix2.render pre).length + a.length)).take w.length = w ∧
    ∃ r, tex2txt Generated.theTables Generated.bigFuel (PlainMix2.render segs) Generated.defaultOptions
          false thresh [] = .ok r ∧
      (∃ off, off + w.length ≤ r.txt.length ∧
        RunAt r.pos off w.length ((PlainMix2.render pre).length + a.length + 1) ∧
        (r.txt.drop off).take w.length = w) ∧
      ∀ (off : Nat), RunAt r.pos off w.length ((PlainMix2.render pre).length + a.length + 1) →
        reportAll (natMap r.pos ++ shellPad r.pos) (PlainMix2.render segs) (off : Int) (some (.int w.length))
          = .ok (locate (PlainMix2.render segs) (((PlainMix2.render pre).length + a.length : Nat) : Int) (w.length : Int)) ∧
        WordReported (PlainMix2.render segs) ((PlainMix2.render pre).length + a.length) w.length
          (locate (PlainMix2.render segs) (((PlainMix2.render pre).length + a.length : Nat) : Int) (w.length : Int)) ∧
        HtmlWord (PlainMix2.render segs) (natMap r.pos ++ shellPad r.pos) off w.length
          ((PlainMix2.render pre).length + a.length) := by
  obtain ⟨h1, _, r, h3, h4, h5, h6⟩ := C14_flagged_word_e2e Generated.theTables Generated.defaultOptions []
    thresh segs Generated.bigFuel Generated.stDefault repls rfl rfl rfl rfl Generated.initParser_default
    hok hf pre post a w b hsegs hw
  refine ⟨h1, r, h3, h5, ?_⟩
  intro off hrun
  obtain ⟨_, b2, b3, b4⟩ := h6 off (shellPad r.pos) hrun
  refine ⟨b2, b3, b4 ?_⟩
  have hp : r.pos ≠ [] := by
    obtain ⟨off', hle, _, _⟩ := h5
    obtain ⟨⟨c, cs, hc, _⟩, _⟩ := wordEnds_facts hw
    intro he
    have h0 : r.txt.length = 0 := by rw [h4, he]; rfl
    have hwl : 1 ≤ w.length := by rw [hc]; simp
    omega
  exact fun c hc => (shellPad_mem r.pos hp c hc).2

/-- the document of `C03_mix2_example_current`, the word `nested` (inside `\textbf{… \emph{… }}`,
    behind a formula): the side conditions of the theorem hold — the document is
    `pre ++ .txt (" " ++ "nested" ++ "") :: post` with `|render pre| = 54` -/
theorem C14_flagged_word_example_current :
    PlainMix2.SegsOk Generated.theTables Generated.stDefault C03_mix2_repls C03_mix2_doc ∧
    C03_mix2_doc = C03_mix2_doc.take 11 ++ .txt (" ".toList ++ ("nested".toList ++ [])) :: C03_mix2_doc.drop 12 ∧
    wordEnds "nested".toList = true ∧
    (PlainMix2.render (C03_mix2_doc.take 11)).length + " ".toList.length = 55 := by
  decide +kernel

/-- … so the theorem says about it (no evaluation of the filter, only of `locate` on the source):
    `nested` appears in the plain text, and wherever the proofreader flags six characters whose map
    entries are `56 … 61`, the shell reports line 2, column 40, length 6 in all formats -/
theorem C14_flagged_word_example :
    ∃ r, tex2txt Generated.theTables Generated.bigFuel (PlainMix2.render C03_mix2_doc)
          Generated.defaultOptions false 0 [] = .ok r ∧
      (∃ off, RunAt r.pos off 6 56 ∧ (r.txt.drop off).take 6 = "nested".toList) ∧
      ∀ (off : Nat), RunAt r.pos off 6 56 →
        reportAll (natMap r.pos ++ shellPad r.pos) (PlainMix2.render C03_mix2_doc) (off : Int) (some (.int 6))
          = .ok { offset := 55, length := 6, lin := 2, col := 40, json := ⟨1, 39, 1, 45⟩,
                  xml := ⟨1, 39, 1, 45⟩, xmlb := ⟨1, 39, 1, 45⟩ } := by
  obtain ⟨hok, hsegs, hw, hp⟩ := C14_flagged_word_example_current
  obtain ⟨_, r, h1, ⟨off, _, h2, h3⟩, h4⟩ := C14_flagged_word_e2e_current C03_mix2_doc C03_mix2_repls 0 hok
    (by decide +kernel) _ _ _ _ _ hsegs hw
  rw [hp] at h2 h4
  have hl : "nested".toList.length = 6 := rfl
  rw [hl] at h2 h3 h4
  have hloc : locate (PlainMix2.render C03_mix2_doc) ((55 : Nat) : Int) ((6 : Nat) : Int)
      = { offset := 55, length := 6, lin := 2, col := 40, json := ⟨1, 39, 1, 45⟩,
          xml := ⟨1, 39, 1, 45⟩, xmlb := ⟨1, 39, 1, 45⟩ } := by decide +kernel
  refine ⟨r, h1, ⟨off, h2, h3⟩, ?_⟩
  intro off' hrun
  have := (h4 off' hrun).1
  rw [hloc] at this
  exact this

/-- … and the whole pipeline evaluated by the kernel: `tex2txt`, the shell's padding,
    `map_match_position`, the generators, for the proofreader's answer "offset 33, length 6" (the
    word `nested` in the plain text `Intro.\nAlpha–beta bold and C-C-C nested gamma …`) and
    "offset 40, length 5" (`gamma`).  Source line 2 is
    `Alpha--beta \textbf{bold \emph{and $x$ nested}} gamma\label{sec:a} see …`: `nested` stands at
    line 2, column 40 (offset 55), `gamma` at line 2, column 49 (offset 64); the HTML highlight is
    `src[55:61]` on line 2 (0-based 1). -/
theorem C14_flagged_word_example_eval :
    (match tex2txt Generated.theTables Generated.bigFuel (PlainMix2.render C03_mix2_doc)
        Generated.defaultOptions false 0 [] with
     | .ok r =>
       (r.txt.drop 33).take 6 == "nested".toList && decide (RunAt r.pos 33 6 56) &&
       (r.txt.drop 40).take 5 == "gamma".toList && decide (RunAt r.pos 40 5 65) &&
       (match reportAll (natMap r.pos ++ shellPad r.pos) (PlainMix2.render C03_mix2_doc) 33 (some (.int 6)),
              reportAll (natMap r.pos ++ shellPad r.pos) (PlainMix2.render C03_mix2_doc) 40 (some (.int 5)),
              computeH Generated.theTables.toTables (PlainMix2.render C03_mix2_doc)
                (natMap r.pos ++ shellPad r.pos) 0 33 6 with
        | .ok L1, .ok L2, .ok h =>
          L1 == { offset := 55, length := 6, lin := 2, col := 40, json := ⟨1, 39, 1, 45⟩,
                  xml := ⟨1, 39, 1, 45⟩, xmlb := ⟨1, 39, 1, 45⟩ } &&
          L2 == { offset := 64, length := 5, lin := 2, col := 49, json := ⟨1, 48, 1, 53⟩,
                  xml := ⟨1, 48, 1, 53⟩, xmlb := ⟨1, 48, 1, 53⟩ } &&
          h == { idx := 0, unsure := false, beg := 55, fin := 61, beglin := 1, endlin := 2, lin := 1 } &&
          slice (PlainMix2.render C03_mix2_doc) 55 61 == "nested".toList
        | _, _, _ => false)
     | _ => false) = true := by
  decide +kernel

/-- (C) on the same document: the proofreader answers `gamma` (plain offset 40) BEFORE `nested`
    (plain offset 33); the shell's sort reports `nested` (file offset 55) first -/
theorem C14_sorted_example_eval :
    (match tex2txt Generated.theTables Generated.bigFuel (PlainMix2.render C03_mix2_doc)
        Generated.defaultOptions false 0 [] with
     | .ok r =>
       (match sortMatches (natMap r.pos ++ shellPad r.pos)
                [{ offset := 40, rest := .null }, { offset := 33, rest := .null }] with
        | .ok out => out.map (·.offset) == [33, 40]
        | _ => false)
     | _ => false) = true := by
  decide +kernel

/-- `C14_flagged_word_group_e2e` for the CURRENT code, the map padded as the shell pads it -/
theorem C14_flagged_word_group_e2e_current (doc : List PlainGroup.Item) (thresh : Nat)
    (hok : PlainGroup.DocOk Generated.theTables Generated.stDefault doc)
    (hf : (PlainGroup.render doc).length + 2 ≤ Generated.bigFuel) :
    ∃ r, tex2txt Generated.theTables Generated.bigFuel (PlainGroup.render doc) Generated.defaultOptions
          false thresh [] = .ok r ∧
      ∀ (off l p : Nat), 1 ≤ l → RunAt r.pos off l (p + 1) →
        (r.txt.drop off).take l = ((PlainGroup.render doc).drop p).take l ∧
        reportAll (natMap r.pos ++ shellPad r.pos) (PlainGroup.render doc) (off : Int) (some (.int l))
          = .ok (locate (PlainGroup.render doc) p l) ∧
        WordReported (PlainGroup.render doc) p l (locate (PlainGroup.render doc) p l) ∧
        HtmlWord (PlainGroup.render doc) (natMap r.pos ++ shellPad r.pos) off l p := by
  obtain ⟨r, h1, h2, h3⟩ := C14_flagged_word_group_e2e Generated.theTables Generated.defaultOptions []
    thresh doc Generated.bigFuel Generated.stDefault rfl rfl rfl rfl Generated.initParser_default hok hf
  refine ⟨r, h1, ?_⟩
  intro off l p hl hrun
  obtain ⟨_, b2, _, b4, b5, b6⟩ := h3 off l p (shellPad r.pos) hl hrun
  refine ⟨b2, b4, b5, b6 ?_⟩
  have hp : r.pos ≠ [] := by
    intro he
    rcases hrun.le with h0 | h0
    · omega
    · rw [he] at h0; simp at h0; omega
  exact fun c hc => (shellPad_mem r.pos hp c hc).2

open PlainGroup in
/-- a document of text, groups and undeclared macros with non-ASCII text on two lines:

        Ärger über \emph{süße Wörter}.
        Zeile \textbf{zwei – drei}
-/
def C14_group_doc : List PlainGroup.Item :=
  [.txt "Ärger über ".toList] ++ mac "emph".toList [[.txt "süße Wörter".toList]] ++
  [.txt ".\nZeile ".toList] ++ mac "textbf".toList [[.txt "zwei – drei".toList]] ++ [.txt "\n".toList]

/-- the side conditions of `C14_flagged_word_group_e2e` hold for it on the real tables -/
theorem C14_flagged_word_group_example_current :
    PlainGroup.DocOk Generated.theTables Generated.stDefault C14_group_doc := by
  decide +kernel

/-- … and the pipeline evaluated by the kernel for the answers "offset 16, length 6" (`Wörter`) and
    "offset 37, length 4" (`drei`) on the plain text `Ärger über süße Wörter.\nZeile zwei – drei\n`:
    `Wörter` is reported at line 1, column 23, length 6 (offset 22), byte column 26 (four two-byte
    letters in front); `drei` at line 2, column 22, length 4 (offset 52), byte column 23 (`–` takes
    three bytes). -/
theorem C14_flagged_word_group_example_eval :
    (match tex2txt Generated.theTables Generated.bigFuel (PlainGroup.render C14_group_doc)
        Generated.defaultOptions false 0 [] with
     | .ok r =>
       (r.txt.drop 16).take 6 == "Wörter".toList && decide (RunAt r.pos 16 6 23) &&
       (r.txt.drop 37).take 4 == "drei".toList && decide (RunAt r.pos 37 4 53) &&
       (match reportAll (natMap r.pos ++ shellPad r.pos) (PlainGroup.render C14_group_doc) 16 (some (.int 6)),
              reportAll (natMap r.pos ++ shellPad r.pos) (PlainGroup.render C14_group_doc) 37 (some (.int 4)) with
        | .ok L1, .ok L2 =>
          L1 == { offset := 22, length := 6, lin := 1, col := 23, json := ⟨0, 22, 0, 28⟩,
                  xml := ⟨0, 22, 0, 28⟩, xmlb := ⟨0, 26, 0, 33⟩ } &&
          L2 == { offset := 52, length := 4, lin := 2, col := 22, json := ⟨1, 21, 1, 25⟩,
                  xml := ⟨1, 21, 1, 25⟩, xmlb := ⟨1, 23, 1, 27⟩ }
        | _, _ => false)
     | _ => false) = true := by
  decide +kernel

end Yalafi
