/-
  Properties/PlainDisplayStmt.lean — C11 "displayed equations follow the documented scheme and keep
  their punctuation": the end-to-end theorem for simple displayed equations `\[ body \]` and
  `\begin{name} body \end{name}` (name an equation environment of the tables), its corollaries, and the
  instance on the tables translated from /repo.  Proofs: Proofs/PlainDisplay.lean (its header lists
  every side condition with its reason and what is not covered).
-/
import YalafiVerif.Proofs.PlainDisplay
import YalafiVerif.Generated.Init
namespace Yalafi

/-- **displayed equations become an indented rotating placeholder plus their closing punctuation mark**,
    end to end on the filter model.  For documents of inert text and simple displayed equations
    `\[body\]` / `\begin{name}body\end{name}` (`name` declared as equation environment; body: characters
    the maths parser turns into maths tokens one by one, blanks and single line breaks allowed, no `&`,
    no `\\`, no macro, at least one element character — `PlainDisplay.SegsOk`), with `repls` the display
    collection of the language after `Parser.__init__`:

    `tex2txt` succeeds, and text and position map are those of `PlainDisplay.refOut`:
    * text segments are copied, every character with its own position;
    * the k-th equation of the document (k = 1, 2, …; both opening forms count together) is rendered as
      `PlainDisplay.eqnOut`:  two blanks · `placeholder repls k` = entry `k mod length` of the display
      collection · the closing punctuation mark `punctOf T body` (last character of the body that is no
      white space, if it is one of `math_punctuation`) — NO line break is generated;
    * the two blanks map to the `\` of `\[` / `\begin`; every character of the placeholder maps to the
      first element character of the body (no white space, no operator, no punctuation mark); the
      punctuation mark maps to the first character of the body that is no white space
      (`r.pos` is 1-based: `+ 1`);
    * no unknowns, no new diagnostics.
    (`VisibleRepls`: no placeholder is blank — otherwise blank-line removal could delete a line.) -/
theorem C11_display_e2e (T : PTables) (o : Options) (fs : FS) (thresh : Nat)
    (segs : List PlainDisplay.Seg) (fuel : Nat) (st1 : PState) (rot : Rot) (repls : List Str)
    (hdefs : o.defs = []) (hextr : o.extr = []) (hrepl : o.hasRepl = false) (hunkn : o.unkn = false)
    (hinit : initParser T fuel o (initialState T o false fs) = .ok ((), st1))
    (hok : PlainDisplay.SegsOk T st1 segs)
    (hrot : rotOf st1 (curSettings st1) = some rot) (hrepls : rot.disp = repls)
    (hne : repls ≠ []) (hvis : PlainMath.VisibleRepls repls)
    (hls : (settingsOf T (curSettings st1)).isSome = true)
    (hf : (PlainDisplay.render segs).length + 2 ≤ fuel) :
    ∃ r, tex2txt T fuel (PlainDisplay.render segs) o false thresh fs = .ok r ∧
      r.txt = (PlainDisplay.refOut T st1.mathOperators repls 0 0 segs).map (·.1) ∧
      r.pos = (PlainDisplay.refOut T st1.mathOperators repls 0 0 segs).map (·.2 + 1) ∧
      r.unknowns = [] ∧ r.diags = st1.diags :=
  PlainDisplay.tex2txt_display T o fs thresh segs fuel st1 rot repls hdefs hextr hrepl hunkn hinit hok
    hrot hrepls hne hvis hls hf

/-- the document `a \[ b \] c` with a single equation, output written out: the text `a` with its
    positions, then `eqnOut` for `k = 1` (two blanks at `|a|`, placeholder `repls[1 mod length]` at the
    first element character of `b`, closing punctuation at the first non-blank character of `b`), then
    the text `c` with its positions (it starts at `|a| + |b| + 4`) -/
theorem C11_display_single_e2e (T : PTables) (o : Options) (fs : FS) (thresh : Nat)
    (a b c : Str) (fuel : Nat) (st1 : PState) (rot : Rot) (repls : List Str)
    (hdefs : o.defs = []) (hextr : o.extr = []) (hrepl : o.hasRepl = false) (hunkn : o.unkn = false)
    (hinit : initParser T fuel o (initialState T o false fs) = .ok ((), st1))
    (hok : PlainDisplay.SegsOk T st1 [.txt a, .disp b, .txt c])
    (hrot : rotOf st1 (curSettings st1) = some rot) (hrepls : rot.disp = repls)
    (hne : repls ≠ []) (hvis : PlainMath.VisibleRepls repls)
    (hls : (settingsOf T (curSettings st1)).isSome = true)
    (hf : (a ++ '\\' :: '[' :: (b ++ ['\\', ']']) ++ c).length + 2 ≤ fuel) :
    ∃ r, tex2txt T fuel (a ++ '\\' :: '[' :: (b ++ ['\\', ']']) ++ c) o false thresh fs = .ok r ∧
      r.txt = a ++ [' ', ' '] ++ PlainMath.placeholder repls 1 ++ PlainMath.punctOf T b ++ c ∧
      r.pos = ((posText 0 a ++ PlainDisplay.eqnOut T st1.mathOperators repls 1 a.length 2 b
                ++ posText (a.length + (b.length + 4)) c).map (·.2 + 1)) ∧
      r.unknowns = [] ∧ r.diags = st1.diags := by
  have hren : PlainDisplay.render [.txt a, .disp b, .txt c]
      = a ++ '\\' :: '[' :: (b ++ ['\\', ']']) ++ c := by
    simp [PlainDisplay.render, PlainDisplay.Seg.render]
  obtain ⟨r, h1, h2, h3, h4, h5⟩ := C11_display_e2e T o fs thresh [.txt a, .disp b, .txt c] fuel st1 rot
    repls hdefs hextr hrepl hunkn hinit hok hrot hrepls hne hvis hls (by rw [hren]; exact hf)
  rw [hren] at h1
  refine ⟨r, h1, ?_, ?_, h4, h5⟩
  · rw [h2, PlainDisplay.refOut_txt]
    simp [PlainDisplay.outText]
  · rw [h3, PlainDisplay.refOut_single]

/-! ### corollaries about the reference output -/

/-- (a) **no maths source character appears in the output**: the output text of a document is
    `outText`, which is computed from the text segments, the placeholder collection and the closing
    punctuation marks `punctOf T body` alone — the equation bodies (and environment names) enter in no
    other way -/
theorem C11_display_text (T : PTables) (ops repls : List Str) (segs : List PlainDisplay.Seg) (k p : Nat) :
    (PlainDisplay.refOut T ops repls k p segs).map (·.1) = PlainDisplay.outText T repls k segs :=
  PlainDisplay.refOut_txt T ops repls segs k p

/-- (b) **every position generated for an equation lies in its source span**: it is the position of
    the `\` of the opening command (`p`; the two blanks), or the position of a character of the body
    (which occupies `[p + o, p + o + |body|)`) — for every body with an element character, as the side
    conditions demand -/
theorem C11_display_span (T : PTables) (ops repls : List Str) (k p o : Nat) (body : Str)
    (h : body.any (PlainDisplay.elemChar T ops) = true) :
    ∀ cq ∈ PlainDisplay.eqnOut T ops repls k p o body,
      cq.2 = p ∨ (p + o ≤ cq.2 ∧ cq.2 < p + o + body.length) :=
  PlainDisplay.eqnOut_span_lt T ops repls k p o body h

/-- (c) **punctuation is kept directly behind its placeholder**: the text of an equation is two blanks,
    the placeholder, the closing punctuation mark; and for a body `b ++ [c] ++ w` that ends with the
    punctuation mark `c` (followed by white space `w` only) this mark is `c` -/
theorem C11_display_punct (T : PTables) (ops repls : List Str) (k p o : Nat) (body : Str) :
    (PlainDisplay.eqnOut T ops repls k p o body).map (·.1)
      = [' ', ' '] ++ PlainMath.placeholder repls k ++ PlainMath.punctOf T body :=
  PlainDisplay.eqnOut_txt T ops repls k p o body

theorem C11_display_punct_kept (T : PTables) (b w : Str) (c : Char) (hc : isSpace c = false)
    (hp : T.mathPunctuation.contains [c] = true) (hw : ∀ d ∈ w, isSpace d = true) :
    PlainMath.punctOf T (b ++ c :: w) = [c] :=
  PlainDisplay.punctOf_snoc T b w c hc hp hw

theorem C11_display_punct_none (T : PTables) (b w : Str) (c : Char) (hc : isSpace c = false)
    (hp : T.mathPunctuation.contains [c] = false) (hw : ∀ d ∈ w, isSpace d = true) :
    PlainMath.punctOf T (b ++ c :: w) = [] :=
  PlainDisplay.punctOf_none T b w c hc hp hw

/-! ### the instance on the tables translated from /repo -/

/-- the display collection of the default language after initialisation of the CURRENT code -/
def C11_dispCurrent : List Str :=
  ((rotOf Generated.stDefault (curSettings Generated.stDefault)).map (·.disp)).getD []

/-- the hypotheses about the initialised parser hold for the tables translated from /repo; all four
    equation environments of the tables are covered by the `\begin{name}` form -/
theorem C11_current_facts :
    (rotOf Generated.stDefault (curSettings Generated.stDefault)).isSome = true ∧
    C11_dispCurrent ≠ [] ∧ C11_dispCurrent.length = 6 ∧
    PlainDisplay.visibleRepls C11_dispCurrent = true ∧
    (settingsOf Generated.theTables (curSettings Generated.stDefault)).isSome = true ∧
    (Generated.stDefault.envs.filter (·.isEqu)).all PlainDisplay.equEnvOk = true ∧
    (Generated.stDefault.envs.filter (·.isEqu)).length = 4 := by
  decide +kernel

/-- `Text⏎\[ a + b = c. \]⏎more \begin{equation}x=y\end{equation} end`: two equations, one of each
    form, the first with a final full stop -/
def C11_exampleSegs : List PlainDisplay.Seg :=
  [.txt "Text\n".toList, .disp " a + b = c. ".toList, .txt "\nmore ".toList,
   .env "equation".toList "x=y".toList, .txt " end".toList]

/-- the concrete document satisfies the side conditions on the real tables -/
theorem C11_display_example_current :
    PlainDisplay.SegsOk Generated.theTables Generated.stDefault C11_exampleSegs := by
  decide +kernel

/-- … its reference output: `Text⏎  V-V-V.⏎more   W-W-W end`; the blanks of the first equation map to
    its `\[` (1-based 6), `V-V-V` and the full stop to `a` (9); the blanks of the second one to `\begin`
    (28), `W-W-W` to `x` (44) -/
theorem C11_display_ref_current :
    (PlainDisplay.refOut Generated.theTables Generated.stDefault.mathOperators C11_dispCurrent 0 0
        C11_exampleSegs).map (·.1) = "Text\n  V-V-V.\nmore   W-W-W end".toList ∧
    (PlainDisplay.refOut Generated.theTables Generated.stDefault.mathOperators C11_dispCurrent 0 0
        C11_exampleSegs).map (·.2 + 1) =
      [1, 2, 3, 4, 5, 6, 6, 9, 9, 9, 9, 9, 9, 22, 23, 24, 25, 26, 27, 28, 28, 44, 44, 44, 44, 44,
       61, 62, 63, 64] := by
  decide +kernel

/-- **the end-to-end theorem applied to the current code**: the filter (default options) maps the
    example document to `Text⏎  V-V-V.⏎more   W-W-W end` with the positions above -/
theorem C11_display_e2e_current (thresh : Nat) :
    ∃ r, tex2txt Generated.theTables Generated.bigFuel (PlainDisplay.render C11_exampleSegs)
          Generated.defaultOptions false thresh [] = .ok r ∧
      r.txt = "Text\n  V-V-V.\nmore   W-W-W end".toList ∧
      r.pos = [1, 2, 3, 4, 5, 6, 6, 9, 9, 9, 9, 9, 9, 22, 23, 24, 25, 26, 27, 28, 28, 44, 44, 44, 44, 44,
               61, 62, 63, 64] ∧
      r.unknowns = [] ∧ r.diags = Generated.stDefault.diags := by
  have F := C11_current_facts
  obtain ⟨rot, hrot⟩ := Option.isSome_iff_exists.mp F.1
  have hd : rot.disp = C11_dispCurrent := by
    simp [C11_dispCurrent, hrot]
  obtain ⟨r, h1, h2, h3, h4, h5⟩ := C11_display_e2e Generated.theTables Generated.defaultOptions []
    thresh C11_exampleSegs Generated.bigFuel Generated.stDefault rot C11_dispCurrent rfl rfl rfl rfl
    Generated.initParser_default C11_display_example_current hrot hd F.2.1
    (PlainDisplay.visibleRepls_iff _ F.2.2.2.1) F.2.2.2.2.1 (by decide +kernel)
  exact ⟨r, h1, h2.trans C11_display_ref_current.1, h3.trans C11_display_ref_current.2, h4, h5⟩

end Yalafi
