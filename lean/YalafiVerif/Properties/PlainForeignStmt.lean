/-
  Properties/PlainForeignStmt.lean — C12 "… A foreign insertion of at most the configured number of
  words inside a sentence is represented in the surrounding part by one placeholder of the
  language-change collection and the sentence continues in the same part; a longer insertion …
  ends the part", end to end on the model, for documents of inert text and insertions
  `\foreignlanguage{name}{text}` (package babel loaded, multi-language mode).
  Proofs: Proofs/PlainForeignML.lean (`get_txt_pos_ml`), Proofs/PlainForeign.lean (expander, end to
  end; its header lists all side conditions), Proofs/PlainForeignCor.lean (corollaries).
-/
import YalafiVerif.Proofs.PlainForeignCor
import YalafiVerif.Properties.PlainLangStmt
import YalafiVerif.Generated.Init
namespace Yalafi
namespace PlainForeign
open Generated

/-- **C12 for `\foreignlanguage`, end to end** (`Proofs/PlainForeign.lean`,
    `tex2txt_foreignlanguage`).  The source is `render segs`: inert text segments `txt s` and
    insertions `frn name body` = `\foreignlanguage{name}{body}`.
    Hypotheses: no `--defs`, `--extr`, `--repl`; `foreignlang_break` is not set (`T.foreignBrk`);
    `st1` is the parser state after `Parser.__init__` in MULTI-LANGUAGE mode, its multi-language flag
    is set, its language stack is not empty, and the settings of the main language `o.lang` have a
    non-empty language-change collection (`mainRepl (lcOf st1) o.lang` = `lang_change_repl` of
    `check_parser_lang(o.lang)`); `segsOk T st1 o.lang segs` (computable; header of
    `Proofs/PlainForeign.lean`: babel's `\foreignlanguage` is declared; `{` directly behind the macro
    name and between the arguments; the name is inert, is translated to a language code that DIFFERS
    from `o.lang`; the text is inert for the settings of the foreign language and has a visible
    character on its first line — it may contain further lines; behind an insertion the document
    ends or a non-empty text follows); one unit of fuel per source character plus two.
    Then `tex2txt` succeeds, nothing is reported as unknown, no diagnostic is added, and
    `r.parts = refParts T o.lang thresh repl segs`, i.e. (`refOut`, `Proofs/PlainForeignML.lean`):

    * every text character keeps its own source position (reported 1-based) and goes to the current
      piece of the main language `o.lang`;
    * the text of every insertion is a piece of its own under the language code of its name, every
      character at its own position;
    * SHORT insertion — `(splitWs body).length ≤ thresh`, the exact test of `ml_check_lang_section`
      (`len(txt.split()) <= ml_continue_thresh`: "at most", not "less than") — behind a non-empty
      piece of main-language text: the collection is ROTATED BY ONE FIRST and its new head is
      appended to the current piece as the placeholder (so the k-th short insertion, k = 1, 2, …, gets
      entry `k mod length` of the initial collection, indices from 0); every character of the
      placeholder is mapped to the position of the FIRST VISIBLE character of the insertion; if the
      insertion starts / ends with white space, that one character is copied in front of / behind
      the placeholder with its own position (issue 117); the current piece CONTINUES behind the
      insertion (the text in front of and behind it are in one piece);
    * LONG insertion (more than `thresh` words), or an insertion with no main-language text in front
      of it (at the beginning of the document): the current piece ends, a new one starts behind the
      insertion;
    * the pieces are grouped by language code, codes in the order of their first piece (the piece of
      a short insertion is produced BEFORE the surrounding piece is finished). -/
theorem C12_foreignlanguage_e2e (T : PTables) (o : Options) (fs : FS) (thresh : Nat) (segs : List Seg)
    (fuel : Nat) (st1 : PState)
    (hdefs : o.defs = []) (hextr : o.extr = []) (hrepl : o.hasRepl = false)
    (hfb : T.foreignBrk = false)
    (hinit : initParser T fuel o (initialState T o true fs) = .ok ((), st1))
    (hml : st1.multiLanguage = true) (hstk : st1.langStack ≠ [])
    (hlc : mainRepl (lcOf st1) o.lang ≠ [])
    (hok : segsOk T st1 o.lang segs = true)
    (hf : (render segs).length + 2 ≤ fuel) :
    ∃ r, tex2txt T fuel (render segs) o true thresh fs = .ok r ∧
      r.parts = refParts T o.lang thresh (mainRepl (lcOf st1) o.lang) segs ∧ r.unknowns = [] ∧
      r.diags = st1.diags := by
  obtain ⟨r, h1, h2, h3, h4, _⟩ := tex2txt_foreignlanguage T o fs thresh segs fuel st1 hdefs hextr hrepl
    hfb hinit hml hstk hlc hok hf
  exact ⟨r, h1, h2, h3, h4⟩

/-- **one placeholder per short insertion, none for a long one; the sentence continues.**  Under
    the hypotheses of `C12_foreignlanguage_e2e` the pieces of text filed under the main language
    (`partOf r.parts o.lang` = `parts[o.lang]`) are EXACTLY `mainPieces` (positions 1-based): text is
    appended to the current piece; an insertion of at most `thresh` words behind a non-empty piece
    appends exactly one placeholder — the head of the main language's collection after one more
    rotation (`placeholder`) — and the SAME piece continues; every other insertion contributes
    nothing and ends the piece. -/
theorem C12_short_insertion_one_placeholder (T : PTables) (o : Options) (fs : FS) (thresh : Nat)
    (segs : List Seg) (fuel : Nat) (st1 : PState)
    (hdefs : o.defs = []) (hextr : o.extr = []) (hrepl : o.hasRepl = false)
    (hfb : T.foreignBrk = false)
    (hinit : initParser T fuel o (initialState T o true fs) = .ok ((), st1))
    (hml : st1.multiLanguage = true) (hstk : st1.langStack ≠ [])
    (hlc : mainRepl (lcOf st1) o.lang ≠ [])
    (hok : segsOk T st1 o.lang segs = true)
    (hf : (render segs).length + 2 ≤ fuel) :
    ∃ r, tex2txt T fuel (render segs) o true thresh fs = .ok r ∧
      partOf r.parts o.lang
        = (mainPieces thresh 0 (mainRepl (lcOf st1) o.lang) [] segs).map pieceTp := by
  obtain ⟨r, h1, h2, _⟩ := tex2txt_foreignlanguage T o fs thresh segs fuel st1 hdefs hextr hrepl
    hfb hinit hml hstk hlc hok hf
  refine ⟨r, h1, ?_⟩
  rw [h2]
  exact refParts_main T o.lang thresh _ segs (segsOk_sep T st1 o.lang segs hok).2.1

/-- **the words of an insertion are filed under its language, and only there.**  Under the
    hypotheses of `C12_foreignlanguage_e2e`, for every language code `k` other than the main
    language: the pieces of text under `k` are EXACTLY the texts of the insertions whose name is
    translated to `k` (`frnList 0 segs`: 0-based position `q` of the first character of the text,
    name, text), in document order, one piece per insertion, every character at its own (1-based)
    source position `q + 1, q + 2, …` — whether the insertion is short or long.  (So every character
    of every insertion occurs exactly once under a foreign code; by
    `C12_short_insertion_one_placeholder` it does not occur under the main code, except for one
    leading / trailing blank of a short insertion.) -/
theorem C12_foreign_words_own_part (T : PTables) (o : Options) (fs : FS) (thresh : Nat)
    (segs : List Seg) (fuel : Nat) (st1 : PState)
    (hdefs : o.defs = []) (hextr : o.extr = []) (hrepl : o.hasRepl = false)
    (hfb : T.foreignBrk = false)
    (hinit : initParser T fuel o (initialState T o true fs) = .ok ((), st1))
    (hml : st1.multiLanguage = true) (hstk : st1.langStack ≠ [])
    (hlc : mainRepl (lcOf st1) o.lang ≠ [])
    (hok : segsOk T st1 o.lang segs = true)
    (hf : (render segs).length + 2 ≤ fuel) :
    ∃ r, tex2txt T fuel (render segs) o true thresh fs = .ok r ∧
      ∀ k, k ≠ o.lang →
        partOf r.parts k
          = ((frnList 0 segs).filter (fun x => PlainLang.codeOfName T x.2.1 == k)).map
              (fun x => (x.2.2, List.range' (x.1 + 1) x.2.2.length)) := by
  obtain ⟨r, h1, h2, _⟩ := tex2txt_foreignlanguage T o fs thresh segs fuel st1 hdefs hextr hrepl
    hfb hinit hml hstk hlc hok hf
  refine ⟨r, h1, ?_⟩
  intro k hk
  rw [h2]
  exact refParts_foreign T o.lang thresh _ segs k hk

/-- the insertions of `frnList` are those of the source: `(q, name, body) ∈ frnList 0 segs` implies
    that the source has the text `body` at 0-based position `q` -/
theorem C12_frnList_source (segs : List Seg) (x : Nat × Str × Str) (h : x ∈ frnList 0 segs) :
    ((render segs).drop x.1).take x.2.2.length = x.2.2 :=
  (frnList_render segs 0 x h).2

/-- **the words of the main text are filed under the main language.**  Under the hypotheses of
    `C12_foreignlanguage_e2e`: the characters of the pieces under the main language, read in order
    (`tpChars` pairs every character with its reported position), are `mainStream` with 1-based
    positions: every character of every text segment at its own position, plus one placeholder for
    each short insertion that has main text in front of it; in particular every text character
    `(c, p)` (`textChars 0 segs`, 0-based, cf. `C12_textChars_source`) occurs there at position
    `p + 1`. -/
theorem C12_main_words_main_part (T : PTables) (o : Options) (fs : FS) (thresh : Nat)
    (segs : List Seg) (fuel : Nat) (st1 : PState)
    (hdefs : o.defs = []) (hextr : o.extr = []) (hrepl : o.hasRepl = false)
    (hfb : T.foreignBrk = false)
    (hinit : initParser T fuel o (initialState T o true fs) = .ok ((), st1))
    (hml : st1.multiLanguage = true) (hstk : st1.langStack ≠ [])
    (hlc : mainRepl (lcOf st1) o.lang ≠ [])
    (hok : segsOk T st1 o.lang segs = true)
    (hf : (render segs).length + 2 ≤ fuel) :
    ∃ r, tex2txt T fuel (render segs) o true thresh fs = .ok r ∧
      (partOf r.parts o.lang).flatMap tpChars
        = (mainStream thresh 0 (mainRepl (lcOf st1) o.lang) false segs).map (fun cp => (cp.1, cp.2 + 1)) ∧
      ∀ c p, (c, p) ∈ textChars 0 segs → (c, p + 1) ∈ (partOf r.parts o.lang).flatMap tpChars := by
  obtain ⟨r, h1, h2⟩ := C12_short_insertion_one_placeholder T o fs thresh segs fuel st1 hdefs hextr
    hrepl hfb hinit hml hstk hlc hok hf
  have h3 := main_chars thresh (mainRepl (lcOf st1) o.lang) segs
  refine ⟨r, h1, by rw [h2, h3], ?_⟩
  intro c p hm
  rw [h2, h3]
  exact List.mem_map.mpr ⟨(c, p),
    (textChars_sublist thresh segs 0 _ false).subset hm, rfl⟩

/-- `textChars` are characters of the source -/
theorem C12_textChars_source (segs : List Seg) (c : Char) (p : Nat) (h : (c, p) ∈ textChars 0 segs) :
    (render segs)[p]? = some c :=
  (textChars_render segs 0 (c, p) h).2

/-! ### the hypotheses can be met on the real tables -/

/-- `"This is a \foreignlanguage{german}{kurzer Satz} in the text and
    \foreignlanguage{german}{ein wirklich langer deutscher Satz hier} too.\n"`:
    one short insertion (two words, `thresh = 2`) and one long one -/
def exSegs : List Seg :=
  [.txt "This is a ".toList, .frn "german".toList "kurzer Satz".toList, .txt " in the text and ".toList,
   .frn "german".toList "ein wirklich langer deutscher Satz hier".toList, .txt " too.\n".toList]

theorem exSegs_render : render exSegs =
    "This is a \\foreignlanguage{german}{kurzer Satz} in the text and \\foreignlanguage{german}{ein wirklich langer deutscher Satz hier} too.\n".toList := by
  decide +kernel

theorem exSegs_ok : segsOk theTables stBabel babelOptions.lang exSegs = true := by decide +kernel

theorem stBabel_stack : stBabel.langStack ≠ [] := by decide +kernel

theorem stBabel_repl :
    mainRepl (lcOf stBabel) babelOptions.lang
      = ["K-K-K".toList, "L-L-L".toList, "M-M-M".toList, "N-N-N".toList] := by decide +kernel

theorem stBabel_repl_ne : mainRepl (lcOf stBabel) babelOptions.lang ≠ [] := by
  rw [stBabel_repl]; simp

/-- the expected parts: the short insertion leaves the placeholder `L-L-L` (the SECOND entry of the
    collection), mapped to position 36 = the `k` of `kurzer`, and the sentence continues in the same
    piece; the long insertion cuts the English text; both German texts are pieces of their own.  The
    code `de-DE` comes first: the piece of the short insertion is complete before the surrounding
    English piece is. -/
def exParts : Parts :=
  [("de-DE".toList,
      [("kurzer Satz".toList, List.range' 36 11),
       ("ein wirklich langer deutscher Satz hier".toList, List.range' 90 39)]),
   ("en-GB".toList,
      [("This is a L-L-L in the text and ".toList,
          List.range' 1 10 ++ [36, 36, 36, 36, 36] ++ List.range' 48 17),
       (" too.\n".toList, List.range' 130 6)])]

theorem exSegs_ref :
    refParts theTables babelOptions.lang 2 (mainRepl (lcOf stBabel) babelOptions.lang) exSegs = exParts := by
  decide +kernel

/-- **the end-to-end theorem applies to the current code** (tables translated from /repo, package
    babel loaded, `--lang en-GB`, multi-language mode, `ml_continue_thresh = 2`): a document with
    one short and one long insertion -/
theorem C12_foreignlanguage_e2e_current :
    ∃ r, tex2txt theTables bigFuel (render exSegs) babelOptions true 2 [] = .ok r ∧
      r.parts = exParts ∧ r.unknowns = [] ∧ r.diags = [] := by
  obtain ⟨r, h1, h2, h3, h4⟩ := C12_foreignlanguage_e2e theTables babelOptions [] 2 exSegs bigFuel
    stBabel rfl rfl rfl (by decide +kernel) initParser_babel PlainLang.stBabel_multi stBabel_stack
    stBabel_repl_ne exSegs_ok (by decide +kernel)
  exact ⟨r, h1, by rw [h2, exSegs_ref], h3, by rw [h4, PlainLang.stBabel_diags]⟩

/-- the same by direct evaluation of the model (so that one SEES the output that is claimed) -/
example : (match tex2txt theTables bigFuel (render exSegs) babelOptions true 2 [] with
    | .ok r => decide (r.parts = exParts ∧ r.unknowns = [] ∧ r.diags = [])
    | _ => false) = true := by decide +kernel

/-- with `ml_continue_thresh = 1` both insertions are long: three English pieces, no placeholder,
    and `en-GB` comes first -/
example : refParts theTables babelOptions.lang 1 (mainRepl (lcOf stBabel) babelOptions.lang) exSegs =
    [("en-GB".toList,
        [("This is a ".toList, List.range' 1 10), (" in the text and ".toList, List.range' 48 17),
         (" too.\n".toList, List.range' 130 6)]),
     ("de-DE".toList,
        [("kurzer Satz".toList, List.range' 36 11),
         ("ein wirklich langer deutscher Satz hier".toList, List.range' 90 39)])] := by
  decide +kernel

/-- the side conditions accept: an insertion at the very beginning, line breaks and blanks in the
    text of an insertion (behind a visible character on its first line), a name with blanks, three
    foreign languages, an insertion at the end; the reference for it equals what the model computes
    (a short insertion at the beginning is NOT replaced; the collection wraps around) -/
def exSegs2 : List Seg :=
  [.frn "german".toList "x \n ".toList, .txt "\nB ".toList, .frn " french ".toList " y z".toList,
   .txt " ".toList, .frn "russian".toList "мир".toList, .txt "!".toList, .frn "german".toList "a".toList,
   .txt ".".toList, .frn "german".toList "a".toList, .txt ".".toList, .frn "german".toList "a".toList]

example : segsOk theTables stBabel babelOptions.lang exSegs2 = true := by decide +kernel

example : (match tex2txt theTables bigFuel (render exSegs2) babelOptions true 2 [] with
    | .ok r => decide (r.parts
        = refParts theTables babelOptions.lang 2 (mainRepl (lcOf stBabel) babelOptions.lang) exSegs2 ∧
        partOf r.parts "en-GB".toList
          = [("\nB  L-L-L M-M-M!N-N-N.K-K-K.L-L-L".toList,
              [31, 32, 33, 61, 62, 62, 62, 62, 62, 66, 93, 93, 93, 93, 93, 97, 123, 123, 123, 123, 123,
               125, 151, 151, 151, 151, 151, 153, 179, 179, 179, 179, 179])])
    | _ => false) = true := by decide +kernel

/-- the side conditions reject: babel not loaded; a name whose code is the main language; two
    adjacent insertions; a text without visible character on its first line; the active character
    `"` in German text -/
example : segsOk theTables stDefault babelOptions.lang [.frn "german".toList "a".toList] = false := by
  decide +kernel
example : segsOk theTables stBabel babelOptions.lang [.frn "english".toList "a".toList] = false := by
  decide +kernel
example : segsOk theTables stBabel babelOptions.lang
    [.frn "german".toList "a".toList, .frn "german".toList "a".toList] = false := by decide +kernel
example : segsOk theTables stBabel babelOptions.lang [.frn "german".toList " \na".toList] = false := by
  decide +kernel
example : segsOk theTables stBabel babelOptions.lang [.frn "german".toList "sagt \"a".toList] = false := by
  decide +kernel

end PlainForeign
end Yalafi
