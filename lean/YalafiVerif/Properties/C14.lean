/-
  Properties/C14.lean — a proofreader match is reported at the flagged word in the LaTeX file.

  Proved (all inputs, model of the pure shell functions): for a match on a copied word
  (contiguous position map — what C02 gives) `map_match_position` returns exactly the
  word's offset and length; the assembly of several submitted parts keeps text and map in
  lock step and shifts the offsets of a part's matches by the length of everything before
  it (text plus the two-character delimiter); sorting by LaTeX position is a stable
  permutation, ordered, and rejects offsets outside the map.  Line/column arithmetic and the
  byte variants are tied to the code by correspondence; the end-to-end claim (same line /
  column / length in the plain, JSON, XML, XML-b, HTML reports, ordered, each part under its
  language) is checked with a fake proofreader on generated documents.
-/
import YalafiVerif.Proofs.Shell
import YalafiVerif.Proofs.Reports
import YalafiVerif.Properties.SystemStmt
import YalafiVerif.Properties.SystemMLStmt
import YalafiVerif.Properties.SystemMLMixStmt
import YalafiVerif.Properties.SystemMix3Stmt
namespace Yalafi

theorem C14_mapMatch_word (cm : List Int) (latex : Str) (o l : Nat) (c : Int)
    (hl : 1 ≤ l) (hc : Contiguous cm o l) (h0 : cm[o]? = some c) (hpos : 1 ≤ c) :
    mapMatch cm latex (o : Int) (some (.int l)) = .ok (c - 1, correctMarkMacroname (c - 1) l latex) :=
  mapMatch_word cm latex o l c hl hc h0 hpos

theorem C14_assemble_shift (ps : List (Part × List RawMatch)) (p : Part × List RawMatch) :
    assembleNB (ps ++ [p]) =
      { plainTot := (assembleNB ps).plainTot ++ p.1.plain ++ ['\n', '\n'],
        charmapTot := ((assembleNB ps).charmapTot ++ p.1.charmap) ++
          [(((assembleNB ps).charmapTot ++ p.1.charmap).getLast?).getD 0, (((assembleNB ps).charmapTot ++ p.1.charmap).getLast?).getD 0],
        hits := (assembleNB ps).hits ++ p.2.map (fun m => { m with offset := m.offset + ((assembleNB ps).plainTot.length : Int) }) } :=
  assemble_append ps p

/-- the loop of `run_proofreader_options` over the parts (`assemble`, with `if not plain.strip(): continue`) is the
    assembly `assembleNB` of the non-blank parts, in their order: a blank part is not submitted, adds no text, no
    delimiter, no map entries and shifts nothing -/
theorem C14_assemble_skips_blank (ps : List (Part × List RawMatch)) :
    assemble ps = assembleNB (ps.filter (fun p => !isBlank p.1.plain)) :=
  assemble_eq_filter ps

theorem C14_assemble_nonblank (ps : List (Part × List RawMatch)) (h : ∀ p ∈ ps, isBlank p.1.plain = false) :
    assemble ps = assembleNB ps :=
  assemble_nonblank ps h

theorem C14_assemble_lengths (ps : List (Part × List RawMatch)) (h : ∀ p ∈ ps, p.1.plain.length = p.1.charmap.length) :
    (assembleNB ps).plainTot.length = (assembleNB ps).charmapTot.length :=
  assemble_lengths ps h

theorem C14_sorted (cmt : List Int) (ms out : List RawMatch) (h : sortMatches cmt ms = .ok out) :
    out.Perm ms ∧
    out.Pairwise (fun a b => iabs ((cmt[a.offset.toNat]?).getD 0) ≤ iabs ((cmt[b.offset.toNat]?).getD 0)) ∧
    ∀ m ∈ out, 0 ≤ m.offset ∧ m.offset < cmt.length :=
  sortMatches_sorted cmt ms out h

/-- non-vacuity: a three-character word copied from offset 5 -/
example : Contiguous [5, 6, 7, 9] 0 3 := by
  refine ⟨by decide, ?_⟩
  intro i hi
  match i, hi with
  | 0, _ => rfl
  | 1, _ => rfl
  | 2, _ => rfl

end Yalafi

/-
  Position arithmetic of the reports (Model/Reports.lean, Proofs/Reports.lean; tied to
  gentext.py / genjson.py / genxml.py / tex2txt.translate_numbers by harness/corr_reports.py):
  the text report's (line, column) is THE line and column of the reported offset; JSON `priv`,
  XML and the text report name the same place; the byte columns of `xml-b` are the UTF-8 lengths
  of the same slices; the HTML highlight begins (and, for a sure match, ends) at the reported
  offset and is titled with the reported line; `translate_numbers` (editor interfaces) maps a
  plain (line, column) to the place of `charmap[p]`.
-/
namespace Yalafi
open Reports Html

/-- (a) On a natural offset the text report is `textLineCol`, and that pair is THE line and column
    of the character at `offset`: line `lin` exists, it begins at `starts[lin-1]`, the offset lies
    `col-1` characters behind that begin and no line break lies in between; any pair with these
    properties is the reported one.  (Holds for every offset, also behind the end of the text —
    the column then passes the end of the last line; that case is C15's.) -/
theorem C14_linecol_roundtrip (tex : Str) (offset : Nat) :
    let lc := textLineCol tex offset
    let starts := getLineStarts tex
    textReport tex (offset : Int) = ((lc.1 : Int), (lc.2 : Int)) ∧
    1 ≤ lc.1 ∧ lc.1 ≤ starts.length ∧ 1 ≤ lc.2 ∧
    starts.getD (lc.1 - 1) 0 + (lc.2 - 1) = offset ∧
    '\n' ∉ slice tex (starts.getD (lc.1 - 1) 0) offset ∧
    ∀ l c, 1 ≤ l → l ≤ starts.length → 1 ≤ c → starts.getD (l - 1) 0 + (c - 1) = offset →
      '\n' ∉ slice tex (starts.getD (l - 1) 0) offset → (l, c) = lc :=
  ⟨textReport_nat tex offset, linecol_roundtrip tex offset⟩

/-- (b) JSON `priv`, XML and the text report describe the same place, for every offset and length
    (all ints): `fromy + 1 = lin`, `fromx + 1 = col`; `(toy + 1, tox)` is what the text report
    would print for the last character `offset + length - 1` (0-based exclusive = 1-based inclusive
    column) — for a natural end `e` therefore THE line and column of `e` by (a); XML without
    `-b` carries the same four numbers as JSON, XML with `-b` the same lines -/
theorem C14_formats_agree (tex : Str) (offset length : Int) :
    let t := textReport tex offset
    let j := jsonPriv tex offset length
    j.fromy + 1 = t.1 ∧ j.fromx + 1 = t.2 ∧
    (j.toy + 1, j.tox) = textReport tex (offset + length - 1) ∧
    (∀ e : Nat, offset + length - 1 = e → (j.toy + 1, j.tox) = (((textLineCol tex e).1 : Int), ((textLineCol tex e).2 : Int))) ∧
    xmlReport tex false offset length = j ∧
    (xmlReport tex true offset length).fromy = j.fromy ∧ (xmlReport tex true offset length).toy = j.toy := by
  have ⟨a, b, c, d, e, f⟩ := formats_agree tex offset length
  exact ⟨a, b, c, fun n hn => by rw [← textReport_nat, ← hn]; exact c, d, e, f⟩

/-- on natural offset and length ≥ 1 the Int model is `xmlFields` of Model/Shell.lean -/
theorem C14_jsonPriv_nat (tex : Str) (o l : Nat) (hl : 1 ≤ l) :
    jsonPriv tex (o : Int) (l : Int) =
      { fromy := ((xmlFields tex o l).1 : Nat), fromx := ((xmlFields tex o l).2.1 : Nat),
        toy := ((xmlFields tex o l).2.2.1 : Nat), tox := ((xmlFields tex o l).2.2.2 : Nat) } :=
  jsonPriv_nat tex o l hl

/-- (b, HTML) under the same map the HTML report (`Html.computeH`, any match it accepts) begins its
    highlight at the offset that `map_match_position` delivers to the other reports (and to the
    server emulation), and titles it with the same line -/
theorem C14_html_agrees (T : Tables) (tex : Str) (cm : List Int) (idx : Nat) (o l : Int) (h : HData) (r : Int × Int)
    (hh : computeH T tex cm idx o l = .ok h) (hm : mapMatch cm tex o (some (.int l)) = .ok r) :
    h.beg = r.1 ∧ (h.lin : Int) = (jsonPriv tex r.1 r.2).fromy ∧ (h.lin : Int) + 1 = (textReport tex r.1).1 :=
  html_agrees T tex cm idx o l h r hh hm

/-- (b, HTML) for a sure match (no negative map entries), `length ≥ 1`, positive mapped length, the
    highlight also ends at `offset + length` of the JSON report, macro-name correction included -/
theorem C14_html_end_agrees (T : Tables) (tex : Str) (cm : List Int) (idx : Nat) (o l : Int) (h : HData) (r : Int × Int)
    (hh : computeH T tex cm idx o l = .ok h) (hm : mapMatch cm tex o (some (.int l)) = .ok r)
    (hsure : ∀ c ∈ cm, 0 ≤ c) (hl : 1 ≤ l) (hr : 1 ≤ r.2) :
    h.unsure = false ∧ (h.fin : Int) = r.1 + r.2 :=
  html_end_agrees T tex cm idx o l h r hh hm hsure hl hr

/-- (c) `--output xml-b`, begin of the match at `b ≤ len(tex)`: the byte column is the UTF-8 length
    of the slice `tex[nl:b]` whose character length is the character column; they are equal iff
    the slice is ASCII; `fromx ≤ fromxB ≤ 4 * fromx` -/
theorem C14_xmlb_bytes (tex : Str) (b : Nat) (len : Int) (hb : b ≤ tex.length) :
    let s := slice tex (lastLineStart (tex.take b)) b
    (xmlReport tex true b len).fromx = utf8Size s ∧
    (xmlReport tex false b len).fromx = s.length ∧
    (xmlReport tex false b len).fromx ≤ (xmlReport tex true b len).fromx ∧
    (xmlReport tex true b len).fromx ≤ 4 * (xmlReport tex false b len).fromx ∧
    ((xmlReport tex true b len).fromx = (xmlReport tex false b len).fromx ↔ ∀ c ∈ s, c.toNat < 128) :=
  xmlb_from tex b len hb

/-- (c) the same for the end of the match, last character `e = b + len - 1 < len(tex)`: slice
    `tex[nl:e+1]` -/
theorem C14_xmlb_bytes_end (tex : Str) (b len : Int) (e : Nat) (he : b + len - 1 = e) (hlt : e < tex.length) :
    let s := slice tex (lastLineStart (tex.take e)) (e + 1)
    (xmlReport tex true b len).tox = utf8Size s ∧
    (xmlReport tex false b len).tox = s.length ∧
    (xmlReport tex false b len).tox ≤ (xmlReport tex true b len).tox ∧
    (xmlReport tex true b len).tox ≤ 4 * (xmlReport tex false b len).tox ∧
    ((xmlReport tex true b len).tox = (xmlReport tex false b len).tox ↔ ∀ c ∈ s, c.toNat < 128) :=
  xmlb_to tex b len e he hlt

/-- (f) `translate_numbers` (plain (line, column) ↦ LaTeX (line, column), used by the editor
    interfaces): whenever it answers, `p = starts[lin-1] + col-1` is a character of the plain text
    on that line (with `starts = get_line_starts(plain)`: THE character at line `lin`, column
    `col`), `p` is covered by the map, `flag = (charmap[p] < 0)`, and for `n = |charmap[p]|`
    (1-based position in the LaTeX text) the answer is the line and column — in the sense of (a) —
    of the character `n - 1`; except that a LINE BREAK of the LaTeX text is reported as column 1
    of the following line, and the entry `0` as `(1, 1)` -/
theorem C14_translate_numbers (tex plain : Str) (cm : List Int) (starts : List Nat) (lin col : Int) (r : TNum)
    (h : translateNumbers tex plain cm starts lin col = some r) :
    1 ≤ lin ∧ lin ≤ starts.length ∧ 1 ≤ col ∧
    ∃ n0 c, starts[(lin - 1).toNat]? = some n0 ∧
      n0 + (col - 1).toNat < plain.length ∧
      '\n' ∉ slice plain n0 (n0 + (col - 1).toNat + 1) ∧
      (starts = getLineStarts plain → textLineCol plain (n0 + (col - 1).toNat) = (lin.toNat, col.toNat)) ∧
      cm[n0 + (col - 1).toNat]? = some c ∧ c.natAbs ≤ tex.length ∧ r.flag = decide (c < 0) ∧
      (c.natAbs = 0 → (r.lin, r.col) = (1, 1)) ∧
      (1 ≤ c.natAbs → tex[c.natAbs - 1]? ≠ some '\n' → (r.lin, r.col) = textLineCol tex (c.natAbs - 1)) ∧
      (1 ≤ c.natAbs → tex[c.natAbs - 1]? = some '\n' → (r.lin, r.col) = ((textLineCol tex (c.natAbs - 1)).1 + 1, 1)) := by
  have ⟨a1, a2, a3, n0, c, b1, b2, b3, b4, b5, b6, b7, b8, b9⟩ := translate_numbers_some tex plain cm starts lin col r h
  have ⟨p1, p2, p3⟩ := translate_position tex c.natAbs b6
  rw [← b8, ← b9] at p1 p2 p3
  exact ⟨a1, a2, a3, n0, c, b1, b2, b3, b4, b5, b6, b7, p1, p2, p3⟩

/-- (f) `translate_numbers` returns `None` exactly in the documented cases -/
theorem C14_translate_numbers_none (tex plain : Str) (cm : List Int) (starts : List Nat) (lin col : Int) :
    translateNumbers tex plain cm starts lin col = none ↔
      lin < 1 ∨ col < 1 ∨ lin > (starts.length : Int) ∨
      ∃ n0, starts[(lin - 1).toNat]? = some n0 ∧
        (col > ((lineAt plain n0).length : Int) ∨ n0 + (col - 1).toNat ≥ cm.length ∨
         ∃ c, cm[n0 + (col - 1).toNat]? = some c ∧ c.natAbs > tex.length) :=
  translate_numbers_none tex plain cm starts lin col

/-! non-vacuity: a three-line text with non-ASCII characters, `aä\n€b c\nxy\n`
    (offsets: a0 ä1 \n2 €3 b4 ' '5 c6 \n7 x8 y9 \n10) -/

/-- the word `b c` (offset 4, length 3) on line 2: text report, JSON, XML, XML-b (the `€` in front
    takes 3 bytes) -/
example : locate "aä\n€b c\nxy\n".toList 4 3 =
    { offset := 4, length := 3, lin := 2, col := 2,
      json := ⟨1, 1, 1, 4⟩, xml := ⟨1, 1, 1, 4⟩, xmlb := ⟨1, 3, 1, 6⟩ } := by decide

/-- a match that spans a line break: `ä\n€` -/
example : jsonPriv "aä\n€b c\nxy\n".toList 1 3 = ⟨0, 1, 1, 1⟩ := by decide

example : getLineStarts "aä\n€b c\nxy\n".toList = [0, 3, 8, 11] := by decide

/-- through a map: plain text `ab c` copied from offsets 0, 4, 5, 6 (+1) -/
example : reportAll [1, 5, 6, 7, 7, 7] "aä\n€b c\nxy\n".toList 1 (some (.int 3)) =
    .ok { offset := 4, length := 3, lin := 2, col := 2,
          json := ⟨1, 1, 1, 4⟩, xml := ⟨1, 1, 1, 4⟩, xmlb := ⟨1, 3, 1, 6⟩ } := by decide

/-- `translate_numbers`: plain `ab c\nxy`, line 2 column 2 (`y`) ↦ LaTeX line 3 column 2;
    line 1 column 2 (`b`, unsure) ↦ line 2 column 2 with flag; column behind the line ↦ `None` -/
example : translateNumbers "aä\n€b c\nxy\n".toList "ab c\nxy".toList [1, -5, 6, 7, 8, 9, 10] [0, 5] 2 2
    = some { lin := 3, col := 2, flag := false } := by decide
example : translateNumbers "aä\n€b c\nxy\n".toList "ab c\nxy".toList [1, -5, 6, 7, 8, 9, 10] [0, 5] 1 2
    = some { lin := 2, col := 2, flag := true } := by decide
example : translateNumbers "aä\n€b c\nxy\n".toList "ab c\nxy".toList [1, -5, 6, 7, 8, 9, 10] [0, 5] 1 5 = none := by decide
/-- a map entry that points to a line break of the LaTeX text (`\n` at offset 7, entry 8):
    reported as column 1 of the following line -/
example : translateNumbers "aä\n€b c\nxy\n".toList "ab c\nxy".toList [1, -5, 6, 7, 8, 9, 10] [0, 5] 1 4
    = some { lin := 2, col := 4, flag := false } := by decide
example : translateNumbers "aä\n€b c\nxy\n".toList "ab c\nxy".toList [1, -5, 6, 8, 8, 9, 10] [0, 5] 1 4
    = some { lin := 3, col := 1, flag := false } := by decide

end Yalafi
