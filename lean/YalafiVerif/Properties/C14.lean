/-
  Properties/C14.lean — a proofreader match is reported at the flagged word in the LaTeX file.

  Proved (all inputs, model of the pure shell functions): for a match on a copied word
  (contiguous position map — what C02 gives) `map_match_position` returns exactly the
  word's offset and length; the assembly of several submitted parts keeps text and map in
  lock step and shifts the offsets of a part's matches by the length of everything before
  it (text plus the two-character delimiter); sorting by LaTeX position is a stable
  permutation, ordered, and rejects offsets outside the map.  Line/column arithmetic and the
  byte variants are tied to the code by correspondence; the end-to-end claim (same line /
  column / length in the plain, JSON, XML, XML-b, HTML reports, ordered, each part under its
  language) is checked with a fake proofreader on generated documents.
-/
import YalafiVerif.Proofs.Shell
namespace Yalafi

theorem C14_mapMatch_word (cm : List Int) (latex : Str) (o l : Nat) (c : Int)
    (hl : 1 ≤ l) (hc : Contiguous cm o l) (h0 : cm[o]? = some c) (hpos : 1 ≤ c) :
    mapMatch cm latex (o : Int) (some (.int l)) = .ok (c - 1, correctMarkMacroname (c - 1) l latex) :=
  mapMatch_word cm latex o l c hl hc h0 hpos

theorem C14_assemble_shift (ps : List (Part × List RawMatch)) (p : Part × List RawMatch) :
    assemble (ps ++ [p]) =
      { plainTot := (assemble ps).plainTot ++ p.1.plain ++ ['\n', '\n'],
        charmapTot := ((assemble ps).charmapTot ++ p.1.charmap) ++
          [(((assemble ps).charmapTot ++ p.1.charmap).getLast?).getD 0, (((assemble ps).charmapTot ++ p.1.charmap).getLast?).getD 0],
        hits := (assemble ps).hits ++ p.2.map (fun m => { m with offset := m.offset + ((assemble ps).plainTot.length : Int) }) } :=
  assemble_append ps p

theorem C14_assemble_lengths (ps : List (Part × List RawMatch)) (h : ∀ p ∈ ps, p.1.plain.length = p.1.charmap.length) :
    (assemble ps).plainTot.length = (assemble ps).charmapTot.length :=
  assemble_lengths ps h

theorem C14_sorted (cmt : List Int) (ms out : List RawMatch) (h : sortMatches cmt ms = .ok out) :
    out.Perm ms ∧
    out.Pairwise (fun a b => iabs ((cmt[a.offset.toNat]?).getD 0) ≤ iabs ((cmt[b.offset.toNat]?).getD 0)) ∧
    ∀ m ∈ out, 0 ≤ m.offset ∧ m.offset < cmt.length :=
  sortMatches_sorted cmt ms out h

/-- non-vacuity: a three-character word copied from offset 5 -/
example : Contiguous [5, 6, 7, 9] 0 3 := by
  refine ⟨by decide, ?_⟩
  intro i hi
  match i, hi with
  | 0, _ => rfl
  | 1, _ => rfl
  | 2, _ => rfl

end Yalafi
