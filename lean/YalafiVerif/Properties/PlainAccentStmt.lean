/-
  Properties/PlainAccentStmt.lean — C02, second sentence: "a replaced sequence (dashes, quotes, ties,
  thin space, escaped specials, ACCENT MACROS, GERMAN "-SHORTHANDS) maps to the first character of the
  sequence it replaces", end to end on the filter model, for documents of inert text, accent calls
  `\acc{l}` / `\accl` / `\acc l` and short macros (`"a "o "u "A "O "U "s "` "' "= "-` with the German
  language settings).  The special sequences are `C06_specials_follow_table`.
  Proofs, side conditions and what is not covered: Proofs/PlainAccent.lean.
-/
import YalafiVerif.Proofs.PlainAccent
import YalafiVerif.Generated.Init
namespace Yalafi

/-- **accent macros and short macros are replaced by their table values, mapped to the first
    character of the replaced sequence**, end to end on the filter model.  For every document
    `render segs` of inert text, accent calls and shorthands (`PlainAccent.segsOk`: all side
    conditions, computable), `st1` the state after `Parser.__init__`, no `--defs --extr --repl
    --unkn`, single-language mode, fuel = source length + 2: `tex2txt` succeeds; the output text
    with its (1-based) positions is `PlainAccent.refOut T st1 0 segs`:
    * a text character is copied with its own position;
    * an accent call `\name ws {l}` / `\name ws l` whose backslash stands at position `p` is
      replaced by `accentChar T \name l` — the value of `unicodedata.lookup` for
      `LATIN SMALL/CAPITAL LETTER L WITH <first name part of the accent>` — every character of the
      value at `p` (also for a value of two code points, letter + combining mark);
    * a shorthand `a c` at `p` whose two characters form a key of the short macros of the language
      settings in force is replaced by the value of the table (possibly empty), every character of
      it at `p`;
    * an active character that forms no key with the token behind it is text (`okAtX`).
    Nothing else is added or removed (no line is deleted), there are no unknowns and no
    diagnostic. -/
theorem C02_replaced_e2e (T : PTables) (o : Options) (fs : FS) (thresh : Nat)
    (segs : List PlainAccent.Seg) (fuel : Nat) (st1 : PState)
    (hdefs : o.defs = []) (hextr : o.extr = []) (hrepl : o.hasRepl = false) (hunkn : o.unkn = false)
    (hinit : initParser T fuel o (initialState T o false fs) = .ok ((), st1))
    (hok : PlainAccent.segsOk T st1 segs = true) (hf : (PlainAccent.render segs).length + 2 ≤ fuel) :
    ∃ r, tex2txt T fuel (PlainAccent.render segs) o false thresh fs = .ok r ∧
      r.txt = (PlainAccent.refOut T st1 0 segs).map (·.1) ∧
      r.pos = (PlainAccent.refOut T st1 0 segs).map (·.2 + 1) ∧
      r.unknowns = [] ∧ r.diags = st1.diags := by
  obtain ⟨r, h1, h2, h3, h4, h5, _⟩ :=
    PlainAccent.tex2txt_replaced T o fs thresh segs fuel st1 hdefs hextr hrepl hunkn hinit hok hf
  exact ⟨r, h1, h2, h3, h4, h5⟩

/-- **(A) accent macros**: documents of inert text and accent calls only (`noSh`).  The reference
    `PlainAccent.refAcc T 0 segs` does not depend on the parser state: text with its own
    positions, every call replaced by `accentChar T \name l` at the position of its backslash. -/
theorem C02_accent_e2e (T : PTables) (o : Options) (fs : FS) (thresh : Nat)
    (segs : List PlainAccent.Seg) (fuel : Nat) (st1 : PState)
    (hdefs : o.defs = []) (hextr : o.extr = []) (hrepl : o.hasRepl = false) (hunkn : o.unkn = false)
    (hinit : initParser T fuel o (initialState T o false fs) = .ok ((), st1))
    (hacc : PlainAccent.noSh segs = true)
    (hok : PlainAccent.segsOk T st1 segs = true) (hf : (PlainAccent.render segs).length + 2 ≤ fuel) :
    ∃ r, tex2txt T fuel (PlainAccent.render segs) o false thresh fs = .ok r ∧
      r.txt = (PlainAccent.refAcc T 0 segs).map (·.1) ∧
      r.pos = (PlainAccent.refAcc T 0 segs).map (·.2 + 1) ∧
      r.unknowns = [] ∧ r.diags = st1.diags := by
  obtain ⟨r, h1, h2, h3, h4, h5⟩ :=
    C02_replaced_e2e T o fs thresh segs fuel st1 hdefs hextr hrepl hunkn hinit hok hf
  rw [PlainAccent.refOut_noSh T st1 segs 0 hacc] at h2 h3
  exact ⟨r, h1, h2, h3, h4, h5⟩

/-- one braced accent call between two texts, table value ONE character `ch`: the output is
    `a ch b`; `a` keeps the positions `1 … |a|`, `ch` has the position of the backslash, `b` the
    positions behind the closing brace -/
theorem C02_accent_single (T : PTables) (o : Options) (fs : FS) (thresh : Nat)
    (a b name : Str) (l ch : Char) (fuel : Nat) (st1 : PState)
    (hdefs : o.defs = []) (hextr : o.extr = []) (hrepl : o.hasRepl = false) (hunkn : o.unkn = false)
    (hinit : initParser T fuel o (initialState T o false fs) = .ok ((), st1))
    (hch : PlainAccent.accentChar T ('\\' :: name) l = some [ch])
    (hok : PlainAccent.segsOk T st1 [.txt a, .acc name [] true l, .txt b] = true)
    (hf : (PlainAccent.render [.txt a, .acc name [] true l, .txt b]).length + 2 ≤ fuel) :
    ∃ r, tex2txt T fuel (a ++ '\\' :: (name ++ ['{', l, '}']) ++ b) o false thresh fs = .ok r ∧
      r.txt = a ++ ch :: b ∧
      r.pos = List.range' 1 a.length ++ (a.length + 1) ::
                List.range' (a.length + name.length + 5) b.length := by
  obtain ⟨r, h1, h2, h3, _⟩ :=
    C02_replaced_e2e T o fs thresh _ fuel st1 hdefs hextr hrepl hunkn hinit hok hf
  have href : PlainAccent.refOut T st1 0 [.txt a, .acc name [] true l, .txt b]
      = posText 0 a ++ (ch, a.length) :: posText (a.length + (name.length + 4)) b := by
    rw [PlainAccent.refOut_txt, PlainAccent.refOut_acc_single T st1 _ name [] true l ch _ hch,
      PlainAccent.refOut_txt]
    simp only [PlainAccent.refOut, PlainAccent.accLen, PlainAccent.argStr, if_true, List.length_nil,
      List.length_cons, List.append_nil, Nat.zero_add, Nat.add_zero]
    rw [show a.length + (1 + name.length + (0 + 1 + 1 + 1)) = a.length + (name.length + 4) by omega]
  rw [href] at h2 h3
  refine ⟨r, ?_, ?_, ?_⟩
  · simpa [PlainAccent.render, PlainAccent.Seg.render, PlainAccent.argStr] using h1
  · rw [h2]; simp [posText_fst]
  · rw [h3]
    simp only [List.map_append, List.map_cons, PlainVanish.posText_pos1]
    simp
    omega

/-- **(B) short macros** (the German `"`-shorthands when `st1` holds the German language
    settings): the general statement `C02_replaced_e2e` (the documents may contain accent calls,
    too); a shorthand at `p` contributes `shortVal T st1 [a, c]`, every character at `p` -/
theorem C02_shorthand_e2e (T : PTables) (o : Options) (fs : FS) (thresh : Nat)
    (segs : List PlainAccent.Seg) (fuel : Nat) (st1 : PState)
    (hdefs : o.defs = []) (hextr : o.extr = []) (hrepl : o.hasRepl = false) (hunkn : o.unkn = false)
    (hinit : initParser T fuel o (initialState T o false fs) = .ok ((), st1))
    (hok : PlainAccent.segsOk T st1 segs = true) (hf : (PlainAccent.render segs).length + 2 ≤ fuel) :
    ∃ r, tex2txt T fuel (PlainAccent.render segs) o false thresh fs = .ok r ∧
      r.txt = (PlainAccent.refOut T st1 0 segs).map (·.1) ∧
      r.pos = (PlainAccent.refOut T st1 0 segs).map (·.2 + 1) ∧
      r.unknowns = [] ∧ r.diags = st1.diags :=
  C02_replaced_e2e T o fs thresh segs fuel st1 hdefs hextr hrepl hunkn hinit hok hf

/-- **no output position lies inside a replaced sequence behind its first character**:
    `PlainAccent.spans 0 segs` lists the accent calls and shorthands as (0-based start, length);
    output positions are 1-based.  (Every character a call produces is mapped to the first
    character of the call, whatever the length of the table value.) -/
theorem C02_replaced_first_char (T : PTables) (o : Options) (fs : FS) (thresh : Nat)
    (segs : List PlainAccent.Seg) (fuel : Nat) (st1 : PState)
    (hdefs : o.defs = []) (hextr : o.extr = []) (hrepl : o.hasRepl = false) (hunkn : o.unkn = false)
    (hinit : initParser T fuel o (initialState T o false fs) = .ok ((), st1))
    (hok : PlainAccent.segsOk T st1 segs = true) (hf : (PlainAccent.render segs).length + 2 ≤ fuel) :
    ∃ r, tex2txt T fuel (PlainAccent.render segs) o false thresh fs = .ok r ∧
      ∀ q ∈ r.pos, ∀ sp ∈ PlainAccent.spans 0 segs, q ≤ sp.1 + 1 ∨ sp.1 + sp.2 < q := by
  obtain ⟨r, h1, _, h3, _⟩ :=
    C02_replaced_e2e T o fs thresh segs fuel st1 hdefs hextr hrepl hunkn hinit hok hf
  refine ⟨r, h1, ?_⟩
  intro q hq sp hsp
  rw [h3] at hq
  obtain ⟨cp, hcp, rfl⟩ := List.mem_map.mp hq
  rcases PlainAccent.refOut_pos_first T st1 hcp hsp with h | h
  · left; omega
  · right; omega

/-! ### the current code: default options (accents) -/

/-- (A) for the CURRENT code (tables translated from /repo, default options, parser
    initialisation evaluated by the kernel) -/
theorem C02_accent_e2e_current (segs : List PlainAccent.Seg) (thresh : Nat)
    (hacc : PlainAccent.noSh segs = true)
    (hok : PlainAccent.segsOk Generated.theTables Generated.stDefault segs = true)
    (hf : (PlainAccent.render segs).length + 2 ≤ Generated.bigFuel) :
    ∃ r, tex2txt Generated.theTables Generated.bigFuel (PlainAccent.render segs) Generated.defaultOptions
          false thresh [] = .ok r ∧
      r.txt = (PlainAccent.refAcc Generated.theTables 0 segs).map (·.1) ∧
      r.pos = (PlainAccent.refAcc Generated.theTables 0 segs).map (·.2 + 1) ∧
      r.unknowns = [] ∧ r.diags = Generated.stDefault.diags :=
  C02_accent_e2e Generated.theTables Generated.defaultOptions [] thresh segs Generated.bigFuel
    Generated.stDefault rfl rfl rfl rfl Generated.initParser_default hacc hok hf

/-- the accent table of the current /repo, on some letters -/
theorem C02_accentChar_current :
    PlainAccent.accentChar Generated.theTables "\\\"".toList 'a' = some "ä".toList ∧
    PlainAccent.accentChar Generated.theTables "\\'".toList 'e' = some "é".toList ∧
    PlainAccent.accentChar Generated.theTables "\\c".toList 'c' = some "ç".toList ∧
    PlainAccent.accentChar Generated.theTables "\\v".toList 'S' = some "Š".toList ∧
    PlainAccent.accentChar Generated.theTables "\\\"".toList 'q' = none ∧
    PlainAccent.accentChar Generated.theTables "\\\"".toList '1' = none := by
  decide +kernel

/-- every value of the Unicode-name table of the current /repo is ONE character, except the seven
    named sequences (letter + combining tilde) listed here -/
theorem C02_unicode_values_current :
    (Generated.theTables.unicodeNames.filter (fun e => e.2.length != 1)).map (·.1)
      = ["LATIN CAPITAL LETTER J WITH TILDE", "LATIN CAPITAL LETTER L WITH TILDE",
         "LATIN CAPITAL LETTER M WITH TILDE", "LATIN CAPITAL LETTER R WITH TILDE",
         "LATIN SMALL LETTER L WITH TILDE", "LATIN SMALL LETTER M WITH TILDE",
         "LATIN SMALL LETTER R WITH TILDE"].map String.toList := by
  decide +kernel

/-- a document with accent calls in all forms: braced (`\"{o}`, `\'{e}`, `\c{c}`, `\v{s}`), without
    braces behind a non-letter accent (`\"i`), with a blank behind a letter accent (`\c c`), with a
    line break and a blank in front of the group (`\H⏎ {O}`), and one whose value is a named
    sequence of two code points (`\~{l}`: both are mapped to the backslash, position 83) — for
    the tables of the current /repo:
    `Sch\"{o}ne Gr\"{u}e, caf\'{e}.⏎Fran\c{c}ais, \v{s}koda; na\"ive gar\c con \H⏎ {O} \~{l}!` -/
def C02_accent_doc : List PlainAccent.Seg :=
  [.txt "Sch".toList, .acc "\"".toList [] true 'o', .txt "ne Gr".toList, .acc "\"".toList [] true 'u',
   .txt "e, caf".toList, .acc "'".toList [] true 'e', .txt ".\nFran".toList, .acc "c".toList [] true 'c',
   .txt "ais, ".toList, .acc "v".toList [] true 's', .txt "koda; na".toList, .acc "\"".toList [] false 'i',
   .txt "ve gar".toList, .acc "c".toList " ".toList false 'c', .txt "on ".toList,
   .acc "H".toList "\n ".toList true 'O', .txt " ".toList, .acc "~".toList [] true 'l', .txt "!".toList]

/-- the side conditions hold for it on the real tables -/
theorem C02_accent_example_current :
    PlainAccent.noSh C02_accent_doc = true ∧
    PlainAccent.segsOk Generated.theTables Generated.stDefault C02_accent_doc = true := by
  decide +kernel

/-- … and this is what the theorem says about it: the reference output, text and positions -/
theorem C02_accent_example_ref :
    (PlainAccent.refAcc Generated.theTables 0 C02_accent_doc).map (·.1)
        = "Schöne Grüe, café.\nFrançais, škoda; naïve garçon Ő l̃!".toList ∧
    (PlainAccent.refAcc Generated.theTables 0 C02_accent_doc).map (·.2 + 1)
        = [1, 2, 3, 4, 9, 10, 11, 12, 13, 14, 19, 20, 21, 22, 23, 24, 25, 30, 31, 32, 33, 34, 35, 36,
           41, 42, 43, 44, 45, 46, 51, 52, 53, 54, 55, 56, 57, 58, 59, 62, 63, 64, 65, 66, 67, 68, 72,
           73, 74, 75, 82, 83, 83, 88] := by
  decide +kernel

/-- … which is what the model computes (evaluated by the kernel) -/
theorem C02_accent_example_eval :
    (match tex2txt Generated.theTables Generated.bigFuel (PlainAccent.render C02_accent_doc)
        Generated.defaultOptions false 0 [] with
     | .ok r => r.txt == "Schöne Grüe, café.\nFrançais, škoda; naïve garçon Ő l̃!".toList &&
         r.pos == [1, 2, 3, 4, 9, 10, 11, 12, 13, 14, 19, 20, 21, 22, 23, 24, 25, 30, 31, 32, 33, 34, 35,
           36, 41, 42, 43, 44, 45, 46, 51, 52, 53, 54, 55, 56, 57, 58, 59, 62, 63, 64, 65, 66, 67, 68,
           72, 73, 74, 75, 82, 83, 83, 88] && r.unknowns.isEmpty
     | _ => false) = true := by
  decide +kernel

/-! ### the current code: `--lang de` (shorthands) -/

namespace Generated

/-- `--lang de` -/
def deOptions : Options := { lang := "de".toList }

def initResultDe : Outcome (Unit × PState) :=
  initParser theTables bigFuel deOptions (initialState theTables deOptions false [])

theorem initResultDe_ok : (match initResultDe with | .ok _ => true | _ => false) = true := by
  decide +kernel

/-- the parser state after `Parser.__init__` with `--lang de` -/
def stDe : PState :=
  match initResultDe with
  | .ok (_, s) => s
  | _ => initialState theTables deOptions false []

theorem initParser_de :
    initParser theTables bigFuel deOptions (initialState theTables deOptions false [])
      = .ok ((), stDe) := by
  have h := initResultDe_ok
  show initResultDe = .ok ((), stDe)
  unfold stDe
  generalize initResultDe = r at h ⊢
  cases r with
  | ok p => obtain ⟨u, s⟩ := p; cases u; rfl
  | fatal m => simp at h
  | crash c => simp at h
  | outOfFuel => simp at h

end Generated

/-- with `--lang de` the German settings are in force after the initialisation, `"` is the only
    active character, and these are the short macros of the current /repo -/
theorem C02_shorthand_table_current :
    curSettings Generated.stDe = "de".toList ∧
    (activeChars Generated.theTables Generated.stDe).eraseDups = ["\"".toList] ∧
    ["\"-", "\"=", "\"`", "\"'", "\"A", "\"a", "\"O", "\"o", "\"U", "\"u", "\"s"].map
        (fun k => PlainAccent.shortVal Generated.theTables Generated.stDe k.toList)
      = ["", "-", "„", "“", "Ä", "ä", "Ö", "ö", "Ü", "ü", "ß"].map (fun v => some v.toList) ∧
    PlainAccent.shortVal Generated.theTables Generated.stDe "\"x".toList = none := by
  decide +kernel

/-- (B) for the CURRENT code with `--lang de` -/
theorem C02_shorthand_e2e_current (segs : List PlainAccent.Seg) (thresh : Nat)
    (hok : PlainAccent.segsOk Generated.theTables Generated.stDe segs = true)
    (hf : (PlainAccent.render segs).length + 2 ≤ Generated.bigFuel) :
    ∃ r, tex2txt Generated.theTables Generated.bigFuel (PlainAccent.render segs) Generated.deOptions
          false thresh [] = .ok r ∧
      r.txt = (PlainAccent.refOut Generated.theTables Generated.stDe 0 segs).map (·.1) ∧
      r.pos = (PlainAccent.refOut Generated.theTables Generated.stDe 0 segs).map (·.2 + 1) ∧
      r.unknowns = [] ∧ r.diags = Generated.stDe.diags :=
  C02_shorthand_e2e Generated.theTables Generated.deOptions [] thresh segs Generated.bigFuel
    Generated.stDe rfl rfl rfl rfl Generated.initParser_de hok hf

/-- a German document with all eleven shorthands, a `"` that completes no shorthand (`"x`, `""`,
    `"` at the end) and a shorthand with an empty value (`"-`):
    ``Er sagte "`Hallo"' und "uber "a "- b, "x "" Stra"se "= "O"U"A"o "`` -/
def C02_shorthand_doc : List PlainAccent.Seg :=
  [.txt "Er sagte ".toList, .sh '"' '`', .txt "Hallo".toList, .sh '"' '\'', .txt " und ".toList,
   .sh '"' 'u', .txt "ber ".toList, .sh '"' 'a', .txt " ".toList, .sh '"' '-',
   .txt " b, \"x \"\" Stra".toList, .sh '"' 's', .txt "e ".toList, .sh '"' '=', .txt " ".toList,
   .sh '"' 'O', .sh '"' 'U', .sh '"' 'A', .sh '"' 'o', .txt " \"".toList]

/-- the side conditions hold for it on the real tables with `--lang de` -/
theorem C02_shorthand_example_current :
    PlainAccent.segsOk Generated.theTables Generated.stDe C02_shorthand_doc = true := by
  decide +kernel

/-- … and this is what the theorem says about it: the reference output, text and positions -/
theorem C02_shorthand_example_ref :
    (PlainAccent.refOut Generated.theTables Generated.stDe 0 C02_shorthand_doc).map (·.1)
        = "Er sagte „Hallo“ und über ä  b, \"x \"\" Straße - ÖÜÄö \"".toList ∧
    (PlainAccent.refOut Generated.theTables Generated.stDe 0 C02_shorthand_doc).map (·.2 + 1)
        = [1, 2, 3, 4, 5, 6, 7, 8, 9, 10, 12, 13, 14, 15, 16, 17, 19, 20, 21, 22, 23, 24, 26, 27, 28,
           29, 30, 32, 35, 36, 37, 38, 39, 40, 41, 42, 43, 44, 45, 46, 47, 48, 49, 51, 52, 53, 55, 56,
           58, 60, 62, 64, 65] := by
  decide +kernel

/-- … which is what the model computes (evaluated by the kernel) -/
theorem C02_shorthand_example_eval :
    (match tex2txt Generated.theTables Generated.bigFuel (PlainAccent.render C02_shorthand_doc)
        Generated.deOptions false 0 [] with
     | .ok r => r.txt == "Er sagte „Hallo“ und über ä  b, \"x \"\" Straße - ÖÜÄö \"".toList &&
         r.pos == [1, 2, 3, 4, 5, 6, 7, 8, 9, 10, 12, 13, 14, 15, 16, 17, 19, 20, 21, 22, 23, 24, 26, 27,
           28, 29, 30, 32, 35, 36, 37, 38, 39, 40, 41, 42, 43, 44, 45, 46, 47, 48, 49, 51, 52, 53, 55,
           56, 58, 60, 62, 64, 65] && r.unknowns.isEmpty
     | _ => false) = true := by
  decide +kernel

/-- a German document that mixes shorthands and accent calls (and a `"` in front of `\"a`):
    `Gr"u"se, caf\'{e} "\"a` ↦ `Grüße, café "ä` -/
def C02_mixed_doc : List PlainAccent.Seg :=
  [.txt "Gr".toList, .sh '"' 'u', .sh '"' 's', .txt "e, caf".toList, .acc "'".toList [] true 'e',
   .txt " \"".toList, .acc "\"".toList [] false 'a']

theorem C02_mixed_example_current :
    PlainAccent.segsOk Generated.theTables Generated.stDe C02_mixed_doc = true ∧
    (PlainAccent.refOut Generated.theTables Generated.stDe 0 C02_mixed_doc).map (·.1)
        = "Grüße, café \"ä".toList ∧
    (PlainAccent.refOut Generated.theTables Generated.stDe 0 C02_mixed_doc).map (·.2 + 1)
        = [1, 2, 3, 5, 7, 8, 9, 10, 11, 12, 13, 18, 19, 20] := by
  decide +kernel

end Yalafi
