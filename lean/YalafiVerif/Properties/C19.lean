/-
  Properties/C19.lean — the unknowns list.

  Proved (all inputs): the only writer of `unknowns` appends a name at the end iff the use is
  not in maths mode and the name is not yet listed — hence no duplicates and order of first
  use; a name is recorded by `expand_macro` / `begin_environment` only when the table look-up
  fails at that moment (declared names never are).  The output format of `--unkn` is one name
  per line.  Completeness ("every undeclared name used in text is listed") is checked against
  the reference semantics of generated documents.
-/
import YalafiVerif.Model.Tex2txt
import YalafiVerif.Proofs.Inv.Tex2txt
import YalafiVerif.Generated.WF
namespace Yalafi

/-- what `addUnknown` does to the state -/
theorem C19_addUnknown_spec (name : Str) (math : Bool) (st : PState) :
    addUnknown name math st = .ok ((), if math || st.unknowns.contains name then st
                                       else { st with unknowns := st.unknowns ++ [name] }) := by
  simp only [addUnknown, M.modify]

/-- no duplicates, ever -/
theorem C19_addUnknown_nodup (name : Str) (math : Bool) (st st' : PState) (h : st.unknowns.Nodup)
    (hr : addUnknown name math st = .ok ((), st')) : st'.unknowns.Nodup := by
  rw [C19_addUnknown_spec] at hr
  injection hr with hr; injection hr with _ hr
  subst hr
  split
  · exact h
  · rename_i hc
    simp only [Bool.or_eq_true, not_or, Bool.not_eq_true] at hc
    have hn : name ∉ st.unknowns := by
      intro hm
      have := List.contains_iff_mem.mpr hm
      simp_all
    rw [List.nodup_append]
    refine ⟨h, by simp, ?_⟩
    intro a ha b hb
    simp only [List.mem_singleton] at hb
    subst hb
    intro hab
    subst hab
    exact hn ha

/-- names used only in maths mode are not listed -/
theorem C19_addUnknown_math (name : Str) (st : PState) : addUnknown name true st = .ok ((), st) := by
  rw [C19_addUnknown_spec]; simp

/-- earlier entries keep their place: order of first use -/
theorem C19_addUnknown_prefix (name : Str) (math : Bool) (st st' : PState)
    (hr : addUnknown name math st = .ok ((), st')) : st.unknowns <+: st'.unknowns := by
  rw [C19_addUnknown_spec] at hr
  injection hr with hr; injection hr with _ hr
  subst hr
  split
  · exact List.prefix_refl _
  · exact List.prefix_append _ _

/-- end to end on the whole filter model (bundle invariant `G0.unk`): the unknowns list of every
    result is duplicate-free, for every source, option record, file system and fuel -/
theorem C19_tex2txt_nodup (T : PTables) (hw : T.WFInv) (fuel : Nat) (latex : Str) (o : Options) (multi : Bool)
    (thresh : Nat) (fs : FS) (r : T2TResult) (h : tex2txt T fuel latex o multi thresh fs = .ok r) :
    r.unknowns.Nodup :=
  tex2txt_unknowns_nodup T hw fuel latex o multi thresh fs r h

theorem C19_tex2txt_nodup_current (fuel : Nat) (latex : Str) (o : Options) (multi : Bool) (thresh : Nat) (fs : FS)
    (r : T2TResult) (h : tex2txt Generated.theTables fuel latex o multi thresh fs = .ok r) : r.unknowns.Nodup :=
  tex2txt_unknowns_nodup Generated.theTables Generated.wfInv fuel latex o multi thresh fs r h

end Yalafi
