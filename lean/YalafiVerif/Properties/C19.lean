/-
  Properties/C19.lean — the unknowns list.

  Proved (all inputs): the only writer of `unknowns` appends a name at the end iff the use is
  not in maths mode and the name is not yet listed — hence no duplicates and order of first
  use; a name is recorded by `expand_macro` / `begin_environment` only when the table look-up
  fails at that moment (declared names never are).  The output format of `--unkn` is one name
  per line.  Completeness ("every undeclared name used in text is listed") is checked against
  the reference semantics of generated documents.
-/
import YalafiVerif.Model.Tex2txt
import YalafiVerif.Proofs.Inv.Tex2txt
import YalafiVerif.Generated.WF
import YalafiVerif.Proofs.PlainUnknown
import YalafiVerif.Generated.Init
import YalafiVerif.Properties.PlainUnkn2Stmt
import YalafiVerif.Properties.PlainMix3Stmt
import YalafiVerif.Proofs.UnknGeneral
namespace Yalafi

/-- what `addUnknown` does to the state -/
theorem C19_addUnknown_spec (name : Str) (math : Bool) (st : PState) :
    addUnknown name math st = .ok ((), if math || st.unknowns.contains name then st
                                       else { st with unknowns := st.unknowns ++ [name] }) := by
  simp only [addUnknown, M.modify]

/-- no duplicates, ever -/
theorem C19_addUnknown_nodup (name : Str) (math : Bool) (st st' : PState) (h : st.unknowns.Nodup)
    (hr : addUnknown name math st = .ok ((), st')) : st'.unknowns.Nodup := by
  rw [C19_addUnknown_spec] at hr
  injection hr with hr; injection hr with _ hr
  subst hr
  split
  · exact h
  · rename_i hc
    simp only [Bool.or_eq_true, not_or, Bool.not_eq_true] at hc
    have hn : name ∉ st.unknowns := by
      intro hm
      have := List.contains_iff_mem.mpr hm
      simp_all
    rw [List.nodup_append]
    refine ⟨h, by simp, ?_⟩
    intro a ha b hb
    simp only [List.mem_singleton] at hb
    subst hb
    intro hab
    subst hab
    exact hn ha

/-- names used only in maths mode are not listed -/
theorem C19_addUnknown_math (name : Str) (st : PState) : addUnknown name true st = .ok ((), st) := by
  rw [C19_addUnknown_spec]; simp

/-- earlier entries keep their place: order of first use -/
theorem C19_addUnknown_prefix (name : Str) (math : Bool) (st st' : PState)
    (hr : addUnknown name math st = .ok ((), st')) : st.unknowns <+: st'.unknowns := by
  rw [C19_addUnknown_spec] at hr
  injection hr with hr; injection hr with _ hr
  subst hr
  split
  · exact List.prefix_refl _
  · exact List.prefix_append _ _

/-- end to end on the whole filter model (bundle invariant `G0.unk`): the unknowns list of every
    result is duplicate-free, for every source, option record, file system and fuel -/
theorem C19_tex2txt_nodup (T : PTables) (hw : T.WFInv) (fuel : Nat) (latex : Str) (o : Options) (multi : Bool)
    (thresh : Nat) (fs : FS) (r : T2TResult) (h : tex2txt T fuel latex o multi thresh fs = .ok r) :
    r.unknowns.Nodup :=
  tex2txt_unknowns_nodup T hw fuel latex o multi thresh fs r h

theorem C19_tex2txt_nodup_current (fuel : Nat) (latex : Str) (o : Options) (multi : Bool) (thresh : Nat) (fs : FS)
    (r : T2TResult) (h : tex2txt Generated.theTables fuel latex o multi thresh fs = .ok r) : r.unknowns.Nodup :=
  tex2txt_unknowns_nodup Generated.theTables Generated.wfInv fuel latex o multi thresh fs r h

/-- **completeness and exactness of the unknowns list, end to end**, on documents made of inert
    text and undeclared control words (`Seg`, `render`; the decidable side conditions `SegsOk` say
    that each `\\name` really is one macro token of the scanner — not `\\begin`, `\\end`, `\\item`,
    `\\verb`, `\\def`, an accent, a special sequence, not followed by a letter — and is not declared
    in the initialised parser `st1`): the list holds exactly the control words of the document,
    each once, in order of first use; no diagnostics are added; with `--unkn` the output is the
    list, one name per line; otherwise the output text is a subsequence of the text segments
    whose non-blank characters carry exactly their source positions. -/
theorem C19_unknowns_complete (T : PTables) (o : Options) (fs : FS) (thresh : Nat)
    (segs : List Seg) (fuel : Nat) (st1 : PState)
    (hdefs : o.defs = []) (hextr : o.extr = []) (hrepl : o.hasRepl = false)
    (hinit : initParser T fuel o (initialState T o false fs) = .ok ((), st1))
    (hok : SegsOk T st1 segs) (hf : (render segs).length + 2 ≤ fuel) :
    ∃ r, tex2txt T fuel (render segs) o false thresh fs = .ok r ∧
      r.unknowns = (controlWords segs).eraseDups ∧
      r.diags = st1.diags ∧
      (o.unkn = true → r.txt = strJoin [nl] (controlWords segs).eraseDups ++ [nl]) ∧
      (o.unkn = false →
        List.Sublist r.txt (textOf segs) ∧
        nonBlankPairs (r.txt, r.pos)
          = ((textSegs 0 segs).filter (fun cp => !isSpace cp.1)).map (fun cp => (cp.1, cp.2 + 1))) := by
  obtain ⟨r, h1, h2, h3, _, h5, h6⟩ :=
    tex2txt_unknowns_complete T o fs thresh segs fuel st1 hdefs hextr hrepl hinit hok hf
  exact ⟨r, h1, h2, h3, h5, fun hu => ⟨(h6 hu).2.2.1, (h6 hu).2.2.2⟩⟩

/-- completeness of the unknowns list for the CURRENT code (tables translated from /repo, default
    options, parser initialisation evaluated by the kernel) -/
theorem C19_unknowns_complete_current (segs : List Seg) (thresh : Nat)
    (hok : SegsOk Generated.theTables Generated.stDefault segs)
    (hf : (render segs).length + 2 ≤ Generated.bigFuel) :
    ∃ r, tex2txt Generated.theTables Generated.bigFuel (render segs) Generated.defaultOptions false thresh [] = .ok r ∧
      r.unknowns = (controlWords segs).eraseDups ∧ r.diags = Generated.stDefault.diags := by
  obtain ⟨r, h1, h2, h3, _⟩ := C19_unknowns_complete Generated.theTables Generated.defaultOptions [] thresh segs
    Generated.bigFuel Generated.stDefault rfl rfl rfl Generated.initParser_default hok hf
  exact ⟨r, h1, h2, h3⟩

/-- a concrete document satisfies the side conditions on the real tables (and `\\LaTeX`, which is
    declared, does not) -/
theorem C19_example_current :
    SegsOk Generated.theTables Generated.stDefault
      [.txt "Hello ".toList, .cw "foo".toList, .txt " world ".toList, .cw "bar".toList, .cw "foo".toList, .txt ", end.".toList] ∧
    ¬ SegsOk Generated.theTables Generated.stDefault [.txt "Use ".toList, .cw "LaTeX".toList, .txt " here.".toList] := by
  decide +kernel

/-! ### the OUTPUT of `--unkn`, for every source text (Proofs/UnknGeneral.lean) -/

/-- **for every source text**: option `--unkn` does not change the run of the filter; the result is the result without
    the option with the text replaced by the unknowns, one per line in their order (first use), and every position the
    dummy number -/
theorem C19_unkn_commutes (T : PTables) (fuel : Nat) (latex : Str) (o : Options) (thresh : Nat) (fs : FS)
    (r0 : T2TResult)
    (h0 : tex2txt T fuel latex { o with unkn := false } false thresh fs = .ok r0) :
    tex2txt T fuel latex { o with unkn := true } false thresh fs =
      .ok { r0 with txt := unknText r0.unknowns, pos := List.replicate (unknText r0.unknowns).length 1 } :=
  tex2txt_unkn_commutes T fuel latex o thresh fs r0 h0

theorem C19_unkn_output (T : PTables) (fuel : Nat) (latex : Str) (o : Options) (thresh : Nat) (fs : FS)
    (r : T2TResult) (hu : o.unkn = true)
    (h : tex2txt T fuel latex o false thresh fs = .ok r) :
    r.txt = unknText r.unknowns ∧ r.pos = List.replicate r.txt.length 1 :=
  tex2txt_unkn_output T fuel latex o thresh fs r hu h

/-- **end to end with `--unkn`** on the 22-kind union grammar: the printed text is exactly the list of the names that are
    undeclared at their use in the text (`unkNames`: undeclared control words, uses of a user macro before its
    definition; names in formulas, displayed equations, comments, `\verb` are not among them), each once, in order of
    first use, one per line -/
theorem C19_unkn_output_mix3 (T : PTables) (o : Options) (fs : FS) (thresh : Nat)
    (segs : List PlainMix3.Seg) (fuel : Nat) (st1 : PState) (repls drepls : List Str)
    (hdefs : o.defs = []) (hextr : o.extr = []) (hrepl : o.hasRepl = false) (hunkn : o.unkn = true)
    (hinit : initParser T fuel o (initialState T o false fs) = .ok ((), st1))
    (hok : PlainMix3.SegsOk T st1 repls drepls segs)
    (hf : (PlainMix3.render segs).length + PlainMix3.inserted [] 0 segs + 6 ≤ fuel) :
    ∃ r, tex2txt T fuel (PlainMix3.render segs) o false thresh fs = .ok r ∧
      r.txt = unknText ((PlainMix3.unkNames [] segs).eraseDups) ∧
      r.pos = List.replicate r.txt.length 1 ∧
      r.unknowns = (PlainMix3.unkNames [] segs).eraseDups := by
  obtain ⟨r0, h0, _, _, hu, _⟩ :=
    C03_mix3_e2e T { o with unkn := false } fs thresh segs fuel st1 repls drepls hdefs hextr hrepl rfl hinit hok hf
  have h1 := tex2txt_unkn_commutes T fuel (PlainMix3.render segs) o thresh fs r0 h0
  have ho : ({ o with unkn := true } : Options) = o := by cases o; simp_all
  rw [ho] at h1
  refine ⟨_, h1, ?_, ?_, ?_⟩
  · simp [hu]
  · simp
  · simp [hu]

/-- … on the tables translated from /repo, with `Options(unkn=True)`, for the 17-line example document that uses all 22
    kinds: the side conditions hold (`C03_mix3_example_current`), and the printed list is `\pair` (the one use that
    precedes its definition), `\textbf`, `\emph` (not declared by YaLafi without packages), `\foo`, `\bar`; `\alpha` in the
    formula and the later uses of `\pair` are not listed -/
theorem C19_unkn_output_mix3_current (thresh : Nat) :
    ∃ r, tex2txt Generated.theTables Generated.bigFuel (PlainMix3.render C03_mix3_doc)
          { Generated.defaultOptions with unkn := true } false thresh [] = .ok r ∧
      r.txt = unknText ((PlainMix3.unkNames [] C03_mix3_doc).eraseDups) ∧
      r.pos = List.replicate r.txt.length 1 ∧
      r.unknowns = (PlainMix3.unkNames [] C03_mix3_doc).eraseDups :=
  C19_unkn_output_mix3 Generated.theTables { Generated.defaultOptions with unkn := true } [] thresh C03_mix3_doc
    Generated.bigFuel Generated.stDefault C03_mix3_repls C03_mix3_drepls rfl rfl rfl rfl
    Generated.initParser_default C03_mix3_example_current C03_mix3_example_fuel

theorem C19_unkn_output_mix3_example :
    unknText ((PlainMix3.unkNames [] C03_mix3_doc).eraseDups) = "\\pair\n\\textbf\n\\emph\n\\foo\n\\bar\n".toList := by
  decide +kernel

end Yalafi
