/-
  Properties/PlainDispRowsStmt.lean — C11 "displayed equations follow the documented scheme and keep
  their punctuation" for the ROW / SECTION STRUCTURE of displayed equations: the end-to-end theorem
  for `\[ body \]` and `\begin{name} body \end{name}` with `body ::= row (\\ row)*`,
  `row ::= section (& section)*`, its corollaries, and the instances on the tables translated from
  /repo.  Proofs: Proofs/PlainDispRows.lean (documents, side conditions with their reasons, reference
  output, what is not covered), Proofs/PlainDispRowsTok.lean (token level),
  Proofs/PlainDispRowsE2E.lean (scanner, lifts, corollaries).
-/
import YalafiVerif.Proofs.PlainDispRowsE2E
import YalafiVerif.Generated.Init
namespace Yalafi

open PlainDispRows (Row Rows rowsOf refOut eqnOut eqnRef eqnK secRef RefSt nRows rowsSrc
  leadOp leadChar opW visWords PieceKind)

/-- **displayed equations with rows and sections**, end to end on the filter model.  For documents of
    inert text and displayed equations `\[body\]` / `\begin{name}body\end{name}` (`name` declared as
    equation environment without arguments) whose body is `row (\\ row)*`, `row ::= section (& section)*`,
    every section a possibly empty run of simple maths characters — in particular
    `[leading operator] simple maths [. , ; :]` and operator-only sections as in `a &=& b`
    (`PlainDispRows.SegsOk`; the first and the last row of an equation must generate some text) —,
    with `repls` the display collection and `ls` the settings of the language after `Parser.__init__`:

    `tex2txt` succeeds, and text and position map are those of `PlainDispRows.refOut`:
    * text segments are copied, every character with its own position;
    * an equation is `PlainDispRows.eqnRef`: two blanks (mapped to the `\` of `\[` / `\begin`), then its
      rows joined by line break + two blanks, the sections of a row joined by one blank (separators are
      mapped to the position of the last piece generated before);
    * a section (`PlainDispRows.secRef`) that is not only white space is, with `f` the position of its
      first character that is no white space:
        [blank · `opW ls op` · blank, all at `f` — iff it is not the first section of its row and starts
         with an operator `op` of `math_operators`]
        [the placeholder `placeholder repls k'` at the first element character — iff there is one; the
         rotation count advances (`k' = k + 1`) iff `next_repl` is set or the operator word was written]
        [the closing punctuation mark `punctOf T s` at `f` — iff the last character that is no white
         space is one of `math_punctuation`];
      `next_repl` is set at the start of each equation, behind a punctuation mark, and behind a section
      that starts with an operator and has no element; it is cleared by any other non-blank section;
      the rotation count runs through the whole document;
    * no unknowns, no new diagnostics.
    (`VisibleRepls`, `visWords`: no placeholder / operator word is blank or contains a line break.) -/
theorem C11_display_rows_e2e (T : PTables) (o : Options) (fs : FS) (thresh : Nat)
    (segs : List PlainDispRows.Seg) (fuel : Nat) (st1 : PState) (rot : Rot) (repls : List Str) (ls : LangSettings)
    (hdefs : o.defs = []) (hextr : o.extr = []) (hrepl : o.hasRepl = false) (hunkn : o.unkn = false)
    (hinit : initParser T fuel o (initialState T o false fs) = .ok ((), st1))
    (hok : PlainDispRows.SegsOk T st1 segs)
    (hrot : rotOf st1 (curSettings st1) = some rot) (hrepls : rot.disp = repls)
    (hne : repls ≠ []) (hvis : PlainMath.VisibleRepls repls)
    (hls : settingsOf T (curSettings st1) = some ls) (hw : visWords ls = true)
    (hf : (PlainDispRows.render segs).length + 2 ≤ fuel) :
    ∃ r, tex2txt T fuel (PlainDispRows.render segs) o false thresh fs = .ok r ∧
      r.txt = (refOut T st1.mathOperators ls repls 0 0 segs).map (·.1) ∧
      r.pos = (refOut T st1.mathOperators ls repls 0 0 segs).map (·.2 + 1) ∧
      r.unknowns = [] ∧ r.diags = st1.diags :=
  PlainDispRows.tex2txt_display_rows T o fs thresh segs fuel st1 rot repls ls hdefs hextr hrepl hunkn hinit
    hok hrot hrepls hne hvis hls hw hf

/-! ### corollaries about the reference output -/

/-- (a) **one output line per `\\`-separated row**: the rendering of an equation contains exactly one
    line break per row but the first, i.e. it has `nRows b` lines -/
theorem C11_rows_one_line_per_row (T : PTables) (ops : List Str) (ls : LangSettings) (repls : List Str)
    (hv : PlainMath.VisibleRepls repls) (hne : repls ≠ []) (hw : visWords ls = true) (k p o : Nat)
    (b : Rows) :
    countNl ((eqnOut T ops ls repls k p o b).map (·.1)) + 1 = nRows b :=
  PlainDispRows.eqnOut_lines T ops ls repls hv hne hw k p o b

/-- (b) **every position generated for an equation lies inside the equation**: it is the position `p`
    of the `\` of the opening command, or the position of a character of the body, which occupies
    `[p + o, p + o + |body|)` -/
theorem C11_rows_span (T : PTables) (ops : List Str) (ls : LangSettings) (repls : List Str) (k p o : Nat)
    (b : Rows) :
    ∀ cq ∈ eqnOut T ops ls repls k p o b,
      cq.2 = p ∨ (p + o ≤ cq.2 ∧ cq.2 < p + o + (rowsSrc b).length) :=
  PlainDispRows.eqnOut_span T ops ls repls k p o b

/-- (c) **no maths source text appears in the output**: every piece of the rendering of an equation is
    the indentation, a separator, an operator word of the language, a placeholder of the display
    collection, or a closing punctuation mark `punctOf T s` -/
theorem C11_rows_no_source (T : PTables) (ops : List Str) (ls : LangSettings) (repls : List Str)
    (k p o : Nat) (b : Rows) :
    ∀ pc ∈ (eqnRef T ops ls repls k p o b).1, PieceKind T ls repls pc.1 :=
  PlainDispRows.eqnRef_kind T ops ls repls k p o b

/-- (d) **a closing `. , ; :` is kept directly after its placeholder**: a section with an element
    character that ends (up to white space) with a punctuation mark is rendered as
    `… placeholder · mark` -/
theorem C11_rows_punct (T : PTables) (ops : List Str) (ls : LangSettings) (repls : List Str) (fs : Bool)
    (σ : RefSt) (q : Nat) (s : Str) (hel : s.any (PlainDisplay.elemChar T ops) = true)
    (hp : PlainMath.punctOf T s ≠ []) :
    ∃ pre, (secRef T ops ls repls fs σ q s).1
      = pre ++ [(PlainMath.placeholder repls (secRef T ops ls repls fs σ q s).2.k,
                  q + PlainDisplay.elemOff T ops s),
                (PlainMath.punctOf T s, q + PlainMath.leadBlanks s)] :=
  PlainDispRows.secRef_punct T ops ls repls fs σ q s hel hp

/-- (e) **a relation or operator leading an aligned section becomes the language's word for it**: a
    section that is not the first of its row and starts with an operator is rendered as
    blank · word · blank · …, all three mapped to the operator; the first section of a row never
    gets a word -/
theorem C11_rows_opword (T : PTables) (ops : List Str) (ls : LangSettings) (repls : List Str)
    (σ : RefSt) (q : Nat) (s : Str) (hop : leadOp ops s = true) :
    ∃ rest, (secRef T ops ls repls false σ q s).1
      = ([' '], q + PlainMath.leadBlanks s) :: (opW ls (leadChar s).toList, q + PlainMath.leadBlanks s)
          :: ([' '], q + PlainMath.leadBlanks s) :: rest :=
  PlainDispRows.secRef_opword T ops ls repls σ q s hop

theorem C11_rows_first_noword (T : PTables) (ops : List Str) (ls : LangSettings) (repls : List Str)
    (σ : RefSt) (q : Nat) (s : Str) :
    ∀ pc ∈ (secRef T ops ls repls true σ q s).1,
      pc.1 = PlainMath.placeholder repls (secRef T ops ls repls true σ q s).2.k ∨
      pc.1 = PlainMath.punctOf T s :=
  PlainDispRows.secRef_first_noword T ops ls repls σ q s

/-- (f) **placeholders advance exactly at the documented points** (`k` = rotation count, `nr` =
    `next_repl`) -/
theorem C11_rows_advance (T : PTables) (ops : List Str) (ls : LangSettings) (repls : List Str) (fs : Bool)
    (σ : RefSt) (q : Nat) (s : Str) :
    (s.all isSpace = true → secRef T ops ls repls fs σ q s = ([], σ)) ∧
    (s.all isSpace = false →
      (secRef T ops ls repls fs σ q s).2.k
        = (if (σ.nr || (leadOp ops s && !fs)) && s.any (PlainDisplay.elemChar T ops) then σ.k + 1 else σ.k) ∧
      (secRef T ops ls repls fs σ q s).2.nr
        = (!(PlainMath.punctOf T s).isEmpty || (leadOp ops s && !s.any (PlainDisplay.elemChar T ops)))) :=
  PlainDispRows.secRef_state T ops ls repls fs σ q s

/-! ### the instance on the tables translated from /repo -/

/-- the display collection of the default language after initialisation of the CURRENT code -/
def C11_rows_dispCurrent : List Str :=
  ((rotOf Generated.stDefault (curSettings Generated.stDefault)).map (·.disp)).getD []

/-- the language settings of the default language of the CURRENT code -/
def C11_rows_lsCurrent : LangSettings :=
  (settingsOf Generated.theTables (curSettings Generated.stDefault)).getD default

/-- the hypotheses about the initialised parser hold for the tables translated from /repo -/
theorem C11_rows_current_facts :
    (rotOf Generated.stDefault (curSettings Generated.stDefault)).isSome = true ∧
    C11_rows_dispCurrent ≠ [] ∧ C11_rows_dispCurrent.length = 6 ∧
    PlainDisplay.visibleRepls C11_rows_dispCurrent = true ∧
    (settingsOf Generated.theTables (curSettings Generated.stDefault)).isSome = true ∧
    visWords C11_rows_lsCurrent = true ∧
    C11_rows_lsCurrent.opDefault = some "equal".toList ∧
    C11_rows_lsCurrent.opText.map (·.2) = ["plus".toList, "minus".toList, "times".toList, "times".toList,
      "over".toList] := by
  decide +kernel

/-- `A⏎\begin{eqnarray} a &=& b + c, \\ &=& d. \end{eqnarray}⏎B \begin{equation} x = y \end{equation} C
    \[ a & = b & +c \\ = d & e \]`: an `eqnarray` with two rows of three sections (the middle ones
    consist of the operator alone, the first section of the second row is empty), an `equation` with
    one section, and a `\[ … \]` with leading operators in aligned sections -/
def C11_rows_exampleSegs : List PlainDispRows.Seg :=
  [.txt "A\n".toList,
   .env "eqnarray".toList
     (rowsOf [[" a ".toList, "=".toList, " b + c, ".toList], [" ".toList, "=".toList, " d. ".toList]]),
   .txt "\nB ".toList,
   .env "equation".toList (rowsOf [[" x = y ".toList]]),
   .txt " C ".toList,
   .disp (rowsOf [[" a ".toList, " = b ".toList, " +c ".toList], [" = d ".toList, " e ".toList]])]

/-- the source text of the example -/
theorem C11_rows_example_src :
    PlainDispRows.render C11_rows_exampleSegs
      = ("A\n\\begin{eqnarray} a &=& b + c, \\\\ &=& d. \\end{eqnarray}\nB " ++
         "\\begin{equation} x = y \\end{equation} C \\[ a & = b & +c \\\\ = d & e \\]").toList := by
  decide +kernel

/-- the concrete document satisfies the side conditions on the real tables -/
theorem C11_display_rows_example_current :
    PlainDispRows.SegsOk Generated.theTables Generated.stDefault C11_rows_exampleSegs := by
  decide +kernel

/-- the expected output text of the example:
    `A⏎  V-V-V  equal  W-W-W,⏎    equal  X-X-X.⏎B   Y-Y-Y C   Z-Z-Z  equal U-U-U  plus V-V-V⏎  V-V-V V-V-V` -/
def C11_rows_exampleTxt : Str :=
  ("A\n  V-V-V  equal  W-W-W,\n    equal  X-X-X.\nB   Y-Y-Y C   Z-Z-Z  equal U-U-U  plus V-V-V\n" ++
   "  V-V-V V-V-V").toList

/-- the expected position map of the example (1-based): e.g. the two blanks of the `eqnarray` at its
    `\begin` (3), `V-V-V` at `a` (20), ` equal ` at the first `=` (23) with the section separator before
    it at `a` (20), `W-W-W` at `b` (26) and the comma at `b` (26), the line break at `b` (26),
    ` equal ` at the second `=` (37), `X-X-X.` at `d` (40) -/
def C11_rows_examplePos : List Nat :=
      [1, 2, 3, 3, 20, 20, 20, 20, 20, 20, 23, 23, 23, 23, 23, 23, 23, 23, 26, 26, 26, 26, 26, 26, 26, 26, 26, 26, 37, 37,
       37, 37, 37, 37, 37, 37, 40, 40, 40, 40, 40, 40, 57, 58, 59, 60, 60, 77, 77, 77, 77, 77, 97, 98, 99, 100, 100, 103,
       103, 103, 103, 103, 103, 107, 107, 107, 107, 107, 107, 107, 109, 109, 109, 109, 109, 109, 113, 113, 113, 113, 113,
       113, 114, 114, 114, 114, 114, 114, 114, 114, 121, 121, 121, 121, 121, 121, 125, 125, 125, 125, 125]

/-- … its reference output -/
theorem C11_display_rows_ref_current :
    (refOut Generated.theTables Generated.stDefault.mathOperators C11_rows_lsCurrent C11_rows_dispCurrent 0 0
        C11_rows_exampleSegs).map (·.1) = C11_rows_exampleTxt ∧
    (refOut Generated.theTables Generated.stDefault.mathOperators C11_rows_lsCurrent C11_rows_dispCurrent 0 0
        C11_rows_exampleSegs).map (·.2 + 1) = C11_rows_examplePos := by
  decide +kernel

/-- **the end-to-end theorem applied to the current code**: the filter (default options) maps the
    example document to the text and positions above -/
theorem C11_display_rows_e2e_current (thresh : Nat) :
    ∃ r, tex2txt Generated.theTables Generated.bigFuel (PlainDispRows.render C11_rows_exampleSegs)
          Generated.defaultOptions false thresh [] = .ok r ∧
      r.txt = C11_rows_exampleTxt ∧ r.pos = C11_rows_examplePos ∧
      r.unknowns = [] ∧ r.diags = Generated.stDefault.diags := by
  have F := C11_rows_current_facts
  obtain ⟨rot, hrot⟩ := Option.isSome_iff_exists.mp F.1
  obtain ⟨ls, hls⟩ := Option.isSome_iff_exists.mp F.2.2.2.2.1
  have hd : rot.disp = C11_rows_dispCurrent := by
    simp [C11_rows_dispCurrent, hrot]
  have hl : C11_rows_lsCurrent = ls := by
    simp [C11_rows_lsCurrent, hls]
  obtain ⟨r, h1, h2, h3, h4, h5⟩ := C11_display_rows_e2e Generated.theTables Generated.defaultOptions []
    thresh C11_rows_exampleSegs Generated.bigFuel Generated.stDefault rot C11_rows_dispCurrent
    C11_rows_lsCurrent rfl rfl rfl rfl
    Generated.initParser_default C11_display_rows_example_current hrot hd F.2.1
    (PlainDisplay.visibleRepls_iff _ F.2.2.2.1) (by rw [hl]; exact hls) F.2.2.2.2.2.1 (by decide +kernel)
  exact ⟨r, h1, h2.trans C11_display_rows_ref_current.1, h3.trans C11_display_rows_ref_current.2, h4, h5⟩

/-- **kernel evaluation of the filter model** on the example document: the same text and positions
    (independent of the theorem: `tex2txt` itself is evaluated) -/
theorem C11_display_rows_eval_current :
    (match tex2txt Generated.theTables Generated.bigFuel (PlainDispRows.render C11_rows_exampleSegs)
          Generated.defaultOptions false 0 [] with
     | .ok r => some (r.txt, r.pos)
     | _ => none) = some (C11_rows_exampleTxt, C11_rows_examplePos) := by
  decide +kernel

/-! ### the two documents of the task, each alone -/

/-- `\begin{eqnarray} a &=& b + c, \\ &=& d. \end{eqnarray}` -/
def C11_rows_eqnarraySegs : List PlainDispRows.Seg :=
  [.env "eqnarray".toList
     (rowsOf [[" a ".toList, "=".toList, " b + c, ".toList], [" ".toList, "=".toList, " d. ".toList]])]

/-- `\begin{equation} x = y \end{equation}` -/
def C11_rows_equationSegs : List PlainDispRows.Seg :=
  [.env "equation".toList (rowsOf [[" x = y ".toList]])]

theorem C11_rows_eqnarray_current (thresh : Nat) :
    PlainDispRows.render C11_rows_eqnarraySegs
      = "\\begin{eqnarray} a &=& b + c, \\\\ &=& d. \\end{eqnarray}".toList ∧
    ∃ r, tex2txt Generated.theTables Generated.bigFuel (PlainDispRows.render C11_rows_eqnarraySegs)
          Generated.defaultOptions false thresh [] = .ok r ∧
      r.txt = "  V-V-V  equal  W-W-W,\n    equal  X-X-X.".toList ∧
      r.pos = [1, 1, 18, 18, 18, 18, 18, 18, 21, 21, 21, 21, 21, 21, 21, 21, 24, 24, 24, 24, 24, 24, 24, 24,
               24, 24, 35, 35, 35, 35, 35, 35, 35, 35, 38, 38, 38, 38, 38, 38] ∧
      r.unknowns = [] ∧ r.diags = Generated.stDefault.diags := by
  refine ⟨by decide +kernel, ?_⟩
  have F := C11_rows_current_facts
  obtain ⟨rot, hrot⟩ := Option.isSome_iff_exists.mp F.1
  obtain ⟨ls, hls⟩ := Option.isSome_iff_exists.mp F.2.2.2.2.1
  have hd : rot.disp = C11_rows_dispCurrent := by
    simp [C11_rows_dispCurrent, hrot]
  have hl : C11_rows_lsCurrent = ls := by
    simp [C11_rows_lsCurrent, hls]
  obtain ⟨r, h1, h2, h3, h4, h5⟩ := C11_display_rows_e2e Generated.theTables Generated.defaultOptions []
    thresh C11_rows_eqnarraySegs Generated.bigFuel Generated.stDefault rot C11_rows_dispCurrent
    C11_rows_lsCurrent rfl rfl rfl rfl
    Generated.initParser_default (by decide +kernel) hrot hd F.2.1
    (PlainDisplay.visibleRepls_iff _ F.2.2.2.1) (by rw [hl]; exact hls) F.2.2.2.2.2.1 (by decide +kernel)
  exact ⟨r, h1, h2.trans (by decide +kernel), h3.trans (by decide +kernel), h4, h5⟩

theorem C11_rows_equation_current (thresh : Nat) :
    PlainDispRows.render C11_rows_equationSegs = "\\begin{equation} x = y \\end{equation}".toList ∧
    ∃ r, tex2txt Generated.theTables Generated.bigFuel (PlainDispRows.render C11_rows_equationSegs)
          Generated.defaultOptions false thresh [] = .ok r ∧
      r.txt = "  V-V-V".toList ∧ r.pos = [1, 1, 18, 18, 18, 18, 18] ∧
      r.unknowns = [] ∧ r.diags = Generated.stDefault.diags := by
  refine ⟨by decide +kernel, ?_⟩
  have F := C11_rows_current_facts
  obtain ⟨rot, hrot⟩ := Option.isSome_iff_exists.mp F.1
  obtain ⟨ls, hls⟩ := Option.isSome_iff_exists.mp F.2.2.2.2.1
  have hd : rot.disp = C11_rows_dispCurrent := by
    simp [C11_rows_dispCurrent, hrot]
  have hl : C11_rows_lsCurrent = ls := by
    simp [C11_rows_lsCurrent, hls]
  obtain ⟨r, h1, h2, h3, h4, h5⟩ := C11_display_rows_e2e Generated.theTables Generated.defaultOptions []
    thresh C11_rows_equationSegs Generated.bigFuel Generated.stDefault rot C11_rows_dispCurrent
    C11_rows_lsCurrent rfl rfl rfl rfl
    Generated.initParser_default (by decide +kernel) hrot hd F.2.1
    (PlainDisplay.visibleRepls_iff _ F.2.2.2.1) (by rw [hl]; exact hls) F.2.2.2.2.2.1 (by decide +kernel)
  exact ⟨r, h1, h2.trans (by decide +kernel), h3.trans (by decide +kernel), h4, h5⟩

/-- kernel evaluation of the filter model on the two documents -/
theorem C11_rows_eqnarray_eval_current :
    (match tex2txt Generated.theTables Generated.bigFuel
          "\\begin{eqnarray} a &=& b + c, \\\\ &=& d. \\end{eqnarray}".toList
          Generated.defaultOptions false 0 [] with
     | .ok r => some r.txt
     | _ => none) = some "  V-V-V  equal  W-W-W,\n    equal  X-X-X.".toList ∧
    (match tex2txt Generated.theTables Generated.bigFuel "\\begin{equation} x = y \\end{equation}".toList
          Generated.defaultOptions false 0 [] with
     | .ok r => some r.txt
     | _ => none) = some "  V-V-V".toList := by
  decide +kernel

end Yalafi
