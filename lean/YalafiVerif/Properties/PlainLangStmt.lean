/-
  Properties/PlainLangStmt.lean — C12 "multi-language mode assigns every word to exactly one part of
  the right language", end to end on the model, for documents of inert text and hard language
  switches `\selectlanguage{name}` (package babel loaded).
-/
import YalafiVerif.Proofs.PlainLangCor
import YalafiVerif.Generated.Init
namespace Yalafi
namespace Generated

/-- `--pack babel --lang en-GB` -/
def babelOptions : Options := { pack := "babel".toList, lang := "en-GB".toList }

def initResultBabel : Outcome (Unit × PState) :=
  initParser theTables bigFuel babelOptions (initialState theTables babelOptions true [])

theorem initResultBabel_ok : (match initResultBabel with | .ok _ => true | _ => false) = true := by
  decide +kernel

/-- the parser state after `Parser.__init__` with package babel, multi-language mode -/
def stBabel : PState :=
  match initResultBabel with
  | .ok (_, s) => s
  | _ => initialState theTables babelOptions true []

theorem initParser_babel :
    initParser theTables bigFuel babelOptions (initialState theTables babelOptions true [])
      = .ok ((), stBabel) := by
  have h := initResultBabel_ok
  show initResultBabel = .ok ((), stBabel)
  unfold stBabel
  generalize initResultBabel = r at h ⊢
  cases r with
  | ok p => obtain ⟨u, s⟩ := p; cases u; rfl
  | fatal m => simp at h
  | crash c => simp at h
  | outOfFuel => simp at h

end Generated

namespace PlainLang
open Generated

/-- **C12 for `\selectlanguage`, end to end** (`Proofs/PlainLang.lean`, `tex2txt_selectlanguage`).
    The source is `render segs`: inert text segments and hard switches `\selectlanguage{name}`.
    Hypotheses: no `--defs`, `--extr`, `--repl`; `selectlang_break` is set (`T.selectBrk`); `st1` is
    the parser state after `Parser.__init__` in MULTI-LANGUAGE mode (`multi = true`), in which
    babel's `\selectlanguage` is declared (part of `segsOk`) and the multi-language flag is set;
    `segsOk T st1 segs` (computable; see the header of `Proofs/PlainLang.lean`); one unit of fuel
    per source character plus two.  Then `tex2txt` succeeds and

    * `r.parts = refParts T o.lang segs`: take the text characters with their source positions
      and, for every switch, an Action mark and a language token (`segMarks`); delete every line
      (with its line break) that consists of white space and switches only and holds at least one
      switch, keeping the language tokens (`delLines`: a switch on a line of its own disappears
      with its line); cut the rest at every switch whose language code (`babel.language_map`,
      unknown names count as `english`) differs from the code in force (initially `o.lang`); a
      run without characters yields no part (`cutRuns`); group the runs by language code, codes
      in the order of their first run, the runs of one code in document order and NOT merged
      (`groupSecs`); report positions 1-based (`shiftParts`).  No run is ever joined to its
      neighbours, whatever `thresh` is, since `\selectlanguage` forces a break.
    * nothing is reported as unknown, no diagnostic is added. -/
theorem C12_selectlanguage_e2e (T : PTables) (o : Options) (fs : FS) (thresh : Nat) (segs : List Seg)
    (fuel : Nat) (st1 : PState)
    (hdefs : o.defs = []) (hextr : o.extr = []) (hrepl : o.hasRepl = false)
    (hbrk : T.selectBrk = true)
    (hinit : initParser T fuel o (initialState T o true fs) = .ok ((), st1))
    (hml : st1.multiLanguage = true) (hok : segsOk T st1 segs = true)
    (hf : (render segs).length + 2 ≤ fuel) :
    ∃ r, tex2txt T fuel (render segs) o true thresh fs = .ok r ∧
      r.parts = refParts T o.lang segs ∧ r.unknowns = [] ∧ r.diags = st1.diags := by
  obtain ⟨r, h1, h2, h3, h4, _⟩ := tex2txt_selectlanguage T o fs thresh segs fuel st1 hdefs hextr hrepl
    hbrk hinit hml hok hf
  exact ⟨r, h1, h2, h3, h4⟩

/-- **(a) every word in exactly one part.**  Under the hypotheses of `C12_selectlanguage_e2e`:
    no position occurs twice in the parts of all languages together, and every text character of
    the source that is no white space occurs in a part, with its own (1-based) source position.
    (`textChars 0 segs` = the characters of the text segments with their 0-based source positions,
    cf. `C12_textChars_source`; white space may be deleted: the line of a switch.) -/
theorem C12_word_one_part (T : PTables) (o : Options) (fs : FS) (thresh : Nat) (segs : List Seg)
    (fuel : Nat) (st1 : PState)
    (hdefs : o.defs = []) (hextr : o.extr = []) (hrepl : o.hasRepl = false)
    (hbrk : T.selectBrk = true)
    (hinit : initParser T fuel o (initialState T o true fs) = .ok ((), st1))
    (hml : st1.multiLanguage = true) (hok : segsOk T st1 segs = true)
    (hf : (render segs).length + 2 ≤ fuel) :
    ∃ r, tex2txt T fuel (render segs) o true thresh fs = .ok r ∧
      ((partChars r.parts).map (·.2)).Nodup ∧
      ∀ c p, (c, p) ∈ textChars 0 segs → isSpace c = false → (c, p + 1) ∈ partChars r.parts := by
  obtain ⟨r, h1, h2, _⟩ := tex2txt_selectlanguage T o fs thresh segs fuel st1 hdefs hextr hrepl
    hbrk hinit hml hok hf
  refine ⟨r, h1, ?_, ?_⟩
  · rw [h2]; exact refParts_nodup T o.lang segs
  · intro c p h hv
    rw [h2]; exact refParts_visible T o.lang segs c p h hv

/-- **(b) the part of the right language.**  Under the hypotheses of `C12_selectlanguage_e2e`: a
    character `c` reported at position `q` in a piece of text under the key `k` is the text
    character of the source at position `q` (1-based; `p = q - 1` 0-based), and `k` is the language
    code of the last `\selectlanguage` in front of it (`o.lang` if there is none): `langAt`. -/
theorem C12_part_language (T : PTables) (o : Options) (fs : FS) (thresh : Nat) (segs : List Seg)
    (fuel : Nat) (st1 : PState)
    (hdefs : o.defs = []) (hextr : o.extr = []) (hrepl : o.hasRepl = false)
    (hbrk : T.selectBrk = true)
    (hinit : initParser T fuel o (initialState T o true fs) = .ok ((), st1))
    (hml : st1.multiLanguage = true) (hok : segsOk T st1 segs = true)
    (hf : (render segs).length + 2 ≤ fuel) :
    ∃ r, tex2txt T fuel (render segs) o true thresh fs = .ok r ∧
      ∀ e ∈ r.parts, ∀ tp ∈ e.2, ∀ c q, (c, q) ∈ tp.1.zip tp.2 →
        ∃ p, q = p + 1 ∧ (c, p) ∈ textChars 0 segs ∧ e.1 = langAt T o.lang 0 segs p := by
  obtain ⟨r, h1, h2, _⟩ := tex2txt_selectlanguage T o fs thresh segs fuel st1 hdefs hextr hrepl
    hbrk hinit hml hok hf
  refine ⟨r, h1, ?_⟩
  rw [h2]
  exact refParts_language T o.lang segs

/-- `textChars` are characters of the source: `(c, p) ∈ textChars 0 segs` implies that the source
    has the character `c` at 0-based position `p` -/
theorem C12_textChars_source (segs : List Seg) (c : Char) (p : Nat) (h : (c, p) ∈ textChars 0 segs) :
    (render segs)[p]? = some c :=
  (textChars_render segs 0 (c, p) h).2

/-! ### the hypotheses can be met on the real tables -/

/-- `"Hello world.\n\selectlanguage{german}\nHallo Welt.\n\selectlanguage{russian}\nПривет, мир.\n\selectlanguage{english}\nBye."`:
    three languages, every switch on a line of its own -/
def exSegs : List Seg :=
  [.txt "Hello world.\n".toList, .sel "german".toList, .txt "\nHallo Welt.\n".toList,
   .sel "russian".toList, .txt "\nПривет, мир.\n".toList, .sel "english".toList, .txt "\nBye.".toList]

theorem exSegs_render : render exSegs =
    "Hello world.\n\\selectlanguage{german}\nHallo Welt.\n\\selectlanguage{russian}\nПривет, мир.\n\\selectlanguage{english}\nBye.".toList := by
  decide +kernel

theorem exSegs_ok : segsOk theTables stBabel exSegs = true := by decide +kernel

theorem stBabel_multi : stBabel.multiLanguage = true := by decide +kernel

theorem stBabel_diags : stBabel.diags = [] := by decide +kernel

/-- the expected parts: the three lines, each under its code; the lines of the switches are gone
    (positions 14–37, 50–74, 88–112 do not occur) -/
def exParts : Parts :=
  [("en-GB".toList, [("Hello world.\n".toList, [1, 2, 3, 4, 5, 6, 7, 8, 9, 10, 11, 12, 13]),
                     ("Bye.".toList, [113, 114, 115, 116])]),
   ("de-DE".toList, [("Hallo Welt.\n".toList, [38, 39, 40, 41, 42, 43, 44, 45, 46, 47, 48, 49])]),
   ("ru-RU".toList, [("Привет, мир.\n".toList, [75, 76, 77, 78, 79, 80, 81, 82, 83, 84, 85, 86, 87])])]

theorem exSegs_ref : refParts theTables babelOptions.lang exSegs = exParts := by decide +kernel

/-- **the end-to-end theorem applies to the current code** (tables translated from /repo, package
    babel loaded, `--lang en-GB`, multi-language mode): a three-language document -/
theorem C12_selectlanguage_e2e_current :
    ∃ r, tex2txt theTables bigFuel (render exSegs) babelOptions true 2 [] = .ok r ∧
      r.parts = exParts ∧ r.unknowns = [] ∧ r.diags = [] := by
  obtain ⟨r, h1, h2, h3, h4⟩ := C12_selectlanguage_e2e theTables babelOptions [] 2 exSegs bigFuel stBabel
    rfl rfl rfl (by decide +kernel) initParser_babel stBabel_multi exSegs_ok (by decide +kernel)
  exact ⟨r, h1, by rw [h2, exSegs_ref], h3, by rw [h4, stBabel_diags]⟩

/-- the same by direct evaluation of the model (so that one SEES the output that is claimed) -/
example : (match tex2txt theTables bigFuel (render exSegs) babelOptions true 2 [] with
    | .ok r => decide (r.parts = exParts ∧ r.unknowns = [] ∧ r.diags = [])
    | _ => false) = true := by decide +kernel

/-- the side conditions accept switches inside a line and a name with blanks; they reject an
    undeclared state (default options: babel not loaded) -/
example : segsOk theTables stBabel
    [.txt "A b c, d.  ".toList, .sel " ngerman ".toList, .txt " \n \n x".toList, .sel "german".toList,
     .txt "y\n".toList, .sel "foo".toList, .txt " ".toList, .sel "french".toList, .txt "\n".toList] = true := by
  decide +kernel
example : segsOk theTables stDefault [.sel "german".toList] = false := by decide +kernel

end PlainLang
end Yalafi
