/-
  Properties/PlainOptArgStmt.lean — C09 "`\renewcommand` (with parameter count and optional default)", C04
  "generated text maps into the construct": the end-to-end theorem for definitions with an optional
  first parameter and a default value (Proofs/PlainOptArg.lean, PlainOptArgExp.lean, PlainOptArgE2E.lean).
-/
import YalafiVerif.Proofs.PlainOptArgE2E
import YalafiVerif.Generated.Init
namespace Yalafi

/-- **a definition with an optional first parameter expands by substitution, the default value is
    pinned to the call**, end to end on the filter model.

    Documents: `orender segs` over inert text, definitions `\kw{\name}[n][dflt]{body}` (`kw` a keyword
    declared like `\newcommand`: on the real tables `newcommand` and `renewcommand`; `1 ≤ n ≤ 9`; `dflt`
    non-empty inert text without `]`; body = pieces `lit s` | `par k` (`#k`, `1 ≤ k ≤ n`)) and uses
    `\name[a1]{a2}…{am}` (`opt = some a1`) / `\name{a2}…{am}` (`opt = none`) with at least `n - 1` groups.

    Claim: `tex2txt` succeeds and text / 1-based positions are `delLines (osegMarks [] 0 segs)`:
    * text keeps its own positions; a definition leaves no text and is in force BEHIND it — a
      redefinition (`\renewcommand`, or `\newcommand` again: the model does not distinguish) with
      another parameter count, default and body affects LATER uses only;
    * a use `\name[a1]{a2}…`: `#1` is the text of `a1`, every character with its own source position;
    * a use `\name{a2}…`: `#1` is the default `dflt` of the definition in force, EVERY CHARACTER AT THE
      POSITION OF THE BACKSLASH OF THE USE;
    * `#k` (`k ≥ 2`) is the text of the (k-1)-th group with its own positions; literal body characters
      are placed as in `C09_newcommand_args_e2e` (start of the argument referenced last / last token of
      the argument substituted before; for the default both are the backslash of the use);
    * groups beyond the (n-1)-th are copied; a use (without `[…]`) of an undefined name: groups copied,
      name listed in `unknowns`;
    * then `remove_pure_action_lines` (`delLines`); no diagnostic is added. -/
theorem C09_renewcommand_default_e2e (T : PTables) (o : Options) (fs : FS) (thresh : Nat)
    (segs : List PlainOptArg.OSeg) (fuel : Nat) (st1 : PState)
    (hdefs : o.defs = []) (hextr : o.extr = []) (hrepl : o.hasRepl = false) (hunkn : o.unkn = false)
    (hinit : initParser T fuel o (initialState T o false fs) = .ok ((), st1))
    (hok : PlainOptArg.OSegsOk T st1 segs)
    (hf : (PlainOptArg.orender segs).length + PlainOptArg.osegInserted [] 0 segs + 6 ≤ fuel) :
    ∃ r, tex2txt T fuel (PlainOptArg.orender segs) o false thresh fs = .ok r ∧
      r.txt = (PlainMacro.delLines (PlainOptArg.osegMarks [] 0 segs)).map (·.1) ∧
      r.pos = (PlainMacro.delLines (PlainOptArg.osegMarks [] 0 segs)).map (·.2 + 1) ∧
      r.unknowns = (PlainOptArg.osegUnknowns [] segs).eraseDups ∧
      r.diags = st1.diags ∧ r.parts = [] :=
  PlainOptArg.tex2txt_renewcommand_default T o fs thresh segs fuel st1 hdefs hextr hrepl hunkn hinit hok hf

/-- the document of the `_current` instance:
    `\newcommand{\pp}[2][dd]{a#2b#1c}` / `X \pp[uu]{vv} Y \pp{w} Z` /
    `\renewcommand{\pp}[1][e f]{<#1>}` / `U \pp{k} V \pp[o].` -/
def optArgExample : List PlainOptArg.OSeg :=
  [.defn "newcommand".toList "pp".toList 2 "dd".toList
     [.lit "a".toList, .par 2, .lit "b".toList, .par 1, .lit "c".toList],
   .txt "\nX ".toList, .use "pp".toList (some "uu".toList) ["vv".toList], .txt " Y ".toList,
   .use "pp".toList none ["w".toList], .txt " Z\n".toList,
   .defn "renewcommand".toList "pp".toList 1 "e f".toList [.lit "<".toList, .par 1, .lit ">".toList],
   .txt "\nU ".toList, .use "pp".toList none ["k".toList], .txt " V ".toList,
   .use "pp".toList (some "o".toList) [], .txt ".\n".toList]

theorem optArgExample_render :
    PlainOptArg.orender optArgExample
      = ("\\newcommand{\\pp}[2][dd]{a#2b#1c}\nX \\pp[uu]{vv} Y \\pp{w} Z\n" ++
         "\\renewcommand{\\pp}[1][e f]{<#1>}\nU \\pp{k} V \\pp[o].\n").toList := by
  decide +kernel

/-- the document (a two-parameter macro with default used with and without `[…]`, then redefined with
    `\renewcommand` as a one-parameter macro with another default and used again) satisfies all side
    conditions for the parser initialised from the tables of the current /repo -/
theorem C09_renewcommand_default_current :
    PlainOptArg.OSegsOk Generated.theTables Generated.stDefault optArgExample := by
  decide +kernel

/-- the reference output for that document, evaluated: text `X avvbuuc Y awbddc Z` / `U <e f>k V <o>.`;
    the default `dd` of the first definition maps to position 50 = the backslash of `\pp{w}`, the
    default `e f` of the redefinition to position 94 = the backslash of `\pp{k}` -/
theorem C09_renewcommand_default_current_ref :
    (PlainMacro.delLines (PlainOptArg.osegMarks [] 0 optArgExample)).map (·.1)
        = "X avvbuuc Y awbddc Z\nU <e f>k V <o>.\n".toList ∧
    (PlainMacro.delLines (PlainOptArg.osegMarks [] 0 optArgExample)).map (·.2 + 1)
        = [34, 35, 40, 44, 45, 45, 40, 41, 41, 47, 48, 49, 50, 54, 54, 50, 50, 50, 56, 57, 58, 92, 93, 94, 94,
           94, 94, 94, 98, 100, 101, 102, 107, 107, 107, 109, 110] ∧
    (PlainOptArg.osegUnknowns [] optArgExample).eraseDups = [] := by
  decide +kernel

/-- … and so `tex2txt` on the real tables yields exactly that (instance of the theorem) -/
theorem C09_renewcommand_default_current_e2e :
    ∃ r, tex2txt Generated.theTables Generated.bigFuel
        ("\\newcommand{\\pp}[2][dd]{a#2b#1c}\nX \\pp[uu]{vv} Y \\pp{w} Z\n" ++
         "\\renewcommand{\\pp}[1][e f]{<#1>}\nU \\pp{k} V \\pp[o].\n").toList
        Generated.defaultOptions false 0 [] = .ok r ∧
      r.txt = "X avvbuuc Y awbddc Z\nU <e f>k V <o>.\n".toList ∧
      r.pos = [34, 35, 40, 44, 45, 45, 40, 41, 41, 47, 48, 49, 50, 54, 54, 50, 50, 50, 56, 57, 58, 92, 93, 94,
               94, 94, 94, 94, 98, 100, 101, 102, 107, 107, 107, 109, 110] ∧
      r.unknowns = [] ∧ r.diags = Generated.stDefault.diags := by
  obtain ⟨r, h1, h2, h3, h4, h5, _⟩ := C09_renewcommand_default_e2e Generated.theTables
    Generated.defaultOptions [] 0 optArgExample Generated.bigFuel Generated.stDefault rfl rfl rfl rfl
    Generated.initParser_default C09_renewcommand_default_current (by decide +kernel)
  obtain ⟨e1, e2, e3⟩ := C09_renewcommand_default_current_ref
  rw [optArgExample_render] at h1
  exact ⟨r, h1, h2.trans e1, h3.trans e2, h4.trans e3, h5⟩

/-- the same run evaluated directly by the kernel (no theorem involved) -/
theorem C09_renewcommand_default_current_eval :
    (match tex2txt Generated.theTables Generated.bigFuel
        ("\\newcommand{\\pp}[2][dd]{a#2b#1c}\nX \\pp[uu]{vv} Y \\pp{w} Z\n" ++
         "\\renewcommand{\\pp}[1][e f]{<#1>}\nU \\pp{k} V \\pp[o].\n").toList
        Generated.defaultOptions false 0 [] with
     | .ok r =>
       r.txt == "X avvbuuc Y awbddc Z\nU <e f>k V <o>.\n".toList &&
       r.pos == [34, 35, 40, 44, 45, 45, 40, 41, 41, 47, 48, 49, 50, 54, 54, 50, 50, 50, 56, 57, 58, 92, 93,
                 94, 94, 94, 94, 94, 98, 100, 101, 102, 107, 107, 107, 109, 110] &&
       r.unknowns.isEmpty
     | _ => false) = true := by
  decide +kernel

end Yalafi
