/-
  Properties/C05.lean — text flow: no paragraph break invented or lost, no words glued.

  Proved for all inputs, on the model of `remove_pure_action_lines` and of the scanner:
  white space with at least two line breaks is a paragraph token, otherwise a space token;
  without Action tokens (nothing vanished) the pass is the identity on non-empty tokens;
  the pass never loses, duplicates, reorders or re-positions a visible character; its
  output text is the input text with some white-space characters deleted.
  End to end on the whole filter model (Properties/PlainVanishStmt.lean, imported here):
  `C05_vanish_e2e` — for documents of inert text and vanishing macros (`\\label{key}`, `\\index{key}`,
  … : declared with one mandatory argument, no handler, text-less replacement) the output is the
  source with the calls cut out, every remaining character at its own position, a line that held
  only such calls and white space disappears with its line break and every other line break
  and blank line survives; corollaries `C05_vanish_same_line` (no line break added or removed
  around a call inside a text line), `C05_vanish_no_par` (a call alone on its line between two
  text lines does not become a paragraph break), `C03_vanish_no_key` (no output position lies
  inside a call), instances on the current tables.
  (The general layout relation glued / same paragraph / blank line for every vanishing
  construct is checked on the implementation against a TeX-style reading of generated
  separators.)
-/
import YalafiVerif.Proofs.Scanner
import YalafiVerif.Proofs.Lines
import YalafiVerif.Properties.PlainVanishStmt
import YalafiVerif.Properties.PlainMixStmt
import YalafiVerif.Properties.PlainMix2Stmt
import YalafiVerif.Properties.PlainMix3Stmt
import YalafiVerif.Properties.PlainMix4Stmt
import YalafiVerif.Properties.PlainParaStmt
import YalafiVerif.Properties.PlainParEnvStmt
import YalafiVerif.Properties.PlainParaMix3Stmt
namespace Yalafi

theorem C05_scanSpace_kind (start : Nat) (rest : Str) :
    (scanSpace start rest).tok.kind = (if countNl (rest.takeWhile isSpace) < 2 then Kind.space else Kind.par) :=
  scanSpace_kind start rest

theorem C05_removeLines_noaction_id (ts : List Tok) (h : ∀ t ∈ ts, isAction t = false) :
    removeLines ts = some (ts.filter keepOut) :=
  removeLines_noaction_id ts h

theorem C05_removeLines_nonblank (ts out : List Tok)
    (hc : ∀ t ∈ ts, (isAction t = true ∨ isLang t = true) → t.txt = [])
    (hr : removeLines ts = some out) :
    nonBlankPairs (getTxtPos out) = nonBlankPairs (getTxtPos ts) :=
  removeLines_nonblank ts out hc hr

theorem C05_removeLines_sublist (ts out : List Tok)
    (hc : ∀ t ∈ ts, (isAction t = true ∨ isLang t = true) → t.txt = [])
    (hr : removeLines ts = some out) :
    List.Sublist (getTxtPos out).1 (getTxtPos ts).1 :=
  removeLines_sublist ts out hc hr

end Yalafi
