/-
  Properties/PlainMathRichStmt.lean — C10 END TO END for the FULL body class of the property
  (Proofs/PlainMathRich.lean, Proofs/PlainMathRichSrc.lean, Proofs/PlainMathRichE2E.lean):

  "Every inline formula $...$ or \(...\) consisting of maths only is rendered as exactly one
  placeholder taken from the inline collection of the current language, followed by the formula's
  last character if that is one of . , ; : and surrounded by a blank where the formula starts or
  ends with maths space; successive formulas receive successive placeholders, cyclically.  No
  character of the formula source appears, and all generated characters map inside the formula."
  Quantifier: "all formula bodies over letters, digits, operators, sub/superscripts, fractions,
  unknown maths macros, braces and maths spaces".

  Documents: inert text and inline formulas with BOTH delimiters, the body a sequence of
      `.chars s`   letters / digits / ASCII operators / punctuation / white space
      `.cw name`   undeclared control words (`\alpha`, `\frac`, `\sqrt`)
      `.spec t`    `^` `_` `&` …, braces `{` `}` (any nesting, balanced or not) and `\!` (ignored),
                   maths space `\,` `\;` `\:` `\ ` `~`
  Not covered: formulas of maths space / ignored tokens only (`C10_rich_only_space_eval`: the model
  emits a single blank for `$\,$`, no placeholder, no rotation); declared macros in formulas
  (`\quad`, `\qquad`, `\mbox{…}`); a paragraph break in a formula; touching formulas; displayed
  formulas; `--defs`, `--extr`, `--repl`, `--unkn`, multi-language mode.
-/
import YalafiVerif.Proofs.PlainMathRichE2E
import YalafiVerif.Generated.Init
namespace Yalafi

/-- **C10 end to end, full body class.**  `segs` is a document of inert text and inline formulas
    `$body$` / `\(body\)` (`PlainMathRich.Seg`, `PlainMathRich.render`); all side conditions on the
    document are in the decidable `PlainMathRich.SegsOk T st1 segs` (text inert; delimiters scanned
    as such, no `$$`; body characters none of `% # \ $ { }`, no special sequence at them; control
    words undeclared and neither `\text`-like, maths space nor ignored; special sequences scanned as
    such and ignored, maths space, or with a table entry; at least one maths token that is not
    maths space); `st1` is the state after `Parser.__init__`; no `--defs`, `--extr`, `--repl`,
    `--unkn`; single-language mode; `repls` is the inline placeholder collection of the current
    language, not empty, every entry visible and without line break; the language settings exist.
    With one unit of fuel per source character plus two, `tex2txt` succeeds and

    * the output text is the text segments with the `k`-th formula (k = 1, 2, …) replaced by
      `fTxt T (placeholder repls k) m` = [blank if the first maths token of the body is maths
      space] ++ entry `k mod length` of the collection ++ [the last character of the maths tokens'
      texts that is no white space, if it is one of `math_punctuation`] ++ [blank if the last maths
      token is maths space], where `m = mtoks T … body` are the maths tokens of the body (one per
      character that is no white space, per control word, per special sequence that is not
      ignored);
    * every text character maps to its own source position, every character of a replacement to
      `anchor m`, the position of the FIRST MATHS TOKEN of the body (reported 1-based);
    * nothing is reported as unknown (names inside maths are not listed) and no diagnostic is added. -/
theorem C10_inline_rich_e2e (T : PTables) (o : Options) (fs : FS) (thresh : Nat)
    (segs : List PlainMathRich.Seg) (fuel : Nat) (st1 : PState) (rot : Rot) (repls : List Str)
    (hdefs : o.defs = []) (hextr : o.extr = []) (hrepl : o.hasRepl = false) (hunkn : o.unkn = false)
    (hinit : initParser T fuel o (initialState T o false fs) = .ok ((), st1))
    (hok : PlainMathRich.SegsOk T st1 segs)
    (hrot : rotOf st1 (curSettings st1) = some rot) (hrepls : rot.inl = repls)
    (hne : repls ≠ []) (hvis : PlainMath.VisibleRepls repls)
    (hls : (settingsOf T (curSettings st1)).isSome = true)
    (hf : (PlainMathRich.render segs).length + 2 ≤ fuel) :
    ∃ r, tex2txt T fuel (PlainMathRich.render segs) o false thresh fs = .ok r ∧
      r.txt = (PlainMathRich.refRich T repls 0 0 segs).1 ∧
      r.pos = (PlainMathRich.refRich T repls 0 0 segs).2.map (· + 1) ∧
      r.unknowns = [] ∧ r.diags = st1.diags :=
  PlainMathRich.tex2txt_inline_rich T o fs thresh segs fuel st1 rot repls hdefs hextr hrepl hunkn hinit
    hok hrot hrepls hne hvis hls hf

/-- **no character of the formula source appears** (except the closing punctuation mark): under
    the hypotheses of `C10_inline_rich_e2e`, every character of the output is a character of a text
    segment, a character of a placeholder of the collection, a blank, or a `math_punctuation`
    character; and the text a single formula is replaced by (`fTxt`) consists of characters of its
    placeholder, blanks and `math_punctuation` characters only. -/
theorem C10_rich_no_source (T : PTables) (o : Options) (fs : FS) (thresh : Nat)
    (segs : List PlainMathRich.Seg) (fuel : Nat) (st1 : PState) (rot : Rot) (repls : List Str)
    (hdefs : o.defs = []) (hextr : o.extr = []) (hrepl : o.hasRepl = false) (hunkn : o.unkn = false)
    (hinit : initParser T fuel o (initialState T o false fs) = .ok ((), st1))
    (hok : PlainMathRich.SegsOk T st1 segs)
    (hrot : rotOf st1 (curSettings st1) = some rot) (hrepls : rot.inl = repls)
    (hne : repls ≠ []) (hvis : PlainMath.VisibleRepls repls)
    (hls : (settingsOf T (curSettings st1)).isSome = true)
    (hf : (PlainMathRich.render segs).length + 2 ≤ fuel) :
    (∃ r, tex2txt T fuel (PlainMathRich.render segs) o false thresh fs = .ok r ∧
      ∀ c ∈ r.txt, c ∈ PlainMathRich.textOf segs ∨ (∃ ph ∈ repls, c ∈ ph) ∨ c = ' ' ∨
        T.mathPunctuation.contains [c] = true) ∧
    (∀ ph m, ∀ c ∈ PlainMathRich.fTxt T ph m,
      c ∈ ph ∨ c = ' ' ∨ T.mathPunctuation.contains [c] = true) := by
  obtain ⟨r, h1, h2, _⟩ := C10_inline_rich_e2e T o fs thresh segs fuel st1 rot repls hdefs hextr hrepl
    hunkn hinit hok hrot hrepls hne hvis hls hf
  refine ⟨⟨r, h1, ?_⟩, PlainMathRich.fTxt_chars T⟩
  rw [h2]
  exact PlainMathRich.refRich_chars T repls hne segs 0 0

/-- **all generated characters map inside the formula**: for a formula of the class that starts
    at offset `p` (0-based), the position `anchor (mtoks …)` that `refRich` gives to every character
    of its replacement lies strictly between the delimiters — it is the offset of a character of the
    body (the first character of the first maths token). -/
theorem C10_rich_span (T : PTables) (st : PState) (par : Bool) (body : List PlainUnkn2.MPart) (R : Str)
    (p : Nat) (h : PlainMathRich.mathOk T st par body R = true) :
    p + (PlainMathRich.opn par).length
      ≤ PlainMathRich.anchor (PlainMathRich.mtoks T (p + (PlainMathRich.opn par).length) body) ∧
    PlainMathRich.anchor (PlainMathRich.mtoks T (p + (PlainMathRich.opn par).length) body)
      < p + (PlainMathRich.opn par).length + (PlainUnkn2.renderM body).length :=
  PlainMathRich.anchor_inside T st par body R p h

/-- **successive formulas receive successive placeholders, cyclically**: formula `k` (k = 1, 2, …)
    gets entry `k mod n` of the collection (`placeholder`, used by `refRich`); the entry of formula
    `k + 1` is the cyclic successor of the entry of formula `k`; formula `k + n` gets the entry of
    formula `k`; the first `n - 1` formulas get the entries 1, …, `n - 1` (the collection is rotated
    BEFORE the placeholder is taken, so entry 0 is used by formula `n`). -/
theorem C10_rich_rotation (repls : List Str) (k : Nat) :
    PlainMath.placeholder repls k = repls.getD (k % repls.length) [] ∧
    PlainMath.placeholder repls (k + 1) = repls.getD ((k % repls.length + 1) % repls.length) [] ∧
    PlainMath.placeholder repls (k + repls.length) = PlainMath.placeholder repls k ∧
    (k < repls.length → PlainMath.placeholder repls k = repls.getD k []) :=
  ⟨rfl, PlainMathRich.placeholder_succ repls k, PlainMathRich.placeholder_cyclic repls k,
    PlainMathRich.placeholder_lt repls k⟩

/-! ### the current code -/

/-- the inline collection of the default language after initialisation of the CURRENT code -/
def C10r_repls : List Str :=
  ((rotOf Generated.stDefault (curSettings Generated.stDefault)).map (·.inl)).getD []

/-- the hypotheses about the initialised parser hold for the tables translated from /repo -/
theorem C10r_current_facts :
    (rotOf Generated.stDefault (curSettings Generated.stDefault)).isSome = true ∧
    C10r_repls = ["B-B-B".toList, "C-C-C".toList, "D-D-D".toList, "E-E-E".toList, "F-F-F".toList,
                  "G-G-G".toList] ∧
    (settingsOf Generated.theTables (curSettings Generated.stDefault)).isSome = true := by
  decide +kernel

theorem C10r_repls_visible : PlainMath.VisibleRepls C10r_repls := by
  rw [C10r_current_facts.2.1]
  intro r hr
  simp only [List.mem_cons, List.not_mem_nil, or_false] at hr
  rcases hr with rfl | rfl | rfl | rfl | rfl | rfl <;> decide

/-- C10 end to end, full body class, for the CURRENT code (tables translated from /repo, parser
    initialisation evaluated by the kernel): for every document of the class the filter returns
    the reference output -/
theorem C10_inline_rich_e2e_current (segs : List PlainMathRich.Seg) (thresh : Nat)
    (hok : PlainMathRich.SegsOk Generated.theTables Generated.stDefault segs)
    (hf : (PlainMathRich.render segs).length + 2 ≤ Generated.bigFuel) :
    ∃ r, tex2txt Generated.theTables Generated.bigFuel (PlainMathRich.render segs)
        Generated.defaultOptions false thresh [] = .ok r ∧
      r.txt = (PlainMathRich.refRich Generated.theTables C10r_repls 0 0 segs).1 ∧
      r.pos = (PlainMathRich.refRich Generated.theTables C10r_repls 0 0 segs).2.map (· + 1) ∧
      r.unknowns = [] ∧ r.diags = Generated.stDefault.diags := by
  obtain ⟨h1, h2, h3⟩ := C10r_current_facts
  obtain ⟨rot, hrot⟩ := Option.isSome_iff_exists.mp h1
  have hr : rot.inl = C10r_repls := by simp [C10r_repls, hrot]
  exact C10_inline_rich_e2e Generated.theTables Generated.defaultOptions [] thresh segs Generated.bigFuel
    Generated.stDefault rot C10r_repls rfl rfl rfl rfl Generated.initParser_default hok hrot hr
    (by rw [h2]; simp) C10r_repls_visible h3 hf

/-- `Let $\alpha_1^{2n} + \frac{a}{b}$ and \(x\,\) hold, $\,y.$ and $\sqrt{2}$.` -/
def C10r_exampleDoc : List PlainMathRich.Seg :=
  [.txt "Let ".toList,
   .math false [.cw "alpha".toList, .spec "_".toList, .chars "1".toList, .spec "^".toList,
     .spec "{".toList, .chars "2n".toList, .spec "}".toList, .chars " + ".toList, .cw "frac".toList,
     .spec "{".toList, .chars "a".toList, .spec "}".toList, .spec "{".toList, .chars "b".toList,
     .spec "}".toList],
   .txt " and ".toList, .math true [.chars "x".toList, .spec "\\,".toList], .txt " hold, ".toList,
   .math false [.spec "\\,".toList, .chars "y.".toList], .txt " and ".toList,
   .math false [.cw "sqrt".toList, .spec "{".toList, .chars "2".toList, .spec "}".toList],
   .txt ".".toList]

theorem C10r_exampleDoc_src : PlainMathRich.render C10r_exampleDoc =
    "Let $\\alpha_1^{2n} + \\frac{a}{b}$ and \\(x\\,\\) hold, $\\,y.$ and $\\sqrt{2}$.".toList := by
  decide +kernel

/-- the side conditions hold for the example on the real tables, and the reference output is:
    the four formulas get the entries 1, 2, 3, 4 of the collection; `\(x\,\)` ends with maths space
    (blank behind `D-D-D`), `$\,y.$` starts with maths space and ends with a full stop (blank in
    front of `E-E-E`, `.` behind it); the replacements sit at the 0-based offsets 5 (`\alpha`), 40
    (`x`), 53 (`\,` — the first maths token, not `y`) and 64 (`\sqrt`) -/
theorem C10_rich_example_current :
    PlainMathRich.SegsOk Generated.theTables Generated.stDefault C10r_exampleDoc ∧
    PlainMathRich.refRich Generated.theTables C10r_repls 0 0 C10r_exampleDoc
      = ("Let C-C-C and D-D-D  hold,  E-E-E. and F-F-F.".toList,
         [0, 1, 2, 3, 5, 5, 5, 5, 5, 33, 34, 35, 36, 37, 40, 40, 40, 40, 40, 40, 45, 46, 47, 48, 49,
          50, 51, 53, 53, 53, 53, 53, 53, 53, 58, 59, 60, 61, 62, 64, 64, 64, 64, 64, 73]) := by
  decide +kernel

/-- … so, for the current code, the filter maps the example to
    `Let C-C-C and D-D-D  hold,  E-E-E. and F-F-F.` with these (1-based) positions, no unknowns (not
    `\alpha`, `\frac`, `\sqrt`) and no diagnostics -/
theorem C10_rich_example_output :
    ∃ r, tex2txt Generated.theTables Generated.bigFuel (PlainMathRich.render C10r_exampleDoc)
        Generated.defaultOptions false 0 [] = .ok r ∧
      r.txt = "Let C-C-C and D-D-D  hold,  E-E-E. and F-F-F.".toList ∧
      r.pos = [1, 2, 3, 4, 6, 6, 6, 6, 6, 34, 35, 36, 37, 38, 41, 41, 41, 41, 41, 41, 46, 47, 48, 49,
               50, 51, 52, 54, 54, 54, 54, 54, 54, 54, 59, 60, 61, 62, 63, 65, 65, 65, 65, 65, 74] ∧
      r.unknowns = [] ∧ r.diags = Generated.stDefault.diags := by
  obtain ⟨r, h1, h2, h3, h4, h5⟩ := C10_inline_rich_e2e_current C10r_exampleDoc 0
    C10_rich_example_current.1 (by decide +kernel)
  refine ⟨r, h1, ?_, ?_, h4, h5⟩
  · rw [h2, C10_rich_example_current.2]
  · rw [h3, C10_rich_example_current.2]; rfl

/-- the same, seen by a kernel evaluation of the whole filter on the real tables -/
theorem C10_rich_example_eval :
    (match tex2txt Generated.theTables Generated.bigFuel
        "Let $\\alpha_1^{2n} + \\frac{a}{b}$ and \\(x\\,\\) hold, $\\,y.$ and $\\sqrt{2}$.".toList
        Generated.defaultOptions false 0 [] with
     | .ok r => r.txt == "Let C-C-C and D-D-D  hold,  E-E-E. and F-F-F.".toList &&
                r.pos == [1, 2, 3, 4, 6, 6, 6, 6, 6, 34, 35, 36, 37, 38, 41, 41, 41, 41, 41, 41, 46, 47,
                          48, 49, 50, 51, 52, 54, 54, 54, 54, 54, 54, 54, 59, 60, 61, 62, 63, 65, 65,
                          65, 65, 65, 74] &&
                r.unknowns == []
     | _ => false) = true := by
  decide +kernel

/-- a second document on the real tables: unbalanced braces, a formula that starts AND ends with
    maths space (behind ignored tokens), `;` as the last visible character in front of `~` and `\!`,
    a line break between the formulas, and a `\(…\)` formula of special sequences only:
    `a ${\; x^}}\beta ;~\!$` / `\(--&''\)`  ↦  `a  C-C-C; ` / `D-D-D` -/
theorem C10_rich_example2_current :
    let doc : List PlainMathRich.Seg :=
      [.txt "a ".toList,
       .math false [.spec "{".toList, .spec "\\;".toList, .chars " x".toList, .spec "^".toList,
         .spec "}".toList, .spec "}".toList, .cw "beta".toList, .chars " ;".toList, .spec "~".toList,
         .spec "\\!".toList],
       .txt "\n".toList, .math true [.spec "--".toList, .spec "&".toList, .spec "''".toList]]
    PlainMathRich.render doc = "a ${\\; x^}}\\beta ;~\\!$\n\\(--&''\\)".toList ∧
    PlainMathRich.SegsOk Generated.theTables Generated.stDefault doc ∧
    PlainMathRich.refRich Generated.theTables C10r_repls 0 0 doc
      = ("a  C-C-C; \nD-D-D".toList, [0, 1, 4, 4, 4, 4, 4, 4, 4, 4, 22, 25, 25, 25, 25, 25]) := by
  decide +kernel

/-- OUTSIDE the class — a formula of maths space only: the model (kernel evaluation on the real
    tables) renders `A $\,$ B` as `A   B`: one blank at the position of `\,`, NO placeholder; and
    the collection is not rotated (the next formula gets the entry `C-C-C` of a first formula) -/
theorem C10_rich_only_space_eval :
    (match tex2txt Generated.theTables Generated.bigFuel "A $\\,$ B $x$".toList
        Generated.defaultOptions false 0 [] with
     | .ok r => r.txt == "A   B C-C-C".toList && r.pos == [1, 2, 4, 7, 8, 9, 11, 11, 11, 11, 11]
     | _ => false) = true := by
  decide +kernel

/-- the side conditions reject what they should: a formula of maths space only, of braces only,
    a declared macro (`\quad`), a `\text`-like macro (`\mbox`), touching formulas (`$a$$b$`), a
    closing delimiter of the other kind inside the body, a paragraph break in a formula -/
theorem C10_rich_rejects_current :
    ¬ PlainMathRich.SegsOk Generated.theTables Generated.stDefault [.math false [.spec "\\,".toList]] ∧
    ¬ PlainMathRich.SegsOk Generated.theTables Generated.stDefault
        [.math false [.spec "{".toList, .spec "}".toList]] ∧
    ¬ PlainMathRich.SegsOk Generated.theTables Generated.stDefault [.math false [.cw "quad".toList]] ∧
    ¬ PlainMathRich.SegsOk Generated.theTables Generated.stDefault [.math false [.cw "mbox".toList]] ∧
    ¬ PlainMathRich.SegsOk Generated.theTables Generated.stDefault
        [.math false [.chars "a".toList], .math false [.chars "b".toList]] ∧
    ¬ PlainMathRich.SegsOk Generated.theTables Generated.stDefault
        [.math false [.chars "a".toList, .spec "\\)".toList]] ∧
    ¬ PlainMathRich.SegsOk Generated.theTables Generated.stDefault
        [.math true [.chars "a\n\nb".toList]] := by
  decide +kernel

end Yalafi
