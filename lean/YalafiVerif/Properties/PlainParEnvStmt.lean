/-
  Properties/PlainParEnvStmt.lean — C05 "two words separated by `\par` or a paragraph-forming
  environment are separated by a blank line in the output", end to end on the filter model, for
  documents of inert text, `\par` and environments `\begin{name}{arg}` … `\end{name}` declared with
  `add_pars` and one mandatory argument (`minipage`, `thebibliography` in the tables of /repo).
  Proofs, side conditions, what is not covered: Proofs/PlainParEnv.lean (header),
  Proofs/PlainParEnvBase.lean (expander level), Proofs/PlainParEnvRead.lean (paragraph level),
  Proofs/PlainPara.lean (marks).
-/
import YalafiVerif.Proofs.PlainParEnvRead
import YalafiVerif.Generated.Init
namespace Yalafi

/-- **`\par` and paragraph-forming environments, end to end.**  For every document `render segs`
    (`PlainParEnv.SegsOk`: all side conditions, computable), `st1` the state after `Parser.__init__`,
    no `--defs --extr --repl --unkn`, single-language mode, fuel = source length + 2: `tex2txt`
    succeeds; the output text with its (1-based) positions is `delLines (marks 0 segs)`:

    * `marks`: a text character with its own position; `\par ws` = a text-less mark and two line
      breaks at the position of the backslash (`ws`, the white space behind the name, is
      swallowed); `\begin{name}{arg}` = two line breaks at the position of `\begin` and a text-less
      mark; `\end{name}` = two line breaks at the position of `\end`;
    * `delLines`: every line that consists of white space and at least one text-less mark is
      deleted with its line break (`remove_pure_action_lines`); nothing else;
    * no unknowns, no diagnostic. -/
theorem C05_par_e2e (T : PTables) (o : Options) (fs : FS) (thresh : Nat)
    (segs : List PlainParEnv.Seg) (fuel : Nat) (st1 : PState)
    (hdefs : o.defs = []) (hextr : o.extr = []) (hrepl : o.hasRepl = false) (hunkn : o.unkn = false)
    (hinit : initParser T fuel o (initialState T o false fs) = .ok ((), st1))
    (hok : PlainParEnv.SegsOk T st1 segs) (hf : (PlainParEnv.render segs).length + 2 ≤ fuel) :
    ∃ r, tex2txt T fuel (PlainParEnv.render segs) o false thresh fs = .ok r ∧
      r.txt = (PlainMacro.delLines (PlainParEnv.marks 0 segs)).map (·.1) ∧
      r.pos = (PlainMacro.delLines (PlainParEnv.marks 0 segs)).map (·.2 + 1) ∧
      r.unknowns = [] ∧ r.diags = st1.diags := by
  obtain ⟨r, h1, h2, h3, h4, h5, _⟩ :=
    PlainParEnv.tex2txt_parenv T o fs thresh segs fuel st1 hdefs hextr hrepl hunkn hinit hok hf
  exact ⟨r, h1, h2, h3, h4, h5⟩

open PlainParEnv in
/-- **the paragraph relation.**  The document is `docAB A u a Mid b v B = A ++ .txt (u ++ [a]) ::
    (Mid ++ .txt (b :: v) :: B)` with two visible text characters `a` (0-based source position
    `posA A u`) and `b` (`posB A u Mid`).  `tex2txt` succeeds and its output, characters with
    (1-based) positions, is `U ++ (a, posA + 1) :: (S ++ (b, posB + 1) :: V)` with
    `S = between A u Mid` — the output characters strictly between `a` and `b`.

    * `S` holds a blank line (two line breaks with white space only between them) IFF
      `layout Mid` does (`layout`: text by character classes, `\par ws` = ink and two line breaks,
      `\begin{…}{…}` = two line breaks and ink, `\end{…}` = two line breaks);
    * BREAK: if a `\par`, a `\begin{name}{arg}` or an `\end{name}` stands between `a` and `b`
      (`hasBreak Mid`), `S` holds a blank line;
    * NO INVENTED / NO LOST BREAK: if only text stands between them, `S` holds a blank line iff
      that text does. -/
theorem C05_par_break (T : PTables) (o : Options) (fs : FS) (thresh : Nat)
    (A : List PlainParEnv.Seg) (u : Str) (a : Char) (Mid : List PlainParEnv.Seg) (b : Char) (v : Str)
    (B : List PlainParEnv.Seg) (fuel : Nat) (st1 : PState)
    (hdefs : o.defs = []) (hextr : o.extr = []) (hrepl : o.hasRepl = false) (hunkn : o.unkn = false)
    (hinit : initParser T fuel o (initialState T o false fs) = .ok ((), st1))
    (hok : PlainParEnv.SegsOk T st1 (docAB A u a Mid b v B))
    (hf : (PlainParEnv.render (docAB A u a Mid b v B)).length + 2 ≤ fuel)
    (ha : isSpace a = false) (hb : isSpace b = false) :
    ∃ r, tex2txt T fuel (PlainParEnv.render (docAB A u a Mid b v B)) o false thresh fs = .ok r ∧
      ∃ U V, r.txt = (U ++ (a, posA A u) :: (between A u Mid ++ (b, posB A u Mid) :: V)).map (·.1) ∧
        r.pos = (U ++ (a, posA A u) :: (between A u Mid ++ (b, posB A u Mid) :: V)).map (·.2 + 1) ∧
        U = PlainPara.pre (frontMarks A u) ∧ V = PlainPara.post (backMarks A u Mid v B) ∧
        PlainPara.hasBlank ((between A u Mid).map PlainPara.clsP) = PlainPara.hasBlank (layout Mid) ∧
        (hasBreak Mid = true →
          PlainPara.hasBlank ((between A u Mid).map PlainPara.clsP) = true) ∧
        (hasBreak Mid = false →
          PlainPara.hasBlank ((between A u Mid).map PlainPara.clsP)
            = PlainPara.hasBlankLine (PlainParEnv.textOf Mid)) := by
  obtain ⟨r, h1, h2, h3, _⟩ :=
    PlainParEnv.tex2txt_parenv T o fs thresh _ fuel st1 hdefs hextr hrepl hunkn hinit hok hf
  rw [ref_docAB A u a Mid b v B ha hb] at h2 h3
  exact ⟨r, h1, _, _, h2, h3, rfl, rfl, between_blank A u Mid, between_break A u Mid,
    between_text A u Mid⟩

open PlainParEnv in
/-- **the generated line breaks map inside their construct.**  Every output character, with its
    (1-based) position, is a text character of the document at its own position, or a line break
    whose position is that of the backslash of a `\par`, a `\begin` or an `\end` of the document
    (`starts`; `starts_backslash`: the source has a backslash there). -/
theorem C05_par_origin (T : PTables) (o : Options) (fs : FS) (thresh : Nat)
    (segs : List PlainParEnv.Seg) (fuel : Nat) (st1 : PState)
    (hdefs : o.defs = []) (hextr : o.extr = []) (hrepl : o.hasRepl = false) (hunkn : o.unkn = false)
    (hinit : initParser T fuel o (initialState T o false fs) = .ok ((), st1))
    (hok : PlainParEnv.SegsOk T st1 segs) (hf : (PlainParEnv.render segs).length + 2 ≤ fuel) :
    ∃ r, tex2txt T fuel (PlainParEnv.render segs) o false thresh fs = .ok r ∧
      ∀ cq ∈ r.txt.zip r.pos,
        (∃ q, cq = (cq.1, q + 1) ∧ (cq.1, q) ∈ textChars 0 segs) ∨
        (cq.1 = nl ∧ ∃ q ∈ starts 0 segs, cq.2 = q + 1 ∧ (PlainParEnv.render segs)[q]? = some '\\') := by
  obtain ⟨r, h1, h2, h3, _⟩ :=
    PlainParEnv.tex2txt_parenv T o fs thresh segs fuel st1 hdefs hextr hrepl hunkn hinit hok hf
  refine ⟨r, h1, ?_⟩
  intro cq hcq
  rw [h2, h3, List.zip_map'] at hcq
  obtain ⟨cp, hcp, rfl⟩ := List.mem_map.mp hcq
  rcases out_origin segs cp hcp with h | ⟨hn, hs⟩
  · exact Or.inl ⟨cp.2, rfl, h⟩
  · refine Or.inr ⟨hn, cp.2, hs, rfl, ?_⟩
    have := (starts_backslash segs 0 cp.2 hs).2
    simpa using this

/-! ### the current code -/

/-- the end-to-end theorem for the CURRENT code (tables translated from /repo, default options,
    parser initialisation evaluated by the kernel) -/
theorem C05_par_e2e_current (segs : List PlainParEnv.Seg) (thresh : Nat)
    (hok : PlainParEnv.SegsOk Generated.theTables Generated.stDefault segs)
    (hf : (PlainParEnv.render segs).length + 2 ≤ Generated.bigFuel) :
    ∃ r, tex2txt Generated.theTables Generated.bigFuel (PlainParEnv.render segs) Generated.defaultOptions
          false thresh [] = .ok r ∧
      r.txt = (PlainMacro.delLines (PlainParEnv.marks 0 segs)).map (·.1) ∧
      r.pos = (PlainMacro.delLines (PlainParEnv.marks 0 segs)).map (·.2 + 1) ∧
      r.unknowns = [] ∧ r.diags = Generated.stDefault.diags :=
  C05_par_e2e Generated.theTables Generated.defaultOptions [] thresh segs Generated.bigFuel
    Generated.stDefault rfl rfl rfl rfl Generated.initParser_default hok hf

open PlainParEnv in
/-- the paragraph relation for the CURRENT code: a `\par` or an environment boundary between two
    words gives a blank line between them -/
theorem C05_par_break_current (A : List PlainParEnv.Seg) (u : Str) (a : Char)
    (Mid : List PlainParEnv.Seg) (b : Char) (v : Str) (B : List PlainParEnv.Seg) (thresh : Nat)
    (hok : PlainParEnv.SegsOk Generated.theTables Generated.stDefault (docAB A u a Mid b v B))
    (hf : (PlainParEnv.render (docAB A u a Mid b v B)).length + 2 ≤ Generated.bigFuel)
    (ha : isSpace a = false) (hb : isSpace b = false) (hbr : hasBreak Mid = true) :
    ∃ r U V, tex2txt Generated.theTables Generated.bigFuel (PlainParEnv.render (docAB A u a Mid b v B))
        Generated.defaultOptions false thresh [] = .ok r ∧
      r.txt = (U ++ (a, posA A u) :: (between A u Mid ++ (b, posB A u Mid) :: V)).map (·.1) ∧
      r.pos = (U ++ (a, posA A u) :: (between A u Mid ++ (b, posB A u Mid) :: V)).map (·.2 + 1) ∧
      PlainPara.hasBlank ((between A u Mid).map PlainPara.clsP) = true := by
  obtain ⟨r, h1, U, V, h2, h3, _, _, _, h4, _⟩ :=
    C05_par_break Generated.theTables Generated.defaultOptions [] thresh A u a Mid b v B
      Generated.bigFuel Generated.stDefault rfl rfl rfl rfl Generated.initParser_default hok hf ha hb
  exact ⟨r, U, V, h1, h2, h3, h4 hbr⟩

/-- The example document

        One.

        Three \par four
        \begin{minipage}{5cm}
        five
        \end{minipage}
        six.
-/
def C05_par_doc : List PlainParEnv.Seg :=
  [.txt "One.\n\nThree ".toList, .par " ".toList, .txt "four\n".toList,
   .beg "minipage".toList "5cm".toList, .txt "\nfive\n".toList, .en "minipage".toList,
   .txt "\nsix.".toList]

/-- the side conditions hold for it on the real tables -/
theorem C05_par_example_current :
    PlainParEnv.SegsOk Generated.theTables Generated.stDefault C05_par_doc ∧
    PlainParEnv.render C05_par_doc
      = "One.\n\nThree \\par four\n\\begin{minipage}{5cm}\nfive\n\\end{minipage}\nsix.".toList := by
  decide +kernel

open PlainParEnv in
/-- … and this is what the theorems say about it: the reference output (text, positions: the
    paragraph break of `\par` sits at the backslash, source offset 12, the blank behind `\par` is
    swallowed; the line `\begin{minipage}{5cm}` leaves its two line breaks — the text-less mark of
    the argument and the line break behind `}` form a pure line, which is deleted; `\end{minipage}`
    leaves two line breaks and the line break behind it), the output between `Three` / `four`,
    `four` / `five`, `five` / `six` (each with a blank line), the positions of the constructs. -/
theorem C05_par_example_ref :
    (PlainMacro.delLines (marks 0 C05_par_doc)).map (·.1)
      = "One.\n\nThree \n\nfour\n\n\nfive\n\n\n\nsix.".toList ∧
    (PlainMacro.delLines (marks 0 C05_par_doc)).map (·.2 + 1)
      = [1, 2, 3, 4, 5, 6, 7, 8, 9, 10, 11, 12, 13, 13, 18, 19, 20, 21, 22, 23, 23, 45, 46, 47, 48,
         49, 50, 50, 64, 65, 66, 67, 68] ∧
    between [.txt "One.\n\n".toList] "Thre".toList [.txt " ".toList, .par " ".toList]
      = [(' ', 11), ('\n', 12), ('\n', 12)] ∧
    between [.txt "One.\n\nThree ".toList, .par " ".toList] "fou".toList
        [.txt "\n".toList, .beg "minipage".toList "5cm".toList, .txt "\n".toList]
      = [('\n', 21), ('\n', 22), ('\n', 22)] ∧
    between [.txt "One.\n\nThree ".toList, .par " ".toList, .txt "four\n".toList,
          .beg "minipage".toList "5cm".toList] "\nfiv".toList
        [.txt "\n".toList, .en "minipage".toList, .txt "\n".toList]
      = [('\n', 48), ('\n', 49), ('\n', 49), ('\n', 63)] ∧
    starts 0 C05_par_doc = [12, 22, 49] := by
  decide +kernel

/-- … which is what the model computes (evaluated by the kernel) -/
theorem C05_par_example_eval :
    (match tex2txt Generated.theTables Generated.bigFuel (PlainParEnv.render C05_par_doc)
        Generated.defaultOptions false 0 [] with
     | .ok r =>
       r.txt == "One.\n\nThree \n\nfour\n\n\nfive\n\n\n\nsix.".toList &&
       r.pos == [1, 2, 3, 4, 5, 6, 7, 8, 9, 10, 11, 12, 13, 13, 18, 19, 20, 21, 22, 23, 23, 45, 46,
         47, 48, 49, 50, 50, 64, 65, 66, 67, 68] &&
       r.unknowns == []
     | _ => false) = true := by
  decide +kernel

/-- MODEL BEHAVIOUR WORTH KNOWING (kernel evaluation on the real tables): `quote` — like `center`,
    `abstract`, `flushleft` … — is NOT declared in the tables, so `\begin{quote}` / `\end{quote}` are
    unknown environments: each leaves one text-less mark and NO paragraph break.  In

        One\label{a}
        \index{b}
        two.

        Three \par four
        \begin{quote}
        five
        \end{quote}
        six.

    the words `four`, `five`, `six` end up in ONE output paragraph (`four⏎five⏎six.`), although LaTeX
    sets the quotation as a paragraph of its own; `quote` is reported as unknown.  (`One` / `two`:
    same paragraph, the index line is gone; `two.` / `Three`: blank line kept; `Three` / `four`:
    blank line from `\par`.) -/
theorem C05_par_quote_eval :
    (match tex2txt Generated.theTables Generated.bigFuel
        "One\\label{a}\n\\index{b}\ntwo.\n\nThree \\par four\n\\begin{quote}\nfive\n\\end{quote}\nsix.".toList
        Generated.defaultOptions false 0 [] with
     | .ok r =>
       r.txt == "One\ntwo.\n\nThree \n\nfour\nfive\nsix.".toList &&
       r.pos == [1, 2, 3, 13, 24, 25, 26, 27, 28, 29, 30, 31, 32, 33, 34, 35, 36, 36, 41, 42, 43, 44,
         45, 60, 61, 62, 63, 64, 77, 78, 79, 80] &&
       r.unknowns == ["quote".toList]
     | _ => false) = true := by
  decide +kernel

end Yalafi
