/-
  Properties/PlainSkipStmt.lean — C03 "… nothing from comments, LT-SKIP regions, \LTskip arguments …
  appears", end to end on the filter model:
  (A) `C03_skip_region_e2e`: documents of inert text and skipped regions
      `%%% LT-SKIP-BEGIN ⏎ hidden ⏎ %%% LT-SKIP-END ⏎` with ARBITRARY hidden source text (`hiddenOk`);
      corollaries `C03_skip_no_leak`, `C19_skip_not_listed`; the source-level form
      `C03_skip_source_e2e` for the exact class of sources (`Skip.skipText`).
      Proofs, side conditions and what is not covered: Proofs/PlainSkipSeg.lean (documents),
      Proofs/PlainSkip.lean (sources, scanner, skip pre-pass), Proofs/PlainSkipScan.lean (the
      scanner re-synchronises at the END marker).
  (B) `C03_ltmacros_e2e`: documents of inert text and calls `\LTskip{a}`, `\LTadd{a}`,
      `\LTalter{a}{b}` (more generally: declared macros whose replacement is empty or one `#k`).
      Proofs, side conditions and what is not covered: Proofs/PlainSkipLt.lean.
-/
import YalafiVerif.Proofs.PlainSkipLt
import YalafiVerif.Proofs.PlainSkipSeg
import YalafiVerif.Generated.Init
import YalafiVerif.Generated.WF
namespace Yalafi

/-! ## (A) skipped regions -/

/-- **skipped regions, end to end on the filter model.**  For every document `Skip.render st1 segs`
    of inert text and skipped regions `%%% LT-SKIP-BEGIN bt ⏎ hidden %%% LT-SKIP-END et ⏎ ws` whose
    `hidden` is arbitrary source text — macros, braces, `$`, `\verb|…|`, verbatim environments, comment
    lines, nested BEGIN markers, unbalanced anything — subject to `Skip.hiddenOk` (the END marker is
    the first thing on its line; the scanner meets no error and no earlier END marker in the hidden
    text) (`Skip.SegsOk`: all side conditions, computable), well-formed scanner tables, `st1` the
    state after `Parser.__init__`, no `--defs --extr --repl --unkn`, single-language mode, fuel =
    source length + 2: `tex2txt` succeeds; the output text with its (1-based) positions is
    `Skip.plain st1 0 segs`: the characters of the text segments, every one at its own source position,
    and NOTHING of a region (not the marker lines, not the hidden text; the closing comment takes
    its line break and the indentation `ws` of the next line with it, or — in front of a blank line
    — leaves the line break to the following text); no line is removed.  No unknowns, no
    diagnostic. -/
theorem C03_skip_region_e2e (T : PTables) (o : Options) (fs : FS) (thresh : Nat)
    (segs : List Skip.Seg) (fuel : Nat) (st1 : PState) (hwf : T.toTables.WFScan)
    (hdefs : o.defs = []) (hextr : o.extr = []) (hrepl : o.hasRepl = false) (hunkn : o.unkn = false)
    (hinit : initParser T fuel o (initialState T o false fs) = .ok ((), st1))
    (hok : Skip.SegsOk T st1 segs) (hf : (Skip.render st1 segs).length + 2 ≤ fuel) :
    ∃ r, tex2txt T fuel (Skip.render st1 segs) o false thresh fs = .ok r ∧
      r.txt = (Skip.plain st1 0 segs).map (·.1) ∧
      r.pos = (Skip.plain st1 0 segs).map (·.2 + 1) ∧
      r.unknowns = [] ∧ r.diags = st1.diags := by
  obtain ⟨r, h1, h2, h3, h4, h5, _⟩ :=
    Skip.tex2txt_skip_regions T o fs thresh segs fuel st1 hwf hdefs hextr hrepl hunkn hinit hok hf
  exact ⟨r, h1, h2, h3, h4, h5⟩

/-- **nothing of a skipped region leaks**: no output position lies inside a region —
    `Skip.regions st1 0 segs` lists the regions as (0-based start, length), from the `%` of the
    BEGIN marker to the end of the closing comment token; output positions are 1-based.  (With
    `C03_skip_region_e2e`: every output character is the source character at its position.) -/
theorem C03_skip_no_leak (T : PTables) (o : Options) (fs : FS) (thresh : Nat)
    (segs : List Skip.Seg) (fuel : Nat) (st1 : PState) (hwf : T.toTables.WFScan)
    (hdefs : o.defs = []) (hextr : o.extr = []) (hrepl : o.hasRepl = false) (hunkn : o.unkn = false)
    (hinit : initParser T fuel o (initialState T o false fs) = .ok ((), st1))
    (hok : Skip.SegsOk T st1 segs) (hf : (Skip.render st1 segs).length + 2 ≤ fuel) :
    ∃ r, tex2txt T fuel (Skip.render st1 segs) o false thresh fs = .ok r ∧
      ∀ q ∈ r.pos, ∀ sp ∈ Skip.regions st1 0 segs, q ≤ sp.1 ∨ sp.1 + sp.2 < q := by
  obtain ⟨r, h1, _, h3, _⟩ :=
    C03_skip_region_e2e T o fs thresh segs fuel st1 hwf hdefs hextr hrepl hunkn hinit hok hf
  refine ⟨r, h1, ?_⟩
  intro q hq sp hsp
  rw [h3] at hq
  obtain ⟨cp, hcp, rfl⟩ := List.mem_map.mp hq
  rcases Skip.plain_pos_outside hcp hsp with h | h
  · left; omega
  · right; omega

/-- **C19: names inside a skipped region are not listed**: whatever undeclared macros and
    environments the hidden texts use, the unknowns list is empty (the text segments are inert) -/
theorem C19_skip_not_listed (T : PTables) (o : Options) (fs : FS) (thresh : Nat)
    (segs : List Skip.Seg) (fuel : Nat) (st1 : PState) (hwf : T.toTables.WFScan)
    (hdefs : o.defs = []) (hextr : o.extr = []) (hrepl : o.hasRepl = false) (hunkn : o.unkn = false)
    (hinit : initParser T fuel o (initialState T o false fs) = .ok ((), st1))
    (hok : Skip.SegsOk T st1 segs) (hf : (Skip.render st1 segs).length + 2 ≤ fuel) :
    ∃ r, tex2txt T fuel (Skip.render st1 segs) o false thresh fs = .ok r ∧ r.unknowns = [] := by
  obtain ⟨r, h1, _, _, h4, _⟩ :=
    C03_skip_region_e2e T o fs thresh segs fuel st1 hwf hdefs hextr hrepl hunkn hinit hok hf
  exact ⟨r, h1, h4⟩

/-- **the source-level form** (no segmentation, no condition on where the END marker stands, ordinary
    comments allowed outside the regions): for every source of the class `Skip.skipText` — at every
    offset outside comments and regions stands an inert character, a `%` that starts an ordinary
    comment, or a `%` whose comment token starts with the BEGIN marker and behind which the scanner
    (run on the real rest of the source) reaches, without an error, a comment token that starts
    with the END marker — the output is `Skip.stripSkip`: the source with the regions and the
    comments cut out, every remaining character at its own position. -/
theorem C03_skip_source_e2e (T : PTables) (o : Options) (fs : FS) (thresh : Nat) (src : Str)
    (fuel : Nat) (st1 : PState)
    (hdefs : o.defs = []) (hextr : o.extr = []) (hrepl : o.hasRepl = false) (hunkn : o.unkn = false)
    (hinit : initParser T fuel o (initialState T o false fs) = .ok ((), st1))
    (h : Skip.skipText T st1 src = true) (hf : src.length + 2 ≤ fuel) :
    ∃ r, tex2txt T fuel src o false thresh fs = .ok r ∧
      r.txt = (Skip.stripSkip T.toTables st1 src).map (·.1) ∧
      r.pos = (Skip.stripSkip T.toTables st1 src).map (·.2 + 1) ∧
      r.unknowns = [] ∧ r.diags = st1.diags := by
  obtain ⟨toks, ht⟩ := Skip.tex2txt_skip_text T o fs thresh src fuel st1 hdefs hextr hrepl hunkn hinit h hf
  exact ⟨_, ht, rfl, rfl, rfl, rfl⟩

/-- the end-to-end theorem for the CURRENT code (tables translated from /repo, default options,
    parser initialisation evaluated by the kernel) -/
theorem C03_skip_region_e2e_current (segs : List Skip.Seg) (thresh : Nat)
    (hok : Skip.SegsOk Generated.theTables Generated.stDefault segs)
    (hf : (Skip.render Generated.stDefault segs).length + 2 ≤ Generated.bigFuel) :
    ∃ r, tex2txt Generated.theTables Generated.bigFuel (Skip.render Generated.stDefault segs)
          Generated.defaultOptions false thresh [] = .ok r ∧
      r.txt = (Skip.plain Generated.stDefault 0 segs).map (·.1) ∧
      r.pos = (Skip.plain Generated.stDefault 0 segs).map (·.2 + 1) ∧
      r.unknowns = [] ∧ r.diags = Generated.stDefault.diags :=
  C03_skip_region_e2e Generated.theTables Generated.defaultOptions [] thresh segs Generated.bigFuel
    Generated.stDefault Generated.wfScan rfl rfl rfl rfl Generated.initParser_default hok hf

/-- the markers of the current code -/
theorem C03_skip_markers_current :
    Generated.stDefault.skipBegin = "%%% LT-SKIP-BEGIN".toList ∧
    Generated.stDefault.skipEnd = "%%% LT-SKIP-END".toList := by
  decide +kernel

/-- `Text A.⏎%%% LT-SKIP-BEGIN⏎\foo{hidden $x$ \verb|z|}⏎%%% LT-SKIP-END⏎Text B.` -/
def C03_skip_doc : List Skip.Seg :=
  [.txt "Text A.\n".toList,
   .skip [] "\\foo{hidden $x$ \\verb|z|}\n".toList [] [],
   .txt "Text B.".toList]

/-- a document with everything in the hidden text: the first region starts behind visible text
    and has a remark on its BEGIN line; its hidden text holds a verbatim environment that contains
    an END marker line (no comment token: the region goes on), a comment line with unbalanced
    braces and a dangling `\verb`, a nested BEGIN marker, an undeclared macro with an open brace, an
    open `$` and `\[`; its END marker is indented, has a remark behind it, and the next text line is
    indented, too.  Then an empty region in front of a blank line, and a region at the very end of
    the source, without a final line break. -/
def C03_skip_doc2 : List Skip.Seg :=
  [.txt "Text A. ".toList,
   .skip " junk".toList
     "  \\begin{verbatim}\n%%% LT-SKIP-END\n\\end{verbatim}\n% a comment line }}} \\verb\n%%% LT-SKIP-BEGIN\n\\unknown{ $ \\[\n   ".toList
     " trailing".toList "   ".toList,
   .txt "Text B.\n".toList,
   .skipPar [] [] [],
   .txt "\n\nText C.\n".toList,
   .skipPar [] "x\n".toList []]

/-- the side conditions hold for them on the real tables -/
theorem C03_skip_example_current :
    Skip.SegsOk Generated.theTables Generated.stDefault C03_skip_doc ∧
    Skip.SegsOk Generated.theTables Generated.stDefault C03_skip_doc2 := by
  decide +kernel

/-- … and this is what the theorem says about them: the reference output, text and positions -/
theorem C03_skip_example_ref :
    (Skip.plain Generated.stDefault 0 C03_skip_doc).map (·.1) = "Text A.\nText B.".toList ∧
    (Skip.plain Generated.stDefault 0 C03_skip_doc).map (·.2 + 1)
      = [1, 2, 3, 4, 5, 6, 7, 8, 69, 70, 71, 72, 73, 74, 75] ∧
    (Skip.plain Generated.stDefault 0 C03_skip_doc2).map (·.1)
      = "Text A. Text B.\n\n\nText C.\n".toList ∧
    (Skip.plain Generated.stDefault 0 C03_skip_doc2).map (·.2 + 1)
      = [1, 2, 3, 4, 5, 6, 7, 8, 173, 174, 175, 176, 177, 178, 179, 180, 214, 215, 216, 217, 218,
         219, 220, 221, 222, 223] := by
  decide +kernel

/-- … which is what the model computes (evaluated by the kernel): text, positions, no unknowns
    (`\foo`, `\unknown` are not listed), no diagnostics -/
theorem C03_skip_example_eval :
    (match tex2txt Generated.theTables Generated.bigFuel (Skip.render Generated.stDefault C03_skip_doc)
        Generated.defaultOptions false 0 [] with
     | .ok r => r.txt == "Text A.\nText B.".toList && r.unknowns.isEmpty && r.diags.isEmpty &&
        r.pos == [1, 2, 3, 4, 5, 6, 7, 8, 69, 70, 71, 72, 73, 74, 75]
     | _ => false) = true ∧
    (match tex2txt Generated.theTables Generated.bigFuel (Skip.render Generated.stDefault C03_skip_doc2)
        Generated.defaultOptions false 0 [] with
     | .ok r => r.txt == "Text A. Text B.\n\n\nText C.\n".toList && r.unknowns.isEmpty &&
        r.diags.isEmpty &&
        r.pos == [1, 2, 3, 4, 5, 6, 7, 8, 173, 174, 175, 176, 177, 178, 179, 180, 214, 215, 216, 217,
          218, 219, 220, 221, 222, 223]
     | _ => false) = true := by
  decide +kernel

/-- the source-level theorem on the real tables: an END marker that is NOT at the beginning of its
    line (outside `hiddenOk`), and an ordinary comment outside the region -/
theorem C03_skip_source_example_current :
    Skip.skipText Generated.theTables Generated.stDefault
      "A % remark\n%%% LT-SKIP-BEGIN\nhidden \\x %%% LT-SKIP-END\nB".toList = true ∧
    (Skip.stripSkip Generated.theTables.toTables Generated.stDefault
      "A % remark\n%%% LT-SKIP-BEGIN\nhidden \\x %%% LT-SKIP-END\nB".toList)
      = [('A', 0), (' ', 1), ('B', 55)] := by
  decide +kernel

/-! ## (B) the LT macros -/

/-- **`\LTskip`, `\LTadd`, `\LTalter`, end to end on the filter model.**  For every document
    `render segs` of inert text and calls `\name{a1}…{an}` of projection macros — declared macros
    with `n` mandatory arguments, no handler, whose replacement is empty (`\LTskip`) or one reference
    `#k` (`\LTadd`: `#1`, `\LTalter`: `#2`) — with inert, non-empty arguments (`PlainSkipLt.SegsOk`: all
    side conditions, computable), `st1` the state after `Parser.__init__`, no
    `--defs --extr --repl --unkn`, single-language mode, fuel = source length + 2: `tex2txt`
    succeeds; the output text with its (1-based) positions is `delLines (marks st1 0 segs)`: every
    text character at its own source position; `\LTskip{a}` contributes one mark and NO character;
    `\LTadd{a}` contributes the characters of `a` at their own positions (between marks);
    `\LTalter{a}{b}` contributes the characters of `b` at their own positions and nothing of `a`;
    then every line is deleted, together with its line break, that consists only of white space and
    at least one mark (`PlainMacro.delLines`).  No unknowns, no diagnostic. -/
theorem C03_ltmacros_e2e (T : PTables) (o : Options) (fs : FS) (thresh : Nat)
    (segs : List PlainSkipLt.Seg) (fuel : Nat) (st1 : PState)
    (hdefs : o.defs = []) (hextr : o.extr = []) (hrepl : o.hasRepl = false) (hunkn : o.unkn = false)
    (hinit : initParser T fuel o (initialState T o false fs) = .ok ((), st1))
    (hok : PlainSkipLt.SegsOk T st1 segs) (hf : (PlainSkipLt.render segs).length + 2 ≤ fuel) :
    ∃ r, tex2txt T fuel (PlainSkipLt.render segs) o false thresh fs = .ok r ∧
      r.txt = (PlainMacro.delLines (PlainSkipLt.marks st1 0 segs)).map (·.1) ∧
      r.pos = (PlainMacro.delLines (PlainSkipLt.marks st1 0 segs)).map (·.2 + 1) ∧
      r.unknowns = [] ∧ r.diags = st1.diags := by
  obtain ⟨r, h1, h2, h3, h4, h5, _⟩ :=
    PlainSkipLt.tex2txt_ltmacros T o fs thresh segs fuel st1 hdefs hextr hrepl hunkn hinit hok hf
  exact ⟨r, h1, h2, h3, h4, h5⟩

/-- **nothing of a skipped or replaced argument leaks**: no output position lies in a hidden part
    of a call — `PlainSkipLt.hidden st1 0 segs` lists, as (0-based start, length), for `\LTskip{a}` the
    whole call, for `\LTadd{a}` the name with the opening brace and the closing brace, for
    `\LTalter{a}{b}` everything up to and including the `{` in front of `b` (so all of `a`) and the
    closing brace; output positions are 1-based.  (With `C03_ltmacros_e2e`: every output character is
    the source character at its position.) -/
theorem C03_ltmacros_no_leak (T : PTables) (o : Options) (fs : FS) (thresh : Nat)
    (segs : List PlainSkipLt.Seg) (fuel : Nat) (st1 : PState)
    (hdefs : o.defs = []) (hextr : o.extr = []) (hrepl : o.hasRepl = false) (hunkn : o.unkn = false)
    (hinit : initParser T fuel o (initialState T o false fs) = .ok ((), st1))
    (hok : PlainSkipLt.SegsOk T st1 segs) (hf : (PlainSkipLt.render segs).length + 2 ≤ fuel) :
    ∃ r, tex2txt T fuel (PlainSkipLt.render segs) o false thresh fs = .ok r ∧
      ∀ q ∈ r.pos, ∀ sp ∈ PlainSkipLt.hidden st1 0 segs, q ≤ sp.1 ∨ sp.1 + sp.2 < q := by
  obtain ⟨r, h1, _, h3, _⟩ := C03_ltmacros_e2e T o fs thresh segs fuel st1 hdefs hextr hrepl hunkn hinit hok hf
  refine ⟨r, h1, ?_⟩
  intro q hq sp hsp
  rw [h3] at hq
  obtain ⟨cp, hcp, rfl⟩ := List.mem_map.mp hq
  rcases PlainSkipLt.marks_pos_outside hok.2 (PlainVanish.delLines_mem hcp) hsp with h | h
  · left; omega
  · right; omega

/-- the end-to-end theorem for the CURRENT code (tables translated from /repo, default options,
    parser initialisation evaluated by the kernel) -/
theorem C03_ltmacros_e2e_current (segs : List PlainSkipLt.Seg) (thresh : Nat)
    (hok : PlainSkipLt.SegsOk Generated.theTables Generated.stDefault segs)
    (hf : (PlainSkipLt.render segs).length + 2 ≤ Generated.bigFuel) :
    ∃ r, tex2txt Generated.theTables Generated.bigFuel (PlainSkipLt.render segs) Generated.defaultOptions
          false thresh [] = .ok r ∧
      r.txt = (PlainMacro.delLines (PlainSkipLt.marks Generated.stDefault 0 segs)).map (·.1) ∧
      r.pos = (PlainMacro.delLines (PlainSkipLt.marks Generated.stDefault 0 segs)).map (·.2 + 1) ∧
      r.unknowns = [] ∧ r.diags = Generated.stDefault.diags :=
  C03_ltmacros_e2e Generated.theTables Generated.defaultOptions [] thresh segs Generated.bigFuel
    Generated.stDefault rfl rfl rfl rfl Generated.initParser_default hok hf

/-- in the current tables `\LTskip` outputs nothing, `\LTadd` its first and `\LTalter` its second
    argument -/
theorem C03_ltmacros_sel_current :
    PlainSkipLt.selOf Generated.stDefault "LTskip".toList = none ∧
    PlainSkipLt.selOf Generated.stDefault "LTadd".toList = some 1 ∧
    PlainSkipLt.selOf Generated.stDefault "LTalter".toList = some 2 := by
  decide +kernel

/-- `Text B \LTskip{gone} and \LTadd{added} \LTalter{shown}{taken}.⏎\LTskip{a line of its own}⏎End.` -/
def C03_ltmacros_doc : List PlainSkipLt.Seg :=
  [.txt "Text B ".toList, PlainSkipLt.ltSkip "gone".toList, .txt " and ".toList,
   PlainSkipLt.ltAdd "added".toList, .txt " ".toList,
   PlainSkipLt.ltAlter "shown".toList "taken".toList, .txt ".\n".toList,
   PlainSkipLt.ltSkip "a line of its own".toList, .txt "\nEnd.".toList]

/-- the side conditions hold for it on the real tables -/
theorem C03_ltmacros_example_current :
    PlainSkipLt.SegsOk Generated.theTables Generated.stDefault C03_ltmacros_doc := by
  decide +kernel

/-- … and this is what the theorem says about it: the reference output, text and positions -/
theorem C03_ltmacros_example_ref :
    (PlainMacro.delLines (PlainSkipLt.marks Generated.stDefault 0 C03_ltmacros_doc)).map (·.1)
      = "Text B  and added taken.\nEnd.".toList ∧
    (PlainMacro.delLines (PlainSkipLt.marks Generated.stDefault 0 C03_ltmacros_doc)).map (·.2 + 1)
      = [1, 2, 3, 4, 5, 6, 7, 21, 22, 23, 24, 25, 33, 34, 35, 36, 37, 39, 56, 57, 58, 59, 60, 62, 63,
         91, 92, 93, 94] := by
  decide +kernel

/-- … which is what the model computes (evaluated by the kernel) -/
theorem C03_ltmacros_example_eval :
    (match tex2txt Generated.theTables Generated.bigFuel (PlainSkipLt.render C03_ltmacros_doc)
        Generated.defaultOptions false 0 [] with
     | .ok r => r.txt == "Text B  and added taken.\nEnd.".toList && r.unknowns.isEmpty &&
        r.pos == [1, 2, 3, 4, 5, 6, 7, 21, 22, 23, 24, 25, 33, 34, 35, 36, 37, 39, 56, 57, 58, 59, 60,
          62, 63, 91, 92, 93, 94]
     | _ => false) = true := by
  decide +kernel

end Yalafi
