/-
  Properties/C01.lean — every output character has exactly one source position,
  inside the source.

  Proved here (all inputs): the text/position builder, the scanner, the error mark,
  blank-line removal, the multi-language splitter and phrase replacement each
  keep lengths equal and positions inside `[0, n)` (the `+1` of tex2txt.py gives
  `1 ≤ p ≤ n`), and — `C01_tex2txt` — so does the whole filter model including the
  macro expander (induction on fuel over the mutual block, Proofs/Inv/*).
-/
import YalafiVerif.Proofs.Scanner
import YalafiVerif.Proofs.Utils
import YalafiVerif.Proofs.Lines
import YalafiVerif.Proofs.Replace
import YalafiVerif.Proofs.Inv.Tex2txt
import YalafiVerif.Generated.WF
import YalafiVerif.Proofs.Reports
namespace Yalafi

theorem C01_getTxtPos_length (ts : List Tok) : (getTxtPos ts).1.length = (getTxtPos ts).2.length :=
  getTxtPos_length ts

theorem C01_getTxtPos_range (n : Nat) (ts : List Tok) (h : ∀ t ∈ ts, t.txt ≠ [] → TokInRange n t) :
    ∀ p ∈ (getTxtPos ts).2, p < n :=
  getTxtPos_range n ts h

theorem C01_scan_inRange (T : Tables) (h : T.WFScan) (src : Str) :
    ∀ t ∈ (scan T src).toks, TokInRange src.length t :=
  scan_inRange T h src

/-- an error mark is in range wherever the error is (also at the last character, also when the
    mark is longer than the rest of the text) -/
theorem C01_latexError_inRange (T : Tables) (hm : T.mark ≠ []) (err : Str) (pos n : Nat) (hp : pos < n) :
    (∀ t ∈ latexErrorToks T err pos n, t.fix = true ∧ t.kind = .text ∧ t.pos < n) ∧
    (latexErrorToks T err pos n).head?.map (·.pos) = some pos ∧
    ∀ p ∈ (getTxtPos (latexErrorToks T err pos n)).2, p < n :=
  latexErrorToks_inv T hm err pos n hp

theorem C01_removeLines_inRange (n : Nat) (ts out : List Tok)
    (h : ∀ t ∈ ts, t.txt ≠ [] → TokInRange n t) (hr : removeLines ts = some out) :
    ∀ t ∈ out, t.txt ≠ [] → TokInRange n t :=
  removeLines_inRange n ts out h hr

theorem C01_ml_parts (toks : List Tok) (main : Str) (thresh : Nat) (lc lc' : LangChange) (parts : Parts)
    (h : getTxtPosML toks main thresh lc = some (parts, lc')) :
    ∀ tp ∈ allParts parts, tp.1.length = tp.2.length ∧
      ∀ p ∈ tp.2, p ∈ (getTxtPos (toks.filter (fun t => !isLangTok t))).2 :=
  getTxtPosML_parts toks main thresh lc lc' parts h

theorem C01_substitute_positions (T : Tables) (txt : Str) (pos : List Nat) (lines : List Str)
    (hlen : txt.length = pos.length) :
    (replacePhrases T txt pos lines).1.length = (replacePhrases T txt pos lines).2.length ∧
    ∀ p ∈ (replacePhrases T txt pos lines).2, p ∈ pos :=
  replacePhrases_ok T txt pos lines hlen

/-- The tail of the pipeline, composed: whatever token list the expander delivers, if its
    tokens are in range then text and map of the single-language result — after phrase
    replacement — have equal length and every position is `< n`.
    (`_partial`: the hypothesis on the expander's tokens is checked on the implementation,
    not yet proved on an expander model.) -/
theorem C01_pipeline_partial (T : Tables) (n : Nat) (toks : List Tok) (lines : List Str)
    (h : ∀ t ∈ toks, t.txt ≠ [] → TokInRange n t) :
    let r := replacePhrases T (getTxtPos toks).1 (getTxtPos toks).2 lines
    r.1.length = r.2.length ∧ ∀ p ∈ r.2, p < n := by
  intro r
  have hl := getTxtPos_length toks
  have h1 := replacePhrases_ok T _ _ lines hl
  exact ⟨h1.1, fun p hp => getTxtPos_range n toks h p (h1.2 p hp)⟩

/-- **C01 for the whole filter model** (scanner, macro expander with all handlers and
    bundled packages, maths parser, blank-line removal, detached flows, phrase replacement,
    multi-language splitter): for every source text, option record, file system and fuel,
    whenever `tex2txt` returns, text and position list have equal length and — unless `--unkn`
    replaced the map — every position lies in `1 … len(source)`, for the single text and for
    every language part.  Hypotheses: the decidable table facts `T.WFInv`, and the ghost flag
    `foreign` of the run is false (a text flow extracted while a package's own LaTeX
    definitions were parsed in the middle of the document; impossible with the bundled
    modules, reported per run by the harness). -/
theorem C01_tex2txt (T : PTables) (hw : T.WFInv) (fuel : Nat) (latex : Str) (o : Options) (multi : Bool)
    (thresh : Nat) (fs : FS) :
    match tex2txt T fuel latex o multi thresh fs with
    | .ok r =>
      r.txt.length = r.pos.length ∧
      (r.foreign = false → o.unkn = false → PartOk latex.length (r.txt, r.pos)) ∧
      (r.foreign = false → ∀ tp ∈ allParts r.parts, PartOk latex.length tp)
    | _ => True :=
  tex2txt_inRange T hw fuel latex o multi thresh fs

/-- the same for the tables translated from /repo on this run (`Generated/WF.lean` decides
    `WFInv` with the kernel) -/
theorem C01_tex2txt_current (fuel : Nat) (latex : Str) (o : Options) (multi : Bool) (thresh : Nat) (fs : FS) :
    match tex2txt Generated.theTables fuel latex o multi thresh fs with
    | .ok r =>
      r.txt.length = r.pos.length ∧
      (r.foreign = false → o.unkn = false → PartOk latex.length (r.txt, r.pos)) ∧
      (r.foreign = false → ∀ tp ∈ allParts r.parts, PartOk latex.length tp)
    | _ => True :=
  C01_tex2txt Generated.theTables Generated.wfInv fuel latex o multi thresh fs

/- non-vacuity of `C01_tex2txt_current`: the compiled model is run on thousands of documents
   by the correspondence check of every run; the evidence file reports how many returned `ok`
   with `foreign = false` (all of them, so far). -/

/-- non-vacuity: a scanned document satisfies the hypothesis -/
example : TokInRange 3 { kind := .text, pos := 2, txt := ['a'] } := by
  simp [TokInRange]

end Yalafi

/-
  The command line (`tex2txt.write_output`, Model/Reports.lean; tied to the code by
  harness/corr_reports.py): the `--nums` file has one line per number.
-/
namespace Yalafi
open Reports

/-- (e) the lines of the `--nums` file: one per number, the decimal `|n|` followed by `+` iff
    `n < 0`; no line is empty or holds a line break, so the file (every line followed by a line
    break) has exactly `len(nums)` lines; the line determines the number -/
theorem C01_nums_lines (nums : List Int) :
    (writeNums nums).length = nums.length ∧
    (∀ i : Nat, (writeNums nums)[i]? = (nums[i]?).map (fun (n : Int) => natToStr n.natAbs ++ (if n < 0 then ['+'] else []))) ∧
    (∀ l ∈ writeNums nums, '\n' ∉ l ∧ l ≠ []) ∧
    numsFile nums = (writeNums nums).flatMap (· ++ ['\n']) ∧
    (numsFile nums).count '\n' = nums.length ∧
    (∀ a b, numLine a = numLine b → a = b) :=
  nums_lines nums

/-- `write_output(text, ft, fn)`: the text is written unchanged, and if text and numbers have
    equal length (`C01_tex2txt`) the `--nums` file has exactly one line per character written -/
theorem C01_write_output (text : Str × List Int) (h : (textGetTxt text).length = (textGetNum text).length) :
    (writeOutput text).1 = textGetTxt text ∧
    (writeOutput text).2 = numsFile (textGetNum text) ∧
    (writeOutput text).2.count '\n' = (writeOutput text).1.length :=
  writeOutput_lines text h

example : writeOutput ("aä\n".toList, [1, -12, 3]) = ("aä\n".toList, "1\n12+\n3\n".toList) := by decide

end Yalafi
