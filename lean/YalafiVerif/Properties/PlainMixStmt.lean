/-
  Properties/PlainMixStmt.lean — C03 "hidden material never leaks" and C05 "text flow is preserved",
  end to end on the filter model, for documents that MIX constructs: inert text, special sequences
  of the table, undeclared control words, calls of vanishing macros (`\label{…}`, `\index{…}`),
  `%` comments, `\verb` and simple inline formulas `$…$` — in any order (`PlainMix.Seg`).
  Proofs, side conditions and what is not covered: Proofs/PlainMixE2E.lean (header),
  Proofs/PlainMix.lean (one loop lemma), Proofs/PlainMixSrc.lean (one scanner lemma),
  Proofs/PlainMixRead.lean (readings of the reference).
-/
import YalafiVerif.Proofs.PlainMixRead
import YalafiVerif.Generated.Init
namespace Yalafi

/-- **mixed documents, end to end.**  For every document `render segs` whose segments are inert
    text, special sequences, undeclared control words (with the white space the filter skips
    behind them), calls of vanishing macros, comments, `\verb`s and simple inline formulas
    (`PlainMix.SegsOk`: all side conditions, computable; `repls` = the inline placeholder
    collection of the language, only looked at if there is a formula), `st1` the state after
    `Parser.__init__`, no `--defs --extr --repl --unkn`, single-language mode, fuel = source
    length + 2: `tex2txt` succeeds; the output text with its (1-based) positions is
    `delLines (marks …)`:

    * `marks`: a text character with its own position; a special sequence = a text-less mark and
      its table value from the position of its first character on; a control word, a vanishing
      call = a text-less mark; a comment = nothing; `\verb d s d` = a mark and `s` at its own
      positions; the `k`-th formula = a mark, the placeholder `repls[k mod length]` and the closing
      punctuation of the body at the position of the first visible body character, a mark;
    * `delLines`: every line that consists of white space and at least one text-less mark is
      deleted with its line break (`remove_pure_action_lines`); nothing else changes;
    * the unknowns are the control words, each once, in order of first use; no diagnostic. -/
theorem C03_mix_e2e (T : PTables) (o : Options) (fs : FS) (thresh : Nat)
    (segs : List PlainMix.Seg) (fuel : Nat) (st1 : PState) (repls : List Str)
    (hdefs : o.defs = []) (hextr : o.extr = []) (hrepl : o.hasRepl = false) (hunkn : o.unkn = false)
    (hinit : initParser T fuel o (initialState T o false fs) = .ok ((), st1))
    (hok : PlainMix.SegsOk T st1 repls segs) (hf : (PlainMix.render segs).length + 2 ≤ fuel) :
    ∃ r, tex2txt T fuel (PlainMix.render segs) o false thresh fs = .ok r ∧
      r.txt = (PlainMacro.delLines (PlainMix.marks T repls 0 0 segs)).map (·.1) ∧
      r.pos = (PlainMacro.delLines (PlainMix.marks T repls 0 0 segs)).map (·.2 + 1) ∧
      r.unknowns = (PlainMix.cwNames segs).eraseDups ∧ r.diags = st1.diags := by
  obtain ⟨r, h1, h2, h3, h4, h5, _⟩ :=
    PlainMix.tex2txt_mix T o fs thresh segs fuel st1 repls hdefs hextr hrepl hunkn hinit hok hf
  exact ⟨r, h1, h2, h3, h4, h5⟩

/-- **nothing hidden leaks, nothing visible is lost.**  The output characters that are no white
    space, with their positions, are exactly those of `PlainMix.plain`, in source order: the text
    characters, the values of the special sequences, the contents of the `\verb`s, the placeholders
    and closing punctuation marks of the formulas — no character of a key, a comment, a
    control-word name or a formula body. -/
theorem C03_mix_words (T : PTables) (o : Options) (fs : FS) (thresh : Nat)
    (segs : List PlainMix.Seg) (fuel : Nat) (st1 : PState) (repls : List Str)
    (hdefs : o.defs = []) (hextr : o.extr = []) (hrepl : o.hasRepl = false) (hunkn : o.unkn = false)
    (hinit : initParser T fuel o (initialState T o false fs) = .ok ((), st1))
    (hok : PlainMix.SegsOk T st1 repls segs) (hf : (PlainMix.render segs).length + 2 ≤ fuel) :
    ∃ r, tex2txt T fuel (PlainMix.render segs) o false thresh fs = .ok r ∧
      (r.txt.zip r.pos).filter (fun cp => !isSpace cp.1)
        = ((PlainMix.plain T repls 0 0 segs).filter (fun cp => !isSpace cp.1)).map
            (fun cp => (cp.1, cp.2 + 1)) := by
  obtain ⟨r, h1, h2, h3, _⟩ :=
    C03_mix_e2e T o fs thresh segs fuel st1 repls hdefs hextr hrepl hunkn hinit hok hf
  refine ⟨r, h1, ?_⟩
  rw [h2, h3, List.zip_map', List.filter_map]
  have := PlainMix.delLines_words (PlainMix.marks T repls 0 0 segs)
  rw [PlainMix.marks_chars] at this
  show List.map _ (List.filter PlainMix.vis _) = List.map _ (List.filter PlainMix.vis _)
  rw [this]

/-- **no character is added, in particular no line break**: the output (characters with
    positions) is a subsequence of `PlainMix.plain`. -/
theorem C05_mix_nothing_added (T : PTables) (o : Options) (fs : FS) (thresh : Nat)
    (segs : List PlainMix.Seg) (fuel : Nat) (st1 : PState) (repls : List Str)
    (hdefs : o.defs = []) (hextr : o.extr = []) (hrepl : o.hasRepl = false) (hunkn : o.unkn = false)
    (hinit : initParser T fuel o (initialState T o false fs) = .ok ((), st1))
    (hok : PlainMix.SegsOk T st1 repls segs) (hf : (PlainMix.render segs).length + 2 ≤ fuel) :
    ∃ r, tex2txt T fuel (PlainMix.render segs) o false thresh fs = .ok r ∧
      List.Sublist (r.txt.zip r.pos)
        ((PlainMix.plain T repls 0 0 segs).map (fun cp => (cp.1, cp.2 + 1))) := by
  obtain ⟨r, h1, h2, h3, _⟩ :=
    C03_mix_e2e T o fs thresh segs fuel st1 repls hdefs hextr hrepl hunkn hinit hok hf
  refine ⟨r, h1, ?_⟩
  rw [h2, h3, List.zip_map']
  have := PlainMix.delLines_sublist (PlainMix.marks T repls 0 0 segs)
  rw [PlainMix.marks_chars] at this
  exact this.map _

/-- **a line is deleted iff it is pure.**  Split the marks of the document at a line: `A` (empty
    or ending with a line break), the line `L` (no line break), its line break `nlp`, the rest
    `B`.  Then the output is the output of `A`, followed by nothing if `L` is *pure*
    (`PlainMix.pureLine`: white space only and at least one text-less mark — the line and its line
    break are deleted) and by the characters of `L` and the line break otherwise, followed by the
    output of `B`. -/
theorem C05_mix_lines (T : PTables) (o : Options) (fs : FS) (thresh : Nat)
    (segs : List PlainMix.Seg) (fuel : Nat) (st1 : PState) (repls : List Str)
    (hdefs : o.defs = []) (hextr : o.extr = []) (hrepl : o.hasRepl = false) (hunkn : o.unkn = false)
    (hinit : initParser T fuel o (initialState T o false fs) = .ok ((), st1))
    (hok : PlainMix.SegsOk T st1 repls segs) (hf : (PlainMix.render segs).length + 2 ≤ fuel)
    (A L B : List PlainMacro.Mark) (nlp : Char × Nat)
    (hsplit : PlainMix.marks T repls 0 0 segs = A ++ (L ++ some nlp :: B))
    (hA : A = [] ∨ ∃ A' q, A = A' ++ [some q] ∧ (q.1 == nl) = true)
    (hL : L.any PlainMix.isNlMark = false) (hn : (nlp.1 == nl) = true) :
    ∃ r, tex2txt T fuel (PlainMix.render segs) o false thresh fs = .ok r ∧
      r.txt = (PlainMacro.delLines A ++ ((if PlainMix.pureLine L then [] else L.filterMap id ++ [nlp])
                ++ PlainMacro.delLines B)).map (·.1) ∧
      r.pos = (PlainMacro.delLines A ++ ((if PlainMix.pureLine L then [] else L.filterMap id ++ [nlp])
                ++ PlainMacro.delLines B)).map (·.2 + 1) := by
  obtain ⟨r, h1, h2, h3, _⟩ :=
    C03_mix_e2e T o fs thresh segs fuel st1 repls hdefs hextr hrepl hunkn hinit hok hf
  rw [hsplit, PlainMix.delLines_mid A L B nlp hA hL hn] at h2 h3
  exact ⟨r, h1, h2, h3⟩

/-- … and the last line (no line break behind it) -/
theorem C05_mix_last_line (T : PTables) (o : Options) (fs : FS) (thresh : Nat)
    (segs : List PlainMix.Seg) (fuel : Nat) (st1 : PState) (repls : List Str)
    (hdefs : o.defs = []) (hextr : o.extr = []) (hrepl : o.hasRepl = false) (hunkn : o.unkn = false)
    (hinit : initParser T fuel o (initialState T o false fs) = .ok ((), st1))
    (hok : PlainMix.SegsOk T st1 repls segs) (hf : (PlainMix.render segs).length + 2 ≤ fuel)
    (A L : List PlainMacro.Mark)
    (hsplit : PlainMix.marks T repls 0 0 segs = A ++ L)
    (hA : A = [] ∨ ∃ A' q, A = A' ++ [some q] ∧ (q.1 == nl) = true)
    (hL : L.any PlainMix.isNlMark = false) :
    ∃ r, tex2txt T fuel (PlainMix.render segs) o false thresh fs = .ok r ∧
      r.txt = (PlainMacro.delLines A ++ (if PlainMix.pureLine L then [] else L.filterMap id)).map (·.1) ∧
      r.pos = (PlainMacro.delLines A ++ (if PlainMix.pureLine L then [] else L.filterMap id)).map
                (·.2 + 1) := by
  obtain ⟨r, h1, h2, h3, _⟩ :=
    C03_mix_e2e T o fs thresh segs fuel st1 repls hdefs hextr hrepl hunkn hinit hok hf
  rw [hsplit, PlainMix.delLines_end A L hA hL] at h2 h3
  exact ⟨r, h1, h2, h3⟩

/-- … when no line is pure (`linesKept`, decidable): the output is `PlainMix.plain` — the source
    with the hidden material cut out and the replacements put in, nothing else added or removed -/
theorem C05_mix_kept (T : PTables) (o : Options) (fs : FS) (thresh : Nat)
    (segs : List PlainMix.Seg) (fuel : Nat) (st1 : PState) (repls : List Str)
    (hdefs : o.defs = []) (hextr : o.extr = []) (hrepl : o.hasRepl = false) (hunkn : o.unkn = false)
    (hinit : initParser T fuel o (initialState T o false fs) = .ok ((), st1))
    (hok : PlainMix.SegsOk T st1 repls segs) (hf : (PlainMix.render segs).length + 2 ≤ fuel)
    (hk : PlainMacro.linesKept true false (PlainMix.marks T repls 0 0 segs) = true) :
    ∃ r, tex2txt T fuel (PlainMix.render segs) o false thresh fs = .ok r ∧
      r.txt = (PlainMix.plain T repls 0 0 segs).map (·.1) ∧
      r.pos = (PlainMix.plain T repls 0 0 segs).map (·.2 + 1) := by
  obtain ⟨r, h1, h2, h3, _⟩ :=
    C03_mix_e2e T o fs thresh segs fuel st1 repls hdefs hextr hrepl hunkn hinit hok hf
  rw [PlainMacro.delLines_kept _ hk, PlainMix.marks_chars] at h2 h3
  exact ⟨r, h1, h2, h3⟩

/-- the end-to-end theorem for the CURRENT code (tables translated from /repo, default options,
    parser initialisation evaluated by the kernel) -/
theorem C03_mix_e2e_current (segs : List PlainMix.Seg) (repls : List Str) (thresh : Nat)
    (hok : PlainMix.SegsOk Generated.theTables Generated.stDefault repls segs)
    (hf : (PlainMix.render segs).length + 2 ≤ Generated.bigFuel) :
    ∃ r, tex2txt Generated.theTables Generated.bigFuel (PlainMix.render segs) Generated.defaultOptions
          false thresh [] = .ok r ∧
      r.txt = (PlainMacro.delLines (PlainMix.marks Generated.theTables repls 0 0 segs)).map (·.1) ∧
      r.pos = (PlainMacro.delLines (PlainMix.marks Generated.theTables repls 0 0 segs)).map (·.2 + 1) ∧
      r.unknowns = (PlainMix.cwNames segs).eraseDups ∧ r.diags = Generated.stDefault.diags :=
  C03_mix_e2e Generated.theTables Generated.defaultOptions [] thresh segs Generated.bigFuel
    Generated.stDefault repls rfl rfl rfl rfl Generated.initParser_default hok hf

/-- the inline placeholder collection of the current /repo for English -/
def C03_mix_repls : List Str :=
  ["B-B-B", "C-C-C", "D-D-D", "E-E-E", "F-F-F", "G-G-G"].map String.toList

/-- a document that uses every kind of segment: `--`, `\%`, `~`, ``` `` ```, `''`; `\foo` (twice) and
    `\bar`, with a blank / a line break behind them; `\label{…}` inside a line, `\index{…}` on a
    line with `~`; a comment that swallows the indentation of the next line, one directly behind
    a control word and one at the very end; `\verb|x_$%|`; two formulas, one with closing punctuation, one with blanks around its body.
    Source:

        Alpha--beta \foo gamma\label{sec:a} 100\% sure. % hidden
          Next $a+b,$ and
        \bar
        \index{key}~
        ``quoted'' \foo % again
        \verb|x_$%| end $ x $.
        % last
-/
def C03_mix_doc : List PlainMix.Seg :=
  [.txt "Alpha".toList, .spc "--".toList, .txt "beta ".toList, .cw "foo".toList " ".toList,
   .txt "gamma".toList, .van "label".toList "sec:a".toList, .txt " 100".toList, .spc "\\%".toList,
   .txt " sure. ".toList, .com " hidden\n  ".toList, .txt "Next ".toList, .math "a+b,".toList,
   .txt " and\n".toList, .cw "bar".toList "\n".toList, .van "index".toList "key".toList,
   .spc "~".toList, .txt "\n".toList, .spc "``".toList, .txt "quoted".toList, .spc "''".toList,
   .txt " ".toList, .cw "foo".toList " ".toList, .com " again\n".toList, .verb '|' "x_$%".toList, .txt " end ".toList,
   .math " x ".toList, .txt ".\n".toList, .com " last".toList]

/-- the side conditions hold for it on the real tables -/
theorem C03_mix_example_current :
    PlainMix.SegsOk Generated.theTables Generated.stDefault C03_mix_repls C03_mix_doc := by
  decide +kernel

/-- … and this is what the theorem says about it: the reference output, text and positions.  (The
    lines `\bar` and `\index{key}~` are pure — `~` stands for U+00A0, which counts as white space —
    and disappear with their line breaks; the comment takes its line break and the indentation
    with it; the formulas get the second and third placeholder of the collection.) -/
theorem C03_mix_example_ref :
    (PlainMacro.delLines (PlainMix.marks Generated.theTables C03_mix_repls 0 0 C03_mix_doc)).map (·.1)
        = "Alpha–beta gamma 100% sure. Next C-C-C, and\n“quoted” x_$% end D-D-D.\n".toList ∧
    (PlainMacro.delLines (PlainMix.marks Generated.theTables C03_mix_repls 0 0 C03_mix_doc)).map (·.2 + 1)
        = [1, 2, 3, 4, 5, 6, 8, 9, 10, 11, 12, 18, 19, 20, 21, 22, 36, 37, 38, 39, 40, 42, 43, 44, 45,
           46, 47, 48, 60, 61, 62, 63, 64, 66, 66, 66, 66, 66, 66, 71, 72, 73, 74, 75, 94, 96, 97, 98,
           99, 100, 101, 102, 104, 124, 125, 126, 127, 129, 130, 131, 132, 133, 136, 136, 136, 136,
           136, 139, 140] ∧
    (PlainMix.cwNames C03_mix_doc).eraseDups = ["\\foo".toList, "\\bar".toList] := by
  decide +kernel

/-- … which is what the model computes (evaluated by the kernel): text, positions, unknowns -/
theorem C03_mix_example_eval :
    (match tex2txt Generated.theTables Generated.bigFuel (PlainMix.render C03_mix_doc)
        Generated.defaultOptions false 0 [] with
     | .ok r =>
       r.txt == "Alpha–beta gamma 100% sure. Next C-C-C, and\n“quoted” x_$% end D-D-D.\n".toList &&
       r.pos == [1, 2, 3, 4, 5, 6, 8, 9, 10, 11, 12, 18, 19, 20, 21, 22, 36, 37, 38, 39, 40, 42, 43,
           44, 45, 46, 47, 48, 60, 61, 62, 63, 64, 66, 66, 66, 66, 66, 66, 71, 72, 73, 74, 75, 94, 96,
           97, 98, 99, 100, 101, 102, 104, 124, 125, 126, 127, 129, 130, 131, 132, 133, 136, 136,
           136, 136, 136, 139, 140] &&
       r.unknowns == ["\\foo".toList, "\\bar".toList]
     | _ => false) = true := by
  decide +kernel

end Yalafi
