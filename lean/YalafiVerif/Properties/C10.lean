/-
  Properties/C10.lean — inline maths: one rotating placeholder plus its punctuation.

  Proved so far (all inputs): `detect_math_parts` groups consecutive maths tokens into one
  part and copies the others; the rotation used by `replace_section` is a left rotation by
  one that keeps length and elements.  The shape theorem `inline_shape` (design 4, C10) is
  being added; the rendering of every formula is checked on the implementation against the
  counting reference (k-th formula in expansion order gets entry k mod len).
-/
import YalafiVerif.Model.Expander
import YalafiVerif.Proofs.InlineShape
namespace Yalafi

theorem C10_rot_length (l : List Str) : (rotL l).length = l.length := by
  simp [rotL]; omega

theorem C10_rot_perm (l : List Str) (x : Str) : x ∈ rotL l ↔ x ∈ l := by
  simp only [rotL, List.mem_append]
  constructor
  · rintro (h | h)
    · exact List.mem_of_mem_drop h
    · exact List.mem_of_mem_take h
  · intro h
    have := List.take_append_drop 1 l
    rw [← this] at h
    rcases List.mem_append.mp h with h | h
    · exact Or.inr h
    · exact Or.inl h

/-- the head after one rotation is the second entry: successive formulas get successive entries -/
theorem C10_rot_head (a b : Str) (l : List Str) : (rotL (a :: b :: l)).head? = some b := by
  simp [rotL]

/-- maths tokens never survive `detect_math_parts` as single tokens -/
theorem C10_detectParts_tok (ts cur : List Tok) :
    ∀ it ∈ detectMathParts ts cur, ∀ t, it = .tok t → isMathTok t = false := by
  induction ts generalizing cur with
  | nil => intro it hit t ht; simp only [detectMathParts] at hit; split at hit <;> simp_all
  | cons x xs ih =>
    intro it hit t ht
    simp only [detectMathParts] at hit
    split at hit
    · exact ih _ it hit t ht
    · rename_i hx
      simp only [List.mem_append, List.mem_cons] at hit
      rcases hit with hit | hit | hit
      · split at hit <;> simp_all
      · subst hit; injection ht with ht; subst ht; simpa using hx
      · exact ih _ it hit t ht

/-- the rendering of an inline formula: for every non-empty list of maths tokens that is not only
    maths space, every placeholder collection `repls ≠ []` and every other parameter, the section
    is rendered as  [blank] placeholder [punctuation] [blank]  — blank iff the formula starts / ends
    with a maths space, placeholder = the next one of the collection (which is rotated by exactly
    one), punctuation = the last non-blank character if it is a punctuation mark — all tokens
    position-fixed at the first token of the formula (`inlineShape_fix_pos`); nothing else -/
theorem C10_inline_shape (T : PTables) (opText : List (Str × Str)) (opDefault : Option Str) (toks : List Tok)
    (firstSection nextRepl : Bool) (repls : List Str)
    (hm : ∀ t ∈ toks, isMathTok t = true) (hts : toks ≠ [])
    (hns : ¬ ∀ t ∈ toks, t.kind = .mathSpace) (hrepls : repls ≠ []) :
    ∃ rs, replaceSection T opText opDefault true (detectMathParts toks []) firstSection nextRepl repls = some rs ∧
      rs.repls = rotL repls ∧ rs.firstPart = !firstSection ∧
      rs.out = inlineShape T toks (toks.head hts) (toks.getLast hts) ((rotL repls).head (rotL_ne_nil repls hrepls)) :=
  replaceSection_inline_mathToks T opText opDefault toks firstSection nextRepl repls hm hts hns hrepls

theorem C10_inline_shape_tokens (T : PTables) (ts : List Tok) (t0 tl : Tok) (r0 : Str) :
    (∀ t ∈ inlineShape T ts t0 tl r0, t.fix = true ∧ t.pos = t0.pos) ∧
    (inlineShape T ts t0 tl r0).map (fun t => (t.kind, t.txt)) =
      (if t0.kind = .mathSpace then [(Kind.space, [' '])] else []) ++ [(Kind.text, r0)]
      ++ (match partPunct T ts with | some c => [(Kind.text, [c])] | none => [])
      ++ (if tl.kind = .mathSpace then [(Kind.space, [' '])] else []) :=
  ⟨inlineShape_fix_pos T ts t0 tl r0, inlineShape_kinds T ts t0 tl r0⟩

end Yalafi
