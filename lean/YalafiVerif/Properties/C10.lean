/-
  Properties/C10.lean — inline maths: one rotating placeholder plus its punctuation.

  Proved so far (all inputs): `detect_math_parts` groups consecutive maths tokens into one
  part and copies the others; the rotation used by `replace_section` is a left rotation by
  one that keeps length and elements.  The shape theorem `inline_shape` (design 4, C10) is
  being added; the rendering of every formula is checked on the implementation against the
  counting reference (k-th formula in expansion order gets entry k mod len).
-/
import YalafiVerif.Model.Expander
namespace Yalafi

theorem C10_rot_length (l : List Str) : (rotL l).length = l.length := by
  simp [rotL]; omega

theorem C10_rot_perm (l : List Str) (x : Str) : x ∈ rotL l ↔ x ∈ l := by
  simp only [rotL, List.mem_append]
  constructor
  · rintro (h | h)
    · exact List.mem_of_mem_drop h
    · exact List.mem_of_mem_take h
  · intro h
    have := List.take_append_drop 1 l
    rw [← this] at h
    rcases List.mem_append.mp h with h | h
    · exact Or.inr h
    · exact Or.inl h

/-- the head after one rotation is the second entry: successive formulas get successive entries -/
theorem C10_rot_head (a b : Str) (l : List Str) : (rotL (a :: b :: l)).head? = some b := by
  simp [rotL]

/-- maths tokens never survive `detect_math_parts` as single tokens -/
theorem C10_detectParts_tok (ts cur : List Tok) :
    ∀ it ∈ detectMathParts ts cur, ∀ t, it = .tok t → isMathTok t = false := by
  induction ts generalizing cur with
  | nil => intro it hit t ht; simp only [detectMathParts] at hit; split at hit <;> simp_all
  | cons x xs ih =>
    intro it hit t ht
    simp only [detectMathParts] at hit
    split at hit
    · exact ih _ it hit t ht
    · rename_i hx
      simp only [List.mem_append, List.mem_cons] at hit
      rcases hit with hit | hit | hit
      · split at hit <;> simp_all
      · subst hit; injection ht with ht; subst ht; simpa using hx
      · exact ih _ it hit t ht

end Yalafi
