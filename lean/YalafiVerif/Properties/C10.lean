/-
  Properties/C10.lean — inline maths: one rotating placeholder plus its punctuation.

  Proved so far (all inputs): `detect_math_parts` groups consecutive maths tokens into one
  part and copies the others; the rotation used by `replace_section` is a left rotation by
  one that keeps length and elements.  The shape theorem `inline_shape` (design 4, C10) is
  being added; the rendering of every formula is checked on the implementation against the
  counting reference (k-th formula in expansion order gets entry k mod len).
-/
import YalafiVerif.Model.Expander
import YalafiVerif.Proofs.InlineShape
import YalafiVerif.Proofs.PlainMath
import YalafiVerif.Generated.Init
import YalafiVerif.Properties.PlainMathRichStmt
namespace Yalafi

theorem C10_rot_length (l : List Str) : (rotL l).length = l.length := by
  simp [rotL]; omega

theorem C10_rot_perm (l : List Str) (x : Str) : x ∈ rotL l ↔ x ∈ l := by
  simp only [rotL, List.mem_append]
  constructor
  · rintro (h | h)
    · exact List.mem_of_mem_drop h
    · exact List.mem_of_mem_take h
  · intro h
    have := List.take_append_drop 1 l
    rw [← this] at h
    rcases List.mem_append.mp h with h | h
    · exact Or.inr h
    · exact Or.inl h

/-- the head after one rotation is the second entry: successive formulas get successive entries -/
theorem C10_rot_head (a b : Str) (l : List Str) : (rotL (a :: b :: l)).head? = some b := by
  simp [rotL]

/-- maths tokens never survive `detect_math_parts` as single tokens -/
theorem C10_detectParts_tok (ts cur : List Tok) :
    ∀ it ∈ detectMathParts ts cur, ∀ t, it = .tok t → isMathTok t = false := by
  induction ts generalizing cur with
  | nil => intro it hit t ht; simp only [detectMathParts] at hit; split at hit <;> simp_all
  | cons x xs ih =>
    intro it hit t ht
    simp only [detectMathParts] at hit
    split at hit
    · exact ih _ it hit t ht
    · rename_i hx
      simp only [List.mem_append, List.mem_cons] at hit
      rcases hit with hit | hit | hit
      · split at hit <;> simp_all
      · subst hit; injection ht with ht; subst ht; simpa using hx
      · exact ih _ it hit t ht

/-- the rendering of an inline formula: for every non-empty list of maths tokens that is not only
    maths space, every placeholder collection `repls ≠ []` and every other parameter, the section
    is rendered as  [blank] placeholder [punctuation] [blank]  — blank iff the formula starts / ends
    with a maths space, placeholder = the next one of the collection (which is rotated by exactly
    one), punctuation = the last non-blank character if it is a punctuation mark — all tokens
    position-fixed at the first token of the formula (`inlineShape_fix_pos`); nothing else -/
theorem C10_inline_shape (T : PTables) (opText : List (Str × Str)) (opDefault : Option Str) (toks : List Tok)
    (firstSection nextRepl : Bool) (repls : List Str)
    (hm : ∀ t ∈ toks, isMathTok t = true) (hts : toks ≠ [])
    (hns : ¬ ∀ t ∈ toks, t.kind = .mathSpace) (hrepls : repls ≠ []) :
    ∃ rs, replaceSection T opText opDefault true (detectMathParts toks []) firstSection nextRepl repls = some rs ∧
      rs.repls = rotL repls ∧ rs.firstPart = !firstSection ∧
      rs.out = inlineShape T toks (toks.head hts) (toks.getLast hts) ((rotL repls).head (rotL_ne_nil repls hrepls)) :=
  replaceSection_inline_mathToks T opText opDefault toks firstSection nextRepl repls hm hts hns hrepls

theorem C10_inline_shape_tokens (T : PTables) (ts : List Tok) (t0 tl : Tok) (r0 : Str) :
    (∀ t ∈ inlineShape T ts t0 tl r0, t.fix = true ∧ t.pos = t0.pos) ∧
    (inlineShape T ts t0 tl r0).map (fun t => (t.kind, t.txt)) =
      (if t0.kind = .mathSpace then [(Kind.space, [' '])] else []) ++ [(Kind.text, r0)]
      ++ (match partPunct T ts with | some c => [(Kind.text, [c])] | none => [])
      ++ (if tl.kind = .mathSpace then [(Kind.space, [' '])] else []) :=
  ⟨inlineShape_fix_pos T ts t0 tl r0, inlineShape_kinds T ts t0 tl r0⟩

/-- **inline formulas become rotating placeholders**, end to end on the filter model: for documents
    of inert text and simple inline formulas `$body$` (body characters that the maths parser turns
    into maths tokens one by one; blanks inside the formula allowed; formulas do not touch), the
    k-th formula is replaced by the placeholder at index `k mod length` of the language's inline
    collection followed by the formula's closing punctuation mark; every character of the
    replacement maps to the first non-blank character of the formula body, every text character to
    its own position; no unknowns, no diagnostics.  (`VisibleRepls`: no placeholder is blank —
    otherwise blank-line removal could delete a line.) -/
theorem C10_inline_math_e2e (T : PTables) (o : Options) (fs : FS) (thresh : Nat)
    (segs : List PlainMath.Seg) (fuel : Nat) (st1 : PState) (rot : Rot) (repls : List Str)
    (hdefs : o.defs = []) (hextr : o.extr = []) (hrepl : o.hasRepl = false) (hunkn : o.unkn = false)
    (hinit : initParser T fuel o (initialState T o false fs) = .ok ((), st1))
    (hok : PlainMath.SegsOk T st1 segs)
    (hrot : rotOf st1 (curSettings st1) = some rot) (hrepls : rot.inl = repls)
    (hne : repls ≠ []) (hvis : PlainMath.VisibleRepls repls)
    (hls : (settingsOf T (curSettings st1)).isSome = true)
    (hf : (PlainMath.render segs).length + 2 ≤ fuel) :
    ∃ r, tex2txt T fuel (PlainMath.render segs) o false thresh fs = .ok r ∧
      r.txt = (PlainMath.refMath T repls 0 0 segs).1 ∧
      r.pos = (PlainMath.refMath T repls 0 0 segs).2.map (· + 1) ∧
      r.unknowns = [] ∧ r.diags = st1.diags :=
  PlainMath.tex2txt_inline_math T o fs thresh segs fuel st1 rot repls hdefs hextr hrepl hunkn hinit hok hrot hrepls
    hne hvis hls hf

/-- the inline collection of the default language after initialisation of the CURRENT code -/
def C10_replsCurrent : List Str :=
  ((rotOf Generated.stDefault (curSettings Generated.stDefault)).map (·.inl)).getD []

/-- the hypotheses about the initialised parser hold for the tables translated from /repo -/
theorem C10_current_facts :
    (rotOf Generated.stDefault (curSettings Generated.stDefault)).isSome = true ∧
    C10_replsCurrent ≠ [] ∧ C10_replsCurrent.length = 6 ∧
    (settingsOf Generated.theTables (curSettings Generated.stDefault)).isSome = true := by
  decide +kernel

/-- a concrete document satisfies the side conditions on the real tables -/
theorem C10_example_current :
    PlainMath.segsOk Generated.theTables Generated.stDefault
      [.txt "Let ".toList, .math "x + 1".toList, .txt " and ".toList, .math " y, ".toList, .txt " be ".toList, .math "z".toList, .txt ".".toList] = true := by
  decide +kernel

end Yalafi
