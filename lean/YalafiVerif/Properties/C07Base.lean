/-
  Properties/C07Base.lean — the filter is total (first part; see C07.lean).

  Proved: every non-expander stage is a total function whose internal loop never
  runs out of its measure (scanner, blank-line removal, multi-language splitter);
  phrase replacement and get_txt_pos are total by definition.

  `C07_tex2txt_no_crash(_current)`: in the model every place where the Python code can raise
  (an index or key that may be missing, `[-1]`/`[0]` of a list that may be empty) is an explicit
  `Outcome.crash "<file:function:expression>"`.  For every source text, option record, file
  system and fuel, the whole filter model ends in `ok`, in the documented `fatal` exit, or out
  of fuel (the model of non-termination: self-referential definitions) — never in a crash,
  except at the three sites of `allowedCrash`: the two markers of code that is not modelled
  (none in the current tables) and `cap_first` on an empty text token, whose unreachability needs an invariant
  on buffer order that the bundle does not carry — proved separately: `C07_no_capfirst_crash` (NoEmptyStmt.lean).  Proved by the same induction on fuel as C01 (`Post` has a crash clause);
  the table facts it needs are decided by the kernel on the tables translated from /repo.
-/
import YalafiVerif.Proofs.Scanner
import YalafiVerif.Proofs.Utils
import YalafiVerif.Proofs.Lines
import YalafiVerif.Proofs.Inv.Tex2txt
import YalafiVerif.Generated.WF

namespace Yalafi

/-- the scanner consumes the whole input with fuel `src.length` (every step advances) -/
theorem C07_scan_total (T : Tables) (h : T.WFScan) (src : Str) : (scan T src).complete = true := by
  have := (scanSteps_complete T h src src.length 0 src (Nat.le_refl _)).1
  simpa [scan] using this

theorem C07_removeLines_total (ts : List Tok) : (removeLines ts).isSome = true :=
  removeLines_progress ts

theorem C07_ml_total (toks : List Tok) (main : Str) (thresh : Nat) (lc : LangChange)
    (h : LangChangeOk lc) : (getTxtPosML toks main thresh lc).isSome = true :=
  getTxtPosML_total toks main thresh lc h

/-- the filter model never raises, whatever the input (sites not covered: `allowedCrash`) -/
theorem C07_tex2txt_no_crash (T : PTables) (hw : T.WFInv) (fuel : Nat) (latex : Str) (o : Options)
    (multi : Bool) (thresh : Nat) (fs : FS) (site : String)
    (h : tex2txt T fuel latex o multi thresh fs = .crash site) : site ∈ allowedCrash :=
  tex2txt_crashSites T hw fuel latex o multi thresh fs site h

/-- … in particular with the tables translated from the current /repo -/
theorem C07_tex2txt_no_crash_current (fuel : Nat) (latex : Str) (o : Options) (multi : Bool) (thresh : Nat)
    (fs : FS) (site : String)
    (h : tex2txt Generated.theTables fuel latex o multi thresh fs = .crash site) : site ∈ allowedCrash :=
  tex2txt_crashSites Generated.theTables Generated.wfInv fuel latex o multi thresh fs site h

/-- the exception list is what the header says (a change of `allowedCrash` is visible here) -/
example : allowedCrash = ["opaque module (not modelled)", "opaque handler (not modelled)",
    "glossaries.py:cap_first:txt[0]"] := rfl

end Yalafi
