/-
  Properties/PlainMacroArgsStmt.lean — C09 "user macro definitions expand by TeX substitution", C04
  "generated text maps into the construct", C02 "arguments handed to user-defined macros keep their own
  offsets": the end-to-end theorem for definitions WITH parameters (Proofs/PlainMacroArgs.lean).
-/
import YalafiVerif.Proofs.PlainMacroArgs
import YalafiVerif.Generated.Init
namespace Yalafi

/-- **a user definition with parameters expands by substitution**, end to end on the filter model.

    Documents: `render segs` over inert text, definitions `\newcommand{\name}[n]{body}` (`0 ≤ n ≤ 9`,
    body = pieces `lit s` (inert text) | `par k` (`#k`, `1 ≤ k ≤ n`), any number of occurrences) and
    uses `\name{a1}…{am}` (`m ≥ 1`, every argument braced, non-empty, inert, brace-free; white space and
    line breaks allowed) with at least as many groups as the definition in force has parameters.

    Claim: `tex2txt` succeeds and text / 1-based positions are `delLines (segMarks [] 0 segs)`:
    * text keeps its own positions; a definition leaves no text (one Action mark);
    * a use of a name defined EARLIER (latest definition wins) is replaced by the body with every `#k`
      replaced by the text of the k-th argument; every character that comes from an argument maps to
      ITS OWN source position inside the braces of the use — also when `#k` occurs several times (all
      copies map to the same source characters);
    * a literal character of the body maps (this is what the model does, `generate_replacements`):
      in front of the first `#k` to the first character of the argument that is referenced LAST in the
      body (to the backslash of the use only if the body contains no `#k`); behind a `#k` to the last
      token of the k-th argument (its last character; if the argument ends in white space, the first
      character of that trailing white space);
    * brace groups beyond the n-th, and all groups of a use of an undefined name, are copied (their
      text with its own positions); an undefined name goes to `unknowns` (once, order of first use);
    * then `remove_pure_action_lines`: every line that consists of white space only and holds a
      definition, use or brace is deleted with its line break (`delLines`);
    * no diagnostic is added. -/
theorem C09_newcommand_args_e2e (T : PTables) (o : Options) (fs : FS) (thresh : Nat)
    (segs : List PlainMacroArgs.Seg) (fuel : Nat) (st1 : PState)
    (hdefs : o.defs = []) (hextr : o.extr = []) (hrepl : o.hasRepl = false) (hunkn : o.unkn = false)
    (hinit : initParser T fuel o (initialState T o false fs) = .ok ((), st1))
    (hok : PlainMacroArgs.SegsOk T st1 segs)
    (hf : (PlainMacroArgs.render segs).length + PlainMacroArgs.segInserted [] 0 segs + 6 ≤ fuel) :
    ∃ r, tex2txt T fuel (PlainMacroArgs.render segs) o false thresh fs = .ok r ∧
      r.txt = (PlainMacro.delLines (PlainMacroArgs.segMarks [] 0 segs)).map (·.1) ∧
      r.pos = (PlainMacro.delLines (PlainMacroArgs.segMarks [] 0 segs)).map (·.2 + 1) ∧
      r.unknowns = (PlainMacroArgs.segUnknowns [] segs).eraseDups ∧
      r.diags = st1.diags ∧ r.parts = [] :=
  PlainMacroArgs.tex2txt_newcommand_args T o fs thresh segs fuel st1 hdefs hextr hrepl hunkn hinit hok hf

/-- … and if no line is blank and marked (`linesKept`), the output is the expansion
    `PlainMacroArgs.expand [] 0 segs` itself -/
theorem C09_newcommand_args_kept_e2e (T : PTables) (o : Options) (fs : FS) (thresh : Nat)
    (segs : List PlainMacroArgs.Seg) (fuel : Nat) (st1 : PState)
    (hdefs : o.defs = []) (hextr : o.extr = []) (hrepl : o.hasRepl = false) (hunkn : o.unkn = false)
    (hinit : initParser T fuel o (initialState T o false fs) = .ok ((), st1))
    (hok : PlainMacroArgs.SegsOk T st1 segs)
    (hf : (PlainMacroArgs.render segs).length + PlainMacroArgs.segInserted [] 0 segs + 6 ≤ fuel)
    (hk : PlainMacro.linesKept true false (PlainMacroArgs.segMarks [] 0 segs) = true) :
    ∃ r, tex2txt T fuel (PlainMacroArgs.render segs) o false thresh fs = .ok r ∧
      r.txt = (PlainMacroArgs.expand [] 0 segs).map (·.1) ∧
      r.pos = (PlainMacroArgs.expand [] 0 segs).map (·.2 + 1) ∧
      r.unknowns = (PlainMacroArgs.segUnknowns [] segs).eraseDups ∧ r.diags = st1.diags :=
  PlainMacroArgs.tex2txt_newcommand_args_kept T o fs thresh segs fuel st1 hdefs hextr hrepl hunkn hinit hok hf hk

/-- the document of the `_current` instance:
    `\newcommand{\pp}[2]{a#2b#2c#1}` / `X \pp{uu}{v w} Y \pp{p q }{r}.` -/
def argsExample : List PlainMacroArgs.Seg :=
  [.defn "pp".toList 2 [.lit "a".toList, .par 2, .lit "b".toList, .par 2, .lit "c".toList, .par 1],
   .txt "\nX ".toList, .use "pp".toList ["uu".toList, "v w".toList], .txt " Y ".toList,
   .use "pp".toList ["p q ".toList, "r".toList], .txt ".\n".toList]

/-- a concrete document (a two-parameter macro used twice, `#2` twice in the body) satisfies all side
    conditions for the parser initialised from the tables of the current /repo -/
theorem C09_newcommand_args_current :
    PlainMacroArgs.SegsOk Generated.theTables Generated.stDefault argsExample := by
  decide +kernel

/-- the context-free conditions on the tables (`PlainMacroArgs.tablesOk`) hold for the tables of the
    current /repo, and the document also satisfies the context-free conditions `segsOkSimple` -/
theorem C09_newcommand_args_simple_current :
    PlainMacroArgs.tablesOk Generated.theTables = true ∧
    PlainMacroArgs.segsOkSimple Generated.theTables Generated.stDefault argsExample = true := by
  decide +kernel

/-- the reference output for that document, evaluated:
    text `X av wbv wcuu Y arbrcp q .` with the positions the theorem claims -/
theorem C09_newcommand_args_current_ref :
    (PlainMacro.delLines (PlainMacroArgs.segMarks [] 0 argsExample)).map (·.1)
        = "X av wbv wcuu Y arbrcp q .\n".toList ∧
    (PlainMacro.delLines (PlainMacroArgs.segMarks [] 0 argsExample)).map (·.2 + 1)
        = [32, 33, 38, 42, 43, 44, 44, 42, 43, 44, 44, 38, 39, 46, 47, 48, 53, 59, 59, 59, 59, 53, 54, 55,
           56, 61, 62] ∧
    (PlainMacroArgs.segUnknowns [] argsExample).eraseDups = [] := by
  decide +kernel

/-- … and so `tex2txt` on the real tables yields exactly that (instance of the theorem) -/
theorem C09_newcommand_args_current_e2e :
    ∃ r, tex2txt Generated.theTables Generated.bigFuel (PlainMacroArgs.render argsExample)
        Generated.defaultOptions false 0 [] = .ok r ∧
      r.txt = "X av wbv wcuu Y arbrcp q .\n".toList ∧
      r.pos = [32, 33, 38, 42, 43, 44, 44, 42, 43, 44, 44, 38, 39, 46, 47, 48, 53, 59, 59, 59, 59, 53, 54,
               55, 56, 61, 62] ∧
      r.unknowns = [] ∧ r.diags = Generated.stDefault.diags := by
  obtain ⟨r, h1, h2, h3, h4, h5, _⟩ := C09_newcommand_args_e2e Generated.theTables Generated.defaultOptions []
    0 argsExample Generated.bigFuel Generated.stDefault rfl rfl rfl rfl Generated.initParser_default
    C09_newcommand_args_current (by decide +kernel)
  obtain ⟨e1, e2, e3⟩ := C09_newcommand_args_current_ref
  exact ⟨r, h1, h2.trans e1, h3.trans e2, h4.trans e3, h5⟩

end Yalafi
