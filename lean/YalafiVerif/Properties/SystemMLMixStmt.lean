/-
  Properties/SystemMLMixStmt.lean — SYSTEM-LEVEL statements for MULTI-LANGUAGE mode on documents that
  MIX the language constructs of package babel (`\selectlanguage`, `\foreignlanguage{..}{..}`, the
  `otherlanguage[*]` environments, nested to any depth): the filter theorem `C12_mixed_languages_e2e`
  (`r.parts = refParts …`, pieces with PLACEHOLDERS for short inclusions) COMPOSED with the shell's
  assembly of the submitted pieces and its report pipeline (Properties/SystemMLStmt.lean:
  `C14_assemble_run`, `C14_ml_run_reported`, `C14_ml_runs_sorted`, which are grammar-free).

    `C14_flagged_word_mlmix_e2e`   a word of a text segment or of the text of an insertion is a run
                                that spells the word in a request of the shell; that request is
                                submitted under the language code in force at the word (`langAt`, the
                                stack discipline on the document); whatever the proofreader answers
                                for the requests, a match on a run with the map entries of the word
                                is reported at the word's line, column and length in the LaTeX file,
                                in all formats
    `C14_flagged_word_mlmix_unique`, `C14_flagged_word_mlmix_exactly_one`   EXACTLY ONE request and one
                                offset have the map entries of the word, if the word has at least two
                                characters or its first character is not the first visible character
                                of a short inclusion (`phFree`); `C14_mlmix_single_char_not_unique`:
                                for a one-character word that IS the first visible character of a
                                short inclusion uniqueness fails (its map entry is repeated under the
                                placeholder in the surrounding request)
    `C14_sorted_mlmix_e2e`      two flagged words, possibly in pieces of different languages, are
                                reported in file order
  Instances on the tables of the current /repo with package babel (`_current`), and the whole
  pipeline evaluated by the kernel on a document with a short insertion (placeholder), a long
  insertion (piece of its own) and an `otherlanguage` environment.

  Vocabulary: `Sub`, `submit`, `shiftOf`, `shiftMatch`, `Req`, `shellPieces`, `withAnswers`, `RunAt`,
  `WordReported`, `HtmlWord` as in Properties/SystemMLStmt.lean;
    `hostOff sg = some d`, `hostText sg`   the segment `sg` holds text: a text segment (`d = 0`, its
                      text) or an insertion `\foreignlanguage{n}{text}` (`d = |\foreignlanguage{n}{|`);
    the flagged word: `segs = pre ++ sg :: post`, `hostText sg = a ++ w ++ b`, file offset
                      `q = |render pre| + d + |a|`.
    `phFree plan q`   (computable) no non-blank inclusion that the plan `refPlan` represents by a
                      placeholder has its first visible character (`phPos`) at file offset `q`.
  Proofs and side conditions: headers of Proofs/SystemMLMix.lean, Proofs/SystemMLMixE2E.lean,
  Proofs/SystemMLMixUniq.lean; the side
  conditions are those of `C12_mixed_languages_e2e` plus `wordEnds w` (first and last character of the
  flagged stretch no white space).
  NOT covered: flagged stretches that are not inside ONE text segment / ONE insertion text (a match
  that covers a placeholder or crosses an insertion: on the example below the model reports a match
  on the whole placeholder `L-L-L` of the English request at the single character `u` of the French
  insertion, offset 33, length 1, and a match on `is L-L-L` at offset 5, length 29, i.e. `is
  \foreignlanguage{french}{u`); the white space behind `\end{otherlanguage[*]}`; flagged stretches with
  white space at their ends; the rule options of a request (`--ml-disable…` for pieces of at most
  `--ml-rule-threshold` words); the matches the shell creates itself; the texts of the reports other
  than the numbers; everything `C12_mixed_languages_e2e` does not cover (optional argument of
  `\foreignlanguage`, markup inside an insertion, macros / maths / comments in the text).
-/
import YalafiVerif.Proofs.SystemMLMixUniq
import YalafiVerif.Properties.PlainLangMixStmt
import YalafiVerif.Properties.SystemMLStmt
import YalafiVerif.Generated.Init
namespace Yalafi
namespace PlainLangMix
open SystemML SystemWord Reports Html
open Sys (hostOff hostText phFree phPos)
open PlainForeign (lcOf)

/-- **a flagged word in multi-language mode, end to end through filter and shell** (the documents and
    hypotheses of `C12_mixed_languages_e2e`: inert text, `\selectlanguage`, `\foreignlanguage`,
    `otherlanguage[*]` environments, package babel, `multi = true`; NO hypothesis on the `…_break`
    flags or on `thresh`).  Let `w` be a stretch of a text segment or of the text of an insertion
    (`segs = pre ++ sg :: post`, `hostOff sg = some d`, `hostText sg = a ++ w ++ b`) whose first and
    last characters are no white space, `q = |render pre| + d + |a|`, `l = |w|`.  Then
    * `w` stands at offset `q` of the LaTeX file;
    * `tex2txt` succeeds; every request of the shell (`shellPieces r.parts`) has a map as long as its
      text — also the pieces with placeholders — and is not blank;
    * THERE IS a request number `i` and an offset `off` such that the `l` map entries of that request
      from `off` are `q+1, …, q+l`, its text there is `w`, and the request is submitted under the
      language code in force at the word: `langAt T [o.lang] 0 segs q` (initial language;
      `\selectlanguage` replaces the top of the stack; inside the text of `\foreignlanguage{n}{…}` the
      language of `n`; `\begin{otherlanguage}` pushes, `\end{otherlanguage}` pops);
    * for EVERY request number `i` and offset `off` with these map entries, whatever the proofreader
      answers for the requests (`subs`: the requests with ANY lists of matches): every match `m` of
      the answer for request `i` is in `matches_tot` with the offset `m.offset + shiftOf (requests
      before i)`; at the shifted offset of the TOTAL map `map_match_position` yields offset `q` and
      length `l`; the text report, JSON, XML, XML-b name the line and column of `w` in the file
      (`WordReported`); the HTML report accepts the match and highlights `src[q : q+l] = w`
      (`HtmlWord`).
    Uniqueness of the request: `C14_flagged_word_mlmix_unique` below. -/
theorem C14_flagged_word_mlmix_e2e (T : PTables) (o : Options) (fs : FS) (thresh : Nat) (segs : List Seg)
    (fuel : Nat) (st1 : PState)
    (hdefs : o.defs = []) (hextr : o.extr = []) (hrepl : o.hasRepl = false)
    (hinit : initParser T fuel o (initialState T o true fs) = .ok ((), st1))
    (hml : st1.multiLanguage = true) (hstk : st1.langStack ≠ [])
    (hlc : lcOk (lcOf st1) = true)
    (hok : segsOk T st1 segs = true)
    (hf : (render segs).length + 2 ≤ fuel)
    (pre post : List Seg) (sg : Seg) (d : Nat) (a w b : Str) (hsegs : segs = pre ++ sg :: post)
    (hd : hostOff sg = some d) (ht : hostText sg = a ++ (w ++ b)) (hw : wordEnds w = true) :
    ((render segs).drop ((render pre).length + d + a.length)).take w.length = w ∧
    (render pre).length + d + a.length + w.length ≤ (render segs).length ∧
    ∃ r, tex2txt T fuel (render segs) o true thresh fs = .ok r ∧
      (∀ pc ∈ shellPieces r.parts, pc.2.1.length = pc.2.2.length ∧ isBlank pc.2.1 = false) ∧
      (∃ (i : Nat) (pc : Req) (off : Nat), (shellPieces r.parts)[i]? = some pc ∧
        off + w.length ≤ pc.2.1.length ∧
        RunAt pc.2.2 off w.length ((render pre).length + d + a.length + 1) ∧
        (pc.2.1.drop off).take w.length = w ∧
        pc.1 = langAt T [o.lang] 0 segs ((render pre).length + d + a.length)) ∧
      ∀ (i : Nat) (pc : Req) (off : Nat), (shellPieces r.parts)[i]? = some pc →
        RunAt pc.2.2 off w.length ((render pre).length + d + a.length + 1) →
        ∀ (subs : List Sub), subs.map (·.1) = (shellPieces r.parts).map (·.2) →
          ∃ x, subs[i]? = some x ∧ x.1 = pc.2 ∧
            (∀ m ∈ x.2, shiftMatch (shiftOf (subs.take i)) m ∈ (submit subs).hits) ∧
            off + shiftOf (subs.take i) + w.length < (submit subs).charmapTot.length ∧
            mapMatch (submit subs).charmapTot (render segs) ((off + shiftOf (subs.take i) : Nat) : Int)
                (some (.int w.length))
              = .ok ((((render pre).length + d + a.length : Nat) : Int), (w.length : Int)) ∧
            reportAll (submit subs).charmapTot (render segs) ((off + shiftOf (subs.take i) : Nat) : Int)
                (some (.int w.length))
              = .ok (locate (render segs) (((render pre).length + d + a.length : Nat) : Int) (w.length : Int)) ∧
            WordReported (render segs) ((render pre).length + d + a.length) w.length
              (locate (render segs) (((render pre).length + d + a.length : Nat) : Int) (w.length : Int)) ∧
            HtmlWord (render segs) (submit subs).charmapTot (off + shiftOf (subs.take i)) w.length
              ((render pre).length + d + a.length) :=
  Sys.flagged_word_mlmix T o fs thresh segs fuel st1 hdefs hextr hrepl hinit hml hstk hlc hok hf
    pre post sg d a w b hsegs hd ht hw

/-- **exactly one request, exactly one offset.**  Same documents and word.  If `w` has at least two
    characters, OR if its first character is not the first visible character of a non-blank
    inclusion that is represented by a placeholder (`phFree`, computable from the plan `refPlan` of
    `C12_mix_word_once`): two requests of the shell and two offsets whose `l` map entries are
    `q+1, …, q+l` are the same request and the same offset.
    (A short inclusion is a piece of its own AND a placeholder in the surrounding piece; all map
    entries of the placeholder repeat ONE position, that of the first visible character of the
    inclusion — so a run of two entries `q+1, q+2` cannot lie on it, but the single entry `q+1` can:
    `C14_mlmix_single_char_not_unique`.) -/
theorem C14_flagged_word_mlmix_unique (T : PTables) (o : Options) (fs : FS) (thresh : Nat) (segs : List Seg)
    (fuel : Nat) (st1 : PState)
    (hdefs : o.defs = []) (hextr : o.extr = []) (hrepl : o.hasRepl = false)
    (hinit : initParser T fuel o (initialState T o true fs) = .ok ((), st1))
    (hml : st1.multiLanguage = true) (hstk : st1.langStack ≠ [])
    (hlc : lcOk (lcOf st1) = true)
    (hok : segsOk T st1 segs = true)
    (hf : (render segs).length + 2 ≤ fuel)
    (pre post : List Seg) (sg : Seg) (d : Nat) (a w b : Str) (hsegs : segs = pre ++ sg :: post)
    (hd : hostOff sg = some d) (ht : hostText sg = a ++ (w ++ b)) (hw : wordEnds w = true)
    (hfree : 2 ≤ w.length ∨
      phFree (refPlan T o.lang thresh segs) ((render pre).length + d + a.length) = true) :
    ∃ r, tex2txt T fuel (render segs) o true thresh fs = .ok r ∧
      ∀ (i j : Nat) (pc pc' : Req) (off off' : Nat),
        (shellPieces r.parts)[i]? = some pc → (shellPieces r.parts)[j]? = some pc' →
        RunAt pc.2.2 off w.length ((render pre).length + d + a.length + 1) →
        RunAt pc'.2.2 off' w.length ((render pre).length + d + a.length + 1) → i = j ∧ off = off' :=
  Sys.flagged_word_mlmix_unique T o fs thresh segs fuel st1 hdefs hextr hrepl hinit hml hstk hlc hok hf
    pre post sg d a w b hsegs hd ht hw hfree

/-- **exactly one piece** (the form of `C14_flagged_word_ml_e2e`): under the hypotheses of
    `C14_flagged_word_mlmix_unique` there are a request number `i` and an offset `off` with the map
    entries `q+1, …, q+l`; the text there is `w`; the request is submitted under the language code
    in force at the word; and NO OTHER request, and no other offset, has these map entries. -/
theorem C14_flagged_word_mlmix_exactly_one (T : PTables) (o : Options) (fs : FS) (thresh : Nat)
    (segs : List Seg) (fuel : Nat) (st1 : PState)
    (hdefs : o.defs = []) (hextr : o.extr = []) (hrepl : o.hasRepl = false)
    (hinit : initParser T fuel o (initialState T o true fs) = .ok ((), st1))
    (hml : st1.multiLanguage = true) (hstk : st1.langStack ≠ [])
    (hlc : lcOk (lcOf st1) = true)
    (hok : segsOk T st1 segs = true)
    (hf : (render segs).length + 2 ≤ fuel)
    (pre post : List Seg) (sg : Seg) (d : Nat) (a w b : Str) (hsegs : segs = pre ++ sg :: post)
    (hd : hostOff sg = some d) (ht : hostText sg = a ++ (w ++ b)) (hw : wordEnds w = true)
    (hfree : 2 ≤ w.length ∨
      phFree (refPlan T o.lang thresh segs) ((render pre).length + d + a.length) = true) :
    ∃ r, tex2txt T fuel (render segs) o true thresh fs = .ok r ∧
      ∃ (i : Nat) (pc : Req) (off : Nat), (shellPieces r.parts)[i]? = some pc ∧
        off + w.length ≤ pc.2.1.length ∧
        RunAt pc.2.2 off w.length ((render pre).length + d + a.length + 1) ∧
        (pc.2.1.drop off).take w.length = w ∧
        pc.1 = langAt T [o.lang] 0 segs ((render pre).length + d + a.length) ∧
        ∀ (j : Nat) (pc' : Req) (off' : Nat), (shellPieces r.parts)[j]? = some pc' →
          RunAt pc'.2.2 off' w.length ((render pre).length + d + a.length + 1) → j = i ∧ off' = off := by
  obtain ⟨_, _, r, h1, _, ⟨i, pc, off, e1, e2, e3, e4, e5⟩, _⟩ := C14_flagged_word_mlmix_e2e T o fs thresh segs
    fuel st1 hdefs hextr hrepl hinit hml hstk hlc hok hf pre post sg d a w b hsegs hd ht hw
  obtain ⟨r', h1', hu⟩ := C14_flagged_word_mlmix_unique T o fs thresh segs fuel st1 hdefs hextr hrepl hinit
    hml hstk hlc hok hf pre post sg d a w b hsegs hd ht hw hfree
  rw [h1] at h1'
  cases h1'
  exact ⟨r, h1, i, pc, off, e1, e2, e3, e4, e5, fun j pc' off' hj hr' => hu j i pc' pc off' off hj e1 hr' e3⟩

/-- **two flagged words are reported in the order of the file, across language parts** (the same
    documents).  Two words of text segments or insertions, the first one standing first in the file:
    each is a run in a request of the shell; and whenever the proofreader flags them — matches `m1`,
    `m2` anywhere in its answers for the requests number `i1`, `i2` (the same request, or requests of
    different languages in any order), offsets with the map entries of the words — the shell's sort
    of `matches_tot` puts the (shifted) `m1` in front of the (shifted) `m2`. -/
theorem C14_sorted_mlmix_e2e (T : PTables) (o : Options) (fs : FS) (thresh : Nat) (segs : List Seg)
    (fuel : Nat) (st1 : PState)
    (hdefs : o.defs = []) (hextr : o.extr = []) (hrepl : o.hasRepl = false)
    (hinit : initParser T fuel o (initialState T o true fs) = .ok ((), st1))
    (hml : st1.multiLanguage = true) (hstk : st1.langStack ≠ [])
    (hlc : lcOk (lcOf st1) = true)
    (hok : segsOk T st1 segs = true)
    (hf : (render segs).length + 2 ≤ fuel)
    (pre1 post1 : List Seg) (sg1 : Seg) (d1 : Nat) (a1 w1 b1 : Str) (hsegs1 : segs = pre1 ++ sg1 :: post1)
    (hd1 : hostOff sg1 = some d1) (ht1 : hostText sg1 = a1 ++ (w1 ++ b1))
    (pre2 post2 : List Seg) (sg2 : Seg) (d2 : Nat) (a2 w2 b2 : Str) (hsegs2 : segs = pre2 ++ sg2 :: post2)
    (hd2 : hostOff sg2 = some d2) (ht2 : hostText sg2 = a2 ++ (w2 ++ b2))
    (hw1 : wordEnds w1 = true) (hw2 : wordEnds w2 = true)
    (hlt : (render pre1).length + d1 + a1.length < (render pre2).length + d2 + a2.length) :
    ∃ r, tex2txt T fuel (render segs) o true thresh fs = .ok r ∧
      (∃ (i1 : Nat) (pc1 : Req) (off1 i2 : Nat) (pc2 : Req) (off2 : Nat),
        (shellPieces r.parts)[i1]? = some pc1 ∧ (shellPieces r.parts)[i2]? = some pc2 ∧
        RunAt pc1.2.2 off1 w1.length ((render pre1).length + d1 + a1.length + 1) ∧
        RunAt pc2.2.2 off2 w2.length ((render pre2).length + d2 + a2.length + 1)) ∧
      ∀ (subs : List Sub) (i1 i2 : Nat) (x1 x2 : Sub) (m1 m2 : RawMatch) (off1 off2 : Nat) (out : List RawMatch),
        subs.map (·.1) = (shellPieces r.parts).map (·.2) →
        subs[i1]? = some x1 → subs[i2]? = some x2 → m1 ∈ x1.2 → m2 ∈ x2.2 →
        m1.offset = (off1 : Int) → m2.offset = (off2 : Int) →
        RunAt x1.1.2 off1 w1.length ((render pre1).length + d1 + a1.length + 1) →
        RunAt x2.1.2 off2 w2.length ((render pre2).length + d2 + a2.length + 1) →
        sortMatches (submit subs).charmapTot (submit subs).hits = .ok out →
        ∃ X Y Z, out = X ++ shiftMatch (shiftOf (subs.take i1)) m1
          :: (Y ++ shiftMatch (shiftOf (subs.take i2)) m2 :: Z) :=
  Sys.sorted_words_mlmix T o fs thresh segs fuel st1 hdefs hextr hrepl hinit hml hstk hlc hok hf
    pre1 post1 sg1 d1 a1 w1 b1 hsegs1 hd1 ht1 pre2 post2 sg2 d2 a2 w2 b2 hsegs2 hd2 ht2 hw1 hw2 hlt

/-! ## instances on the tables of the current /repo (package babel, `--lang en-GB`) -/

open Generated

/-- `C14_flagged_word_mlmix_e2e` for the CURRENT code: tables translated from /repo, `--pack babel
    --lang en-GB`, multi-language mode, parser initialisation evaluated by the kernel
    (`initParser_babel`), any `ml_continue_thresh` -/
theorem C14_flagged_word_mlmix_e2e_current (segs : List Seg) (thresh : Nat)
    (hok : segsOk theTables stBabel segs = true)
    (hf : (render segs).length + 2 ≤ bigFuel)
    (pre post : List Seg) (sg : Seg) (d : Nat) (a w b : Str) (hsegs : segs = pre ++ sg :: post)
    (hd : hostOff sg = some d) (ht : hostText sg = a ++ (w ++ b)) (hw : wordEnds w = true) :
    ((render segs).drop ((render pre).length + d + a.length)).take w.length = w ∧
    ∃ r, tex2txt theTables bigFuel (render segs) babelOptions true thresh [] = .ok r ∧
      (∃ (i : Nat) (pc : Req) (off : Nat), (shellPieces r.parts)[i]? = some pc ∧
        RunAt pc.2.2 off w.length ((render pre).length + d + a.length + 1) ∧
        (pc.2.1.drop off).take w.length = w ∧
        pc.1 = langAt theTables [babelOptions.lang] 0 segs ((render pre).length + d + a.length)) ∧
      ∀ (i : Nat) (pc : Req) (off : Nat), (shellPieces r.parts)[i]? = some pc →
        RunAt pc.2.2 off w.length ((render pre).length + d + a.length + 1) →
        ∀ (subs : List Sub), subs.map (·.1) = (shellPieces r.parts).map (·.2) →
          ∃ x, subs[i]? = some x ∧ x.1 = pc.2 ∧
            (∀ m ∈ x.2, shiftMatch (shiftOf (subs.take i)) m ∈ (submit subs).hits) ∧
            reportAll (submit subs).charmapTot (render segs) ((off + shiftOf (subs.take i) : Nat) : Int)
                (some (.int w.length))
              = .ok (locate (render segs) (((render pre).length + d + a.length : Nat) : Int) (w.length : Int)) ∧
            WordReported (render segs) ((render pre).length + d + a.length) w.length
              (locate (render segs) (((render pre).length + d + a.length : Nat) : Int) (w.length : Int)) ∧
            HtmlWord (render segs) (submit subs).charmapTot (off + shiftOf (subs.take i)) w.length
              ((render pre).length + d + a.length) := by
  obtain ⟨h1, _, r, h3, _, ⟨i, pc, off, e1, _, e3, e4, e5⟩, h6⟩ := C14_flagged_word_mlmix_e2e theTables
    babelOptions [] thresh segs bigFuel stBabel rfl rfl rfl initParser_babel PlainLang.stBabel_multi
    PlainForeign.stBabel_stack stBabel_lcOk hok hf pre post sg d a w b hsegs hd ht hw
  refine ⟨h1, r, h3, ⟨i, pc, off, e1, e3, e4, e5⟩, ?_⟩
  intro i pc off hi hrun subs hsub
  obtain ⟨x, k1, k2, k3, _, _, k6, k7, k8⟩ := h6 i pc off hi hrun subs hsub
  exact ⟨x, k1, k2, k3, k6, k7, k8⟩

/-- `C14_flagged_word_mlmix_exactly_one` for the CURRENT code -/
theorem C14_flagged_word_mlmix_exactly_one_current (segs : List Seg) (thresh : Nat)
    (hok : segsOk theTables stBabel segs = true)
    (hf : (render segs).length + 2 ≤ bigFuel)
    (pre post : List Seg) (sg : Seg) (d : Nat) (a w b : Str) (hsegs : segs = pre ++ sg :: post)
    (hd : hostOff sg = some d) (ht : hostText sg = a ++ (w ++ b)) (hw : wordEnds w = true)
    (hfree : 2 ≤ w.length ∨
      phFree (refPlan theTables babelOptions.lang thresh segs) ((render pre).length + d + a.length) = true) :
    ∃ r, tex2txt theTables bigFuel (render segs) babelOptions true thresh [] = .ok r ∧
      ∃ (i : Nat) (pc : Req) (off : Nat), (shellPieces r.parts)[i]? = some pc ∧
        off + w.length ≤ pc.2.1.length ∧
        RunAt pc.2.2 off w.length ((render pre).length + d + a.length + 1) ∧
        (pc.2.1.drop off).take w.length = w ∧
        pc.1 = langAt theTables [babelOptions.lang] 0 segs ((render pre).length + d + a.length) ∧
        ∀ (j : Nat) (pc' : Req) (off' : Nat), (shellPieces r.parts)[j]? = some pc' →
          RunAt pc'.2.2 off' w.length ((render pre).length + d + a.length + 1) → j = i ∧ off' = off :=
  C14_flagged_word_mlmix_exactly_one theTables babelOptions [] thresh segs bigFuel stBabel rfl rfl rfl
    initParser_babel PlainLang.stBabel_multi PlainForeign.stBabel_stack stBabel_lcOk hok hf
    pre post sg d a w b hsegs hd ht hw hfree

/-- a document with a SHORT insertion (two words: a placeholder in the English piece AND a piece of
    its own), a LONG insertion (a piece of its own that cuts the English text) and an `otherlanguage`
    environment on lines of its own:

        This is \foreignlanguage{french}{un mot} and \foreignlanguage{german}{ein langer deutscher Satz} here.
        \begin{otherlanguage}{russian}
        Привет, мир и люди.
        \end{otherlanguage}
        The end.

    The Python code gives the parts of `C14_flagged_word_mlmix_example_eval` on this document
    (`tex2txt.tex2txt(doc, Options(pack='babel', lang='en-GB'), multi_language=True,
    modify_parms=… ml_continue_thresh = 2)`). -/
def mixSegs : List Seg :=
  [.txt "This is ".toList, .frn "french".toList "un mot".toList, .txt " and ".toList,
   .frn "german".toList "ein langer deutscher Satz".toList, .txt " here.\n".toList,
   .beg false "russian".toList, .txt "\nПривет, мир и люди.\n".toList, .fin false "\n".toList,
   .txt "The end.".toList]

theorem mixSegs_render : render mixSegs =
    "This is \\foreignlanguage{french}{un mot} and \\foreignlanguage{german}{ein langer deutscher Satz} here.\n\\begin{otherlanguage}{russian}\nПривет, мир и люди.\n\\end{otherlanguage}\nThe end.".toList := by
  decide +kernel

/-- the side conditions hold for this document; the words `mot` (in the short insertion, file offset
    36), `deutscher` (in the long insertion, offset 81), `мир` (in the environment, offset 142: line
    3, column 9) and `end` (offset 178: line 5, column 5) are stretches of host segments with visible
    ends, and the language codes in force there are `fr`, `de-DE`, `ru-RU`, `en-GB` -/
theorem C14_flagged_word_mlmix_example_current :
    segsOk theTables stBabel mixSegs = true ∧
    (mixSegs = mixSegs.take 1 ++ .frn "french".toList "un mot".toList :: mixSegs.drop 2 ∧
      hostOff (.frn "french".toList "un mot".toList) = some 25 ∧
      hostText (.frn "french".toList "un mot".toList) = "un ".toList ++ ("mot".toList ++ []) ∧
      wordEnds "mot".toList = true ∧
      (render (mixSegs.take 1)).length + 25 + "un ".toList.length = 36 ∧
      langAt theTables [babelOptions.lang] 0 mixSegs 36 = "fr".toList) ∧
    (mixSegs = mixSegs.take 3 ++ .frn "german".toList "ein langer deutscher Satz".toList :: mixSegs.drop 4 ∧
      hostOff (.frn "german".toList "ein langer deutscher Satz".toList) = some 25 ∧
      hostText (.frn "german".toList "ein langer deutscher Satz".toList)
        = "ein langer ".toList ++ ("deutscher".toList ++ " Satz".toList) ∧
      wordEnds "deutscher".toList = true ∧
      (render (mixSegs.take 3)).length + 25 + "ein langer ".toList.length = 81 ∧
      langAt theTables [babelOptions.lang] 0 mixSegs 81 = "de-DE".toList) ∧
    (mixSegs = mixSegs.take 6 ++ .txt "\nПривет, мир и люди.\n".toList :: mixSegs.drop 7 ∧
      hostText (.txt "\nПривет, мир и люди.\n".toList)
        = "\nПривет, ".toList ++ ("мир".toList ++ " и люди.\n".toList) ∧
      wordEnds "мир".toList = true ∧
      (render (mixSegs.take 6)).length + 0 + "\nПривет, ".toList.length = 142 ∧
      langAt theTables [babelOptions.lang] 0 mixSegs 142 = "ru-RU".toList) ∧
    (mixSegs = mixSegs.take 8 ++ .txt "The end.".toList :: mixSegs.drop 9 ∧
      hostText (.txt "The end.".toList) = "The ".toList ++ ("end".toList ++ ".".toList) ∧
      wordEnds "end".toList = true ∧
      (render (mixSegs.take 8)).length + 0 + "The ".toList.length = 178 ∧
      langAt theTables [babelOptions.lang] 0 mixSegs 178 = "en-GB".toList) := by
  decide +kernel

/-- … so the theorem says about the word `mot` of the SHORT insertion (no evaluation of the filter or
    of the shell's assembly, only of `locate` on the source): there is a request with the map entries
    `37, 38, 39` that spells `mot`, submitted under `fr` — although the insertion is ALSO represented
    by the placeholder `L-L-L` in the English request —; and whatever the proofreader answers for the
    requests, a match on a run with these map entries is reported at line 1, column 37, length 3 in
    all formats -/
theorem C14_flagged_word_mlmix_example :
    ∃ r, tex2txt theTables bigFuel (render mixSegs) babelOptions true 2 [] = .ok r ∧
      (∃ (i : Nat) (pc : Req) (off : Nat), (shellPieces r.parts)[i]? = some pc ∧ RunAt pc.2.2 off 3 37 ∧
        (pc.2.1.drop off).take 3 = "mot".toList ∧ pc.1 = "fr".toList) ∧
      ∀ (i : Nat) (pc : Req) (off : Nat), (shellPieces r.parts)[i]? = some pc → RunAt pc.2.2 off 3 37 →
        ∀ (subs : List Sub), subs.map (·.1) = (shellPieces r.parts).map (·.2) →
          ∃ x, subs[i]? = some x ∧ x.1 = pc.2 ∧
            (∀ m ∈ x.2, shiftMatch (shiftOf (subs.take i)) m ∈ (submit subs).hits) ∧
            reportAll (submit subs).charmapTot (render mixSegs)
                ((off + shiftOf (subs.take i) : Nat) : Int) (some (.int 3))
              = .ok { offset := 36, length := 3, lin := 1, col := 37, json := ⟨0, 36, 0, 39⟩,
                      xml := ⟨0, 36, 0, 39⟩, xmlb := ⟨0, 36, 0, 39⟩ } := by
  obtain ⟨hok, ⟨hsegs, hd, ht, hw, hp, hlang⟩, _, _, _⟩ := C14_flagged_word_mlmix_example_current
  obtain ⟨_, r, h1, h2, h3⟩ := C14_flagged_word_mlmix_e2e_current mixSegs 2 hok (by decide +kernel)
    _ _ _ _ _ _ _ hsegs hd ht hw
  rw [hp] at h2 h3
  rw [hlang] at h2
  have hl : "mot".toList.length = 3 := rfl
  rw [hl] at h2 h3
  have hloc : locate (render mixSegs) ((36 : Nat) : Int) ((3 : Nat) : Int)
      = { offset := 36, length := 3, lin := 1, col := 37, json := ⟨0, 36, 0, 39⟩,
          xml := ⟨0, 36, 0, 39⟩, xmlb := ⟨0, 36, 0, 39⟩ } := by decide +kernel
  refine ⟨r, h1, h2, ?_⟩
  intro i pc off hi hrun subs hsub
  obtain ⟨x, k1, k2, k3, k4, _, _⟩ := h3 i pc off hi hrun subs hsub
  rw [hloc] at k4
  exact ⟨x, k1, k2, k3, k4⟩

/-- … and the whole pipeline evaluated by the kernel (`ml_continue_thresh = 2`): `tex2txt` in
    multi-language mode; the shell's requests
        `fr`    `un mot`                       (the short insertion, a piece of its own)
        `en-GB` `This is L-L-L and `           (the placeholder: five map entries `34`)
        `en-GB` ` here.⏎`
        `en-GB` `The end.`
        `de-DE` `ein langer deutscher Satz`    (the long insertion cuts the English text)
        `ru-RU` `Привет, мир и люди.⏎`         (the lines of `\begin…` and `\end…` are gone);
    the proofreader's answers "offset 3" (`mot`) for request 0, "offset 4" (`end`) for request 3,
    "offset 11" (`deutscher`) for request 4, "offset 8" (`мир`) for request 5; the assembly (shifts
    0, 8, 28, 37, 47, 74; offsets 3, 41, 58, 82); `map_match_position` on the total map, the
    generators, the HTML highlight, the sort:
    `mot` is reported at line 1, column 37, length 3 (file offset 36); `deutscher` at line 1, column
    82 (offset 81); `мир` at line 3, column 9 (offset 142; byte column 14); `end` at line 5, column 5
    (offset 178); the sort puts them in file order `mot`, `deutscher`, `мир`, `end` although `end`
    was submitted before `deutscher`. -/
theorem C14_flagged_word_mlmix_example_eval :
    (match tex2txt theTables bigFuel (render mixSegs) babelOptions true 2 [] with
     | .ok r =>
       (shellPieces r.parts).map (·.1)
         == ["fr".toList, "en-GB".toList, "en-GB".toList, "en-GB".toList, "de-DE".toList, "ru-RU".toList] &&
       (shellPieces r.parts)[1]? == some ("en-GB".toList, ("This is L-L-L and ".toList,
          [1, 2, 3, 4, 5, 6, 7, 8, 34, 34, 34, 34, 34, 41, 42, 43, 44, 45])) &&
       (let subs := withAnswers (shellPieces r.parts)
          [[{ offset := 3, rest := .null }], [], [], [{ offset := 4, rest := .null }],
           [{ offset := 11, rest := .null }], [{ offset := 8, rest := .null }]]
        let asm := submit subs
        asm.plainTot == "un mot\n\nThis is L-L-L and \n\n here.\n\n\nThe end.\n\nein langer deutscher Satz\n\nПривет, мир и люди.\n\n\n".toList &&
        asm.hits.map (·.offset) == [3, 41, 58, 82] &&
        (List.range 6).map (fun i => shiftOf (subs.take i)) == [0, 8, 28, 37, 47, 74] &&
        (asm.plainTot.drop 3).take 3 == "mot".toList &&
        (asm.plainTot.drop 58).take 9 == "deutscher".toList &&
        (asm.plainTot.drop 82).take 3 == "мир".toList &&
        (asm.plainTot.drop 41).take 3 == "end".toList &&
        (match reportAll asm.charmapTot (render mixSegs) 3 (some (.int 3)),
               reportAll asm.charmapTot (render mixSegs) 58 (some (.int 9)),
               reportAll asm.charmapTot (render mixSegs) 82 (some (.int 3)),
               reportAll asm.charmapTot (render mixSegs) 41 (some (.int 3)),
               computeH theTables.toTables (render mixSegs) asm.charmapTot 0 3 3,
               sortMatches asm.charmapTot asm.hits with
         | .ok L1, .ok L2, .ok L3, .ok L4, .ok h, .ok out =>
           L1 == { offset := 36, length := 3, lin := 1, col := 37, json := ⟨0, 36, 0, 39⟩,
                   xml := ⟨0, 36, 0, 39⟩, xmlb := ⟨0, 36, 0, 39⟩ } &&
           L2 == { offset := 81, length := 9, lin := 1, col := 82, json := ⟨0, 81, 0, 90⟩,
                   xml := ⟨0, 81, 0, 90⟩, xmlb := ⟨0, 81, 0, 90⟩ } &&
           L3 == { offset := 142, length := 3, lin := 3, col := 9, json := ⟨2, 8, 2, 11⟩,
                   xml := ⟨2, 8, 2, 11⟩, xmlb := ⟨2, 14, 2, 20⟩ } &&
           L4 == { offset := 178, length := 3, lin := 5, col := 5, json := ⟨4, 4, 4, 7⟩,
                   xml := ⟨4, 4, 4, 7⟩, xmlb := ⟨4, 4, 4, 7⟩ } &&
           h == { idx := 0, unsure := false, beg := 36, fin := 39, beglin := 0, endlin := 1, lin := 0 } &&
           slice (render mixSegs) 36 39 == "mot".toList &&
           out.map (·.offset) == [3, 58, 82, 41]
         | _, _, _, _, _, _ => false))
     | _ => false) = true := by
  decide +kernel

/-- **uniqueness and its failure on the example** (`ml_continue_thresh = 2`).  The word `un` (two
    characters, file offset 33) starts at the first visible character of the SHORT insertion `un mot`:
    `phFree` is false there, but `2 ≤ |w|`, so `C14_flagged_word_mlmix_exactly_one_current` applies —
    the entries `34, 35` stand in the request `fr: un mot` only.  The ONE-character stretch `u` (offset
    33) is not unique: its entry `34` stands at offset 0 of request 0 (`fr: un mot`) AND at the offsets
    8 … 12 of request 1 (`en-GB: This is L-L-L and `, under the placeholder `L-L-L`); a match of the
    proofreader on one character of `L-L-L` in the ENGLISH request is therefore reported at the `u` of
    the French insertion (line 1, column 34).  For the one-character stretch `m` (offset 36) `phFree`
    holds: exactly one request. -/
theorem C14_mlmix_single_char_not_unique :
    wordEnds "u".toList = true ∧ wordEnds "un".toList = true ∧
    phFree (refPlan theTables babelOptions.lang 2 mixSegs) 33 = false ∧
    phFree (refPlan theTables babelOptions.lang 2 mixSegs) 36 = true ∧
    (match tex2txt theTables bigFuel (render mixSegs) babelOptions true 2 [] with
     | .ok r =>
       (match (shellPieces r.parts)[0]?, (shellPieces r.parts)[1]? with
        | some pc0, some pc1 =>
          decide (RunAt pc0.2.2 0 1 34 ∧ RunAt pc1.2.2 8 1 34 ∧ RunAt pc1.2.2 12 1 34 ∧
            RunAt pc0.2.2 0 2 34 ∧ ¬ RunAt pc1.2.2 8 2 34 ∧ ¬ RunAt pc1.2.2 12 2 34)
        | _, _ => false)
     | _ => false) = true := by
  decide +kernel

end PlainLangMix
end Yalafi
