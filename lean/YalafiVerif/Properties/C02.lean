/-
  Properties/C02.lean — text copied from the document maps to exactly the offset where it stands.

  Proved for all inputs: every position-counting scanner token is the literal slice of the
  source at its own offset (for `\verb`/`verbatim` the offset of the first content character,
  issue 126); a position-counting token contributes `(txt[i], pos+i)` to the result;
  blank-line removal never changes a visible character or its position (a shortened
  position-counting token advances by exactly the removed prefix).
  Not a theorem yet (`Lit` of the design): that every position-counting token *emitted by the
  expander* is such a slice or a table replacement — checked on the implementation's final
  token list and, word by word, against the offsets recorded by the document generator.
-/
import YalafiVerif.Proofs.Scanner
import YalafiVerif.Proofs.Utils
import YalafiVerif.Proofs.Lines
namespace Yalafi

theorem C02_scan_slice (T : Tables) (h : T.WFScan) (src : Str) :
    ∀ t ∈ (scan T src).toks, t.fix = false → (src.drop t.pos).take t.txt.length = t.txt :=
  scan_slice T h src

theorem C02_getTxtPos_single (t : Tok) :
    getTxtPos [t] = (t.txt, if t.fix then List.replicate t.txt.length t.pos
                             else (List.range t.txt.length).map (t.pos + ·)) :=
  getTxtPos_single t

/-- the class invariant of defs.py (Action/Language tokens carry no text) is the only hypothesis -/
theorem C02_removeLines_nonblank (ts out : List Tok)
    (hc : ∀ t ∈ ts, (isAction t = true ∨ isLang t = true) → t.txt = [])
    (hr : removeLines ts = some out) :
    nonBlankPairs (getTxtPos out) = nonBlankPairs (getTxtPos ts) :=
  removeLines_nonblank ts out hc hr

end Yalafi
