/-
  Properties/C02.lean — text copied from the document maps to exactly the offset where it stands.

  Proved for all inputs: every position-counting scanner token is the literal slice of the
  source at its own offset (for `\verb`/`verbatim` the offset of the first content character,
  issue 126); a position-counting token contributes `(txt[i], pos+i)` to the result;
  blank-line removal never changes a visible character or its position (a shortened
  position-counting token advances by exactly the removed prefix).
  Not a theorem yet (`Lit` of the design): that every position-counting token *emitted by the
  expander* is such a slice or a table replacement — checked on the implementation's final
  token list and, word by word, against the offsets recorded by the document generator.
-/
import YalafiVerif.Proofs.Scanner
import YalafiVerif.Proofs.Utils
import YalafiVerif.Proofs.Lines
import YalafiVerif.Proofs.PlainVerb
import YalafiVerif.Generated.Init
import YalafiVerif.Properties.PlainAccentStmt
import YalafiVerif.Properties.PlainGroupStmt
namespace Yalafi

theorem C02_scan_slice (T : Tables) (h : T.WFScan) (src : Str) :
    ∀ t ∈ (scan T src).toks, t.fix = false → (src.drop t.pos).take t.txt.length = t.txt :=
  scan_slice T h src

theorem C02_getTxtPos_single (t : Tok) :
    getTxtPos [t] = (t.txt, if t.fix then List.replicate t.txt.length t.pos
                             else (List.range t.txt.length).map (t.pos + ·)) :=
  getTxtPos_single t

/-- the class invariant of defs.py (Action/Language tokens carry no text) is the only hypothesis -/
theorem C02_removeLines_nonblank (ts out : List Tok)
    (hc : ∀ t ∈ ts, (isAction t = true ∨ isLang t = true) → t.txt = [])
    (hr : removeLines ts = some out) :
    nonBlankPairs (getTxtPos out) = nonBlankPairs (getTxtPos ts) :=
  removeLines_nonblank ts out hc hr

/-- **verbatim material is copied literally**, end to end on the filter model: for documents of
    inert text and complete `\\verb d … d` (any delimiter that is no letter/`@`, any content without
    the delimiter and without line break — `$`, `{`, `%`, `\\` included; no line of white space and
    blank-content `\\verb`s only), the output is the source with every `\\verb d s d` replaced by
    `s`, and every output character — text and verbatim content alike — stands in the source at
    exactly the position it is mapped to; no unknowns, no diagnostics -/
theorem C02_verb_literal (T : PTables) (o : Options) (fs : FS) (thresh : Nat) (segs : List VSeg)
    (fuel : Nat) (st1 : PState)
    (hdefs : o.defs = []) (hextr : o.extr = []) (hrepl : o.hasRepl = false) (hunkn : o.unkn = false)
    (hinit : initParser T fuel o (initialState T o false fs) = .ok ((), st1))
    (hok : vsegsOk T st1 segs = true) (hlines : vlinesOK segs = true) (hwf : verbOnly segs = true)
    (hf : (renderV segs).length + 2 ≤ fuel) :
    ∃ r, tex2txt T fuel (renderV segs) o false thresh fs = .ok r ∧
      r.txt = contentText segs ∧ r.txt = (outW 0 segs).map (·.1) ∧ r.pos = (outW 0 segs).map (·.2 + 1) ∧
      (∀ cp ∈ outW 0 segs, (renderV segs)[cp.2]? = some cp.1) ∧
      r.unknowns = [] ∧ r.diags = st1.diags :=
  tex2txt_verb_wellformed T o fs thresh segs fuel st1 hdefs hextr hrepl hunkn hinit hwf hok hlines hf

/-- a concrete document satisfies the premises on the tables translated from the current /repo -/
theorem C02_verb_example_current :
    vsegsOk Generated.theTables Generated.stDefault
      [.txt "Use ".toList, .verb '|' "a$b{%\\x".toList, .txt " and ".toList, .verb '+' "x|y".toList, .txt " here.".toList] = true := by
  decide +kernel

end Yalafi
