/-
  Properties/PlainParaStmt.lean — C05 "text flow is preserved", the PARAGRAPH-LEVEL reading: the
  relation between two words of a document of the enlarged union grammar (`PlainMix2.Seg`: inert
  text, special sequences, braces / groups / undeclared control words with arguments, vanishing
  calls, comments, `\verb`, inline formulas, references, citations, footnotes, headings).
  A corollary layer over `C03_mix2_e2e`.  Proofs, definitions, side conditions, what is not
  covered: Proofs/PlainPara.lean (marks), Proofs/PlainParaSrc.lean (documents).
-/
import YalafiVerif.Proofs.PlainParaSrc
import YalafiVerif.Generated.Init
namespace Yalafi

open PlainMix2.Para in
/-- **the paragraph relation between two text characters.**  The document is
    `docAB A u a Mid b v B = A ++ .txt (u ++ [a]) :: (Mid ++ .txt (b :: v) :: B)` — two visible text
    characters `a` (0-based source position `posA A u`) and `b` (`posB A u Mid`), the source between
    them is `render Mid`.  Under the side conditions of `C03_mix2_e2e` for the document, `tex2txt`
    succeeds and its output, characters with (1-based) positions, is

        U ++ (a, posA + 1) :: (S ++ (b, posB + 1) :: V),      S = `between … Mid`

    (`S` = the output characters strictly between `a` and `b` = `PlainPara.sep` of the marks of
    `Mid`: the rest of the line of `a` and the last line in front of `b` are copied, every line
    between is deleted with its line break iff it is white space with at least one vanished
    construct).  For `S` and the layout of the source between `a` and `b` as TeX reads it
    (`srcView Mid`: comments dropped, every construct — a control word WITH the white space it
    swallows, a call with its argument, … — one ink blob):

    * (i)+(ii) NO INVENTED, NO LOST BREAK (if the constructs in `Mid` that produce output produce no
      line break, `outNoNl`): `S` holds a blank line (two line breaks with white space only
      between them) IFF `srcView Mid` does;
    * (i) on the raw source: if `render Mid` with the comments cut out holds no blank line, `S`
      holds none;
    * (iii) NOT GLUED: if `srcView Mid` holds white space (a white-space character of a `txt`
      segment), `S` holds white space;
    * nothing is added: `S` is a subsequence of the output characters of `Mid`, and (if no special
      sequence in `Mid` has a value longer than itself, `spcShort`) every position in `S` lies
      strictly between the positions of `a` and `b`. -/
theorem C05_paragraph_relation (T : PTables) (o : Options) (fs : FS) (thresh : Nat)
    (A : List PlainMix2.Seg) (u : Str) (a : Char) (Mid : List PlainMix2.Seg) (b : Char) (v : Str)
    (B : List PlainMix2.Seg) (fuel : Nat) (st1 : PState) (repls : List Str)
    (hdefs : o.defs = []) (hextr : o.extr = []) (hrepl : o.hasRepl = false) (hunkn : o.unkn = false)
    (hinit : initParser T fuel o (initialState T o false fs) = .ok ((), st1))
    (hok : PlainMix2.SegsOk T st1 repls (docAB A u a Mid b v B))
    (hf : (PlainMix2.render (docAB A u a Mid b v B)).length + 4 ≤ fuel)
    (ha : isSpace a = false) (hb : isSpace b = false) :
    ∃ r, tex2txt T fuel (PlainMix2.render (docAB A u a Mid b v B)) o false thresh fs = .ok r ∧
      ∃ U V, r.txt = (U ++ (a, posA A u) :: (between T st1 repls A u Mid
                        ++ (b, posB A u Mid) :: V)).map (·.1) ∧
        r.pos = (U ++ (a, posA A u) :: (between T st1 repls A u Mid
                        ++ (b, posB A u Mid) :: V)).map (·.2 + 1) ∧
        U = PlainPara.pre (frontMarks T st1 repls A u) ∧
        V = PlainPara.post (backMarks T st1 repls A u Mid v B)
              ++ PlainMix2.flows 0 (docAB A u a Mid b v B) ∧
        (outNoNl T st1 repls Mid = true →
          PlainPara.hasBlank ((between T st1 repls A u Mid).map PlainPara.clsP)
            = PlainPara.hasBlank (srcView Mid)) ∧
        (outNoNl T st1 repls Mid = true →
          PlainPara.hasBlankLine (PlainMix2.render (stripCom Mid)) = false →
          PlainPara.hasBlank ((between T st1 repls A u Mid).map PlainPara.clsP) = false) ∧
        ((srcView Mid).any (fun c => c != .ink) = true →
          (between T st1 repls A u Mid).any (fun cp => isSpace cp.1) = true) ∧
        List.Sublist (between T st1 repls A u Mid)
          (PlainMix2.plain T st1 repls (PlainMix2.nFormulas A) (posA A u + 1) Mid) ∧
        (spcShort T Mid = true →
          ∀ cp ∈ between T st1 repls A u Mid, posA A u < cp.2 ∧ cp.2 < posB A u Mid) := by
  obtain ⟨r, h1, h2, h3, _⟩ :=
    PlainMix2.tex2txt_mix2 T o fs thresh _ fuel st1 repls hdefs hextr hrepl hunkn hinit hok hf
  rw [ref_docAB T st1 repls A u a Mid b v B ha hb] at h2 h3
  refine ⟨r, h1, _, _, ?_, ?_, rfl, rfl, ?_, ?_, ?_, ?_, between_pos T st1 repls A u Mid⟩
  · rw [h2]; simp only [List.append_assoc, List.cons_append]
  · rw [h3]; simp only [List.append_assoc, List.cons_append]
  · exact between_blank T st1 repls A u Mid
  · intro hn hraw
    exact between_blank_raw T st1 repls A u Mid hn (spcVis_mid T st1 A u a Mid b v B hok.2.1) hraw
  · exact between_space T st1 repls A u Mid
  · exact between_sublist T st1 repls A u Mid

open PlainMix2.Para in
/-- **two words separated only by white space, comments and vanishing constructs** (`gap Mid`:
    white space, `%` comments, unknown control words with the white space they swallow, vanishing
    calls `\label{…}` / `\index{…}`, braces, footnotes).  Then between `a` and `b` the output holds
    ONLY WHITE SPACE; it holds a blank line — `a` and `b` are in different output paragraphs — IFF
    the source between them holds a blank line outside comments and not counting the white space
    behind a control word (`srcView`); in particular a line that becomes blank only because its
    constructs vanished is no paragraph break, a line that is blank in the source is one; and if
    the source holds any white space between them (outside comments, not behind a control word)
    the words are not glued; every position in `S` lies strictly between those of `a` and `b`. -/
theorem C05_same_paragraph (T : PTables) (o : Options) (fs : FS) (thresh : Nat)
    (A : List PlainMix2.Seg) (u : Str) (a : Char) (Mid : List PlainMix2.Seg) (b : Char) (v : Str)
    (B : List PlainMix2.Seg) (fuel : Nat) (st1 : PState) (repls : List Str)
    (hdefs : o.defs = []) (hextr : o.extr = []) (hrepl : o.hasRepl = false) (hunkn : o.unkn = false)
    (hinit : initParser T fuel o (initialState T o false fs) = .ok ((), st1))
    (hok : PlainMix2.SegsOk T st1 repls (docAB A u a Mid b v B))
    (hf : (PlainMix2.render (docAB A u a Mid b v B)).length + 4 ≤ fuel)
    (ha : isSpace a = false) (hb : isSpace b = false) (hgap : gap Mid = true) :
    ∃ r U S V, tex2txt T fuel (PlainMix2.render (docAB A u a Mid b v B)) o false thresh fs = .ok r ∧
      r.txt = (U ++ (a, posA A u) :: (S ++ (b, posB A u Mid) :: V)).map (·.1) ∧
      r.pos = (U ++ (a, posA A u) :: (S ++ (b, posB A u Mid) :: V)).map (·.2 + 1) ∧
      (∀ cp ∈ S, isSpace cp.1 = true) ∧
      PlainPara.hasBlankLine (S.map (·.1)) = PlainPara.hasBlank (srcView Mid) ∧
      ((srcView Mid).any (fun c => c != .ink) = true → S ≠ []) ∧
      (∀ cp ∈ S, posA A u < cp.2 ∧ cp.2 < posB A u Mid) := by
  obtain ⟨r, h1, U, V, h2, h3, _, _, h4, _, h5, _, h6⟩ :=
    C05_paragraph_relation T o fs thresh A u a Mid b v B fuel st1 repls hdefs hextr hrepl hunkn hinit
      hok hf ha hb
  refine ⟨r, U, between T st1 repls A u Mid, V, h1, h2, h3, between_gap T st1 repls A u Mid hgap, ?_, ?_,
    h6 (spcShort_of_gap T Mid hgap)⟩
  · have := h4 (outNoNl_of_gap T st1 repls Mid hgap)
    rw [← this]
    simp only [PlainPara.hasBlankLine, List.map_map, Function.comp_def]
    rfl
  · intro h hS
    have := h5 h
    rw [hS] at this
    simp at this

/-! ### the current code -/

open PlainMix2.Para in
/-- the paragraph relation for the CURRENT code (tables translated from /repo, default options,
    parser initialisation evaluated by the kernel) -/
theorem C05_paragraph_relation_current (A : List PlainMix2.Seg) (u : Str) (a : Char)
    (Mid : List PlainMix2.Seg) (b : Char) (v : Str) (B : List PlainMix2.Seg) (repls : List Str)
    (thresh : Nat)
    (hok : PlainMix2.SegsOk Generated.theTables Generated.stDefault repls (docAB A u a Mid b v B))
    (hf : (PlainMix2.render (docAB A u a Mid b v B)).length + 4 ≤ Generated.bigFuel)
    (ha : isSpace a = false) (hb : isSpace b = false) (hgap : gap Mid = true) :
    ∃ r U S V, tex2txt Generated.theTables Generated.bigFuel (PlainMix2.render (docAB A u a Mid b v B))
        Generated.defaultOptions false thresh [] = .ok r ∧
      r.txt = (U ++ (a, posA A u) :: (S ++ (b, posB A u Mid) :: V)).map (·.1) ∧
      r.pos = (U ++ (a, posA A u) :: (S ++ (b, posB A u Mid) :: V)).map (·.2 + 1) ∧
      (∀ cp ∈ S, isSpace cp.1 = true) ∧
      PlainPara.hasBlankLine (S.map (·.1)) = PlainPara.hasBlank (srcView Mid) ∧
      ((srcView Mid).any (fun c => c != .ink) = true → S ≠ []) ∧
      (∀ cp ∈ S, posA A u < cp.2 ∧ cp.2 < posB A u Mid) :=
  C05_same_paragraph Generated.theTables Generated.defaultOptions [] thresh A u a Mid b v B
    Generated.bigFuel Generated.stDefault repls rfl rfl rfl rfl Generated.initParser_default hok hf
    ha hb hgap

/-- the tail of the example document: `% c⏎␣␣\foo four⏎` -/
def C05_para_tail : List PlainMix2.Seg :=
  [.com " c\n  ".toList, .cw "foo".toList " ".toList, .txt "four\n".toList]

/-- the front of the example document: `One\label{a}⏎\index{b}` -/
def C05_para_front : List PlainMix2.Seg :=
  [.txt "One".toList, .van "label".toList "a".toList, .txt "\n".toList,
   .van "index".toList "b".toList]

/-- The example document

        One\label{a}
        \index{b}
        two.

        Three % c
          \foo four

    cut at `One` / `two`: between them a label, a line break, a line that holds only an index
    entry, and its line break. -/
def C05_para_doc1 : List PlainMix2.Seg :=
  PlainMix2.Para.docAB [] "On".toList 'e'
    [.van "label".toList "a".toList, .txt "\n".toList, .van "index".toList "b".toList, .txt "\n".toList]
    't' "wo.\n\nThree ".toList C05_para_tail

/-- … cut at `two.` / `Three`: a blank line between them -/
def C05_para_doc2 : List PlainMix2.Seg :=
  PlainMix2.Para.docAB C05_para_front "\ntwo".toList '.' [.txt "\n\n".toList] 'T' "hree ".toList
    C05_para_tail

/-- … cut at `Three` / `four`: a blank, a comment with its line break and the indentation of the next
    line, an unknown control word with the blank behind it -/
def C05_para_doc3 : List PlainMix2.Seg :=
  PlainMix2.Para.docAB C05_para_front "\ntwo.\n\nThre".toList 'e'
    [.txt " ".toList, .com " c\n  ".toList, .cw "foo".toList " ".toList] 'f' "our\n".toList []

/-- the three cuts are the same source text; the side conditions hold for them on the real
    tables; the pieces between the words are gaps -/
theorem C05_para_example_current :
    PlainMix2.render C05_para_doc1 = "One\\label{a}\n\\index{b}\ntwo.\n\nThree % c\n  \\foo four\n".toList ∧
    PlainMix2.render C05_para_doc2 = PlainMix2.render C05_para_doc1 ∧
    PlainMix2.render C05_para_doc3 = PlainMix2.render C05_para_doc1 ∧
    PlainMix2.SegsOk Generated.theTables Generated.stDefault [] C05_para_doc1 ∧
    PlainMix2.SegsOk Generated.theTables Generated.stDefault [] C05_para_doc2 ∧
    PlainMix2.SegsOk Generated.theTables Generated.stDefault [] C05_para_doc3 := by
  decide +kernel

open PlainMix2.Para PlainPara in
/-- … and this is what the theorem says about the three pairs of words (output between them with
    0-based positions; blank line in the source view):
    `One` / `two`: one line break (the one behind the label; the index line is gone with its line
    break), no blank line — same paragraph, not glued;
    `two.` / `Three`: the two line breaks — a blank line, in the source view too;
    `Three` / `four`: one blank — the comment took its line break and the indentation, `\foo` the
    blank behind it. -/
theorem C05_para_example_ref :
    between Generated.theTables Generated.stDefault [] [] "On".toList
        [.van "label".toList "a".toList, .txt "\n".toList, .van "index".toList "b".toList, .txt "\n".toList]
      = [('\n', 12)] ∧
    hasBlank (srcView [.van "label".toList "a".toList, .txt "\n".toList, .van "index".toList "b".toList,
        .txt "\n".toList]) = false ∧
    between Generated.theTables Generated.stDefault [] C05_para_front "\ntwo".toList [.txt "\n\n".toList]
      = [('\n', 27), ('\n', 28)] ∧
    hasBlank (srcView [.txt "\n\n".toList]) = true ∧
    between Generated.theTables Generated.stDefault [] C05_para_front "\ntwo.\n\nThre".toList
        [.txt " ".toList, .com " c\n  ".toList, .cw "foo".toList " ".toList]
      = [(' ', 34)] ∧
    hasBlank (srcView [.txt " ".toList, .com " c\n  ".toList, .cw "foo".toList " ".toList]) = false := by
  decide +kernel

/-- … which is what the model computes (evaluated by the kernel): text, positions, unknowns -/
theorem C05_para_example_eval :
    (match tex2txt Generated.theTables Generated.bigFuel (PlainMix2.render C05_para_doc1)
        Generated.defaultOptions false 0 [] with
     | .ok r =>
       r.txt == "One\ntwo.\n\nThree four\n".toList &&
       r.pos == [1, 2, 3, 13, 24, 25, 26, 27, 28, 29, 30, 31, 32, 33, 34, 35, 47, 48, 49, 50, 51] &&
       r.unknowns == ["\\foo".toList]
     | _ => false) = true := by
  decide +kernel

end Yalafi
