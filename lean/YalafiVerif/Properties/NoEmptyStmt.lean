/-
  Properties/NoEmptyStmt.lean — the open proof obligation of C07 is closed:
  the filter model never raises in `glossaries.cap_first` (`toks[i].txt[0]` of an empty `TextToken`).

  Claim.  For EVERY source text, option record, file system and fuel, `tex2txt` of the model does not end in
  `.crash "glossaries.py:cap_first:txt[0]"`; hence (with `C07_tex2txt_no_crash`) the only crash sites left are the
  two markers of code that is not modelled (`opaque module`, `opaque handler`: cleveref).

  Side conditions (both decidable, both proved for the tables translated from /repo by `decide +kernel`):
  * `hw  : T.WFInv`          the well-formedness of the range bundle (C01/C07), used for the scanner facts
                             (token positions, class invariants) and the bookkeeping `envOk`;
  * `hne : tblOkB T = true`  NEW.  (1) declared macro/environment texts (`repl`, `defaults`, `extract`) contain
                             no empty text token, no `MathBeginToken`, and control tokens with empty text;
                             (2) no declared MACRO has handler `.theorem _`/`.proof` and no declared environment
                             has one of them as `end_func` (the handlers whose result may START with an empty
                             text token); (3) a `remove` environment has no handler and an empty replacement
                             (so that the output handed back by an UNCLOSED `remove` environment is preceded
                             only by action/paragraph/language tokens); (4) `envOk` of the range bundle;
                             (5) `biblatex.cite_text ≠ ""`; (6) no entry of the `upper()` table is `""`
                             (`cap_first`/`cap_all` never produce an empty text).

  How it is proved (`Proofs/NoEmpty*.lean`): induction on fuel over the 21 functions of the mutual block, with
  a buffer-ORDER invariant (`Pre`: Skip* ++ [one arbitrary token]? ++ non-empty*), a class of "output" lists that
  contain no token that can start a call (`ANC`), and token positions `< n` (without them the claim is FALSE in
  the abstract: a split error mark at a position `≥ n` starts with an empty text token).

  What reading the model showed (the comment above `allowedCrash` in `Spec/Inv.lean` is inaccurate):
  an EMPTY text token is created at five kinds of places, not one:
    1. `.theorem []`  — `\newtheorem{thm}{}` … `\begin{thm}`                       (known)
    2. `.proof` if the current language settings did not exist (`proofName` falls back to `""`; excluded by
       the range bundle's `G.langs`, not needed here)
    3. `expand_item`: `item_default_label = ['']` — EVERY plain `\item` of an `itemize`/default environment
       pushes `TextToken(start, '')` back to the buffer, behind action/language/space tokens
    4. `latex_error` marks at `pos ≥ len(latex)` (first half `mark[:0]`); excluded by positions `< n`
    5. output-only tokens (`\verb||`, placeholders, special tokens replaced by `""`): they re-enter a buffer
       only through an unclosed `remove` environment, as a tail without any macro/begin/end/item token.
  None of them reaches `cap_first`: that is the theorem.

  Model update "cleveref" (handlers `.readSed`, `.crefWarn`, `.cref`, `.crefrange`, `ModuleDef.crefInject`) is
  covered: `Proofs/NoEmptyHandlerC.lean` (replacement strings are scanner tokens: a text token of the scanner is
  never empty; macros (re)defined by `h_read_sed` have scanner-token bodies and handlers that are not `isFront`);
  the tokens a package injects on loading are `InjOk` (`NE` whenever the place of the `\usepackage` lies inside
  the text).  `handler_step` in `Proofs/NoEmptyMain.lean` is one `cases` naming one lemma per handler.

  Files: `Proofs/NoEmptyDefs.lean` (invariant, `Post'`, the 21 specifications), `NoEmptyBase1/2/2b.lean` (leaf lemmas),
  `NoEmptyStepSeq/Env/Args/Work/Math.lean`, `NoEmptyHandlerA/B/C.lean` (step lemmas), `NoEmptyMain.lean` (induction),
  `NoEmptyTop.lean` (`initParser`, `parse`, `tex2txt`).

  NOT covered: nothing is said about `fatal`/`outOfFuel`; the two opaque crash markers remain in `allowedCrash`
  (this file does not show them unreachable).
-/
import YalafiVerif.Proofs.NoEmptyMain
import YalafiVerif.Properties.C07Base
import YalafiVerif.Generated.Init
import YalafiVerif.Generated.WF
namespace Yalafi

open NoEmpty

/-- the filter model never raises in `glossaries.cap_first`, whatever the input -/
theorem C07_no_capfirst_crash (T : PTables) (hw : T.WFInv) (hne : tblOkB T = true)
    (fuel : Nat) (latex : Str) (o : Options) (multi : Bool) (thresh : Nat) (fs : FS) :
    tex2txt T fuel latex o multi thresh fs ≠ .crash "glossaries.py:cap_first:txt[0]" :=
  tex2txt_noCapFirst_all hne hw fuel latex o multi thresh fs

/-- the new table condition holds for the tables translated from the current /repo -/
theorem C07_tblOk_current : tblOkB Generated.theTables = true := by decide +kernel

/-- … in particular with the tables translated from the current /repo -/
theorem C07_no_capfirst_crash_current (fuel : Nat) (latex : Str) (o : Options) (multi : Bool) (thresh : Nat)
    (fs : FS) :
    tex2txt Generated.theTables fuel latex o multi thresh fs ≠ .crash "glossaries.py:cap_first:txt[0]" :=
  C07_no_capfirst_crash Generated.theTables Generated.wfInv C07_tblOk_current fuel latex o multi thresh fs

/-- corollary: a crash of the filter model can only be one of the two markers of code that is not
    modelled (cleveref) -/
theorem C07_tex2txt_crash_only_opaque (T : PTables) (hw : T.WFInv) (hne : tblOkB T = true)
    (fuel : Nat) (latex : Str) (o : Options) (multi : Bool) (thresh : Nat) (fs : FS) (site : String)
    (h : tex2txt T fuel latex o multi thresh fs = .crash site) :
    site = "opaque module (not modelled)" ∨ site = "opaque handler (not modelled)" := by
  have h1 := C07_tex2txt_no_crash T hw fuel latex o multi thresh fs site h
  have h2 := C07_no_capfirst_crash T hw hne fuel latex o multi thresh fs
  simp only [allowedCrash, List.mem_cons, List.not_mem_nil, or_false] at h1
  rcases h1 with h1 | h1 | h1
  · exact Or.inl h1
  · exact Or.inr h1
  · subst h1; exact absurd h h2

theorem C07_tex2txt_crash_only_opaque_current (fuel : Nat) (latex : Str) (o : Options) (multi : Bool)
    (thresh : Nat) (fs : FS) (site : String)
    (h : tex2txt Generated.theTables fuel latex o multi thresh fs = .crash site) :
    site = "opaque module (not modelled)" ∨ site = "opaque handler (not modelled)" :=
  C07_tex2txt_crash_only_opaque Generated.theTables Generated.wfInv C07_tblOk_current fuel latex o multi thresh fs
    site h

/-- the heart: `cap_first` cannot raise on a token list whose text tokens are non-empty -/
theorem C07_capFirst_total (T : PTables) (ts : List Tok) (h : ∀ t ∈ ts, t.kind = .text → t.txt ≠ []) :
    capFirst T ts ≠ none := by
  unfold capFirst
  split
  · simp
  · rename_i i hi
    split
    · simp
    · rename_i t ht
      have hmem : t ∈ ts := List.mem_of_getElem? ht
      have hk : t.kind = .text := by
        have := List.findIdx?_eq_some_iff_getElem.1 hi
        obtain ⟨hlt, hp, _⟩ := this
        have e : ts[i]? = some ts[i] := List.getElem?_eq_getElem hlt
        rw [e] at ht; injection ht with ht; subst ht
        simpa using hp
      have := h t hmem hk
      cases htx : t.txt with
      | nil => exact absurd htx this
      | cons c cs => simp

/-- non-vacuity of the remark "an empty text token IS created": a split error mark at a position behind
    the text starts with an empty text token (source 4 of the header) -/
example : (latexErrorToks Generated.theTables.toTables "x".toList 5 5).head?.map (·.txt) = some [] := by
  decide +kernel

end Yalafi
