/-
  Properties/PlainMix2Stmt.lean — C03 "hidden material never leaks" and C05 "text flow is preserved",
  end to end on the filter model, for documents that MIX fourteen kinds of constructs: inert text,
  special sequences, BRACES / GROUPS and undeclared control words with braced arguments at any depth
  (`\textbf{…}`, `\emph{…}`, `{…}`), vanishing calls (`\label{…}`, `\index{…}`), `%` comments, `\verb`,
  simple inline formulas, `\ref{…}` / `\pageref{…}`, `\cite{…}` / `\cite[note]{…}`, `\footnote{…}`,
  headings `\section{…}` — in any order and nesting of the braces (`PlainMix2.Seg`).
  Proofs, side conditions and what is not covered: Proofs/PlainMix2E2E.lean (header),
  Proofs/PlainMix2.lean (one loop lemma), Proofs/PlainMix2Scan.lean (one scanner lemma),
  Proofs/PlainMix2Src.lean (documents, reference), Proofs/PlainMix2Read.lean (readings).
-/
import YalafiVerif.Proofs.PlainMix2Read
import YalafiVerif.Generated.Init
namespace Yalafi

/-- **mixed documents with groups, references, citations, footnotes and headings, end to end.**
    For every document `render segs` (`PlainMix2.SegsOk`: all side conditions, computable; `repls` =
    the inline placeholder collection of the language, only looked at if there is a formula), `st1`
    the state after `Parser.__init__`, no `--defs --extr --repl --unkn`, single-language mode, fuel =
    source length + 4: `tex2txt` succeeds; the output text with its (1-based) positions is
    `delLines (marks …) ++ flows …`:

    * `marks` (main flow): a text character with its own position; a special sequence = a text-less
      mark and its table value; a brace, a control word, a vanishing call, a footnote = a text-less
      mark; a comment = nothing; `\verb d s d` = a mark and `s`; a formula = a mark, placeholder and
      punctuation, a mark; a reference = a mark and `0` at the backslash; a citation = a mark, `[0]`
      (or `[0, note]`, the note at its own positions), a mark; a heading = a mark, the title at its
      own positions and a full stop;
    * `delLines`: every line of the main flow that consists of white space and at least one
      text-less mark is deleted with its line break (`remove_pure_action_lines`); nothing else;
    * `flows`: for every footnote, in order, behind the main text: three line breaks, the body at
      its own positions, a line break;
    * the unknowns are the undeclared control words, each once, in order of first use; no
      diagnostic. -/
theorem C03_mix2_e2e (T : PTables) (o : Options) (fs : FS) (thresh : Nat)
    (segs : List PlainMix2.Seg) (fuel : Nat) (st1 : PState) (repls : List Str)
    (hdefs : o.defs = []) (hextr : o.extr = []) (hrepl : o.hasRepl = false) (hunkn : o.unkn = false)
    (hinit : initParser T fuel o (initialState T o false fs) = .ok ((), st1))
    (hok : PlainMix2.SegsOk T st1 repls segs) (hf : (PlainMix2.render segs).length + 4 ≤ fuel) :
    ∃ r, tex2txt T fuel (PlainMix2.render segs) o false thresh fs = .ok r ∧
      r.txt = (PlainMacro.delLines (PlainMix2.marks T st1 repls 0 0 segs)
                ++ PlainMix2.flows 0 segs).map (·.1) ∧
      r.pos = (PlainMacro.delLines (PlainMix2.marks T st1 repls 0 0 segs)
                ++ PlainMix2.flows 0 segs).map (·.2 + 1) ∧
      r.unknowns = (PlainMix2.cwNames segs).eraseDups ∧ r.diags = st1.diags := by
  obtain ⟨r, h1, h2, h3, h4, h5, _⟩ :=
    PlainMix2.tex2txt_mix2 T o fs thresh segs fuel st1 repls hdefs hextr hrepl hunkn hinit hok hf
  exact ⟨r, h1, h2, h3, h4, h5⟩

/-- **nothing hidden leaks, nothing visible is lost.**  The output characters that are no white
    space, with their positions, are exactly those of `PlainMix2.plain` (text, special values,
    `\verb` contents, placeholders, notes, titles and their full stops) followed by those of the
    footnote bodies (`PlainMix2.footBodies`), in this order — no character of a key, a label, a
    comment, a control-word name or a formula body, and every footnote body exactly once. -/
theorem C03_mix2_words (T : PTables) (o : Options) (fs : FS) (thresh : Nat)
    (segs : List PlainMix2.Seg) (fuel : Nat) (st1 : PState) (repls : List Str)
    (hdefs : o.defs = []) (hextr : o.extr = []) (hrepl : o.hasRepl = false) (hunkn : o.unkn = false)
    (hinit : initParser T fuel o (initialState T o false fs) = .ok ((), st1))
    (hok : PlainMix2.SegsOk T st1 repls segs) (hf : (PlainMix2.render segs).length + 4 ≤ fuel) :
    ∃ r, tex2txt T fuel (PlainMix2.render segs) o false thresh fs = .ok r ∧
      (r.txt.zip r.pos).filter (fun cp => !isSpace cp.1)
        = ((PlainMix2.plain T st1 repls 0 0 segs ++ PlainMix2.footBodies 0 segs).filter
            (fun cp => !isSpace cp.1)).map (fun cp => (cp.1, cp.2 + 1)) := by
  obtain ⟨r, h1, h2, h3, _⟩ :=
    C03_mix2_e2e T o fs thresh segs fuel st1 repls hdefs hextr hrepl hunkn hinit hok hf
  refine ⟨r, h1, ?_⟩
  rw [h2, h3, List.zip_map', List.filter_map]
  have hw := PlainMix.delLines_words (PlainMix2.marks T st1 repls 0 0 segs)
  rw [PlainMix2.marks_chars] at hw
  have hfl := PlainMix2.flows_vis segs 0
  show List.map _ (List.filter PlainMix.vis _) = List.map _ (List.filter PlainMix.vis _)
  rw [List.filter_append, List.filter_append, hw, hfl]

/-- **no character is added, in particular no line break in the main flow**: the main part of the
    output is a subsequence of `PlainMix2.plain`, and it is followed by exactly the flows. -/
theorem C05_mix2_nothing_added (T : PTables) (o : Options) (fs : FS) (thresh : Nat)
    (segs : List PlainMix2.Seg) (fuel : Nat) (st1 : PState) (repls : List Str)
    (hdefs : o.defs = []) (hextr : o.extr = []) (hrepl : o.hasRepl = false) (hunkn : o.unkn = false)
    (hinit : initParser T fuel o (initialState T o false fs) = .ok ((), st1))
    (hok : PlainMix2.SegsOk T st1 repls segs) (hf : (PlainMix2.render segs).length + 4 ≤ fuel) :
    ∃ r, tex2txt T fuel (PlainMix2.render segs) o false thresh fs = .ok r ∧
      ∃ main, r.txt.zip r.pos
          = (main ++ PlainMix2.flows 0 segs).map (fun cp => (cp.1, cp.2 + 1)) ∧
        List.Sublist main (PlainMix2.plain T st1 repls 0 0 segs) := by
  obtain ⟨r, h1, h2, h3, _⟩ :=
    C03_mix2_e2e T o fs thresh segs fuel st1 repls hdefs hextr hrepl hunkn hinit hok hf
  refine ⟨r, h1, PlainMacro.delLines (PlainMix2.marks T st1 repls 0 0 segs), ?_, ?_⟩
  · rw [h2, h3, List.zip_map']
  · have := PlainMix.delLines_sublist (PlainMix2.marks T st1 repls 0 0 segs)
    rw [PlainMix2.marks_chars] at this
    exact this

/-- **a line of the main flow is deleted iff it is pure.**  Split the marks of the document at a
    line: `A` (empty or ending with a line break), the line `L` (no line break), its line break
    `nlp`, the rest `B`.  Then the output is the output of `A`, followed by nothing if `L` is *pure*
    (`PlainMix.pureLine`: white space only and at least one text-less mark — the line and its line
    break are deleted) and by the characters of `L` and the line break otherwise, followed by the
    output of `B` and the flows. -/
theorem C05_mix2_lines (T : PTables) (o : Options) (fs : FS) (thresh : Nat)
    (segs : List PlainMix2.Seg) (fuel : Nat) (st1 : PState) (repls : List Str)
    (hdefs : o.defs = []) (hextr : o.extr = []) (hrepl : o.hasRepl = false) (hunkn : o.unkn = false)
    (hinit : initParser T fuel o (initialState T o false fs) = .ok ((), st1))
    (hok : PlainMix2.SegsOk T st1 repls segs) (hf : (PlainMix2.render segs).length + 4 ≤ fuel)
    (A L B : List PlainMacro.Mark) (nlp : Char × Nat)
    (hsplit : PlainMix2.marks T st1 repls 0 0 segs = A ++ (L ++ some nlp :: B))
    (hA : A = [] ∨ ∃ A' q, A = A' ++ [some q] ∧ (q.1 == nl) = true)
    (hL : L.any PlainMix.isNlMark = false) (hn : (nlp.1 == nl) = true) :
    ∃ r, tex2txt T fuel (PlainMix2.render segs) o false thresh fs = .ok r ∧
      r.txt = ((PlainMacro.delLines A ++ ((if PlainMix.pureLine L then [] else L.filterMap id ++ [nlp])
                ++ PlainMacro.delLines B)) ++ PlainMix2.flows 0 segs).map (·.1) ∧
      r.pos = ((PlainMacro.delLines A ++ ((if PlainMix.pureLine L then [] else L.filterMap id ++ [nlp])
                ++ PlainMacro.delLines B)) ++ PlainMix2.flows 0 segs).map (·.2 + 1) := by
  obtain ⟨r, h1, h2, h3, _⟩ :=
    C03_mix2_e2e T o fs thresh segs fuel st1 repls hdefs hextr hrepl hunkn hinit hok hf
  rw [hsplit, PlainMix.delLines_mid A L B nlp hA hL hn] at h2 h3
  exact ⟨r, h1, h2, h3⟩

/-- … and the last line of the main flow (no line break behind it) -/
theorem C05_mix2_last_line (T : PTables) (o : Options) (fs : FS) (thresh : Nat)
    (segs : List PlainMix2.Seg) (fuel : Nat) (st1 : PState) (repls : List Str)
    (hdefs : o.defs = []) (hextr : o.extr = []) (hrepl : o.hasRepl = false) (hunkn : o.unkn = false)
    (hinit : initParser T fuel o (initialState T o false fs) = .ok ((), st1))
    (hok : PlainMix2.SegsOk T st1 repls segs) (hf : (PlainMix2.render segs).length + 4 ≤ fuel)
    (A L : List PlainMacro.Mark)
    (hsplit : PlainMix2.marks T st1 repls 0 0 segs = A ++ L)
    (hA : A = [] ∨ ∃ A' q, A = A' ++ [some q] ∧ (q.1 == nl) = true)
    (hL : L.any PlainMix.isNlMark = false) :
    ∃ r, tex2txt T fuel (PlainMix2.render segs) o false thresh fs = .ok r ∧
      r.txt = ((PlainMacro.delLines A ++ (if PlainMix.pureLine L then [] else L.filterMap id))
                ++ PlainMix2.flows 0 segs).map (·.1) ∧
      r.pos = ((PlainMacro.delLines A ++ (if PlainMix.pureLine L then [] else L.filterMap id))
                ++ PlainMix2.flows 0 segs).map (·.2 + 1) := by
  obtain ⟨r, h1, h2, h3, _⟩ :=
    C03_mix2_e2e T o fs thresh segs fuel st1 repls hdefs hextr hrepl hunkn hinit hok hf
  rw [hsplit, PlainMix.delLines_end A L hA hL] at h2 h3
  exact ⟨r, h1, h2, h3⟩

/-- … when no line of the main flow is pure (`linesKept`, decidable): the output is
    `PlainMix2.plain` followed by the flows — nothing else added or removed -/
theorem C05_mix2_kept (T : PTables) (o : Options) (fs : FS) (thresh : Nat)
    (segs : List PlainMix2.Seg) (fuel : Nat) (st1 : PState) (repls : List Str)
    (hdefs : o.defs = []) (hextr : o.extr = []) (hrepl : o.hasRepl = false) (hunkn : o.unkn = false)
    (hinit : initParser T fuel o (initialState T o false fs) = .ok ((), st1))
    (hok : PlainMix2.SegsOk T st1 repls segs) (hf : (PlainMix2.render segs).length + 4 ≤ fuel)
    (hk : PlainMacro.linesKept true false (PlainMix2.marks T st1 repls 0 0 segs) = true) :
    ∃ r, tex2txt T fuel (PlainMix2.render segs) o false thresh fs = .ok r ∧
      r.txt = (PlainMix2.plain T st1 repls 0 0 segs ++ PlainMix2.flows 0 segs).map (·.1) ∧
      r.pos = (PlainMix2.plain T st1 repls 0 0 segs ++ PlainMix2.flows 0 segs).map (·.2 + 1) := by
  obtain ⟨r, h1, h2, h3, _⟩ :=
    C03_mix2_e2e T o fs thresh segs fuel st1 repls hdefs hextr hrepl hunkn hinit hok hf
  rw [PlainMacro.delLines_kept _ hk, PlainMix2.marks_chars] at h2 h3
  exact ⟨r, h1, h2, h3⟩

/-- the end-to-end theorem for the CURRENT code (tables translated from /repo, default options,
    parser initialisation evaluated by the kernel) -/
theorem C03_mix2_e2e_current (segs : List PlainMix2.Seg) (repls : List Str) (thresh : Nat)
    (hok : PlainMix2.SegsOk Generated.theTables Generated.stDefault repls segs)
    (hf : (PlainMix2.render segs).length + 4 ≤ Generated.bigFuel) :
    ∃ r, tex2txt Generated.theTables Generated.bigFuel (PlainMix2.render segs) Generated.defaultOptions
          false thresh [] = .ok r ∧
      r.txt = (PlainMacro.delLines (PlainMix2.marks Generated.theTables Generated.stDefault repls 0 0 segs)
                ++ PlainMix2.flows 0 segs).map (·.1) ∧
      r.pos = (PlainMacro.delLines (PlainMix2.marks Generated.theTables Generated.stDefault repls 0 0 segs)
                ++ PlainMix2.flows 0 segs).map (·.2 + 1) ∧
      r.unknowns = (PlainMix2.cwNames segs).eraseDups ∧ r.diags = Generated.stDefault.diags :=
  C03_mix2_e2e Generated.theTables Generated.defaultOptions [] thresh segs Generated.bigFuel
    Generated.stDefault repls rfl rfl rfl rfl Generated.initParser_default hok hf

/-- the inline placeholder collection of the current /repo for English -/
def C03_mix2_repls : List Str :=
  ["B-B-B", "C-C-C", "D-D-D", "E-E-E", "F-F-F", "G-G-G"].map String.toList

/-- a document that uses every kind of segment.  Source:

        \section{Intro}
        Alpha--beta \textbf{bold \emph{and $x$ nested}} gamma\label{sec:a} see \ref{sec:a} and \cite{knuth84}, \cite[p. 3]{lamport}.\footnote{A note.} 100\% sure. % hidden
          Next {\foo a~b}
        \bar % again
        \verb|x_$%| end.
        % last
-/
def C03_mix2_doc : List PlainMix2.Seg :=
  [.head "section".toList "Intro".toList, .txt "\nAlpha".toList, .spc "--".toList, .txt "beta ".toList]
  ++ PlainMix2.mac "textbf".toList
      [[.txt "bold ".toList] ++ PlainMix2.mac "emph".toList
        [[.txt "and ".toList, .math "x".toList, .txt " nested".toList]]]
  ++ [.txt " gamma".toList, .van "label".toList "sec:a".toList, .txt " see ".toList,
      .ref "ref".toList "sec:a".toList, .txt " and ".toList, .cite "cite".toList "knuth84".toList,
      .txt ", ".toList, .citeN "cite".toList "p. 3".toList "lamport".toList, .txt ".".toList,
      .foot "A note.".toList, .txt " 100".toList, .spc "\\%".toList, .txt " sure. ".toList,
      .com " hidden\n  ".toList, .txt "Next ".toList]
  ++ PlainMix2.grp [.cw "foo".toList " ".toList, .txt "a".toList, .spc "~".toList, .txt "b".toList]
  ++ [.txt "\n".toList, .cw "bar".toList " ".toList, .com " again\n".toList,
      .verb '|' "x_$%".toList, .txt " end.\n".toList, .com " last".toList]

/-- the side conditions hold for it on the real tables -/
theorem C03_mix2_example_current :
    PlainMix2.SegsOk Generated.theTables Generated.stDefault C03_mix2_repls C03_mix2_doc := by
  decide +kernel

/-- … and this is what the theorem says about it: the reference output, text and positions.  (The
    heading gets its full stop; the braces and the control words `\textbf`, `\emph`, `\foo` leave
    nothing, the arguments stay in the flow at their own positions; `\ref` gives `0`, the citations
    `[0]` and `[0, p. 3]`; `~` gives U+00A0; the line `\bar % again` is pure and disappears; the footnote body comes
    last, behind three line breaks.) -/
theorem C03_mix2_example_ref :
    (PlainMacro.delLines (PlainMix2.marks Generated.theTables Generated.stDefault C03_mix2_repls 0 0
        C03_mix2_doc) ++ PlainMix2.flows 0 C03_mix2_doc).map (·.1)
      = "Intro.\nAlpha–beta bold and C-C-C nested gamma see 0 and [0], [0, p. 3]. 100% sure. Next a\u00a0b\nx_$% end.\n\n\n\nA note.\n".toList ∧
    (PlainMacro.delLines (PlainMix2.marks Generated.theTables Generated.stDefault C03_mix2_repls 0 0
        C03_mix2_doc) ++ PlainMix2.flows 0 C03_mix2_doc).map (·.2 + 1)
      = [10, 11, 12, 13, 14, 14, 16, 17, 18, 19, 20, 21, 22, 24, 25, 26, 27, 28, 37, 38, 39, 40, 41,
         48, 49, 50, 51, 53, 53, 53, 53, 53, 55, 56, 57, 58, 59, 60, 61, 64, 65, 66, 67, 68, 69, 83,
         84, 85, 86, 87, 88, 99, 100, 101, 102, 103, 104, 104, 104, 118, 119, 120, 120, 120, 120,
         126, 127, 128, 129, 129, 140, 159, 160, 161, 162, 163, 165, 166, 167, 168, 169, 170, 171,
         183, 184, 185, 186, 187, 194, 195, 196, 198, 218, 219, 220, 221, 223, 224, 225, 226, 227,
         228, 151, 151, 151, 151, 152, 153, 154, 155, 156, 157, 157] ∧
    (PlainMix2.cwNames C03_mix2_doc).eraseDups
      = ["\\textbf".toList, "\\emph".toList, "\\foo".toList, "\\bar".toList] := by
  decide +kernel

/-- … which is what the model computes (evaluated by the kernel): text, positions, unknowns -/
theorem C03_mix2_example_eval :
    (match tex2txt Generated.theTables Generated.bigFuel (PlainMix2.render C03_mix2_doc)
        Generated.defaultOptions false 0 [] with
     | .ok r =>
       r.txt == "Intro.\nAlpha–beta bold and C-C-C nested gamma see 0 and [0], [0, p. 3]. 100% sure. Next a\u00a0b\nx_$% end.\n\n\n\nA note.\n".toList &&
       r.pos == [10, 11, 12, 13, 14, 14, 16, 17, 18, 19, 20, 21, 22, 24, 25, 26, 27, 28, 37, 38, 39,
         40, 41, 48, 49, 50, 51, 53, 53, 53, 53, 53, 55, 56, 57, 58, 59, 60, 61, 64, 65, 66, 67, 68,
         69, 83, 84, 85, 86, 87, 88, 99, 100, 101, 102, 103, 104, 104, 104, 118, 119, 120, 120, 120,
         120, 126, 127, 128, 129, 129, 140, 159, 160, 161, 162, 163, 165, 166, 167, 168, 169, 170,
         171, 183, 184, 185, 186, 187, 194, 195, 196, 198, 218, 219, 220, 221, 223, 224, 225, 226,
         227, 228, 151, 151, 151, 151, 152, 153, 154, 155, 156, 157, 157] &&
       r.unknowns == ["\\textbf".toList, "\\emph".toList, "\\foo".toList, "\\bar".toList]
     | _ => false) = true := by
  decide +kernel

end Yalafi
