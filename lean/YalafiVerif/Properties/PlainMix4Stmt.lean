/-
  Properties/PlainMix4Stmt.lean — C03 "hidden material never leaks" and C05 "text flow is preserved",
  end to end on the filter model, for documents that MIX THIRTY-FIVE kinds of constructs: the
  twenty-two of Properties/PlainMix3Stmt.lean and `\def\name#1#2{…}`, labelled items `\item[label]`,
  undeclared environments (`description`), detached flows with and without optional argument
  (`\footnote[n]{…}`, `\footnotetext{…}`, `\caption[opt]{…}`), floats (`\begin{figure}[ht]`, `table`),
  `\par` and paragraph-forming environments (`minipage`) — the old kinds, among them
  the STATEFUL ones: inert text, special sequences, braces / groups and undeclared control words with
  braced arguments at any depth, vanishing calls, `%` comments, `\verb`, inline formulas of the RICH
  class (`$x^2+\alpha$`, `\(\,y_1.\)`), `\ref` / `\pageref`, `\cite` / `\cite[note]`, `\footnote`,
  headings, ACCENT calls (`\'e`, `\"{o}`), USER DEFINITIONS `\newcommand{\name}[n]{body}` and their
  USES `\name{a1}…{am}` (the definition in force at that point; before it: an unknown control word),
  simple DISPLAYED EQUATIONS `\[ … \]` and `\begin{equation} … \end{equation}` (second rotating
  placeholder collection), LIST ENVIRONMENTS `\begin{enumerate}`, `\item`, `\end{enumerate}` at any
  nesting (the stack of label generators)
  — in any order (`PlainMix4.Seg`).
  Proofs, side conditions and what is not covered: Proofs/PlainMix4E2E.lean (header),
  Proofs/PlainMix4.lean + Proofs/PlainMix4Loop.lean (one loop lemma), Proofs/PlainMix4Scan.lean (one
  scanner lemma), Proofs/PlainMix4Sem.lean (the meaning of the pieces along the changing macro
  table), Proofs/PlainMix4Src.lean (documents, reference), Proofs/PlainMix4Read.lean (readings).
-/
import YalafiVerif.Proofs.PlainMix4Read
import YalafiVerif.Generated.Init
namespace Yalafi

/-- **mixed documents with the stateful kinds, end to end.**
    For every document `render segs` (`PlainMix4.SegsOk`: all side conditions, computable; `repls` /
    `drepls` = the inline / display placeholder collections of the language, only looked at if
    there is a formula / a displayed equation), `st1` the state after `Parser.__init__`, no `--defs
    --extr --repl --unkn`, single-language mode, fuel = source length + the number of tokens the
    uses insert (`PlainMix4.inserted`) + 6: `tex2txt` succeeds; the output text with its (1-based)
    positions is `delLines (marks …) ++ flows …`:

    * `marks` (main flow; `PlainMix4.marks`, threading the definitions in force, the label
      generators `itemStack` and the numbers of formulas and displayed equations in front): a text
      character with its own position; special sequences, braces, control words, vanishing calls,
      comments, `\verb`, references, citations, footnotes, headings as in `C03_mix2_e2e`; a formula = a mark, `[blank] placeholder
      [punctuation] [blank]` pinned to the first maths token, a mark; an accent call = the
      character(s) of the accent table at the backslash, no mark; a definition = a text-less mark;
      a use = a mark, the body of the definition in force with `#k` replaced by the `k`-th argument
      at its own positions, the surplus groups; a use of an undefined name = a mark and its groups;
      a displayed equation = a mark, two blanks at the backslash, the display placeholder at the
      first element of the body, the closing punctuation at the first body character, a mark
      (`\begin{equation}`: two more marks in front); `\begin{name}` of a list environment = the marks
      of `add_pars` and a mark, `\item` = a mark, a blank, the next label of the innermost label
      generator, a blank (all at the backslash), `\end{name}` = the marks of `add_pars`;
    * the thirteen new kinds (header of Proofs/PlainMix4E2E.lean): `\def` = a text-less mark, the
      definition is in force behind it exactly as one by `\newcommand`; `\item[label]` = a blank at
      the backslash, two marks, the label at its own positions, a mark, the REPEATED PUNCTUATION `pc`
      and a blank at the last token of the label (`pc` is declared in the segment; `SegsOk` contains
      `pvLive`: the last visible output character is known to the reference and `pc` is that
      character if it is in `item_punctuation`, else `none`); undeclared `\begin{name}` / `\end{name}`
      = a mark (the name is reported as unknown, without backslash); `\name{body}` /
      `\name[opt]{body}` of a flow macro = a mark, the body goes to `flows`; float `\begin` = two
      marks, `\end` = a mark; `\par` = a mark and two line breaks at the backslash; `\begin{minipage}{w}`
      = two line breaks at the backslash and a mark, its `\end` = two line breaks;
    * `delLines`: every line of the main flow that consists of white space and at least one
      text-less mark is deleted with its line break (`remove_pure_action_lines`); nothing else;
    * `flows`: for every footnote / `\footnotetext` / `\caption`, in order, behind the main text: three line breaks, the body at
      its own positions, a line break;
    * the unknowns are the undeclared control words and the uses of names that are not (yet)
      defined, each once, in order of first use; no diagnostic. -/
theorem C03_mix4_e2e (T : PTables) (o : Options) (fs : FS) (thresh : Nat)
    (segs : List PlainMix4.Seg) (fuel : Nat) (st1 : PState) (repls drepls : List Str)
    (hdefs : o.defs = []) (hextr : o.extr = []) (hrepl : o.hasRepl = false) (hunkn : o.unkn = false)
    (hinit : initParser T fuel o (initialState T o false fs) = .ok ((), st1))
    (hok : PlainMix4.SegsOk T st1 repls drepls segs)
    (hf : (PlainMix4.render segs).length + PlainMix4.inserted [] 0 segs + 6 ≤ fuel) :
    ∃ r, tex2txt T fuel (PlainMix4.render segs) o false thresh fs = .ok r ∧
      r.txt = (PlainMacro.delLines (PlainMix4.marks T st1 repls drepls [] st1.itemStack 0 0 0 segs)
                ++ PlainMix4.flows 0 segs).map (·.1) ∧
      r.pos = (PlainMacro.delLines (PlainMix4.marks T st1 repls drepls [] st1.itemStack 0 0 0 segs)
                ++ PlainMix4.flows 0 segs).map (·.2 + 1) ∧
      r.unknowns = (PlainMix4.unkNames [] segs).eraseDups ∧ r.diags = st1.diags := by
  obtain ⟨r, h1, h2, h3, h4, h5, _⟩ :=
    PlainMix4.tex2txt_mix4 T o fs thresh segs fuel st1 repls drepls hdefs hextr hrepl hunkn hinit hok hf
  exact ⟨r, h1, h2, h3, h4, h5⟩

/-- **nothing hidden leaks, nothing visible is lost.**  The output characters that are no white
    space, with their positions, are exactly those of `PlainMix4.plain` (text, special values,
    `\verb` contents, placeholders, notes, titles and their full stops, accent values, the expansions
    of the uses, the two blanks and placeholders of the displayed equations, the labels of the
    items) followed by those of the footnote bodies (`PlainMix4.footBodies`), in this order — no character of a key, a label, a comment, a control-word name, a formula or
    equation body (but its closing punctuation) or a definition, and every footnote body exactly
    once. -/
theorem C03_mix4_words (T : PTables) (o : Options) (fs : FS) (thresh : Nat)
    (segs : List PlainMix4.Seg) (fuel : Nat) (st1 : PState) (repls drepls : List Str)
    (hdefs : o.defs = []) (hextr : o.extr = []) (hrepl : o.hasRepl = false) (hunkn : o.unkn = false)
    (hinit : initParser T fuel o (initialState T o false fs) = .ok ((), st1))
    (hok : PlainMix4.SegsOk T st1 repls drepls segs)
    (hf : (PlainMix4.render segs).length + PlainMix4.inserted [] 0 segs + 6 ≤ fuel) :
    ∃ r, tex2txt T fuel (PlainMix4.render segs) o false thresh fs = .ok r ∧
      (r.txt.zip r.pos).filter (fun cp => !isSpace cp.1)
        = ((PlainMix4.plain T st1 repls drepls [] st1.itemStack 0 0 0 segs ++ PlainMix4.footBodies 0 segs).filter
            (fun cp => !isSpace cp.1)).map (fun cp => (cp.1, cp.2 + 1)) := by
  obtain ⟨r, h1, h2, h3, _⟩ :=
    C03_mix4_e2e T o fs thresh segs fuel st1 repls drepls hdefs hextr hrepl hunkn hinit hok hf
  refine ⟨r, h1, ?_⟩
  rw [h2, h3, List.zip_map', List.filter_map]
  have hw := PlainMix.delLines_words (PlainMix4.marks T st1 repls drepls [] st1.itemStack 0 0 0 segs)
  rw [PlainMix4.marks_chars] at hw
  have hfl := PlainMix4.flows_vis segs 0
  show List.map _ (List.filter PlainMix.vis _) = List.map _ (List.filter PlainMix.vis _)
  rw [List.filter_append, List.filter_append, hw, hfl]

/-- **no character is added, in particular no line break in the main flow**: the main part of the
    output is a subsequence of `PlainMix4.plain`, and it is followed by exactly the flows. -/
theorem C05_mix4_nothing_added (T : PTables) (o : Options) (fs : FS) (thresh : Nat)
    (segs : List PlainMix4.Seg) (fuel : Nat) (st1 : PState) (repls drepls : List Str)
    (hdefs : o.defs = []) (hextr : o.extr = []) (hrepl : o.hasRepl = false) (hunkn : o.unkn = false)
    (hinit : initParser T fuel o (initialState T o false fs) = .ok ((), st1))
    (hok : PlainMix4.SegsOk T st1 repls drepls segs)
    (hf : (PlainMix4.render segs).length + PlainMix4.inserted [] 0 segs + 6 ≤ fuel) :
    ∃ r, tex2txt T fuel (PlainMix4.render segs) o false thresh fs = .ok r ∧
      ∃ main, r.txt.zip r.pos
          = (main ++ PlainMix4.flows 0 segs).map (fun cp => (cp.1, cp.2 + 1)) ∧
        List.Sublist main (PlainMix4.plain T st1 repls drepls [] st1.itemStack 0 0 0 segs) := by
  obtain ⟨r, h1, h2, h3, _⟩ :=
    C03_mix4_e2e T o fs thresh segs fuel st1 repls drepls hdefs hextr hrepl hunkn hinit hok hf
  refine ⟨r, h1, PlainMacro.delLines (PlainMix4.marks T st1 repls drepls [] st1.itemStack 0 0 0 segs), ?_, ?_⟩
  · rw [h2, h3, List.zip_map']
  · have := PlainMix.delLines_sublist (PlainMix4.marks T st1 repls drepls [] st1.itemStack 0 0 0 segs)
    rw [PlainMix4.marks_chars] at this
    exact this

/-- **a line of the main flow is deleted iff it is pure.**  Split the marks of the document at a
    line: `A` (empty or ending with a line break), the line `L` (no line break), its line break
    `nlp`, the rest `B`.  Then the output is the output of `A`, followed by nothing if `L` is *pure*
    (`PlainMix.pureLine`: white space only and at least one text-less mark — the line and its line
    break are deleted) and by the characters of `L` and the line break otherwise, followed by the
    output of `B` and the flows. -/
theorem C05_mix4_lines (T : PTables) (o : Options) (fs : FS) (thresh : Nat)
    (segs : List PlainMix4.Seg) (fuel : Nat) (st1 : PState) (repls drepls : List Str)
    (hdefs : o.defs = []) (hextr : o.extr = []) (hrepl : o.hasRepl = false) (hunkn : o.unkn = false)
    (hinit : initParser T fuel o (initialState T o false fs) = .ok ((), st1))
    (hok : PlainMix4.SegsOk T st1 repls drepls segs)
    (hf : (PlainMix4.render segs).length + PlainMix4.inserted [] 0 segs + 6 ≤ fuel)
    (A L B : List PlainMacro.Mark) (nlp : Char × Nat)
    (hsplit : PlainMix4.marks T st1 repls drepls [] st1.itemStack 0 0 0 segs = A ++ (L ++ some nlp :: B))
    (hA : A = [] ∨ ∃ A' q, A = A' ++ [some q] ∧ (q.1 == nl) = true)
    (hL : L.any PlainMix.isNlMark = false) (hn : (nlp.1 == nl) = true) :
    ∃ r, tex2txt T fuel (PlainMix4.render segs) o false thresh fs = .ok r ∧
      r.txt = ((PlainMacro.delLines A ++ ((if PlainMix.pureLine L then [] else L.filterMap id ++ [nlp])
                ++ PlainMacro.delLines B)) ++ PlainMix4.flows 0 segs).map (·.1) ∧
      r.pos = ((PlainMacro.delLines A ++ ((if PlainMix.pureLine L then [] else L.filterMap id ++ [nlp])
                ++ PlainMacro.delLines B)) ++ PlainMix4.flows 0 segs).map (·.2 + 1) := by
  obtain ⟨r, h1, h2, h3, _⟩ :=
    C03_mix4_e2e T o fs thresh segs fuel st1 repls drepls hdefs hextr hrepl hunkn hinit hok hf
  rw [hsplit, PlainMix.delLines_mid A L B nlp hA hL hn] at h2 h3
  exact ⟨r, h1, h2, h3⟩

/-- … and the last line of the main flow (no line break behind it) -/
theorem C05_mix4_last_line (T : PTables) (o : Options) (fs : FS) (thresh : Nat)
    (segs : List PlainMix4.Seg) (fuel : Nat) (st1 : PState) (repls drepls : List Str)
    (hdefs : o.defs = []) (hextr : o.extr = []) (hrepl : o.hasRepl = false) (hunkn : o.unkn = false)
    (hinit : initParser T fuel o (initialState T o false fs) = .ok ((), st1))
    (hok : PlainMix4.SegsOk T st1 repls drepls segs)
    (hf : (PlainMix4.render segs).length + PlainMix4.inserted [] 0 segs + 6 ≤ fuel)
    (A L : List PlainMacro.Mark)
    (hsplit : PlainMix4.marks T st1 repls drepls [] st1.itemStack 0 0 0 segs = A ++ L)
    (hA : A = [] ∨ ∃ A' q, A = A' ++ [some q] ∧ (q.1 == nl) = true)
    (hL : L.any PlainMix.isNlMark = false) :
    ∃ r, tex2txt T fuel (PlainMix4.render segs) o false thresh fs = .ok r ∧
      r.txt = ((PlainMacro.delLines A ++ (if PlainMix.pureLine L then [] else L.filterMap id))
                ++ PlainMix4.flows 0 segs).map (·.1) ∧
      r.pos = ((PlainMacro.delLines A ++ (if PlainMix.pureLine L then [] else L.filterMap id))
                ++ PlainMix4.flows 0 segs).map (·.2 + 1) := by
  obtain ⟨r, h1, h2, h3, _⟩ :=
    C03_mix4_e2e T o fs thresh segs fuel st1 repls drepls hdefs hextr hrepl hunkn hinit hok hf
  rw [hsplit, PlainMix.delLines_end A L hA hL] at h2 h3
  exact ⟨r, h1, h2, h3⟩

/-- … when no line of the main flow is pure (`linesKept`, decidable): the output is
    `PlainMix4.plain` — the document with every definition removed and every use expanded —
    followed by the flows; nothing else added or removed -/
theorem C05_mix4_kept (T : PTables) (o : Options) (fs : FS) (thresh : Nat)
    (segs : List PlainMix4.Seg) (fuel : Nat) (st1 : PState) (repls drepls : List Str)
    (hdefs : o.defs = []) (hextr : o.extr = []) (hrepl : o.hasRepl = false) (hunkn : o.unkn = false)
    (hinit : initParser T fuel o (initialState T o false fs) = .ok ((), st1))
    (hok : PlainMix4.SegsOk T st1 repls drepls segs)
    (hf : (PlainMix4.render segs).length + PlainMix4.inserted [] 0 segs + 6 ≤ fuel)
    (hk : PlainMacro.linesKept true false (PlainMix4.marks T st1 repls drepls [] st1.itemStack 0 0 0 segs) = true) :
    ∃ r, tex2txt T fuel (PlainMix4.render segs) o false thresh fs = .ok r ∧
      r.txt = (PlainMix4.plain T st1 repls drepls [] st1.itemStack 0 0 0 segs ++ PlainMix4.flows 0 segs).map (·.1) ∧
      r.pos = (PlainMix4.plain T st1 repls drepls [] st1.itemStack 0 0 0 segs ++ PlainMix4.flows 0 segs).map (·.2 + 1) := by
  obtain ⟨r, h1, h2, h3, _⟩ :=
    C03_mix4_e2e T o fs thresh segs fuel st1 repls drepls hdefs hextr hrepl hunkn hinit hok hf
  rw [PlainMacro.delLines_kept _ hk, PlainMix4.marks_chars] at h2 h3
  exact ⟨r, h1, h2, h3⟩

/-- the end-to-end theorem for the CURRENT code (tables translated from /repo, default options,
    parser initialisation evaluated by the kernel) -/
theorem C03_mix4_e2e_current (segs : List PlainMix4.Seg) (repls drepls : List Str) (thresh : Nat)
    (hok : PlainMix4.SegsOk Generated.theTables Generated.stDefault repls drepls segs)
    (hf : (PlainMix4.render segs).length + PlainMix4.inserted [] 0 segs + 6 ≤ Generated.bigFuel) :
    ∃ r, tex2txt Generated.theTables Generated.bigFuel (PlainMix4.render segs) Generated.defaultOptions
          false thresh [] = .ok r ∧
      r.txt = (PlainMacro.delLines
                  (PlainMix4.marks Generated.theTables Generated.stDefault repls drepls []
                    Generated.stDefault.itemStack 0 0 0 segs)
                ++ PlainMix4.flows 0 segs).map (·.1) ∧
      r.pos = (PlainMacro.delLines
                  (PlainMix4.marks Generated.theTables Generated.stDefault repls drepls []
                    Generated.stDefault.itemStack 0 0 0 segs)
                ++ PlainMix4.flows 0 segs).map (·.2 + 1) ∧
      r.unknowns = (PlainMix4.unkNames [] segs).eraseDups ∧ r.diags = Generated.stDefault.diags :=
  C03_mix4_e2e Generated.theTables Generated.defaultOptions [] thresh segs Generated.bigFuel
    Generated.stDefault repls drepls rfl rfl rfl rfl Generated.initParser_default hok hf

/-- the inline placeholder collection of the current /repo for English -/
def C03_mix4_repls : List Str :=
  ["B-B-B", "C-C-C", "D-D-D", "E-E-E", "F-F-F", "G-G-G"].map String.toList

/-- the display placeholder collection of the current /repo for English -/
def C03_mix4_drepls : List Str :=
  ["U-U-U", "V-V-V", "W-W-W", "X-X-X", "Y-Y-Y", "Z-Z-Z"].map String.toList

/-- a document that uses every kind of segment.  Source:

        \pair{u} first
        \newcommand{\pair}[2]{(#1, #2)}
        \section{Intro}
        Alpha--beta \textbf{bold \emph{and $x^2+\alpha$ nested}} gamma\label{sec:a} see \ref{sec:a} and \cite{knuth84}, \cite[p. 3]{lamport}.\footnote{A note.} 100\% sure. % hidden
          Next {\foo a~b} caf\'e G\"{o}del \pair{a}{bc} and \pair{x}{y}{z} with \(\,y_1.\)
        \[ a+b = c. \]
        more \begin{equation}= z,\end{equation}
        \begin{enumerate}
        \item one \pair{p}{q}
        \begin{itemize}
        \item inner
        \end{itemize}
        \item two $z$
        \end{enumerate}
        \def\sw#1#2{(#2,#1)}
        Terms:
        \begin{itemize}
        \item [a] one \sw{x}{y}.
        \item[b] two
        \end{itemize}
        \begin{description}
        \item[key] value\par
        \end{description}
        \begin{figure}[ht]
        pic \caption[short]{Long cap}
        \end{figure}
        \begin{table}
        \caption{Tab} cell
        \end{table}
        note\footnotetext{late} \begin{minipage}{5cm}box\end{minipage}
        \bar % again
        \verb|x_$%| end.
        % last
-/
def C03_mix4_doc : List PlainMix4.Seg :=
  [.use "pair".toList ["u".toList], .txt " first\n".toList,
   .defn "pair".toList 2 [.lit "(".toList, .par 1, .lit ", ".toList, .par 2, .lit ")".toList],
   .txt "\n".toList, .head "section".toList "Intro".toList, .txt "\nAlpha".toList, .spc "--".toList,
   .txt "beta ".toList]
  ++ PlainMix4.mac "textbf".toList
      [[.txt "bold ".toList] ++ PlainMix4.mac "emph".toList
        [[.txt "and ".toList,
          .math false [.chars "x".toList, .spec "^".toList, .chars "2+".toList, .cw "alpha".toList],
          .txt " nested".toList]]]
  ++ [.txt " gamma".toList, .van "label".toList "sec:a".toList, .txt " see ".toList,
      .ref "ref".toList "sec:a".toList, .txt " and ".toList, .cite "cite".toList "knuth84".toList,
      .txt ", ".toList, .citeN "cite".toList "p. 3".toList "lamport".toList, .txt ".".toList,
      .foot "A note.".toList, .txt " 100".toList, .spc "\\%".toList, .txt " sure. ".toList,
      .com " hidden\n  ".toList, .txt "Next ".toList]
  ++ PlainMix4.grp [.cw "foo".toList " ".toList, .txt "a".toList, .spc "~".toList, .txt "b".toList]
  ++ [.txt " caf".toList, .acc "'".toList [] false 'e', .txt " G".toList, .acc "\"".toList [] true 'o',
      .txt "del ".toList, .use "pair".toList ["a".toList, "bc".toList], .txt " and ".toList,
      .use "pair".toList ["x".toList, "y".toList, "z".toList], .txt " with ".toList,
      .math true [.spec "\\,".toList, .chars "y".toList, .spec "_".toList, .chars "1.".toList],
      .txt "\n".toList, .disp " a+b = c. ".toList, .txt "\nmore ".toList,
      .denv "equation".toList "= z,".toList, .txt "\n".toList,
      .beg "enumerate".toList, .txt "\n".toList, .item " ".toList, .txt "one ".toList,
      .use "pair".toList ["p".toList, "q".toList], .txt "\n".toList,
      .beg "itemize".toList, .txt "\n".toList, .item " ".toList, .txt "inner\n".toList,
      .en "itemize".toList, .txt "\n".toList, .item " ".toList, .txt "two ".toList,
      .math false [.chars "z".toList], .txt "\n".toList, .en "enumerate".toList, .txt "\n".toList,
      .ddef "sw".toList 2 [.lit "(".toList, .par 2, .lit ",".toList, .par 1, .lit ")".toList],
      .txt "\nTerms:\n".toList, .beg "itemize".toList, .txt "\n".toList,
      .itemL " ".toList "a".toList (some ':'), .txt " one ".toList,
      .use "sw".toList ["x".toList, "y".toList], .txt ".\n".toList,
      .itemL [] "b".toList (some '.'), .txt " two\n".toList, .en "itemize".toList, .txt "\n".toList,
      .ubeg "description".toList, .txt "\n".toList, .itemL [] "key".toList none, .txt " value".toList,
      .ppar "\n".toList, .uen "description".toList, .txt "\n".toList,
      .fbegN "figure".toList "ht".toList, .txt "\npic ".toList,
      .callO "caption".toList "short".toList "Long cap".toList, .txt "\n".toList, .fen "figure".toList,
      .txt "\n".toList, .fbeg "table".toList "\n".toList, .call "caption".toList "Tab".toList,
      .txt " cell\n".toList, .fen "table".toList, .txt "\nnote".toList,
      .call "footnotetext".toList "late".toList, .txt " ".toList, .pbeg "minipage".toList "5cm".toList,
      .txt "box".toList, .pen "minipage".toList, .txt "\n".toList,
      .cw "bar".toList " ".toList, .com " again\n".toList,
      .verb '|' "x_$%".toList, .txt " end.\n".toList, .com " last".toList]

/-- the side conditions hold for it on the real tables -/
theorem C03_mix4_example_current :
    PlainMix4.SegsOk Generated.theTables Generated.stDefault C03_mix4_repls C03_mix4_drepls
      C03_mix4_doc := by
  decide +kernel

/-- … with the fuel of the instance -/
theorem C03_mix4_example_fuel :
    (PlainMix4.render C03_mix4_doc).length + PlainMix4.inserted [] 0 C03_mix4_doc + 6
      ≤ Generated.bigFuel := by
  decide +kernel

/-- … and this is what the theorem says about it: the reference output, text and positions.
    (The first `\pair{u}` precedes the definition: it is reported as unknown and its group is read as
    a plain group; the line with the `\newcommand` is pure and disappears; the heading gets its full
    stop; the first formula gives the second inline placeholder `C-C-C`; `\ref` gives `0`, the
    citations `[0]` and `[0, p. 3]`; `~` gives U+00A0; the accent calls give `é` and `ö`;
    `\pair{a}{bc}` gives `(a, bc)` — the arguments at their own positions; the third group of
    `\pair{x}{y}{z}` stays; the second formula starts with maths space and ends with a full stop:
    ` D-D-D.`; the displayed equations give two blanks, the display placeholders `V-V-V`, `W-W-W`
    and the closing punctuation; the `\begin` / `\end` lines of the lists are pure and disappear;
    the items of `enumerate` get ` 1. ` and ` 2. `, the item of the nested `itemize` the empty
    label between two blanks; the use and the formula inside the items work as elsewhere (third
    inline placeholder `E-E-E`); the line `\bar % again` is pure and disappears; the footnote body
    comes behind the main text, behind three line breaks.  New kinds: `\def\sw#1#2{(#2,#1)}` leaves a
    pure line; `\item [a]` behind `Terms:` repeats the colon: ` a:  one (y,x).`, `\item[b]` behind
    `(y,x).` the full stop: ` b.  two`; `\item[key]` behind `two` repeats nothing; `description` is
    reported as unknown; the lines with `\begin{description}`, `\end{description}`, `\begin{figure}[ht]`,
    `\end{figure}`, `\begin{table}`, `\end{table}` are pure and disappear, `\caption[short]{Long cap}`
    leaves `pic ` and its body among the flows (`short` is dropped), `\par` and the `minipage`
    commands leave paragraph breaks.) -/
theorem C03_mix4_example_ref :
    (PlainMacro.delLines (PlainMix4.marks Generated.theTables Generated.stDefault C03_mix4_repls C03_mix4_drepls []
        Generated.stDefault.itemStack 0 0 0 C03_mix4_doc) ++ PlainMix4.flows 0 C03_mix4_doc).map (·.1)
      = "u first\nIntro.\nAlpha–beta bold and C-C-C nested gamma see 0 and [0], [0, p. 3]. 100% sure. Next a b café Gödel (a, bc) and (x, y)z with  D-D-D.\n  V-V-V.\nmore   W-W-W,\n 1. one (p, q)\n  inner\n 2. two E-E-E\nTerms:\n a:  one (y,x).\n b.  two\n key  value\n\npic \n cell\nnote \n\nbox\n\n\nx_$% end.\n\n\n\nA note.\n\n\n\nLong cap\n\n\n\nTab\n\n\n\nlate\n".toList ∧
    (PlainMacro.delLines (PlainMix4.marks Generated.theTables Generated.stDefault C03_mix4_repls C03_mix4_drepls []
        Generated.stDefault.itemStack 0 0 0 C03_mix4_doc) ++ PlainMix4.flows 0 C03_mix4_doc).map (·.2 + 1)
      = [7, 9, 10, 11, 12, 13, 14, 15, 57, 58, 59, 60, 61, 61, 63, 64, 65, 66, 67, 68, 69, 71, 72,
         73, 74, 75, 84, 85, 86, 87, 88, 95, 96, 97, 98, 100, 100, 100, 100, 100, 111, 112, 113,
         114, 115, 116, 117, 120, 121, 122, 123, 124, 125, 139, 140, 141, 142, 143, 144, 155, 156,
         157, 158, 159, 160, 160, 160, 174, 175, 176, 176, 176, 176, 182, 183, 184, 185, 185, 196,
         215, 216, 217, 218, 219, 221, 222, 223, 224, 225, 226, 227, 239, 240, 241, 242, 243, 250,
         251, 252, 254, 255, 256, 257, 258, 261, 262, 263, 268, 269, 270, 271, 281, 278, 278, 278,
         281, 282, 282, 284, 285, 286, 287, 288, 298, 295, 295, 295, 298, 298, 301, 303, 304, 305,
         306, 307, 308, 311, 311, 311, 311, 311, 311, 311, 319, 320, 320, 323, 323, 323, 323, 323,
         323, 334, 335, 336, 337, 338, 339, 340, 340, 358, 358, 358, 358, 358, 356, 374, 393, 393,
         393, 393, 399, 400, 401, 402, 412, 409, 409, 409, 412, 412, 414, 431, 431, 437, 438, 439,
         440, 441, 442, 457, 457, 457, 457, 463, 464, 465, 466, 468, 468, 468, 468, 468, 470, 508,
         509, 510, 511, 512, 513, 514, 531, 538, 538, 538, 540, 541, 542, 543, 544, 549, 552, 552,
         549, 549, 554, 555, 556, 562, 562, 562, 564, 565, 566, 567, 568, 603, 609, 610, 611, 611,
         613, 614, 615, 616, 617, 618, 619, 619, 661, 662, 663, 664, 690, 731, 732, 733, 734, 735,
         736, 749, 750, 751, 752, 772, 773, 773, 794, 795, 796, 797, 797, 811, 831, 832, 833, 834,
         836, 837, 838, 839, 840, 841, 207, 207, 207, 207, 208, 209, 210, 211, 212, 213, 213, 681,
         681, 681, 681, 682, 683, 684, 685, 686, 687, 688, 688, 727, 727, 727, 727, 728, 729, 729,
         767, 767, 767, 767, 768, 769, 770, 770] ∧
    (PlainMix4.unkNames [] C03_mix4_doc).eraseDups
      = ["\\pair".toList, "\\textbf".toList, "\\emph".toList, "\\foo".toList, "description".toList, "\\bar".toList] := by
  decide +kernel

/-- … which is what the model computes (evaluated by the kernel): text, positions, unknowns -/
theorem C03_mix4_example_eval :
    (match tex2txt Generated.theTables Generated.bigFuel (PlainMix4.render C03_mix4_doc)
        Generated.defaultOptions false 0 [] with
     | .ok r =>
       r.txt == "u first\nIntro.\nAlpha–beta bold and C-C-C nested gamma see 0 and [0], [0, p. 3]. 100% sure. Next a b café Gödel (a, bc) and (x, y)z with  D-D-D.\n  V-V-V.\nmore   W-W-W,\n 1. one (p, q)\n  inner\n 2. two E-E-E\nTerms:\n a:  one (y,x).\n b.  two\n key  value\n\npic \n cell\nnote \n\nbox\n\n\nx_$% end.\n\n\n\nA note.\n\n\n\nLong cap\n\n\n\nTab\n\n\n\nlate\n".toList &&
       r.pos == [7, 9, 10, 11, 12, 13, 14, 15, 57, 58, 59, 60, 61, 61, 63, 64, 65, 66, 67, 68, 69, 71, 72,
         73, 74, 75, 84, 85, 86, 87, 88, 95, 96, 97, 98, 100, 100, 100, 100, 100, 111, 112, 113,
         114, 115, 116, 117, 120, 121, 122, 123, 124, 125, 139, 140, 141, 142, 143, 144, 155, 156,
         157, 158, 159, 160, 160, 160, 174, 175, 176, 176, 176, 176, 182, 183, 184, 185, 185, 196,
         215, 216, 217, 218, 219, 221, 222, 223, 224, 225, 226, 227, 239, 240, 241, 242, 243, 250,
         251, 252, 254, 255, 256, 257, 258, 261, 262, 263, 268, 269, 270, 271, 281, 278, 278, 278,
         281, 282, 282, 284, 285, 286, 287, 288, 298, 295, 295, 295, 298, 298, 301, 303, 304, 305,
         306, 307, 308, 311, 311, 311, 311, 311, 311, 311, 319, 320, 320, 323, 323, 323, 323, 323,
         323, 334, 335, 336, 337, 338, 339, 340, 340, 358, 358, 358, 358, 358, 356, 374, 393, 393,
         393, 393, 399, 400, 401, 402, 412, 409, 409, 409, 412, 412, 414, 431, 431, 437, 438, 439,
         440, 441, 442, 457, 457, 457, 457, 463, 464, 465, 466, 468, 468, 468, 468, 468, 470, 508,
         509, 510, 511, 512, 513, 514, 531, 538, 538, 538, 540, 541, 542, 543, 544, 549, 552, 552,
         549, 549, 554, 555, 556, 562, 562, 562, 564, 565, 566, 567, 568, 603, 609, 610, 611, 611,
         613, 614, 615, 616, 617, 618, 619, 619, 661, 662, 663, 664, 690, 731, 732, 733, 734, 735,
         736, 749, 750, 751, 752, 772, 773, 773, 794, 795, 796, 797, 797, 811, 831, 832, 833, 834,
         836, 837, 838, 839, 840, 841, 207, 207, 207, 207, 208, 209, 210, 211, 212, 213, 213, 681,
         681, 681, 681, 682, 683, 684, 685, 686, 687, 688, 688, 727, 727, 727, 727, 728, 729, 729,
         767, 767, 767, 767, 768, 769, 770, 770] &&
       r.unknowns == ["\\pair".toList, "\\textbf".toList, "\\emph".toList, "\\foo".toList, "description".toList, "\\bar".toList]
     | _ => false) = true := by
  decide +kernel

end Yalafi
