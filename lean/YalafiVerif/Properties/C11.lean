/-
  Properties/C11.lean — displayed equations follow the documented scheme.

  Proved so far (all inputs): the rotation of the placeholder list keeps length and
  elements and advances the head by one; `detect_math_parts` never leaves a maths token
  outside a part; every token generated for an equation is output-class and in range
  (C01/C03 bundle: `SpecDisplay`).  The rewriting scheme itself (rows × sections × parts,
  operator words, punctuation, rotation points, simple mode) is checked on the
  implementation against a transcription of the README rules for every generated equation.
-/
import YalafiVerif.Properties.C10
import YalafiVerif.Proofs.Inv.Main
import YalafiVerif.Generated.Tables
import YalafiVerif.Model.Scanner
import YalafiVerif.Properties.PlainDisplayStmt
import YalafiVerif.Properties.PlainDispRowsStmt
namespace Yalafi

theorem C11_rot_length (l : List Str) : (rotL l).length = l.length := C10_rot_length l

theorem C11_detectParts_tok (ts cur : List Tok) :
    ∀ it ∈ detectMathParts ts cur, ∀ t, it = .tok t → isMathTok t = false :=
  C10_detectParts_tok ts cur

/-- every token an equation contributes to the output is of an output class and anchored
    inside the text (no maths source token survives) — for all inputs, from the bundle -/
theorem C11_display_tokens (T : PTables) (hw : T.WFInv) (nroot fuel : Nat) (buf : Buf) (tok : Tok)
    (envName : Str) (remove : Bool) (st : PState)
    (hg : G T nroot st) (hb : BL T st.latex.length buf) (ht : BTok T st.latex.length tok)
    (he : (endFuncNames T).contains envName = false) :
    Post (expandDisplayMath T fuel buf tok envName remove st) (fun r _ => OL T st.latex.length r.1) := by
  have h := (allSpecs T hw nroot fuel).display buf tok envName remove st hg hb ht he
  exact Post_mono _ _ _ h (fun r _ hr => hr.2.1)

end Yalafi
