/-
  Properties/PlainDefTexStmt.lean — C09 "user macro definitions expand by TeX substitution": the end-to-end
  theorems for definitions made with `\def` (undelimited parameters), Proofs/PlainDefTex*.lean.
-/
import YalafiVerif.Proofs.PlainDefTex
import YalafiVerif.Proofs.PlainDefTexNest
import YalafiVerif.Generated.Init
namespace Yalafi

/-- **a definition made with `\def\name#1#2…#n{body}` expands by substitution**, end to end on the filter
    model, in documents that may also use `\newcommand{\name}[n]{body}`.

    Documents: `render segs` over inert text, definitions `\newcommand{\name}[n]{body}` and
    `\def\name#1#2…#n{body}` (undelimited parameters `#1 … #n` in order, `0 ≤ n ≤ 9`; body = pieces
    `lit s` (inert text) | `par k` (`#k`, `1 ≤ k ≤ n`), any number of occurrences) and uses
    `\name{a1}…{am}` (`m ≥ 1`, every argument braced, non-empty, inert, brace-free) with at least as many
    groups as the definition in force has parameters.

    Claim: `tex2txt` succeeds and text / 1-based positions are `delLines (segMarks [] 0 segs)`, the
    reference of `C09_newcommand_args_e2e` (`PlainMacroArgs.bodyMarks`, `startCur`, `groupMarks`):
    * text keeps its own positions; a definition of either kind leaves no text (one Action mark) and is
      in force BEHIND it; `\def` and `\newcommand` may redefine each other, also with another number of
      parameters: the latest earlier definition counts; a use before the definition is an unknown macro;
    * a use of a defined name is replaced by the body with every `#k` replaced by the text of the k-th
      argument, every character of an argument mapped to ITS OWN source position; literal characters of
      the body are placed as described at `C09_newcommand_args_e2e`;
    * groups beyond the n-th, and all groups of a use of an undefined name, are copied; an undefined
      name goes to `unknowns`;
    * then `remove_pure_action_lines` (`delLines`); no diagnostic is added. -/
theorem C09_def_e2e (T : PTables) (o : Options) (fs : FS) (thresh : Nat)
    (segs : List PlainDefTex.Seg) (fuel : Nat) (st1 : PState)
    (hdefs : o.defs = []) (hextr : o.extr = []) (hrepl : o.hasRepl = false) (hunkn : o.unkn = false)
    (hinit : initParser T fuel o (initialState T o false fs) = .ok ((), st1))
    (hok : PlainDefTex.SegsOk T st1 segs)
    (hf : (PlainDefTex.render segs).length + PlainDefTex.segInserted [] 0 segs + 6 ≤ fuel) :
    ∃ r, tex2txt T fuel (PlainDefTex.render segs) o false thresh fs = .ok r ∧
      r.txt = (PlainMacro.delLines (PlainDefTex.segMarks [] 0 segs)).map (·.1) ∧
      r.pos = (PlainMacro.delLines (PlainDefTex.segMarks [] 0 segs)).map (·.2 + 1) ∧
      r.unknowns = (PlainDefTex.segUnknowns [] segs).eraseDups ∧
      r.diags = st1.diags ∧ r.parts = [] :=
  PlainDefTex.tex2txt_def T o fs thresh segs fuel st1 hdefs hextr hrepl hunkn hinit hok hf

/-- the document of the `_current` instance -/
def defExample : List PlainDefTex.Seg :=
  [.txt "A ".toList, .use "pq".toList ["o".toList], .txt " B\n".toList,
   .ddef "pq".toList 2 [.lit "(".toList, .par 2, .lit ",".toList, .par 1, .lit ")".toList],
   .txt "\nX ".toList, .use "pq".toList ["uu".toList, "v w".toList], .txt " Y\n".toList,
   .defn "pq".toList 1 [.lit "<".toList, .par 1, .lit ">".toList],
   .txt "\nU ".toList, .use "pq".toList ["k".toList, "l".toList], .txt " V\n".toList,
   .ddef "pq".toList 0 [.lit "!".toList],
   .txt "\nW ".toList, .use "pq".toList ["m".toList], .txt ".\n".toList]

theorem defExample_render :
    PlainDefTex.render defExample
      = ("A \\pq{o} B\n\\def\\pq#1#2{(#2,#1)}\nX \\pq{uu}{v w} Y\n" ++
         "\\newcommand{\\pq}[1]{<#1>}\nU \\pq{k}{l} V\n\\def\\pq{!}\nW \\pq{m}.\n").toList := by
  decide +kernel

/-- the document (a use before any definition; a two-parameter `\def`; a redefinition with
    `\newcommand` and one parameter, used with a surplus group; a redefinition with a parameterless
    `\def`) satisfies all side conditions for the parser initialised from the tables of the current
    /repo -/
theorem C09_def_current :
    PlainDefTex.SegsOk Generated.theTables Generated.stDefault defExample := by
  decide +kernel

/-- the reference output for that document, evaluated -/
theorem C09_def_current_ref :
    (PlainMacro.delLines (PlainDefTex.segMarks [] 0 defExample)).map (·.1)
        = "A o B\nX (v w,uu) Y\nU <k>l V\nW !m.\n".toList ∧
    (PlainMacro.delLines (PlainDefTex.segMarks [] 0 defExample)).map (·.2 + 1)
        = [1, 2, 7, 9, 10, 11, 33, 34, 39, 43, 44, 45, 45, 39, 40, 40, 47, 48, 49, 76, 77, 82, 82, 82, 85, 87,
           88, 89, 101, 102, 103, 107, 109, 110] ∧
    (PlainDefTex.segUnknowns [] defExample).eraseDups = ["\\pq".toList] := by
  decide +kernel

/-- … and so `tex2txt` on the real tables yields exactly that (instance of the theorem):
    `\pq{o}` in front of the first definition is an unknown macro (its group is copied); `\pq{uu}{v w}`
    under `\def\pq#1#2{(#2,#1)}` gives `(v w,uu)`, the argument characters at their own positions
    43–45 and 39–40; under the later `\newcommand{\pq}[1]{<#1>}` `\pq{k}{l}` gives `<k>l`; under the
    last `\def\pq{!}` `\pq{m}` gives `!m` -/
theorem C09_def_current_e2e :
    ∃ r, tex2txt Generated.theTables Generated.bigFuel
        ("A \\pq{o} B\n\\def\\pq#1#2{(#2,#1)}\nX \\pq{uu}{v w} Y\n" ++
         "\\newcommand{\\pq}[1]{<#1>}\nU \\pq{k}{l} V\n\\def\\pq{!}\nW \\pq{m}.\n").toList
        Generated.defaultOptions false 0 [] = .ok r ∧
      r.txt = "A o B\nX (v w,uu) Y\nU <k>l V\nW !m.\n".toList ∧
      r.pos = [1, 2, 7, 9, 10, 11, 33, 34, 39, 43, 44, 45, 45, 39, 40, 40, 47, 48, 49, 76, 77, 82, 82, 82, 85,
               87, 88, 89, 101, 102, 103, 107, 109, 110] ∧
      r.unknowns = ["\\pq".toList] ∧ r.diags = Generated.stDefault.diags := by
  obtain ⟨r, h1, h2, h3, h4, h5, _⟩ := C09_def_e2e Generated.theTables Generated.defaultOptions []
    0 defExample Generated.bigFuel Generated.stDefault rfl rfl rfl rfl Generated.initParser_default
    C09_def_current (by decide +kernel)
  obtain ⟨e1, e2, e3⟩ := C09_def_current_ref
  rw [defExample_render] at h1
  exact ⟨r, h1, h2.trans e1, h3.trans e2, h4.trans e3, h5⟩

/-- the same run evaluated directly by the kernel (no theorem involved) -/
theorem C09_def_current_eval :
    (match tex2txt Generated.theTables Generated.bigFuel
        ("A \\pq{o} B\n\\def\\pq#1#2{(#2,#1)}\nX \\pq{uu}{v w} Y\n" ++
         "\\newcommand{\\pq}[1]{<#1>}\nU \\pq{k}{l} V\n\\def\\pq{!}\nW \\pq{m}.\n").toList
        Generated.defaultOptions false 0 [] with
     | .ok r =>
       r.txt == "A o B\nX (v w,uu) Y\nU <k>l V\nW !m.\n".toList &&
       r.pos == [1, 2, 7, 9, 10, 11, 33, 34, 39, 43, 44, 45, 45, 39, 40, 40, 47, 48, 49, 76, 77, 82, 82, 82, 85,
                 87, 88, 89, 101, 102, 103, 107, 109, 110] &&
       r.unknowns == ["\\pq".toList]
     | _ => false) = true := by
  decide +kernel

/-! ### nested uses -/

/-- **nested uses expand fully**, end to end on the filter model.

    Documents: `render segs` over inert text, definitions `\newcommand{\name}[n]{body}` and
    `\def\name#1…#n{body}` whose body is a list of pieces `lit s` (inert text) | `par k` (`#k`) | `cs m`
    (the name `\m`) | `lb` (`{`) | `rb` (`}`) with balanced braces — so a body may CALL other user macros,
    `\m{…}{…}`, the arguments being such bodies again, to any depth — and uses `\name` followed by
    arguments `br sp s` (`{s}`, inert text) or `tk sp c` (one unbraced character, see
    `C09_single_token_args_e2e`), each possibly behind white space `sp`.

    Reference (`PlainDefTexNest.segMarks F`): text keeps its positions; a definition leaves one mark and
    is in force behind it; a use of a defined name is given to the abstract machine
    `PlainDefTexNest.evalPE env F (usePE p name args)`: a macro name is replaced by the INSTANTIATED body
    (`inst`) of the definition in force at the time of the use, which is put in front of the remaining
    elements and evaluated in turn (`F` = number of machine steps allowed).  In `inst`, `#k` becomes the
    k-th actual argument — the characters of an argument of the document always carry THEIR OWN source
    positions, however deep they are handed down and however often they are copied — and every literal
    character, name or brace of a body is pinned to a position inside the outermost call: the front of
    the value that is referenced last in the body (the call position if there is none), resp. the end
    of the value substituted before.

    Claim: if the machine succeeds within `F` steps (`segMarks F [] 0 segs = some marks`; this contains
    "non-recursive": a recursive definition never terminates; and the class restrictions listed in
    Proofs/PlainDefTexNest.lean: called names defined with non-empty bodies, the groups directly behind
    the name, no empty group) then `tex2txt` succeeds, text / 1-based positions are `delLines marks`,
    `unknowns` are the names used at top level while undefined, no diagnostic is added. -/
theorem C09_nested_uses_e2e (T : PTables) (o : Options) (fs : FS) (thresh : Nat)
    (segs : List PlainDefTexNest.Seg) (fuel : Nat) (st1 : PState) (F : Nat) (marks : List PlainMacro.Mark)
    (hdefs : o.defs = []) (hextr : o.extr = []) (hrepl : o.hasRepl = false) (hunkn : o.unkn = false)
    (hinit : initParser T fuel o (initialState T o false fs) = .ok ((), st1))
    (hok : PlainDefTexNest.SegsOk T st1 segs)
    (hm : PlainDefTexNest.segMarks F [] 0 segs = some marks)
    (hf : 2 * marks.length + 6 ≤ fuel) :
    ∃ r, tex2txt T fuel (PlainDefTexNest.render segs) o false thresh fs = .ok r ∧
      r.txt = (PlainMacro.delLines marks).map (·.1) ∧
      r.pos = (PlainMacro.delLines marks).map (·.2 + 1) ∧
      r.unknowns = (PlainDefTexNest.segUnknowns [] segs).eraseDups ∧
      r.diags = st1.diags ∧ r.parts = [] :=
  PlainDefTexNest.tex2txt_nested T o fs thresh segs fuel st1 F marks hdefs hextr hrepl hunkn hinit hok hm hf

/-- what the machine does with the example of the task, as an equation for EVERY argument text `x`:
    under `\newcommand{\inner}[1]{<#1>}`, `\newcommand{\outer}[1]{a\inner{#1}b}` the use `\outer{x}` at
    position `p` yields `a<x>b`: `a` and `<` at the first character of `x` (`p+7`), `x` with its own
    positions, `>` and `b` at the last token of `x`; the `none`s are the Action marks (they matter for
    the removal of blank lines only) -/
theorem C09_nested_uses_machine (p : Nat) (x : Str) :
    PlainDefTexNest.evalPE
        [("outer".toList, 1, [.lit "a".toList, .cs "inner".toList, .lb, .par 1, .rb, .lit "b".toList]),
         ("inner".toList, 1, [.lit "<".toList, .par 1, .lit ">".toList])] 30
        (PlainDefTexNest.usePE p "outer".toList [.br [] x])
      = some ([none, some ('a', p + 7), none, some ('<', p + 7), none, none] ++
              ((posText (p + 7) x).map some ++
               [none, none, some ('>', p + 7 + PlainMacroArgs.lastTokStart x),
                some ('b', p + 7 + PlainMacroArgs.lastTokStart x)])) := by
  simp [PlainDefTexNest.evalPE, PlainDefTexNest.usePE, PlainDefTexNest.argsPE, PlainDefTexNest.spPE,
    PlainDefTexNest.lookupDefN, PlainDefTexNest.dropSp, PlainDefTexNest.noSkip, PlainDefTexNest.takeGroups,
    PlainDefTexNest.takeArg, PlainDefTexNest.splitGroup, PlainDefTexNest.inst, PlainDefTexNest.instCur,
    PlainDefTexNest.valAt, PlainDefTexNest.hdOf, PlainDefTexNest.lstOf, PlainDefTexNest.PE.hd,
    PlainDefTexNest.PE.lst]

/-- the document of the `_current` instance (three levels: `\two` calls `\outer` calls `\inner`; `#1`
    is used twice inside an argument of a nested call) -/
def nestedExample : List PlainDefTexNest.Seg :=
  [.defn "inner".toList 1 [.lit "<".toList, .par 1, .lit ">".toList], .txt "\n".toList,
   .defn "outer".toList 1 [.lit "a".toList, .cs "inner".toList, .lb, .par 1, .rb, .lit "b".toList],
   .txt "\n".toList,
   .defn "two".toList 2 [.cs "outer".toList, .lb, .par 2, .rb, .lit "+".toList, .cs "inner".toList, .lb,
     .par 1, .lit "|".toList, .par 1, .rb],
   .txt "\nX ".toList, .use "outer".toList [.br [] "x".toList], .txt " Y ".toList,
   .use "two".toList [.br [] "p q".toList, .br [] "r".toList], .txt ".\n".toList]

theorem nestedExample_render :
    PlainDefTexNest.render nestedExample
      = ("\\newcommand{\\inner}[1]{<#1>}\n\\newcommand{\\outer}[1]{a\\inner{#1}b}\n" ++
         "\\newcommand{\\two}[2]{\\outer{#2}+\\inner{#1|#1}}\nX \\outer{x} Y \\two{p q}{r}.\n").toList := by
  decide +kernel

/-- the document satisfies all side conditions for the parser initialised from the tables of the
    current /repo -/
theorem C09_nested_uses_current :
    PlainDefTexNest.SegsOk Generated.theTables Generated.stDefault nestedExample := by
  decide +kernel

/-- the reference machine succeeds on it within 60 steps per use; its output, evaluated:
    `\outer{x}` ↦ `a<x>b`, all literals at position 123 = the `x` of the call (1-based), `x` itself at 123;
    `\two{p q}{r}` ↦ `a<r>b+<p q|p q>`: `r` at its own position 138, both copies of `p q` at their own
    positions 133–135, every literal inside the call -/
theorem C09_nested_uses_current_ref :
    ∃ marks, PlainDefTexNest.segMarks 60 [] 0 nestedExample = some marks ∧ marks.length = 55 ∧
      (PlainMacro.delLines marks).map (·.1) = "X a<x>b Y a<r>b+<p q|p q>.\n".toList ∧
      (PlainMacro.delLines marks).map (·.2 + 1)
        = [114, 115, 123, 123, 123, 123, 123, 125, 126, 127, 138, 138, 138, 138, 138, 138, 133, 133, 134, 135,
           135, 133, 134, 135, 135, 140, 141] ∧
      (PlainDefTexNest.segUnknowns [] nestedExample).eraseDups = [] := by
  refine ⟨(PlainDefTexNest.segMarks 60 [] 0 nestedExample).getD [], ?_, ?_, ?_, ?_, ?_⟩ <;> decide +kernel

/-- … and so `tex2txt` on the real tables yields exactly that (instance of the theorem) -/
theorem C09_nested_uses_current_e2e :
    ∃ r, tex2txt Generated.theTables Generated.bigFuel
        ("\\newcommand{\\inner}[1]{<#1>}\n\\newcommand{\\outer}[1]{a\\inner{#1}b}\n" ++
         "\\newcommand{\\two}[2]{\\outer{#2}+\\inner{#1|#1}}\nX \\outer{x} Y \\two{p q}{r}.\n").toList
        Generated.defaultOptions false 0 [] = .ok r ∧
      r.txt = "X a<x>b Y a<r>b+<p q|p q>.\n".toList ∧
      r.pos = [114, 115, 123, 123, 123, 123, 123, 125, 126, 127, 138, 138, 138, 138, 138, 138, 133, 133, 134,
               135, 135, 133, 134, 135, 135, 140, 141] ∧
      r.unknowns = [] ∧ r.diags = Generated.stDefault.diags := by
  obtain ⟨marks, hm, hl, e1, e2, e3⟩ := C09_nested_uses_current_ref
  obtain ⟨r, h1, h2, h3, h4, h5, _⟩ := C09_nested_uses_e2e Generated.theTables Generated.defaultOptions []
    0 nestedExample Generated.bigFuel Generated.stDefault 60 marks rfl rfl rfl rfl
    Generated.initParser_default C09_nested_uses_current hm (by rw [hl]; decide)
  rw [nestedExample_render] at h1
  exact ⟨r, h1, h2.trans e1, h3.trans e2, h4.trans e3, h5⟩

/-- the same run evaluated directly by the kernel (no theorem involved) -/
theorem C09_nested_uses_current_eval :
    (match tex2txt Generated.theTables Generated.bigFuel
        ("\\newcommand{\\inner}[1]{<#1>}\n\\newcommand{\\outer}[1]{a\\inner{#1}b}\n" ++
         "\\newcommand{\\two}[2]{\\outer{#2}+\\inner{#1|#1}}\nX \\outer{x} Y \\two{p q}{r}.\n").toList
        Generated.defaultOptions false 0 [] with
     | .ok r =>
       r.txt == "X a<x>b Y a<r>b+<p q|p q>.\n".toList &&
       r.pos == [114, 115, 123, 123, 123, 123, 123, 125, 126, 127, 138, 138, 138, 138, 138, 138, 133, 133, 134,
                 135, 135, 133, 134, 135, 135, 140, 141] &&
       r.unknowns.isEmpty
     | _ => false) = true := by
  decide +kernel

/-! ### unbraced single-token arguments -/

/-- **an unbraced argument is ONE token**, end to end on the filter model (this is
    `C09_nested_uses_e2e` read for uses with arguments `tk sp c`; same documents, same reference).

    What the reference (`PlainDefTexNest.takeGroups` / `takeArg` / `dropSp` inside `evalPE`) says about a
    use `\name` followed by arguments, for a macro defined by `\newcommand` or by `\def` with `n`
    parameters:
    * white space of the document behind the name and in front of each of the first `n` arguments is
      skipped (it leaves no text); at most one line break (two are a paragraph: not covered);
    * an argument is a brace group `{s}` or ONE visible character `c` — `\pq ab` hands `a` to `#1` and `b`
      to `#2`; `\pq  c {d e}f` hands `c`, `d e`; `f` is ordinary text behind the use;
    * the character keeps ITS OWN source position wherever the body puts it (between two Action marks,
      like a braced argument); literal characters of the body behind `#k` are pinned to that position;
    * arguments beyond the `n`-th are not consumed: white space, characters, groups are copied;
    * a use of an undefined name: an Action mark, the white space directly behind the name is skipped
      (this is what the model does for every macro name), the rest is copied; the name is listed.
    "One token" for the scanner is one character of text; a special sequence of the tables that starts
    at the character (e.g. `--`) would be ONE token and go to the macro as a whole — excluded by the
    side condition `txtAt` in `argsOkB` (evaluated on the model: `\def\pq#1#2{(#2,#1)}` … `\pq a--b` gives
    `(–,a)b`).  The character must not be active, a brace, `%`, `#`, `$`, `\` or white space. -/
theorem C09_single_token_args_e2e (T : PTables) (o : Options) (fs : FS) (thresh : Nat)
    (segs : List PlainDefTexNest.Seg) (fuel : Nat) (st1 : PState) (F : Nat) (marks : List PlainMacro.Mark)
    (hdefs : o.defs = []) (hextr : o.extr = []) (hrepl : o.hasRepl = false) (hunkn : o.unkn = false)
    (hinit : initParser T fuel o (initialState T o false fs) = .ok ((), st1))
    (hok : PlainDefTexNest.SegsOk T st1 segs)
    (hm : PlainDefTexNest.segMarks F [] 0 segs = some marks)
    (hf : 2 * marks.length + 6 ≤ fuel) :
    ∃ r, tex2txt T fuel (PlainDefTexNest.render segs) o false thresh fs = .ok r ∧
      r.txt = (PlainMacro.delLines marks).map (·.1) ∧
      r.pos = (PlainMacro.delLines marks).map (·.2 + 1) ∧
      r.unknowns = (PlainDefTexNest.segUnknowns [] segs).eraseDups ∧
      r.diags = st1.diags ∧ r.parts = [] :=
  PlainDefTexNest.tex2txt_nested T o fs thresh segs fuel st1 F marks hdefs hextr hrepl hunkn hinit hok hm hf

/-- what the machine does with one use of a flat binary macro and two unbraced characters, as an
    equation: `\pq ab` at position `p` with body `(#2,#1)`: `a` (position `p+4`) is `#1`, `b` (`p+5`) is `#2`,
    the blank at `p+3` vanishes -/
theorem C09_single_token_args_machine (p : Nat) :
    PlainDefTexNest.evalPE
        [("pq".toList, 2, [.lit "(".toList, .par 2, .lit ",".toList, .par 1, .lit ")".toList])] 20
        (PlainDefTexNest.usePE p "pq".toList [.tk " ".toList 'a', .tk [] 'b'])
      = some [none, some ('(', p + 4), none, some ('b', p + 5), none, some (',', p + 5), none,
              some ('a', p + 4), none, some (')', p + 4)] := by
  simp [PlainDefTexNest.evalPE, PlainDefTexNest.usePE, PlainDefTexNest.argsPE, PlainDefTexNest.spPE,
    PlainDefTexNest.lookupDefN, PlainDefTexNest.dropSp, PlainDefTexNest.noSkip, PlainDefTexNest.takeGroups,
    PlainDefTexNest.takeArg, PlainDefTexNest.inst, PlainDefTexNest.instCur, PlainDefTexNest.valAt,
    PlainDefTexNest.hdOf, PlainDefTexNest.lstOf, PlainDefTexNest.PE.hd, PlainDefTexNest.PE.lst]

/-- the document of the `_current` instance:
    `\def\pq#1#2{(#2,#1)}` / `\newcommand{\rr}[1]{<\pq{#1}{#1}>}` /
    `X \pq{uu}{vv} Y \pq ab Z \pq  c {d e}f \rr⏎gh \zz i{j}.` -/
def tokExample : List PlainDefTexNest.Seg :=
  [.ddef "pq".toList 2 [.lit "(".toList, .par 2, .lit ",".toList, .par 1, .lit ")".toList], .txt "\n".toList,
   .defn "rr".toList 1 [.lit "<".toList, .cs "pq".toList, .lb, .par 1, .rb, .lb, .par 1, .rb, .lit ">".toList],
   .txt "\nX ".toList, .use "pq".toList [.br [] "uu".toList, .br [] "vv".toList], .txt " Y ".toList,
   .use "pq".toList [.tk " ".toList 'a', .tk [] 'b'], .txt " Z ".toList,
   .use "pq".toList [.tk "  ".toList 'c', .br " ".toList "d e".toList, .tk [] 'f'], .txt " ".toList,
   .use "rr".toList [.tk "\n".toList 'g'], .txt "h ".toList,
   .use "zz".toList [.tk " ".toList 'i', .br [] "j".toList], .txt ".\n".toList]

theorem tokExample_render :
    PlainDefTexNest.render tokExample
      = ("\\def\\pq#1#2{(#2,#1)}\n\\newcommand{\\rr}[1]{<\\pq{#1}{#1}>}\n" ++
         "X \\pq{uu}{vv} Y \\pq ab Z \\pq  c {d e}f \\rr\ngh \\zz i{j}.\n").toList := by
  decide +kernel

/-- the document (a `\def`-defined binary macro used with braced, with unbraced and with mixed
    arguments, blanks in front of them; a `\newcommand`-defined macro that calls it, used with an
    unbraced argument behind a line break; an undefined name) satisfies all side conditions for the
    parser initialised from the tables of the current /repo -/
theorem C09_single_token_args_current :
    PlainDefTexNest.SegsOk Generated.theTables Generated.stDefault tokExample := by
  decide +kernel

/-- the reference machine succeeds on it within 40 steps per use; its output, evaluated:
    `\pq ab` ↦ `(b,a)` with `a` at 77, `b` at 78 (1-based; their own positions), `(` at 77 (front of the
    argument referenced last, `#1`), `,` at 78, `)` at 77; `\pq  c {d e}f` ↦ `(d e,c)` and `f` stays text;
    `\rr⏎g` ↦ `<(g,g)>` everything at 100 = the `g`; `\zz i{j}` ↦ `ij`, `\zz` unknown -/
theorem C09_single_token_args_current_ref :
    ∃ marks, PlainDefTexNest.segMarks 40 [] 0 tokExample = some marks ∧ marks.length = 74 ∧
      (PlainMacro.delLines marks).map (·.1) = "X (vv,uu) Y (b,a) Z (d e,c)f <(g,g)>h ij.\n".toList ∧
      (PlainMacro.delLines marks).map (·.2 + 1)
        = [57, 58, 63, 67, 68, 68, 63, 64, 64, 70, 71, 72, 77, 78, 78, 77, 77, 79, 80, 81, 87, 90, 91, 92, 92,
           87, 87, 94, 95, 100, 100, 100, 100, 100, 100, 100, 101, 102, 107, 109, 111, 112] ∧
      (PlainDefTexNest.segUnknowns [] tokExample).eraseDups = ["\\zz".toList] := by
  refine ⟨(PlainDefTexNest.segMarks 40 [] 0 tokExample).getD [], ?_, ?_, ?_, ?_, ?_⟩ <;> decide +kernel

/-- … and so `tex2txt` on the real tables yields exactly that (instance of the theorem) -/
theorem C09_single_token_args_current_e2e :
    ∃ r, tex2txt Generated.theTables Generated.bigFuel
        ("\\def\\pq#1#2{(#2,#1)}\n\\newcommand{\\rr}[1]{<\\pq{#1}{#1}>}\n" ++
         "X \\pq{uu}{vv} Y \\pq ab Z \\pq  c {d e}f \\rr\ngh \\zz i{j}.\n").toList
        Generated.defaultOptions false 0 [] = .ok r ∧
      r.txt = "X (vv,uu) Y (b,a) Z (d e,c)f <(g,g)>h ij.\n".toList ∧
      r.pos = [57, 58, 63, 67, 68, 68, 63, 64, 64, 70, 71, 72, 77, 78, 78, 77, 77, 79, 80, 81, 87, 90, 91, 92,
               92, 87, 87, 94, 95, 100, 100, 100, 100, 100, 100, 100, 101, 102, 107, 109, 111, 112] ∧
      r.unknowns = ["\\zz".toList] ∧ r.diags = Generated.stDefault.diags := by
  obtain ⟨marks, hm, hl, e1, e2, e3⟩ := C09_single_token_args_current_ref
  obtain ⟨r, h1, h2, h3, h4, h5, _⟩ := C09_single_token_args_e2e Generated.theTables Generated.defaultOptions []
    0 tokExample Generated.bigFuel Generated.stDefault 40 marks rfl rfl rfl rfl
    Generated.initParser_default C09_single_token_args_current hm (by rw [hl]; decide)
  rw [tokExample_render] at h1
  exact ⟨r, h1, h2.trans e1, h3.trans e2, h4.trans e3, h5⟩

/-- the same run evaluated directly by the kernel (no theorem involved) -/
theorem C09_single_token_args_current_eval :
    (match tex2txt Generated.theTables Generated.bigFuel
        ("\\def\\pq#1#2{(#2,#1)}\n\\newcommand{\\rr}[1]{<\\pq{#1}{#1}>}\n" ++
         "X \\pq{uu}{vv} Y \\pq ab Z \\pq  c {d e}f \\rr\ngh \\zz i{j}.\n").toList
        Generated.defaultOptions false 0 [] with
     | .ok r =>
       r.txt == "X (vv,uu) Y (b,a) Z (d e,c)f <(g,g)>h ij.\n".toList &&
       r.pos == [57, 58, 63, 67, 68, 68, 63, 64, 64, 70, 71, 72, 77, 78, 78, 77, 77, 79, 80, 81, 87, 90, 91, 92,
                 92, 87, 87, 94, 95, 100, 100, 100, 100, 100, 100, 100, 101, 102, 107, 109, 111, 112] &&
       r.unknowns == ["\\zz".toList]
     | _ => false) = true := by
  decide +kernel

end Yalafi
