/-
  Properties/PlainExtractStmt.lean — C18, first half (extraction), end to end:
  "With an extraction list the output consists of exactly the first mandatory arguments of the
  listed macros, in order of appearance, and nothing else; occurrences in comments are not
  reported."  Proofs: Proofs/PlainExtract.lean (document class, side conditions, what is not
  covered: see the header of that file).
-/
import YalafiVerif.Proofs.PlainExtract
import YalafiVerif.Generated.Init
namespace Yalafi

open PlainExtract in
/-- **C18 (extraction), end to end.**  `--extr` is given (`o.extr ≠ []`; `extrList o.extr` = its
    comma-separated parts with a backslash in front); the document `render segs` consists of inert
    text (`.txt`), comment lines `%text⏎` with arbitrary text (`.com`), calls `\name{body}` of
    macros whose first mandatory argument is extracted in the state
    `initExtractions T st1 (extrList o.extr)` in which `parse` expands the document (`.call`; such
    a macro is in the list: `C18_extract_listed`), and calls `\name{body}` of declared macros that
    are not extracted there (`.skip`); `st1` is the state after `Parser.__init__`; no `--defs`,
    `--repl`, `--unkn`, single-language mode; one unit of fuel per source character plus four.
    Then `tex2txt` succeeds, and

    * `r.txt` is, for each `.call` in source order, three line breaks, the body, one line break —
      nothing else (`flowsText`);
    * `r.pos` (1-based): every body character maps to its own source position, the three line
      breaks in front of a body to its first character, the line break behind it to the start of
      its last token (`refOut`);
    * `r.unknowns = []`, no diagnostic is added, the ghost flag `foreign` is unset. -/
theorem C18_extract_e2e (T : PTables) (o : Options) (fs : FS) (thresh : Nat)
    (segs : List PlainExtract.Seg) (fuel : Nat) (st1 : PState)
    (hdefs : o.defs = []) (hextr : o.extr ≠ []) (hrepl : o.hasRepl = false) (hunkn : o.unkn = false)
    (hinit : initParser T fuel o (initialState T o false fs) = .ok ((), st1))
    (hst : PlainExtract.stateOk T (initExtractions T st1 (extrList o.extr)) = true)
    (hok : PlainExtract.segsOk T (initExtractions T st1 (extrList o.extr)) segs = true)
    (hf : (PlainExtract.render segs).length + 4 ≤ fuel) :
    ∃ r, tex2txt T fuel (PlainExtract.render segs) o false thresh fs = .ok r ∧
      r.txt = flowsText segs ∧
      r.txt = (PlainExtract.refOut segs).map (·.1) ∧
      r.pos = (PlainExtract.refOut segs).map (fun cp => cp.2 + 1) ∧
      r.unknowns = [] ∧ r.diags = st1.diags ∧ r.foreign = false :=
  PlainExtract.tex2txt_extract T o fs thresh segs fuel st1 hdefs hextr hrepl hunkn hinit hst hok hf

open PlainExtract in
/-- **C18 (extraction): exactly the bodies.**  Under the same hypotheses: the visible (non-blank)
    characters of the output are the visible characters of the concatenated bodies of the
    extracted calls, in source order; paired with `r.pos` they are the visible body characters at
    their own 1-based source positions (`bodiesOut`); every output position — also those of the
    separating line breaks — is the position of a body character (none lies in a text segment, a
    comment or a call that is not extracted); every body character is the source character at its
    position. -/
theorem C18_extract_exact (T : PTables) (o : Options) (fs : FS) (thresh : Nat)
    (segs : List PlainExtract.Seg) (fuel : Nat) (st1 : PState)
    (hdefs : o.defs = []) (hextr : o.extr ≠ []) (hrepl : o.hasRepl = false) (hunkn : o.unkn = false)
    (hinit : initParser T fuel o (initialState T o false fs) = .ok ((), st1))
    (hst : PlainExtract.stateOk T (initExtractions T st1 (extrList o.extr)) = true)
    (hok : PlainExtract.segsOk T (initExtractions T st1 (extrList o.extr)) segs = true)
    (hf : (PlainExtract.render segs).length + 4 ≤ fuel) :
    ∃ r, tex2txt T fuel (PlainExtract.render segs) o false thresh fs = .ok r ∧
      r.txt = flowsText segs ∧
      r.txt.filter (fun c => !isSpace c) = (bodies segs).flatten.filter (fun c => !isSpace c) ∧
      (r.txt.zip r.pos).filter (fun cp => !isSpace cp.1)
        = ((bodiesOut 0 segs).filter (fun cp => !isSpace cp.1)).map (fun cp => (cp.1, cp.2 + 1)) ∧
      (∀ q ∈ r.pos, 1 ≤ q ∧ ∃ c, (c, q - 1) ∈ bodiesOut 0 segs) ∧
      (∀ cp ∈ bodiesOut 0 segs, (PlainExtract.render segs)[cp.2]? = some cp.1) :=
  PlainExtract.tex2txt_extract_exact T o fs thresh segs fuel st1 hdefs hextr hrepl hunkn hinit hst hok hf

/-- **only listed macros are extracted.**  After `init_extractions` a macro with a non-empty
    extraction text is in the extraction list; hence in a document that satisfies `segsOk` every
    macro whose body is reported (`.call`) is listed. -/
theorem C18_extract_listed (T : PTables) (st1 : PState) (l : List Str) :
    (∀ n m, lookupMacro (initExtractions T st1 l) n = some m → m.extract ≠ [] → n ∈ l) ∧
    (∀ segs, PlainExtract.segsOk T (initExtractions T st1 l) segs = true →
      ∀ n ∈ PlainExtract.callNames segs, n ∈ l) :=
  ⟨fun n m => PlainExtract.initExtractions_listed T st1 l n m, PlainExtract.calls_listed T st1 l⟩

/-- what `init_extractions` does to the declarations: a declared macro keeps its name and argument
    codes, loses handler and replacement, and has an extraction text only if it is listed
    (`updDecl`); a listed name that is not declared is declared with one mandatory argument, which
    is extracted (`newDecl`) -/
theorem C18_extract_decls (T : PTables) (st1 : PState) (l : List Str) (n : Str) :
    (∀ m, lookupMacro st1 n = some m →
      lookupMacro (initExtractions T st1 l) n = some (PlainExtract.updDecl T l m)) ∧
    (lookupMacro st1 n = none → n ∈ l →
      lookupMacro (initExtractions T st1 l) n = some (PlainExtract.newDecl T n)) :=
  ⟨fun m => PlainExtract.initExtractions_declared T st1 l n m,
   PlainExtract.initExtractions_undeclared T st1 l n⟩

/-! ### the hypotheses hold for the current tables -/

namespace ExtractCurrent
open Generated PlainExtract

/-- `--extr footnote` -/
def oFootnote : Options := { extr := "footnote".toList }
/-- `--extr foo` (`\foo` is not declared in the tables) -/
def oFoo : Options := { extr := "foo".toList }
/-- `--extr foo,section,footnote` -/
def oMixed : Options := { extr := "foo,section,footnote".toList }

/-- `"Alpha\footnote{first note} beta gamma\footnote{second}.\n"` -/
def segsFootnote : List PlainExtract.Seg :=
  [.txt "Alpha".toList, .call "footnote".toList "first note".toList, .txt " beta gamma".toList,
   .call "footnote".toList "second".toList, .txt ".\n".toList]

/-- `"A \foo{one two} B\footnote{hidden note}\nC \section{Title}\foo{three}\label{l:1}\n% \foo{hidden}\nD"`:
    two calls of the listed, undeclared `\foo`; `\footnote`, `\section`, `\label` are declared and
    not listed; a comment line with a call of `\foo` -/
def segsFoo : List PlainExtract.Seg :=
  [.txt "A ".toList, .call "foo".toList "one two".toList, .txt " B".toList,
   .skip "footnote".toList "hidden note".toList, .txt "\nC ".toList,
   .skip "section".toList "Title".toList, .call "foo".toList "three".toList,
   .skip "label".toList "l:1".toList, .txt "\n".toList, .com " \\foo{hidden}".toList,
   .txt "D".toList]

/-- `"\section{Intro}\nText\footnote{a\n b\n\nc d  } more \foo{it's 1-2}\caption{cap}\n%\foo{x}\n%\n\foo{z}"` -/
def segsMixed : List PlainExtract.Seg :=
  [.call "section".toList "Intro".toList, .txt "\nText".toList,
   .call "footnote".toList "a\n b\n\nc d  ".toList, .txt " more ".toList,
   .call "foo".toList "it's 1-2".toList, .skip "caption".toList "cap".toList, .txt "\n".toList,
   .com "\\foo{x}".toList, .com [], .call "foo".toList "z".toList]

end ExtractCurrent

open Generated PlainExtract ExtractCurrent in
/-- (1) `--extr footnote`, a macro that is declared with an extraction of its own: the
    initialisation is that of the default options, the state and document conditions hold on the
    tables of the current /repo -/
theorem C18_extract_footnote_current :
    initParser theTables bigFuel oFootnote (initialState theTables oFootnote false []) = .ok ((), stDefault) ∧
    PlainExtract.stateOk theTables (initExtractions theTables stDefault (extrList oFootnote.extr)) = true ∧
    PlainExtract.segsOk theTables (initExtractions theTables stDefault (extrList oFootnote.extr))
      segsFootnote = true :=
  ⟨initParser_default, by decide +kernel⟩

open Generated PlainExtract ExtractCurrent in
/-- (2) `--extr foo` for a name that is not declared: `init_extractions` declares `\foo` with one
    mandatory argument (`callDeclOk`); `\footnote`, `\section`, `\label` are declared, not listed,
    and lose handler, replacement and extraction (`skipDeclOk`; shown for `\footnote`, which has
    the extraction text `#2` before); the comment line `% \foo{hidden}` is an ordinary comment -/
theorem C18_extract_foo_current :
    initParser theTables bigFuel oFoo (initialState theTables oFoo false []) = .ok ((), stDefault) ∧
    ((lookupMacro stDefault "\\foo".toList).isNone = true ∧
     (lookupMacro (initExtractions theTables stDefault (extrList oFoo.extr)) "\\foo".toList).map
         (fun m => (m.args, m.handler, m.repl, m.extract))
       = some ("A".toList, Handler.none, [], [{ kind := .arg 1, pos := 0, txt := "#1".toList }])) ∧
    ((lookupMacro stDefault "\\footnote".toList).map (fun m => (m.args, m.handler, m.repl, m.extract))
       = some ("OA".toList, Handler.none, [], [{ kind := .arg 2, pos := 0, txt := "#2".toList }]) ∧
     (lookupMacro (initExtractions theTables stDefault (extrList oFoo.extr)) "\\footnote".toList).map
         (fun m => (m.args, m.handler, m.repl, m.extract))
       = some ("OA".toList, Handler.none, [], [])) ∧
    PlainExtract.stateOk theTables (initExtractions theTables stDefault (extrList oFoo.extr)) = true ∧
    PlainExtract.segsOk theTables (initExtractions theTables stDefault (extrList oFoo.extr)) segsFoo = true :=
  ⟨initParser_default, by decide +kernel, by decide +kernel, by decide +kernel⟩

open Generated PlainExtract ExtractCurrent in
/-- (3) `--extr foo,section,footnote`: an undeclared name, a macro declared with a handler and the
    argument codes `*OA` (its handler is deleted, the extraction text becomes `#3`), and
    `\footnote` (`OA`, `#2`); `\caption` is not listed and loses its extraction -/
theorem C18_extract_mixed_current :
    initParser theTables bigFuel oMixed (initialState theTables oMixed false []) = .ok ((), stDefault) ∧
    ((lookupMacro stDefault "\\section".toList).map (fun m => (m.args, m.handler, m.extract))
       = some ("*OA".toList, Handler.heading, []) ∧
     (lookupMacro (initExtractions theTables stDefault (extrList oMixed.extr)) "\\section".toList).map
         (fun m => (m.args, m.handler, m.repl, m.extract))
       = some ("*OA".toList, Handler.none, [], [{ kind := .arg 3, pos := 0, txt := "#3".toList }])) ∧
    PlainExtract.stateOk theTables (initExtractions theTables stDefault (extrList oMixed.extr)) = true ∧
    PlainExtract.segsOk theTables (initExtractions theTables stDefault (extrList oMixed.extr)) segsMixed = true :=
  ⟨initParser_default, by decide +kernel, by decide +kernel⟩

/-- the initialisation with the default options reports nothing -/
theorem C18_stDefault_diags : Generated.stDefault.diags = [] := by decide +kernel

open Generated PlainExtract ExtractCurrent in
/-- the end-to-end statement applied to (2) on the current tables: only the two bodies of `\foo`
    are reported, in order; the footnote, the section title, the label and the `\foo{hidden}` of
    the comment line are not -/
theorem C18_extract_foo_example_current (thresh : Nat) :
    ∃ r, tex2txt theTables bigFuel
        "A \\foo{one two} B\\footnote{hidden note}\nC \\section{Title}\\foo{three}\\label{l:1}\n% \\foo{hidden}\nD".toList
        oFoo false thresh [] = .ok r ∧
      r.txt = "\n\n\none two\n\n\n\nthree\n".toList ∧
      r.pos = [8, 8, 8, 8, 9, 10, 11, 12, 13, 14, 14, 63, 63, 63, 63, 64, 65, 66, 67, 67] ∧
      r.unknowns = [] ∧ r.diags = [] := by
  obtain ⟨h1, _, _, h2, h3⟩ := C18_extract_foo_current
  obtain ⟨r, hr, _, ht, hp, hu, hd, _⟩ := C18_extract_e2e theTables oFoo [] thresh segsFoo bigFuel
    stDefault rfl (by decide) rfl rfl h1 h2 h3 (by decide)
  have hsrc : PlainExtract.render segsFoo
      = "A \\foo{one two} B\\footnote{hidden note}\nC \\section{Title}\\foo{three}\\label{l:1}\n% \\foo{hidden}\nD".toList := by
    decide
  rw [hsrc] at hr
  refine ⟨r, hr, ?_, ?_, hu, hd.trans C18_stDefault_diags⟩
  · rw [ht]; decide
  · rw [hp]; decide

open Generated PlainExtract ExtractCurrent in
/-- the end-to-end statement applied to (1) on the current tables: `--extr footnote` reports the
    footnote bodies only -/
theorem C18_extract_footnote_example_current (thresh : Nat) :
    ∃ r, tex2txt theTables bigFuel
        "Alpha\\footnote{first note} beta gamma\\footnote{second}.\n".toList oFootnote false thresh [] = .ok r ∧
      r.txt = "\n\n\nfirst note\n\n\n\nsecond\n".toList ∧
      r.pos = [16, 16, 16, 16, 17, 18, 19, 20, 21, 22, 23, 24, 25, 25,
               48, 48, 48, 48, 49, 50, 51, 52, 53, 53] ∧
      r.unknowns = [] ∧ r.diags = [] := by
  obtain ⟨h1, h2, h3⟩ := C18_extract_footnote_current
  obtain ⟨r, hr, _, ht, hp, hu, hd, _⟩ := C18_extract_e2e theTables oFootnote [] thresh segsFootnote
    bigFuel stDefault rfl (by decide) rfl rfl h1 h2 h3 (by decide)
  have hsrc : PlainExtract.render segsFootnote
      = "Alpha\\footnote{first note} beta gamma\\footnote{second}.\n".toList := by decide
  rw [hsrc] at hr
  refine ⟨r, hr, ?_, ?_, hu, hd.trans C18_stDefault_diags⟩
  · rw [ht]; decide
  · rw [hp]; decide

end Yalafi
