/-
  Properties/C07.lean — the filter is total.

  Proved: every non-expander stage is a total function whose internal loop never
  runs out of its measure (scanner, blank-line removal, multi-language splitter);
  phrase replacement and get_txt_pos are total by definition.  That the expander
  itself never raises (`NoCrash`, DESIGN Appendix B) is not yet a theorem: it is
  checked on the implementation by the malformed-input streams.
-/
import YalafiVerif.Proofs.Scanner
import YalafiVerif.Proofs.Utils
import YalafiVerif.Proofs.Lines
namespace Yalafi

/-- the scanner consumes the whole input with fuel `src.length` (every step advances) -/
theorem C07_scan_total (T : Tables) (h : T.WFScan) (src : Str) : (scan T src).complete = true := by
  have := (scanSteps_complete T h src src.length 0 src (Nat.le_refl _)).1
  simpa [scan] using this

theorem C07_removeLines_total (ts : List Tok) : (removeLines ts).isSome = true :=
  removeLines_progress ts

theorem C07_ml_total (toks : List Tok) (main : Str) (thresh : Nat) (lc : LangChange)
    (h : LangChangeOk lc) : (getTxtPosML toks main thresh lc).isSome = true :=
  getTxtPosML_total toks main thresh lc h

end Yalafi
