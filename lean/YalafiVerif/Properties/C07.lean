/-
  Properties/C07.lean — the filter is total (module the check builds; the statements live in
  C07Base.lean, NoEmptyStmt.lean and CleverefStmt.lean).

  * `C07_tex2txt_no_crash(_current)` (C07Base.lean, by the induction on fuel that also gives C01 and C03): for every
    source text, option record, file system and fuel the filter model ends in `ok`, in the documented `fatal` exit, or
    out of fuel — a crash (= an unhandled Python exception; every `x[k]`, `x[-1]`, `d[key]` that could raise is an
    explicit crash value of the model) can only have one of the three sites of `allowedCrash`.
  * `C07_no_capfirst_crash(_current)` (NoEmptyStmt.lean, a SECOND induction on fuel over the whole expander with an
    invariant on buffer ORDER and positions, Proofs/NoEmpty*.lean): the third site, `cap_first` on an empty text token,
    is unreachable for every input; `C07_tex2txt_crash_only_opaque(_current)`: a crash can only be one of the two
    markers of code the translator does not recognise.
  * `C07_no_opaque_module_current` (CleverefStmt.lean): the current tables contain no such module and no such handler
    (package cleveref is modelled).
  * `C07_tex2txt_never_crashes(_current)` (NoCrashStmt.lean, a THIRD induction on fuel, Proofs/NoOpaque*.lean: no definition
    of the parser state ever has an unrecognised handler): for the tables translated from the current /repo and EVERY
    source text, option record, file system and fuel, `tex2txt … ≠ .crash site` for every site — the model of the filter
    raises no exception on any input; every run ends in `ok`, in the documented `fatal` exit, or out of fuel.
  What remains between this and the Python code is the correspondence (DESIGN.md 10.3).
-/
import YalafiVerif.Properties.C07Base
import YalafiVerif.Properties.NoEmptyStmt
import YalafiVerif.Properties.CleverefStmt
import YalafiVerif.Properties.NoCrashStmt
