/-
  Properties/PlainVanishStmt.lean — C05 "text flow is preserved" and C03 "labels and keys never
  leak", end to end on the filter model, for documents of inert text and calls `\name{key}` of
  vanishing macros (`\label`, `\index`, `\pagestyle`, `\bibliographystyle`, … : one mandatory
  argument, no handler, no extraction, the replacement is nothing but void tokens).
  Proofs, side conditions and what is not covered: Proofs/PlainVanish.lean.
-/
import YalafiVerif.Proofs.PlainVanish
import YalafiVerif.Generated.Init
namespace Yalafi

/-- **vanishing macros leave nothing and keep the text flow**, end to end on the filter model.
    For every document `render segs` of inert text and calls `\name{key}` of vanishing macros
    (`PlainVanish.SegsOk`: all side conditions, computable), `st1` the state after
    `Parser.__init__`, no `--defs --extr --repl --unkn`, single-language mode, fuel = source
    length + 2: `tex2txt` succeeds; the output text with its (1-based) positions is the source with
    every call deleted (`marks`: a call leaves one mark and no character), every remaining
    character at its own source position, and with every line deleted, together with its line
    break, that consists only of white space and at least one call (`PlainMacro.delLines`); every
    other line break and every blank line without a call survives.  No unknowns, no diagnostic. -/
theorem C05_vanish_e2e (T : PTables) (o : Options) (fs : FS) (thresh : Nat)
    (segs : List PlainVanish.Seg) (fuel : Nat) (st1 : PState)
    (hdefs : o.defs = []) (hextr : o.extr = []) (hrepl : o.hasRepl = false) (hunkn : o.unkn = false)
    (hinit : initParser T fuel o (initialState T o false fs) = .ok ((), st1))
    (hok : PlainVanish.SegsOk T st1 segs) (hf : (PlainVanish.render segs).length + 2 ≤ fuel) :
    ∃ r, tex2txt T fuel (PlainVanish.render segs) o false thresh fs = .ok r ∧
      r.txt = (PlainMacro.delLines (PlainVanish.marks 0 segs)).map (·.1) ∧
      r.pos = (PlainMacro.delLines (PlainVanish.marks 0 segs)).map (·.2 + 1) ∧
      r.unknowns = [] ∧ r.diags = st1.diags := by
  obtain ⟨r, h1, h2, h3, h4, h5, _⟩ :=
    PlainVanish.tex2txt_vanish T o fs thresh segs fuel st1 hdefs hextr hrepl hunkn hinit hok hf
  exact ⟨r, h1, h2, h3, h4, h5⟩

/-- … when no line consists of white space and calls only (`linesKept`, decidable): the output is
    the source with the calls cut out (`PlainVanish.plain`), nothing else is added or removed -/
theorem C05_vanish_kept (T : PTables) (o : Options) (fs : FS) (thresh : Nat)
    (segs : List PlainVanish.Seg) (fuel : Nat) (st1 : PState)
    (hdefs : o.defs = []) (hextr : o.extr = []) (hrepl : o.hasRepl = false) (hunkn : o.unkn = false)
    (hinit : initParser T fuel o (initialState T o false fs) = .ok ((), st1))
    (hok : PlainVanish.SegsOk T st1 segs) (hf : (PlainVanish.render segs).length + 2 ≤ fuel)
    (hk : PlainMacro.linesKept true false (PlainVanish.marks 0 segs) = true) :
    ∃ r, tex2txt T fuel (PlainVanish.render segs) o false thresh fs = .ok r ∧
      r.txt = (PlainVanish.plain 0 segs).map (·.1) ∧
      r.pos = (PlainVanish.plain 0 segs).map (·.2 + 1) := by
  obtain ⟨r, h1, h2, h3, _⟩ := C05_vanish_e2e T o fs thresh segs fuel st1 hdefs hextr hrepl hunkn hinit hok hf
  rw [PlainMacro.delLines_kept _ hk, PlainVanish.marks_chars] at h2 h3
  exact ⟨r, h1, h2, h3⟩

/-- **a call on a line with visible text in front is cut out; no line break is added or removed.**
    Document `a c \name{key} b` (`c` a visible character, `a`, `b` any inert text — `b` may start
    with a blank or a line break): the output text is `a c b`; `a c` keeps the positions
    `1 … |a|+1`, `b` the positions behind the closing brace. -/
theorem C05_vanish_same_line (T : PTables) (o : Options) (fs : FS) (thresh : Nat)
    (a b : Str) (c : Char) (n k : Str) (fuel : Nat) (st1 : PState)
    (hdefs : o.defs = []) (hextr : o.extr = []) (hrepl : o.hasRepl = false) (hunkn : o.unkn = false)
    (hinit : initParser T fuel o (initialState T o false fs) = .ok ((), st1))
    (hc : isSpace c = false)
    (hok : PlainVanish.SegsOk T st1 [.txt (a ++ [c]), .van n k, .txt b])
    (hf : (PlainVanish.render [.txt (a ++ [c]), .van n k, .txt b]).length + 2 ≤ fuel) :
    ∃ r, tex2txt T fuel (a ++ [c] ++ '\\' :: (n ++ '{' :: (k ++ ['}'])) ++ b) o false thresh fs = .ok r ∧
      r.txt = a ++ [c] ++ b ∧
      r.pos = List.range' 1 (a.length + 1)
                ++ List.range' (a.length + 1 + PlainVanish.vanLen n k + 1) b.length := by
  obtain ⟨r, h1, h2, h3, _⟩ := C05_vanish_e2e T o fs thresh _ fuel st1 hdefs hextr hrepl hunkn hinit hok hf
  rw [PlainVanish.marks_same_line a b c n k hc] at h2 h3
  refine ⟨r, ?_, ?_, ?_⟩
  · simpa [PlainVanish.render, PlainVanish.Seg.render] using h1
  · rw [h2, List.map_append, posText_fst, posText_fst]
  · rw [h3, List.map_append, PlainVanish.posText_pos1, PlainVanish.posText_pos1]
    simp

/-- **a call alone on its line does not invent a paragraph break.**  Document
    `a ⏎ \name{key} ⏎ b` (the call stands alone on a line between two text lines): the output
    text is `a ⏎ b` — the call disappears together with ONE line break, no blank line appears;
    `a ⏎` keeps the positions `1 … |a|+1`, `b` the positions behind the second line break. -/
theorem C05_vanish_no_par (T : PTables) (o : Options) (fs : FS) (thresh : Nat)
    (a b n k : Str) (fuel : Nat) (st1 : PState)
    (hdefs : o.defs = []) (hextr : o.extr = []) (hrepl : o.hasRepl = false) (hunkn : o.unkn = false)
    (hinit : initParser T fuel o (initialState T o false fs) = .ok ((), st1))
    (hok : PlainVanish.SegsOk T st1 [.txt (a ++ [nl]), .van n k, .txt (nl :: b)])
    (hf : (PlainVanish.render [.txt (a ++ [nl]), .van n k, .txt (nl :: b)]).length + 2 ≤ fuel) :
    ∃ r, tex2txt T fuel (a ++ [nl] ++ '\\' :: (n ++ '{' :: (k ++ ['}'])) ++ nl :: b) o false thresh fs = .ok r ∧
      r.txt = a ++ [nl] ++ b ∧
      r.pos = List.range' 1 (a.length + 1)
                ++ List.range' (a.length + 1 + PlainVanish.vanLen n k + 1 + 1) b.length := by
  obtain ⟨r, h1, h2, h3, _⟩ := C05_vanish_e2e T o fs thresh _ fuel st1 hdefs hextr hrepl hunkn hinit hok hf
  rw [PlainVanish.marks_own_line a b n k] at h2 h3
  refine ⟨r, ?_, ?_, ?_⟩
  · simpa [PlainVanish.render, PlainVanish.Seg.render] using h1
  · rw [h2, List.map_append, posText_fst, posText_fst]
  · rw [h3, List.map_append, PlainVanish.posText_pos1, PlainVanish.posText_pos1]
    simp

/-- **no label, no key leaks**: no output position lies inside a call `\name{key}` —
    `PlainVanish.spans 0 segs` lists the calls as (0-based start, length); output positions are
    1-based.  (With `C05_vanish_e2e`: every output character is the source character at its
    position, so no character of a name or a key appears in the output.) -/
theorem C03_vanish_no_key (T : PTables) (o : Options) (fs : FS) (thresh : Nat)
    (segs : List PlainVanish.Seg) (fuel : Nat) (st1 : PState)
    (hdefs : o.defs = []) (hextr : o.extr = []) (hrepl : o.hasRepl = false) (hunkn : o.unkn = false)
    (hinit : initParser T fuel o (initialState T o false fs) = .ok ((), st1))
    (hok : PlainVanish.SegsOk T st1 segs) (hf : (PlainVanish.render segs).length + 2 ≤ fuel) :
    ∃ r, tex2txt T fuel (PlainVanish.render segs) o false thresh fs = .ok r ∧
      ∀ q ∈ r.pos, ∀ sp ∈ PlainVanish.spans 0 segs, q ≤ sp.1 ∨ sp.1 + sp.2 < q := by
  obtain ⟨r, h1, _, h3, _⟩ := C05_vanish_e2e T o fs thresh segs fuel st1 hdefs hextr hrepl hunkn hinit hok hf
  refine ⟨r, h1, ?_⟩
  intro q hq sp hsp
  rw [h3] at hq
  obtain ⟨cp, hcp, rfl⟩ := List.mem_map.mp hq
  rcases PlainVanish.marks_pos_outside (PlainVanish.delLines_mem hcp) hsp with h | h
  · left; omega
  · right; omega

/-- the end-to-end theorem for the CURRENT code (tables translated from /repo, default options,
    parser initialisation evaluated by the kernel) -/
theorem C05_vanish_e2e_current (segs : List PlainVanish.Seg) (thresh : Nat)
    (hok : PlainVanish.SegsOk Generated.theTables Generated.stDefault segs)
    (hf : (PlainVanish.render segs).length + 2 ≤ Generated.bigFuel) :
    ∃ r, tex2txt Generated.theTables Generated.bigFuel (PlainVanish.render segs) Generated.defaultOptions
          false thresh [] = .ok r ∧
      r.txt = (PlainMacro.delLines (PlainVanish.marks 0 segs)).map (·.1) ∧
      r.pos = (PlainMacro.delLines (PlainVanish.marks 0 segs)).map (·.2 + 1) ∧
      r.unknowns = [] ∧ r.diags = Generated.stDefault.diags :=
  C05_vanish_e2e Generated.theTables Generated.defaultOptions [] thresh segs Generated.bigFuel
    Generated.stDefault rfl rfl rfl rfl Generated.initParser_default hok hf

/-- a document with `\label`, `\index`, `\pagestyle` and `\bibliographystyle` — calls inside a
    text line, alone on a line, two on one line with blanks, an empty key, keys with blanks and
    with `_ ^ ~ & $ --` — for the tables of the current /repo -/
def C05_vanish_doc : List PlainVanish.Seg :=
  [.txt "Alpha".toList, .van "label".toList "sec:a_1".toList, .txt " beta\n".toList,
   .van "index".toList "key!sub entry".toList, .txt "\nGamma\n\n  ".toList,
   .van "pagestyle".toList "".toList, .txt " ".toList, .van "label".toList "x--y~z^&$".toList,
   .txt "\nDelta.\n".toList, .van "bibliographystyle".toList "plain".toList]

/-- the side conditions hold for it on the real tables -/
theorem C05_vanish_example_current :
    PlainVanish.SegsOk Generated.theTables Generated.stDefault C05_vanish_doc := by
  decide +kernel

/-- … and this is what the theorem says about it: the reference output -/
theorem C05_vanish_example_ref :
    (PlainMacro.delLines (PlainVanish.marks 0 C05_vanish_doc)).map (·.1) = "Alpha beta\nGamma\n\nDelta.\n".toList := by
  decide +kernel

/-- … which is what the model computes (evaluated by the kernel) -/
theorem C05_vanish_example_eval :
    (match tex2txt Generated.theTables Generated.bigFuel (PlainVanish.render C05_vanish_doc)
        Generated.defaultOptions false 0 [] with
     | .ok r => r.txt == "Alpha beta\nGamma\n\nDelta.\n".toList && r.unknowns.isEmpty
     | _ => false) = true := by
  decide +kernel

end Yalafi
