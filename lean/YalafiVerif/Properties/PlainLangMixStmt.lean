/-
  Properties/PlainLangMixStmt.lean — C12 "… the language in force at the word according to the initial
  language, \selectlanguage, \foreignlanguage and the otherlanguage environments, including nesting
  …", end to end on the model, for documents that MIX all language constructs of package babel
  (multi-language mode).
  Proofs: Proofs/PlainLangMixML.lean (`get_txt_pos_ml` on any token list, as a plan),
  Proofs/PlainLangMix.lean (expander), Proofs/PlainLangMixSrc.lean (documents, side conditions,
  scanner), Proofs/PlainLangMixE2E.lean (end to end; its header lists the grammar, the reference and
  all side conditions), Proofs/PlainLangMixCor.lean (`langAt`, corollaries).
-/
import YalafiVerif.Proofs.PlainLangMixCor
import YalafiVerif.Properties.PlainForeignStmt
import YalafiVerif.Generated.Init
namespace Yalafi
namespace PlainLangMix
open Generated
open PlainForeign (lcOf partOf)

/-- **C12 for mixed language constructs, end to end** (`Proofs/PlainLangMixE2E.lean`, `tex2txt_mix`).
    The source is `render segs`, a flat list of segments: inert text `txt s`, `sel name` =
    `\selectlanguage{name}`, `frn name body` = `\foreignlanguage{name}{body}`, `beg star name` =
    `\begin{otherlanguage[*]}{name}`, `fin star sp` = `\end{otherlanguage[*]}` with the white space `sp`
    behind it — in any order, environments nested to any depth (`env star name body sp = beg star
    name :: body ++ [fin star sp]` with an arbitrary `body`), not even necessarily balanced.
    Hypotheses: no `--defs`, `--extr`, `--repl`; `st1` is the parser state after `Parser.__init__` in
    MULTI-LANGUAGE mode, its multi-language flag is set and its language stack is not empty; every
    settings code has a non-empty language-change collection and `en` is a settings code (`lcOk`);
    `segsOk T st1 segs` (computable; header of `Proofs/PlainLangMixE2E.lean`: babel's macros and
    environments are declared, `{` directly behind the names, names and texts inert FOR THE LANGUAGE
    IN FORCE where they stand — the parser state is threaded through the document —, the white space
    behind `\end{otherlanguage[*]}` belongs to the `fin` segment); one unit of fuel per source
    character plus two.  NO hypothesis on the three `…_break` flags of `babel.py`.
    Then `tex2txt` succeeds, nothing is reported as unknown, no diagnostic is added, and
    `r.parts = refParts T o.lang thresh (lcOf st1) segs`:

    * `segMarks` / `delLines`: every text character keeps its own source position; the blank or line
      break directly behind `\end{otherlanguage}` (no star) is swallowed; a line that holds only
      white space and language commands is deleted with its line break;
    * `secsOf` (the stack discipline of `get_txt_pos_ml`: `sel` replaces the top, `frn` / `beg` push,
      the end of `frn` / `fin` pop; cut where the top changes) — see `C12_mix_word_language`;
    * `planOf` / `renderGroups`: a section of at most `thresh` words that was opened by a
      non-breaking, non-returning switch (`\foreignlanguage`, `\begin{otherlanguage}`) and behind
      which the text continues in the language in front of it is represented in the surrounding
      piece by ONE placeholder of the surrounding language's collection (rotated first, mapped to the
      first visible character of the section) and the piece continues; longer ones, hard switches
      and switches back cut the piece;
    * `groupSecs`, `shiftParts`: grouped by language code, positions 1-based. -/
theorem C12_mixed_languages_e2e (T : PTables) (o : Options) (fs : FS) (thresh : Nat) (segs : List Seg)
    (fuel : Nat) (st1 : PState)
    (hdefs : o.defs = []) (hextr : o.extr = []) (hrepl : o.hasRepl = false)
    (hinit : initParser T fuel o (initialState T o true fs) = .ok ((), st1))
    (hml : st1.multiLanguage = true) (hstk : st1.langStack ≠ [])
    (hlc : lcOk (lcOf st1) = true)
    (hok : segsOk T st1 segs = true)
    (hf : (render segs).length + 2 ≤ fuel) :
    ∃ r, tex2txt T fuel (render segs) o true thresh fs = .ok r ∧
      r.parts = refParts T o.lang thresh (lcOf st1) segs ∧ r.unknowns = [] ∧
      r.diags = st1.diags := by
  obtain ⟨r, h1, h2, h3, h4, _⟩ := tex2txt_mix T o fs thresh segs fuel st1 hdefs hextr hrepl
    hinit hml hstk hlc hok hf
  exact ⟨r, h1, h2, h3, h4⟩

/-- **every word under the language in force.**  Under the hypotheses of `C12_mixed_languages_e2e`:
    for every text character `c` of the source at (0-based) position `p` that is no white space
    (`textChars 0 segs`: the text segments and the texts of the insertions, cf.
    `C12_mix_textChars_source`) the result has, under the key `langAt T [o.lang] 0 segs p`, a piece of
    text that holds `c` with the position `p + 1`.  `langAt` is the reference stack discipline ON THE
    DOCUMENT (`Proofs/PlainLangMixCor.lean`): the stack starts as `[o.lang]`; `\selectlanguage`
    replaces its top; `\foreignlanguage{name}{text}` has the language of `name` on `text` and leaves
    the stack as it was; `\begin{otherlanguage[*]}{name}` pushes, `\end{otherlanguage[*]}` pops (unless
    one entry is left); the language in force is the top. -/
theorem C12_mix_word_language (T : PTables) (o : Options) (fs : FS) (thresh : Nat) (segs : List Seg)
    (fuel : Nat) (st1 : PState)
    (hdefs : o.defs = []) (hextr : o.extr = []) (hrepl : o.hasRepl = false)
    (hinit : initParser T fuel o (initialState T o true fs) = .ok ((), st1))
    (hml : st1.multiLanguage = true) (hstk : st1.langStack ≠ [])
    (hlc : lcOk (lcOf st1) = true)
    (hok : segsOk T st1 segs = true)
    (hf : (render segs).length + 2 ≤ fuel) :
    ∃ r, tex2txt T fuel (render segs) o true thresh fs = .ok r ∧
      ∀ c p, (c, p) ∈ textChars 0 segs → isSpace c = false →
        ∃ tp ∈ partOf r.parts (langAt T [o.lang] 0 segs p), (c, p + 1) ∈ PlainForeign.tpChars tp := by
  obtain ⟨r, h1, h2, _⟩ := tex2txt_mix T o fs thresh segs fuel st1 hdefs hextr hrepl
    hinit hml hstk hlc hok hf
  refine ⟨r, h1, ?_⟩
  intro c p hm hv
  rw [h2]
  exact refParts_word_language T o.lang thresh (lcOf st1) segs c p hm hv

theorem nodup_of_map {α β} (f : α → β) {l : List α} (h : (l.map f).Nodup) : l.Nodup := by
  rw [List.Nodup, List.pairwise_map] at h
  exact h.imp (fun hab e => hab (by rw [e]))

/-- **every word exactly once, at its own position.**  Under the hypotheses of
    `C12_mixed_languages_e2e` the parts are the rendering of the plan `refPlan`, whose pieces consist
    of VERBATIM sections of the text (`Comp.own`, and the inclusions, which are pieces of their own)
    and of PLACEHOLDERS (`Comp.ph`, one per inclusion).  Among the verbatim components of all pieces
    together (`planSecs`, every character with its own 0-based source position)
    * every text character that is no white space occurs EXACTLY ONCE;
    * every character that occurs is a text character of the source, standing in a piece whose
      language is `langAt` of its position; no source position occurs twice;
    * a verbatim component has the language of the piece it is part of.
    (The other characters of the parts are those of the placeholders — at most `thresh`-word
    inclusions —, which carry the position of the first visible character of the inclusion they
    stand for; that is why a bare "this position occurs once in `r.parts`" would be false.) -/
theorem C12_mix_word_once (T : PTables) (o : Options) (fs : FS) (thresh : Nat) (segs : List Seg)
    (fuel : Nat) (st1 : PState)
    (hdefs : o.defs = []) (hextr : o.extr = []) (hrepl : o.hasRepl = false)
    (hinit : initParser T fuel o (initialState T o true fs) = .ok ((), st1))
    (hml : st1.multiLanguage = true) (hstk : st1.langStack ≠ [])
    (hlc : lcOk (lcOf st1) = true)
    (hok : segsOk T st1 segs = true)
    (hf : (render segs).length + 2 ≤ fuel) :
    ∃ r, tex2txt T fuel (render segs) o true thresh fs = .ok r ∧
      r.parts = PlainLang.shiftParts (PlainLang.groupSecs
        (renderGroups (lcOf st1) (refPlan T o.lang thresh segs))) ∧
      (∀ c p, (c, p) ∈ textChars 0 segs → isSpace c = false →
        ((planSecs (refPlan T o.lang thresh segs)).flatMap secChars).count (c, p) = 1) ∧
      (∀ s ∈ planSecs (refPlan T o.lang thresh segs), ∀ cp ∈ secChars s,
        cp ∈ textChars 0 segs ∧ s.lang = langAt T [o.lang] 0 segs cp.2) ∧
      (((planSecs (refPlan T o.lang thresh segs)).flatMap secChars).map (·.2)).Nodup ∧
      (∀ g ∈ refPlan T o.lang thresh segs, ∀ s, Comp.own s ∈ g.comps → s.lang = g.lang) := by
  obtain ⟨r, h1, h2, _⟩ := tex2txt_mix T o fs thresh segs fuel st1 hdefs hextr hrepl
    hinit hml hstk hlc hok hf
  obtain ⟨hperm, hnd, _⟩ := refPlan_once T o.lang thresh segs
  have hnd' : (((planSecs (refPlan T o.lang thresh segs)).flatMap secChars).map (·.2)).Nodup :=
    ((hperm.map _).nodup_iff).mpr hnd
  refine ⟨r, h1, h2, ?_, ?_, hnd', planOf_own_lang thresh _⟩
  · intro c p hm hv
    have hmem : (c, p) ∈ (planSecs (refPlan T o.lang thresh segs)).flatMap secChars :=
      (hperm.mem_iff).mpr (refItems_visible T segs c p hm hv)
    rw [(nodup_of_map _ hnd').count, if_pos hmem]
  · intro s hs cp hcp
    exact refSecs_lang T o.lang segs s (((planOf_perm thresh _).mem_iff).mp hs) cp hcp

/-- **nesting.**  What the model does — and the reference `langAt` with it: `\end{otherlanguage[*]}`
    POPS the stack.  So behind a closed environment (`body` balanced: every environment opened in it
    is closed in it) the language stack, hence the language in force at every later position, is
    the one IN FRONT of the environment — also if a `\selectlanguage` occurred inside: it replaced
    the entry the environment had pushed, and that entry is gone (as in LaTeX, where the switch is
    local to the group of the environment).  `stk` is any non-empty stack, e.g. `[o.lang]` at the
    beginning or the stack inside an outer environment. -/
theorem C12_mix_nesting (T : PTables) (stk : List Str) (hstk : stk ≠ []) (star star' : Bool) (name : Str)
    (body : List Seg) (sp : Str) (hb : balanced 0 body = true) (rest : List Seg) (p q : Nat)
    (hq : p + lenSegs (.beg star name :: (body ++ [.fin star' sp])) ≤ q) :
    stkAfter T stk (.beg star name :: (body ++ [.fin star' sp])) = stk ∧
    langAt T stk p (.beg star name :: (body ++ [.fin star' sp]) ++ rest) q
      = langAt T stk (p + lenSegs (.beg star name :: (body ++ [.fin star' sp]))) rest q :=
  ⟨stkAfter_env T stk hstk star star' name body sp hb,
   langAt_env T stk hstk star star' name body sp hb rest p q hq⟩

/-- `textChars` are characters of the source: `(c, p) ∈ textChars 0 segs` implies that the source
    has the character `c` at 0-based position `p` -/
theorem C12_mix_textChars_source (segs : List Seg) (c : Char) (p : Nat) (h : (c, p) ∈ textChars 0 segs) :
    (render segs)[p]? = some c :=
  (textChars_render segs 0 (c, p) h).2

/-! ### the hypotheses can be met on the real tables -/

/-- `English text. \begin{otherlanguage}{german} Deutscher Text mit \foreignlanguage{french}{un mot}
    darin. \end{otherlanguage} Back to English. \selectlanguage{russian} Русский текст.` -/
def exSegs : List Seg :=
  [.txt "English text. ".toList, .beg false "german".toList, .txt " Deutscher Text mit ".toList,
   .frn "french".toList "un mot".toList, .txt " darin. ".toList, .fin false " ".toList,
   .txt "Back to English. ".toList, .sel "russian".toList, .txt " Русский текст.".toList]

theorem exSegs_render : render exSegs =
    "English text. \\begin{otherlanguage}{german} Deutscher Text mit \\foreignlanguage{french}{un mot} darin. \\end{otherlanguage} Back to English. \\selectlanguage{russian} Русский текст.".toList := by
  decide +kernel

theorem exSegs_ok : segsOk theTables stBabel exSegs = true := by decide +kernel

theorem stBabel_lcOk : lcOk (lcOf stBabel) = true := by decide +kernel

/-- the expected parts (`ml_continue_thresh = 2`): the French insertion (two words) inside the German
    environment leaves the placeholder `L-L-L` of the GERMAN collection, mapped to position 89 = the
    `u` of `un mot`, and the German sentence continues in the same piece; the German environment (more
    than two words) and the hard switch to Russian cut the English text; the blank behind
    `\end{otherlanguage}` (position 123) does not occur -/
def exParts : Parts :=
  [("en-GB".toList,
      [("English text. ".toList, List.range' 1 14), ("Back to English. ".toList, List.range' 124 17)]),
   ("fr".toList, [("un mot".toList, List.range' 89 6)]),
   ("de-DE".toList,
      [(" Deutscher Text mit L-L-L darin. ".toList,
          List.range' 44 20 ++ [89, 89, 89, 89, 89] ++ List.range' 96 8)]),
   ("ru-RU".toList, [(" Русский текст.".toList, List.range' 165 15)])]

theorem exSegs_ref : refParts theTables babelOptions.lang 2 (lcOf stBabel) exSegs = exParts := by
  decide +kernel

/-- **the end-to-end theorem applies to the current code** (tables translated from /repo, package
    babel loaded, `--lang en-GB`, multi-language mode, `ml_continue_thresh = 2`).  The Python code
    gives the same on this document (`cd /repo && /venv/bin/python`, `tex2txt.tex2txt(doc,
    Options(pack='babel', lang='en-GB'), multi_language=True, modify_parms=…ml_continue_thresh = 2)`):
    `'en-GB': [['English text. ', [1..14]], ['Back to English. ', [124..140]]], 'fr': [['un mot',
    [89..94]]], 'de-DE': [[' Deutscher Text mit L-L-L darin. ', [44..63, 89, 89, 89, 89, 89, 96..103]]],
    'ru-RU': [[' Русский текст.', [165..179]]]`. -/
theorem C12_mixed_languages_e2e_current :
    ∃ r, tex2txt theTables bigFuel (render exSegs) babelOptions true 2 [] = .ok r ∧
      r.parts = exParts ∧ r.unknowns = [] ∧ r.diags = [] := by
  obtain ⟨r, h1, h2, h3, h4⟩ := C12_mixed_languages_e2e theTables babelOptions [] 2 exSegs bigFuel
    stBabel rfl rfl rfl initParser_babel PlainLang.stBabel_multi PlainForeign.stBabel_stack
    stBabel_lcOk exSegs_ok (by decide +kernel)
  exact ⟨r, h1, by rw [h2, exSegs_ref], h3, by rw [h4, PlainLang.stBabel_diags]⟩

/-- the same by direct evaluation of the model (so that one SEES the output that is claimed) -/
example : (match tex2txt theTables bigFuel (render exSegs) babelOptions true 2 [] with
    | .ok r => decide (r.parts = exParts ∧ r.unknowns = [] ∧ r.diags = [])
    | _ => false) = true := by decide +kernel

/-- the language in force at some positions of the example (0-based): English, German inside the
    environment, French inside the insertion, German again, English behind the environment, Russian
    behind the switch -/
example : [5, 50, 90, 100, 130, 170].map (langAt theTables [babelOptions.lang] 0 exSegs)
    = ["en-GB".toList, "de-DE".toList, "fr".toList, "de-DE".toList, "en-GB".toList, "ru-RU".toList] := by
  decide +kernel

/-- a second document: a starred environment on lines of its own, a `\selectlanguage` INSIDE it, a
    nested unstarred environment, two adjacent insertions behind it:
    `Intro.⏎\begin{otherlanguage*}{german}⏎Ein Satz.⏎\selectlanguage{french} Une phrase
    \begin{otherlanguage}{russian}мир\end{otherlanguage}⏎encore.⏎\end{otherlanguage*}⏎Back
    \foreignlanguage{german}{zu}\foreignlanguage{french}{a b c} x.` -/
def exSegs2 : List Seg :=
  [.txt "Intro.\n".toList] ++
  env true "german".toList
    ([.txt "\nEin Satz.\n".toList, .sel "french".toList, .txt " Une phrase ".toList] ++
      env false "russian".toList [.txt "мир".toList] "\n".toList ++ [.txt "encore.\n".toList])
    "\n".toList ++
  [.txt "Back ".toList, .frn "german".toList "zu".toList, .frn "french".toList "a b c".toList,
   .txt " x.".toList]

theorem exSegs2_ok : segsOk theTables stBabel exSegs2 = true := by decide +kernel

/-- what the model computes for it equals the reference; the lines of `\begin{otherlanguage*}{german}`
    and of `\end{otherlanguage*}` are gone; the Russian word (one word) is cut out of the FRENCH piece
    (the `\selectlanguage{french}` inside the German environment) and replaced by `L-L-L` (French
    has no settings of its own: the collection of `en`) — and the line break behind
    `\end{otherlanguage}` is swallowed, so that the placeholder and `encore` are glued; behind the
    starred environment the text is English again although the last switch inside was to French.
    The Python code gives the same parts on this document. -/
example : (match tex2txt theTables bigFuel (render exSegs2) babelOptions true 2 [] with
    | .ok r => decide (r.parts = refParts theTables babelOptions.lang 2 (lcOf stBabel) exSegs2 ∧
        r.parts =
          [("en-GB".toList, [("Intro.\n".toList, List.range' 1 7), ("Back ".toList, List.range' 166 5),
              (" x.".toList, List.range' 230 3)]),
           ("de-DE".toList, [("Ein Satz.\n".toList, List.range' 39 10), ("zu".toList, [196, 197])]),
           ("ru-RU".toList, [("мир".toList, [114, 115, 116])]),
           ("fr".toList, [(" Une phrase L-L-Lencore.\n".toList,
                List.range' 72 12 ++ [114, 114, 114, 114, 114] ++ List.range' 137 8),
              ("a b c".toList, List.range' 224 5)])])
    | _ => false) = true := by decide +kernel

/-- a SHORT environment is replaced by a placeholder like a short insertion, and the blank behind
    `\end{otherlanguage}` is swallowed: `A \begin{otherlanguage}{german}Hallo\end{otherlanguage} B.`
    gives `A L-L-LB.` — the placeholder is glued to the next word (the Python code gives the same) -/
example : refParts theTables babelOptions.lang 2 (lcOf stBabel)
      [.txt "A ".toList, .beg false "german".toList, .txt "Hallo".toList, .fin false " ".toList,
       .txt "B.".toList]
    = [("de-DE".toList, [("Hallo".toList, [32, 33, 34, 35, 36])]),
       ("en-GB".toList, [("A L-L-LB.".toList, [1, 2, 32, 32, 32, 32, 32, 57, 58])])] := by
  decide +kernel

/-- the side conditions reject: babel not loaded; white space behind `\end{otherlanguage}` that is
    not part of the `fin` segment; the active character `"` in text inside a German environment -/
example : segsOk theTables stDefault [.beg false "german".toList, .fin false []] = false := by
  decide +kernel
example : segsOk theTables stBabel [.beg false "german".toList, .fin false [], .txt " a".toList] = false := by
  decide +kernel
example : segsOk theTables stBabel
    [.beg false "german".toList, .txt "sagt \"a".toList, .fin false []] = false := by decide +kernel
/-- … and accept an unbalanced `\end{otherlanguage}` (nothing is popped) and a paragraph break behind
    `\end{otherlanguage}` (it stays) -/
example : segsOk theTables stBabel
    [.txt "a".toList, .fin false "\n\n".toList, .txt "b".toList, .fin true [], .txt "c".toList] = true := by
  decide +kernel

end PlainLangMix
end Yalafi
