/-
  Properties/NoCrashStmt.lean — the last step of C07 on the model:
  THE FILTER MODEL NEVER ENDS IN `.crash`, whatever the input.

  Claim.  For the tables translated from the current /repo, and for EVERY fuel, source text, option record, mode
  (`multi`), threshold and file system, `tex2txt` of the model is never `.crash site`, for any `site`
  (`C07_tex2txt_never_crashes_current`).  It ends in `.ok …`, `.fatal …` (`utils.fatal`, a regular exit of the
  filter) or `.outOfFuel` (an artefact of the model: not enough fuel); nothing is claimed about which of them.

  Parametric form (`C07_tex2txt_never_crashes`): three decidable conditions on the tables,
  * `hw  : T.WFInv`                       the well-formedness of the range bundle (first induction on fuel,
                                          `C07_tex2txt_no_crash`: a crash site is in `allowedCrash`);
  * `hne : NoEmpty.tblOkB T = true`       second induction (`C07_no_capfirst_crash`: not the `cap_first` site);
  * `hop : noOpaqueB T = true`            NEW, third induction (this file): no module of the tables is marked
                                          `isOpaque`, and no macro or environment declared in the tables
                                          (`macroDefsPython`, `noSpecialsMacros`, `environmentDefs`) or in a module
                                          (`macros`, `envs`) has handler or `end_func` `.opaqueH _`.
  All three are proved for `Generated.theTables` by `decide +kernel`
  (`Generated.wfInv`, `C07_tblOk_current`, `C07_noOpaque_current`).  `noOpaqueB` states exactly the first three
  facts of `C07_no_opaque_module_current` (Properties/CleverefStmt.lean): `C07_noOpaque_of_facts`.

  How the third step is proved (`Proofs/NoOpaque*.lean`): the two markers are produced at exactly two places of
  Model/Expander.lean, `modifyParameters` (`if mod.isOpaque`) and `callHandler` (`| .opaqueH _`).  Invariant of
  the parser state: every definition in `st.macros` and `st.envs` has handler and `end_func` ≠ `.opaqueH _`
  (no other field of `PState` stores a definition).  It holds initially (both lists empty), and every function of
  the mutual block keeps it: definitions are loaded from the tables / modules (`TOk T`), or created by the model
  with handler `.none` (`\newcommand`, `\def`, sed macros, `initExtractions`, the local `\item` macro),
  `.theorem _` (`\newtheorem`), `.cref ..` / `.crefrange ..` (`h_read_sed`).  A module handed to `initPackage` /
  `modifyParameters` is a module of the tables (`findModule`), `emptyModule`, or `builtinModule`: never opaque.
  Induction on fuel over the 21 functions (`NoOpaque.AllGood`), one generic tactic (`good`) for the monadic
  structure, `handler_step` = one `cases` on the handler.

  NOT covered: nothing is said about `fatal` / `outOfFuel`; the statement is about the MODEL (its tie to the
  Python code is the differential correspondence check), for tables that satisfy the three conditions (the current
  ones do; a future /repo with a handler the translator does not recognise makes `noOpaqueB` false and the
  `_current` instance fails to build — as intended).
-/
import YalafiVerif.Proofs.NoOpaqueMain
import YalafiVerif.Properties.NoEmptyStmt
import YalafiVerif.Properties.CleverefStmt
import YalafiVerif.Generated.Init
import YalafiVerif.Generated.WF
namespace Yalafi

open NoOpaque

/-- third step alone: under `noOpaqueB T` the filter model never ends in one of the two `opaque …` markers -/
theorem C07_tex2txt_no_opaque_crash (T : PTables) (hop : noOpaqueB T = true)
    (fuel : Nat) (latex : Str) (o : Options) (multi : Bool) (thresh : Nat) (fs : FS) :
    tex2txt T fuel latex o multi thresh fs ≠ .crash "opaque module (not modelled)" ∧
    tex2txt T fuel latex o multi thresh fs ≠ .crash "opaque handler (not modelled)" :=
  tex2txt_noOpaque (noOpaqueB_TOk T hop) fuel latex o multi thresh fs

/-- **C07 on the model**: for tables that satisfy the three decidable conditions, the filter model never ends in
    `.crash`, for every fuel, source text, options, mode, threshold and file system -/
theorem C07_tex2txt_never_crashes (T : PTables) (hw : T.WFInv) (hne : NoEmpty.tblOkB T = true)
    (hop : noOpaqueB T = true)
    (fuel : Nat) (latex : Str) (o : Options) (multi : Bool) (thresh : Nat) (fs : FS) (site : String) :
    tex2txt T fuel latex o multi thresh fs ≠ .crash site := by
  intro h
  have h3 := C07_tex2txt_no_opaque_crash T hop fuel latex o multi thresh fs
  rcases C07_tex2txt_crash_only_opaque T hw hne fuel latex o multi thresh fs site h with h1 | h1
  · subst h1; exact h3.1 h
  · subst h1; exact h3.2 h

/-- the new table condition holds for the tables translated from the current /repo -/
theorem C07_noOpaque_current : noOpaqueB Generated.theTables = true := by decide +kernel

/-- **C07 for the current /repo**: the filter model NEVER ends in `.crash`, whatever the input -/
theorem C07_tex2txt_never_crashes_current (fuel : Nat) (latex : Str) (o : Options) (multi : Bool) (thresh : Nat)
    (fs : FS) (site : String) :
    tex2txt Generated.theTables fuel latex o multi thresh fs ≠ .crash site :=
  C07_tex2txt_never_crashes Generated.theTables Generated.wfInv C07_tblOk_current C07_noOpaque_current
    fuel latex o multi thresh fs site

/-- reformulation: every run of the model ends in `ok`, `fatal` or `outOfFuel` -/
theorem C07_tex2txt_outcome_current (fuel : Nat) (latex : Str) (o : Options) (multi : Bool) (thresh : Nat)
    (fs : FS) :
    (∃ r, tex2txt Generated.theTables fuel latex o multi thresh fs = .ok r) ∨
    (∃ m, tex2txt Generated.theTables fuel latex o multi thresh fs = .fatal m) ∨
    tex2txt Generated.theTables fuel latex o multi thresh fs = .outOfFuel := by
  have h := C07_tex2txt_never_crashes_current fuel latex o multi thresh fs
  cases hx : tex2txt Generated.theTables fuel latex o multi thresh fs with
  | ok r => exact Or.inl ⟨r, rfl⟩
  | fatal m => exact Or.inr (Or.inl ⟨m, rfl⟩)
  | crash c => exact absurd hx (h c)
  | outOfFuel => exact Or.inr (Or.inr rfl)

/-- `noOpaqueB` is exactly the first three facts `C07_no_opaque_module_current` decides -/
theorem C07_noOpaque_of_facts (T : PTables)
    (h1 : ∀ m ∈ T.packageModules ++ T.classModules, m.isOpaque = false)
    (h2 : ∀ m ∈ T.packageModules ++ T.classModules,
      ∀ d ∈ m.macros ++ m.envs, isOpaqueH d.handler = false ∧ isOpaqueH d.endFunc = false)
    (h3 : ∀ d ∈ T.macroDefsPython ++ T.noSpecialsMacros ++ T.environmentDefs,
      isOpaqueH d.handler = false ∧ isOpaqueH d.endFunc = false) :
    noOpaqueB T = true := by
  have e : ∀ h, opq h = isOpaqueH h := by intro h; cases h <;> rfl
  simp only [noOpaqueB, modOkB, dOkB, Bool.and_eq_true, List.all_eq_true, Bool.not_eq_true', e]
  refine ⟨fun m hm => ⟨⟨h1 m hm, fun d hd => h2 m hm d (List.mem_append_left _ hd)⟩,
    fun d hd => h2 m hm d (List.mem_append_right _ hd)⟩, h3⟩

/-- … so the new condition also follows from the theorem that was already there -/
theorem C07_noOpaque_current' : noOpaqueB Generated.theTables = true :=
  C07_noOpaque_of_facts Generated.theTables C07_no_opaque_module_current.1 C07_no_opaque_module_current.2.1
    C07_no_opaque_module_current.2.2.1

/-- non-vacuity of the precondition of `callHandler`'s specification: the marker IS produced by an opaque
    handler (so the table condition is needed) -/
example (T : PTables) (buf : Buf) (mac : MacroDef) (st : PState) :
    callHandler T 1 (.opaqueH []) buf mac [] 0 st = .crash "opaque handler (not modelled)" := by
  simp only [callHandler]; rfl


end Yalafi
