/-
  Properties/PlainParaMix3Stmt.lean — C05 "text flow is preserved", the PARAGRAPH-LEVEL reading, on
  the union grammar of TWENTY-TWO construct kinds (`PlainMix3.Seg`, the grammar of `C03_mix3_e2e`: the
  fourteen kinds of `PlainMix2` plus accent calls, rich inline formulas in both delimiters,
  `\newcommand` with parameters and uses, `\[…\]` and equation environments, list environments with
  `\item`): the relation between two words of a document.  The lift of `C05_paragraph_relation`,
  `C05_same_paragraph` (Properties/PlainParaStmt.lean).  A corollary layer over `C03_mix3_e2e`.
  Proofs, definitions, what the model does with displayed equations and list environments, what is
  not covered: Proofs/PlainParaMix3.lean (header).
-/
import YalafiVerif.Proofs.PlainParaMix3
import YalafiVerif.Properties.PlainMix3Stmt
import YalafiVerif.Generated.Init
namespace Yalafi

open PlainMix3.Para in
/-- **the paragraph relation between two text characters, 22-kind grammar.**  The document is
    `docAB A u a Mid b v B = A ++ .txt (u ++ [a]) :: (Mid ++ .txt (b :: v) :: B)` — two visible text
    characters `a` (0-based source position `posA A u`) and `b` (`posB A u Mid`), the source between
    them is `render Mid`.  Under the side conditions of `C03_mix3_e2e` for the document, `tex2txt`
    succeeds and its output, characters with (1-based) positions, is

        U ++ (a, posA + 1) :: (S ++ (b, posB + 1) :: V),      S = `between … Mid`

    (`S` = the output characters strictly between `a` and `b` = `PlainPara.sep` of the marks of `Mid`
    in its place — definitions in force, label generators, numbers of formulas and displayed
    equations behind `A`).  `srcView Mid` = the layout of the source between `a` and `b` as TeX reads
    it: text by the class of its characters, comments dropped, every other construct ONE INK BLOB —
    a control word WITH the white space it swallows, a call with its arguments, a definition, a use
    with its groups, an accent call, a displayed equation from `\[` to `\]` / `\begin{equation}` to
    `\end{equation}`, `\begin{itemize}`, `\item` WITH the white space behind it, `\end{itemize}`.

    * (i)+(ii) NO INVENTED, NO LOST BREAK: `S` holds a blank line (two line breaks with white space
      only between them) IFF `srcView Mid` does — under `midViewOk` (computable): the marks of every
      construct in `Mid` other than text and comments read as one ink blob (`blobOk`: no blank line
      inside, no leading `white space* line break`, the last character that is no blank is visible).
      In the model a displayed equation and `\item` generate NO line break (`mark, two blanks,
      placeholder, punctuation, mark` resp. `mark, blank, label, blank` stay in the line), so they
      satisfy it.  EXACT EXCEPTIONS (`midViewOk = false`): `\begin` / `\end` of a list environment
      declared with `add_pars` (they generate two line breaks — none on the tables of the current
      /repo); an accent call with an empty or white-space value (none on the real tables); a
      construct whose OUTPUT holds a blank line or starts / ends with a line break: an argument of a
      use of a user macro with a blank line inside (`\p{x⏎⏎y}`: the output has the blank line, the view
      has one blob — the raw source has the blank line too), a title, note, `\verb` content,
      placeholder, label, special value with such line breaks;
    * … without any condition, on the level of marks: `S` holds a blank line IFF the marks of `Mid`
      do (a text-less mark = a vanished construct counts as ink);
    * (i) on the raw source (under `midViewOk`): if `render Mid` with the comments cut out holds no
      blank line, `S` holds none;
    * (iii) NOT GLUED: if `srcView Mid` holds white space (a white-space character of a `txt`
      segment), `S` holds white space;
    * nothing is added: `S` is a subsequence of the output characters of `Mid` (`PlainMix3.plain`). -/
theorem C05_paragraph_relation_mix3 (T : PTables) (o : Options) (fs : FS) (thresh : Nat)
    (A : List PlainMix3.Seg) (u : Str) (a : Char) (Mid : List PlainMix3.Seg) (b : Char) (v : Str)
    (B : List PlainMix3.Seg) (fuel : Nat) (st1 : PState) (repls drepls : List Str)
    (hdefs : o.defs = []) (hextr : o.extr = []) (hrepl : o.hasRepl = false) (hunkn : o.unkn = false)
    (hinit : initParser T fuel o (initialState T o false fs) = .ok ((), st1))
    (hok : PlainMix3.SegsOk T st1 repls drepls (docAB A u a Mid b v B))
    (hf : (PlainMix3.render (docAB A u a Mid b v B)).length
            + PlainMix3.inserted [] 0 (docAB A u a Mid b v B) + 6 ≤ fuel)
    (ha : isSpace a = false) (hb : isSpace b = false) :
    ∃ r, tex2txt T fuel (PlainMix3.render (docAB A u a Mid b v B)) o false thresh fs = .ok r ∧
      ∃ U V, r.txt = (U ++ (a, posA A u) :: (between T st1 repls drepls A u Mid
                        ++ (b, posB A u Mid) :: V)).map (·.1) ∧
        r.pos = (U ++ (a, posA A u) :: (between T st1 repls drepls A u Mid
                        ++ (b, posB A u Mid) :: V)).map (·.2 + 1) ∧
        U = PlainPara.pre (frontMarks T st1 repls drepls A u) ∧
        V = PlainPara.post (backMarks T st1 repls drepls A u Mid v B)
              ++ PlainMix3.flows 0 (docAB A u a Mid b v B) ∧
        (midViewOk T st1 repls drepls A u Mid = true →
          PlainPara.hasBlank ((between T st1 repls drepls A u Mid).map PlainPara.clsP)
            = PlainPara.hasBlank (srcView Mid)) ∧
        PlainPara.hasBlank ((between T st1 repls drepls A u Mid).map PlainPara.clsP)
          = PlainPara.hasBlank ((midMarks T st1 repls drepls A u Mid).map PlainPara.clsM) ∧
        (midViewOk T st1 repls drepls A u Mid = true →
          PlainPara.hasBlankLine (PlainMix3.render (stripCom Mid)) = false →
          PlainPara.hasBlank ((between T st1 repls drepls A u Mid).map PlainPara.clsP) = false) ∧
        ((srcView Mid).any (fun c => c != .ink) = true →
          (between T st1 repls drepls A u Mid).any (fun cp => isSpace cp.1) = true) ∧
        List.Sublist (between T st1 repls drepls A u Mid)
          (PlainMix3.plain T st1 repls drepls (SystemWord.envAfter [] A)
            (SystemWord.stkAfter st1 st1.itemStack A) (PlainMix3.nFormulas A) (PlainMix3.nDisplays A)
            (posA A u + 1) Mid) := by
  obtain ⟨r, h1, h2, h3, _⟩ :=
    PlainMix3.tex2txt_mix3 T o fs thresh _ fuel st1 repls drepls hdefs hextr hrepl hunkn hinit hok hf
  rw [ref_docAB T st1 repls drepls A u a Mid b v B ha hb] at h2 h3
  refine ⟨r, h1, _, _, ?_, ?_, rfl, rfl, ?_, ?_, ?_, ?_, ?_⟩
  · rw [h2]; simp only [List.append_assoc, List.cons_append]
  · rw [h3]; simp only [List.append_assoc, List.cons_append]
  · exact between_blank T st1 repls drepls A u Mid
  · exact between_blank_marks T st1 repls drepls A u Mid
  · intro hn hraw
    exact between_blank_raw T st1 repls drepls A u Mid hn (spcVis_mid T st1 A u a Mid b v B hok.2.1) hraw
  · exact between_space T st1 repls drepls A u Mid
  · exact between_sublist T st1 repls drepls A u Mid

open PlainMix3.Para in
/-- **no invented, no lost paragraph break — the readable form.**  If no construct between `a` and
    `b` OUTPUTS a line break (`midOutNoNl`, computable: for every construct of `Mid` other than text
    and comments, `PlainMix3.plain` of the construct in its place — special value, `\verb` content,
    placeholder and punctuation of a formula or displayed equation, reference placeholder, note,
    title, EXPANSION of a use, label of an item, the line breaks of `add_pars` — holds no line
    break, and the value of an accent call holds a visible character), then the output between `a`
    and `b` holds a blank line IFF the source view does.  Displayed equations and `\item` satisfy
    the condition (they generate no line break in the model); on the tables of the current /repo
    `\begin{enumerate}` … `\end{itemize}` do, too. -/
theorem C05_paragraph_iff_mix3 (T : PTables) (o : Options) (fs : FS) (thresh : Nat)
    (A : List PlainMix3.Seg) (u : Str) (a : Char) (Mid : List PlainMix3.Seg) (b : Char) (v : Str)
    (B : List PlainMix3.Seg) (fuel : Nat) (st1 : PState) (repls drepls : List Str)
    (hdefs : o.defs = []) (hextr : o.extr = []) (hrepl : o.hasRepl = false) (hunkn : o.unkn = false)
    (hinit : initParser T fuel o (initialState T o false fs) = .ok ((), st1))
    (hok : PlainMix3.SegsOk T st1 repls drepls (docAB A u a Mid b v B))
    (hf : (PlainMix3.render (docAB A u a Mid b v B)).length
            + PlainMix3.inserted [] 0 (docAB A u a Mid b v B) + 6 ≤ fuel)
    (ha : isSpace a = false) (hb : isSpace b = false)
    (hout : midOutNoNl T st1 repls drepls A u Mid = true) :
    ∃ r U S V, tex2txt T fuel (PlainMix3.render (docAB A u a Mid b v B)) o false thresh fs = .ok r ∧
      r.txt = (U ++ (a, posA A u) :: (S ++ (b, posB A u Mid) :: V)).map (·.1) ∧
      r.pos = (U ++ (a, posA A u) :: (S ++ (b, posB A u Mid) :: V)).map (·.2 + 1) ∧
      S = between T st1 repls drepls A u Mid ∧
      PlainPara.hasBlankLine (S.map (·.1)) = PlainPara.hasBlank (srcView Mid) ∧
      (PlainPara.hasBlankLine (PlainMix3.render (stripCom Mid)) = false →
        PlainPara.hasBlankLine (S.map (·.1)) = false) := by
  obtain ⟨r, h1, U, V, h2, h3, _, _, h4, _, h5, _, _⟩ :=
    C05_paragraph_relation_mix3 T o fs thresh A u a Mid b v B fuel st1 repls drepls hdefs hextr hrepl hunkn
      hinit hok hf ha hb
  have hv := midViewOk_of_outNoNl T st1 repls drepls A u Mid hout
  have e : PlainPara.hasBlankLine ((between T st1 repls drepls A u Mid).map (·.1))
      = PlainPara.hasBlank ((between T st1 repls drepls A u Mid).map PlainPara.clsP) := by
    simp only [PlainPara.hasBlankLine, List.map_map, Function.comp_def]
    rfl
  refine ⟨r, U, _, V, h1, h2, h3, rfl, ?_, ?_⟩
  · rw [e]; exact h4 hv
  · intro hraw
    rw [e]; exact h5 hv hraw

open PlainMix3.Para in
/-- **two words separated only by white space, comments and vanishing constructs** (`gap st1 Mid`:
    white space, `%` comments, unknown control words with the white space they swallow, vanishing
    calls `\label{…}` / `\index{…}`, braces, footnotes, DEFINITIONS `\newcommand…`, `\begin{name}` /
    `\end{name}` of list environments without `add_pars`).  Then between `a` and `b` the output holds
    ONLY WHITE SPACE; it holds a blank line — `a` and `b` are in different output paragraphs — IFF the
    source between them holds a blank line outside comments and not counting the white space behind
    a control word (`srcView`); in particular a line that becomes blank only because its constructs
    vanished (a line with a `\newcommand`, with `\begin{enumerate}`) is no paragraph break, a line
    that is blank in the source is one; if the source holds any white space between them (outside
    comments, not behind a control word) the words are not glued; every position in `S` lies
    strictly between those of `a` and `b`. -/
theorem C05_same_paragraph_mix3 (T : PTables) (o : Options) (fs : FS) (thresh : Nat)
    (A : List PlainMix3.Seg) (u : Str) (a : Char) (Mid : List PlainMix3.Seg) (b : Char) (v : Str)
    (B : List PlainMix3.Seg) (fuel : Nat) (st1 : PState) (repls drepls : List Str)
    (hdefs : o.defs = []) (hextr : o.extr = []) (hrepl : o.hasRepl = false) (hunkn : o.unkn = false)
    (hinit : initParser T fuel o (initialState T o false fs) = .ok ((), st1))
    (hok : PlainMix3.SegsOk T st1 repls drepls (docAB A u a Mid b v B))
    (hf : (PlainMix3.render (docAB A u a Mid b v B)).length
            + PlainMix3.inserted [] 0 (docAB A u a Mid b v B) + 6 ≤ fuel)
    (ha : isSpace a = false) (hb : isSpace b = false) (hgap : gap st1 Mid = true) :
    ∃ r U S V, tex2txt T fuel (PlainMix3.render (docAB A u a Mid b v B)) o false thresh fs = .ok r ∧
      r.txt = (U ++ (a, posA A u) :: (S ++ (b, posB A u Mid) :: V)).map (·.1) ∧
      r.pos = (U ++ (a, posA A u) :: (S ++ (b, posB A u Mid) :: V)).map (·.2 + 1) ∧
      (∀ cp ∈ S, isSpace cp.1 = true) ∧
      PlainPara.hasBlankLine (S.map (·.1)) = PlainPara.hasBlank (srcView Mid) ∧
      ((srcView Mid).any (fun c => c != .ink) = true → S ≠ []) ∧
      (∀ cp ∈ S, posA A u < cp.2 ∧ cp.2 < posB A u Mid) := by
  obtain ⟨r, h1, U, V, h2, h3, _, _, h4, _, _, h5, _⟩ :=
    C05_paragraph_relation_mix3 T o fs thresh A u a Mid b v B fuel st1 repls drepls hdefs hextr hrepl hunkn
      hinit hok hf ha hb
  refine ⟨r, U, between T st1 repls drepls A u Mid, V, h1, h2, h3,
    between_gap T st1 repls drepls A u Mid hgap, ?_, ?_, between_gap_pos T st1 repls drepls A u Mid hgap⟩
  · have := h4 (viewOk_of_gap T st1 repls drepls Mid _ _ _ _ _ hgap)
    rw [← this]
    simp only [PlainPara.hasBlankLine, List.map_map, Function.comp_def]
    rfl
  · intro h hS
    have := h5 h
    rw [hS] at this
    simp at this

/-! ### the current code -/

open PlainMix3.Para in
/-- the paragraph relation for the CURRENT code (tables translated from /repo, default options,
    parser initialisation evaluated by the kernel): (i)+(ii) and (iii) -/
theorem C05_paragraph_relation_mix3_current (A : List PlainMix3.Seg) (u : Str) (a : Char)
    (Mid : List PlainMix3.Seg) (b : Char) (v : Str) (B : List PlainMix3.Seg) (repls drepls : List Str)
    (thresh : Nat)
    (hok : PlainMix3.SegsOk Generated.theTables Generated.stDefault repls drepls (docAB A u a Mid b v B))
    (hf : (PlainMix3.render (docAB A u a Mid b v B)).length
            + PlainMix3.inserted [] 0 (docAB A u a Mid b v B) + 6 ≤ Generated.bigFuel)
    (ha : isSpace a = false) (hb : isSpace b = false)
    (hview : midViewOk Generated.theTables Generated.stDefault repls drepls A u Mid = true) :
    ∃ r U S V, tex2txt Generated.theTables Generated.bigFuel (PlainMix3.render (docAB A u a Mid b v B))
        Generated.defaultOptions false thresh [] = .ok r ∧
      r.txt = (U ++ (a, posA A u) :: (S ++ (b, posB A u Mid) :: V)).map (·.1) ∧
      r.pos = (U ++ (a, posA A u) :: (S ++ (b, posB A u Mid) :: V)).map (·.2 + 1) ∧
      S = between Generated.theTables Generated.stDefault repls drepls A u Mid ∧
      PlainPara.hasBlank (S.map PlainPara.clsP) = PlainPara.hasBlank (srcView Mid) ∧
      ((srcView Mid).any (fun c => c != .ink) = true → S.any (fun cp => isSpace cp.1) = true) := by
  obtain ⟨r, h1, U, V, h2, h3, _, _, h4, _, _, h5, _⟩ :=
    C05_paragraph_relation_mix3 Generated.theTables Generated.defaultOptions [] thresh A u a Mid b v B
      Generated.bigFuel Generated.stDefault repls drepls rfl rfl rfl rfl Generated.initParser_default
      hok hf ha hb
  exact ⟨r, U, _, V, h1, h2, h3, rfl, h4 hview, h5⟩

open PlainMix3.Para in
/-- `C05_same_paragraph_mix3` for the CURRENT code -/
theorem C05_same_paragraph_mix3_current (A : List PlainMix3.Seg) (u : Str) (a : Char)
    (Mid : List PlainMix3.Seg) (b : Char) (v : Str) (B : List PlainMix3.Seg) (repls drepls : List Str)
    (thresh : Nat)
    (hok : PlainMix3.SegsOk Generated.theTables Generated.stDefault repls drepls (docAB A u a Mid b v B))
    (hf : (PlainMix3.render (docAB A u a Mid b v B)).length
            + PlainMix3.inserted [] 0 (docAB A u a Mid b v B) + 6 ≤ Generated.bigFuel)
    (ha : isSpace a = false) (hb : isSpace b = false) (hgap : gap Generated.stDefault Mid = true) :
    ∃ r U S V, tex2txt Generated.theTables Generated.bigFuel (PlainMix3.render (docAB A u a Mid b v B))
        Generated.defaultOptions false thresh [] = .ok r ∧
      r.txt = (U ++ (a, posA A u) :: (S ++ (b, posB A u Mid) :: V)).map (·.1) ∧
      r.pos = (U ++ (a, posA A u) :: (S ++ (b, posB A u Mid) :: V)).map (·.2 + 1) ∧
      (∀ cp ∈ S, isSpace cp.1 = true) ∧
      PlainPara.hasBlankLine (S.map (·.1)) = PlainPara.hasBlank (srcView Mid) ∧
      ((srcView Mid).any (fun c => c != .ink) = true → S ≠ []) ∧
      (∀ cp ∈ S, posA A u < cp.2 ∧ cp.2 < posB A u Mid) :=
  C05_same_paragraph_mix3 Generated.theTables Generated.defaultOptions [] thresh A u a Mid b v B
    Generated.bigFuel Generated.stDefault repls drepls rfl rfl rfl rfl Generated.initParser_default hok hf
    ha hb hgap

/-- the tail of the example document: `⏎\end{enumerate}⏎five⏎` behind `four` -/
def C05_para3_tail : List PlainMix3.Seg :=
  [.txt "\n".toList, .en "enumerate".toList, .txt "\nfive\n".toList]

/-- the definition `\newcommand{\p}[1]{<#1>}` -/
def C05_para3_defn : PlainMix3.Seg := .defn "p".toList 1 [.lit "<".toList, .par 1, .lit ">".toList]

/-- the front of the example document: `One\newcommand{\p}[1]{<#1>}⏎\begin{enumerate}⏎\item ` -/
def C05_para3_front : List PlainMix3.Seg :=
  [.txt "One".toList, C05_para3_defn, .txt "\n".toList, .beg "enumerate".toList, .txt "\n".toList,
   .item " ".toList]

/-- The example document

        One\newcommand{\p}[1]{<#1>}
        \begin{enumerate}
        \item two \p{x} three
        \[ a = b. \]

        four
        \end{enumerate}
        five

    cut at `One` / `two`: between them a definition, a line break, a line that holds only
    `\begin{enumerate}`, its line break, `\item` and its blank. -/
def C05_para3_doc1 : List PlainMix3.Seg :=
  PlainMix3.Para.docAB [] "On".toList 'e'
    [C05_para3_defn, .txt "\n".toList, .beg "enumerate".toList, .txt "\n".toList, .item " ".toList]
    't' "wo ".toList
    ([.use "p".toList ["x".toList], .txt " three\n".toList, .disp " a = b. ".toList, .txt "\n\nfour".toList]
      ++ C05_para3_tail)

/-- … cut at `three` / `four`: a line break, a displayed equation on its own line, a blank line -/
def C05_para3_doc2 : List PlainMix3.Seg :=
  PlainMix3.Para.docAB (C05_para3_front ++ [.txt "two ".toList, .use "p".toList ["x".toList]])
    " thre".toList 'e' [.txt "\n".toList, .disp " a = b. ".toList, .txt "\n\n".toList] 'f' "our".toList
    C05_para3_tail

/-- … cut at `four` / `five`: a line that holds only `\end{enumerate}` (a gap) -/
def C05_para3_doc3 : List PlainMix3.Seg :=
  PlainMix3.Para.docAB
    (C05_para3_front ++ [.txt "two ".toList, .use "p".toList ["x".toList], .txt " three\n".toList,
      .disp " a = b. ".toList])
    "\n\nfou".toList 'r' [.txt "\n".toList, .en "enumerate".toList, .txt "\n".toList] 'f' "ive\n".toList []

/-- the three cuts are the same source text; the side conditions hold for them on the real
    tables; `midViewOk` and the readable `midOutNoNl` hold for the first two pieces between the
    words; the third one is a gap -/
theorem C05_para3_example_current :
    PlainMix3.render C05_para3_doc1
      = "One\\newcommand{\\p}[1]{<#1>}\n\\begin{enumerate}\n\\item two \\p{x} three\n\\[ a = b. \\]\n\nfour\n\\end{enumerate}\nfive\n".toList ∧
    PlainMix3.render C05_para3_doc2 = PlainMix3.render C05_para3_doc1 ∧
    PlainMix3.render C05_para3_doc3 = PlainMix3.render C05_para3_doc1 ∧
    PlainMix3.SegsOk Generated.theTables Generated.stDefault C03_mix3_repls C03_mix3_drepls C05_para3_doc1 ∧
    PlainMix3.SegsOk Generated.theTables Generated.stDefault C03_mix3_repls C03_mix3_drepls C05_para3_doc2 ∧
    PlainMix3.SegsOk Generated.theTables Generated.stDefault C03_mix3_repls C03_mix3_drepls C05_para3_doc3 ∧
    PlainMix3.Para.midViewOk Generated.theTables Generated.stDefault C03_mix3_repls C03_mix3_drepls
      [] "On".toList
      [C05_para3_defn, .txt "\n".toList, .beg "enumerate".toList, .txt "\n".toList, .item " ".toList] = true ∧
    PlainMix3.Para.midViewOk Generated.theTables Generated.stDefault C03_mix3_repls C03_mix3_drepls
      (C05_para3_front ++ [.txt "two ".toList, .use "p".toList ["x".toList]]) " thre".toList
      [.txt "\n".toList, .disp " a = b. ".toList, .txt "\n\n".toList] = true ∧
    PlainMix3.Para.midOutNoNl Generated.theTables Generated.stDefault C03_mix3_repls C03_mix3_drepls
      [] "On".toList
      [C05_para3_defn, .txt "\n".toList, .beg "enumerate".toList, .txt "\n".toList, .item " ".toList] = true ∧
    PlainMix3.Para.midOutNoNl Generated.theTables Generated.stDefault C03_mix3_repls C03_mix3_drepls
      (C05_para3_front ++ [.txt "two ".toList, .use "p".toList ["x".toList]]) " thre".toList
      [.txt "\n".toList, .disp " a = b. ".toList, .txt "\n\n".toList] = true ∧
    PlainMix3.Para.gap Generated.stDefault [.txt "\n".toList, .en "enumerate".toList, .txt "\n".toList] = true := by
  decide +kernel

open PlainMix3.Para PlainPara in
/-- … and this is what the theorem says about the three pairs of words (output between them with
    0-based positions; blank line in the source view):
    `One` / `two`: one line break (the one behind the definition; the `\begin{enumerate}` line is
    gone with its line break), then the blank, the label `1.` and the blank of `\item` — no blank
    line: same paragraph, not glued;
    `three` / `four`: a line break, the line `␣␣V-V-V.` of the displayed equation (two blanks at the
    backslash, placeholder and full stop pinned into the body), its line break and the line break
    of the blank line — a blank line, in the source view too;
    `four` / `five`: one line break — the `\end{enumerate}` line is gone with its line break. -/
theorem C05_para3_example_ref :
    between Generated.theTables Generated.stDefault C03_mix3_repls C03_mix3_drepls [] "On".toList
        [C05_para3_defn, .txt "\n".toList, .beg "enumerate".toList, .txt "\n".toList, .item " ".toList]
      = [('\n', 27), (' ', 46), ('1', 46), ('.', 46), (' ', 46)] ∧
    hasBlank (srcView [C05_para3_defn, .txt "\n".toList, .beg "enumerate".toList, .txt "\n".toList,
        .item " ".toList]) = false ∧
    between Generated.theTables Generated.stDefault C03_mix3_repls C03_mix3_drepls
        (C05_para3_front ++ [.txt "two ".toList, .use "p".toList ["x".toList]]) " thre".toList
        [.txt "\n".toList, .disp " a = b. ".toList, .txt "\n\n".toList]
      = [('\n', 67), (' ', 68), (' ', 68), ('V', 71), ('-', 71), ('V', 71), ('-', 71), ('V', 71),
         ('.', 71), ('\n', 80), ('\n', 81)] ∧
    hasBlank (srcView [.txt "\n".toList, .disp " a = b. ".toList, .txt "\n\n".toList]) = true ∧
    between Generated.theTables Generated.stDefault C03_mix3_repls C03_mix3_drepls
        (C05_para3_front ++ [.txt "two ".toList, .use "p".toList ["x".toList], .txt " three\n".toList,
          .disp " a = b. ".toList]) "\n\nfou".toList
        [.txt "\n".toList, .en "enumerate".toList, .txt "\n".toList]
      = [('\n', 86)] ∧
    hasBlank (srcView [.txt "\n".toList, .en "enumerate".toList, .txt "\n".toList]) = false := by
  decide +kernel

/-- … which is what the model computes (evaluated by the kernel): text and positions -/
theorem C05_para3_example_eval :
    (match tex2txt Generated.theTables Generated.bigFuel (PlainMix3.render C05_para3_doc1)
        Generated.defaultOptions false 0 [] with
     | .ok r =>
       r.txt == "One\n 1. two <x> three\n  V-V-V.\n\nfour\nfive\n".toList &&
       r.pos == [1, 2, 3, 28, 47, 47, 47, 47, 53, 54, 55, 56, 60, 60, 60, 62, 63, 64, 65, 66, 67,
         68, 69, 69, 72, 72, 72, 72, 72, 72, 81, 82, 83, 84, 85, 86, 87, 104, 105, 106, 107, 108]
     | _ => false) = true := by
  decide +kernel

open PlainMix3.Para PlainPara in
/-- THE EXCEPTION, on a concrete document of the grammar (all side conditions of `C03_mix3_e2e` hold
    on the real tables):

        \newcommand{\p}[1]{<#1>}
        One
        \p{x

        y}
        two

    The argument of the use holds a blank line.  The output between `One` and `two` is
    `⏎<x⏎⏎y>⏎` — it HOLDS a blank line; the source view (the use with its argument = one ink blob)
    holds none; `midViewOk` is false; the raw source holds the blank line. -/
theorem C05_para3_exception :
    PlainMix3.SegsOk Generated.theTables Generated.stDefault C03_mix3_repls C03_mix3_drepls
      (docAB [C05_para3_defn, .txt "\n".toList] "On".toList 'e'
        [.txt "\n".toList, .use "p".toList ["x\n\ny".toList], .txt "\n".toList] 't' "wo\n".toList []) ∧
    between Generated.theTables Generated.stDefault C03_mix3_repls C03_mix3_drepls
        [C05_para3_defn, .txt "\n".toList] "On".toList
        [.txt "\n".toList, .use "p".toList ["x\n\ny".toList], .txt "\n".toList]
      = [('\n', 28), ('<', 32), ('x', 32), ('\n', 33), ('\n', 34), ('y', 35), ('>', 35), ('\n', 37)] ∧
    hasBlank (srcView [.txt "\n".toList, .use "p".toList ["x\n\ny".toList], .txt "\n".toList]) = false ∧
    midViewOk Generated.theTables Generated.stDefault C03_mix3_repls C03_mix3_drepls
        [C05_para3_defn, .txt "\n".toList] "On".toList
        [.txt "\n".toList, .use "p".toList ["x\n\ny".toList], .txt "\n".toList] = false ∧
    hasBlankLine (PlainMix3.render (stripCom [.txt "\n".toList, .use "p".toList ["x\n\ny".toList],
        .txt "\n".toList])) = true := by
  decide +kernel

end Yalafi
