/-
  Properties/SystemIncludeStmt.lean — C18, second half, as a statement about the SYSTEM (filter
  composed with the `--include` loop of the shell):
  "Built on this, --include checks exactly the files reachable from the given ones through
  \input/\include (adding .tex where missing), each once, in discovery order, without files
  matching --skip, and terminates on cyclic inclusion."
  Proofs: Proofs/SystemInclude.lean (the concrete inclusion function `includesOf` of the shell on
  the model of the filter, document class, side conditions, what is not covered: see its header),
  Proofs/SystemIncludeLoop.lean (the loop for an abstract inclusion function: termination,
  exactness, discovery order).
-/
import YalafiVerif.Proofs.SystemInclude
import YalafiVerif.Generated.Init
namespace Yalafi

open SystemInclude IncludeLoop

/-- **C18 (inclusion): termination of the work-list loop, cyclic inclusion or not.**  For an
    arbitrary inclusion function and skip predicate: if every included name that is not skipped
    lies in a finite list `U` (the names that occur in `\input`/`\include` calls of a finite file
    system, say), the loop of shell.py ends after at most `|todo| + |U|` iterations.  (The
    theorems `C18_include_nodup/_closed/_reachable` of Properties/C18.lean are conditional on
    `includeLoop … = some out`; this is the missing premise.) -/
theorem C18_include_terminates (includes : Str → List Str) (skip : Str → Bool) (U : List Str)
    (hU : ∀ f g, g ∈ includes f → skip g = false → g ∈ U) (fuel : Nat) (todo done : List Str)
    (hf : todo.length + U.length ≤ fuel) :
    ∃ out, includeLoop includes skip fuel todo done = some out :=
  includeLoop_terminates includes skip U hU fuel todo done hf

/-- **C18 (inclusion): the work list for an abstract inclusion function.**  Under the premise of
    `C18_include_terminates` the run from `done = []` ends, and the list of checked files
    * has no duplicates,
    * consists exactly of the files reachable from a root that is not skipped through inclusion
      by files that are not skipped (`ReachNS`),
    * is in breadth-first discovery order: it is the list of first occurrences of the non-skipped
      names in "the roots, then what out[0] includes, then what out[1] includes, …" (`firstNew`),
      and every member is a root or is included by an earlier member (`Causal`). -/
theorem C18_include_bfs (includes : Str → List Str) (skip : Str → Bool) (U roots : List Str)
    (hU : ∀ f g, g ∈ includes f → skip g = false → g ∈ U) (fuel : Nat)
    (hf : roots.length + U.length ≤ fuel) :
    ∃ out, includeLoop includes skip fuel roots [] = some out ∧
      out.Nodup ∧
      (∀ f, f ∈ out ↔ ReachNS includes skip roots f) ∧
      out = firstNew skip [] (roots ++ out.flatMap includes) ∧
      Causal includes roots out :=
  includeLoop_bfs includes skip U roots hU fuel hf

/-- **the order properties determine the work list**: a list that is the list of first
    occurrences of its own discovery sequence, and in which every member is a root or is included
    by an earlier member, is unique — so `C18_include_bfs` specifies the result completely. -/
theorem C18_include_order_unique (includes : Str → List Str) (skip : Str → Bool) (roots X Y : List Str)
    (hX : X = firstNew skip [] (roots ++ X.flatMap includes)) (cX : Causal includes roots X)
    (hY : Y = firstNew skip [] (roots ++ Y.flatMap includes)) (cY : Causal includes roots Y) :
    X = Y :=
  bfs_unique includes skip roots X Y hX cX hY cY

/-- **C18 (inclusion): what the shell takes from one file.**  `includesOf? T fuel o fs f` is the
    computation of shell.py for one file on the model: read `f` from the file system `fs`, run
    the filter with the options of the command line and `extr='include,input'`, split the plain
    text at white space, add `.tex` where missing (`none` = fatal exit).  If `f` contains a
    document `render segs` of the class of `C18_extract_e2e` — inert text, calls `\input{…}` /
    `\include{…}` (`.call`), calls of other declared macros (`.skip`), comment lines with
    arbitrary text (`.com`) — and no `--define`/`--replace` is given, the result is

        `inclNames segs = ((bodies segs).flatMap splitWs).map addTex`:

    the arguments of the `\input`/`\include` calls in source order, `.tex` added where missing —
    nothing from the text, from other macros (`\label{x}`) or from comments (`% \input{hidden}`).
    If no argument contains white space (`namesOk`) this is `(bodies segs).map addTex`, one name
    per call; an argument with white space is taken for several files, as `plain.split()` does. -/
theorem C18_includes_of_document (T : PTables) (o : Options) (fs : FS) (f : Str)
    (segs : List PlainExtract.Seg) (fuel : Nat) (st1 : PState)
    (hfile : readFile fs f = some (PlainExtract.render segs))
    (hdefs : o.defs = []) (hrepl : o.hasRepl = false)
    (hinit : initParser T fuel (inclOpts o) (initialState T (inclOpts o) false fs) = .ok ((), st1))
    (hst : PlainExtract.stateOk T (initExtractions T st1 inclList) = true)
    (hok : PlainExtract.segsOk T (initExtractions T st1 inclList) segs = true)
    (hf : (PlainExtract.render segs).length + 4 ≤ fuel) :
    includesOf? T fuel o fs f = some (inclNames segs) ∧
    includesOf T fuel o fs f = inclNames segs ∧
    (namesOk segs = true → inclNames segs = (PlainExtract.bodies segs).map addTex) := by
  have h := includesOf?_document T o fs f segs fuel st1 hfile hdefs hrepl hinit hst hok hf
  exact ⟨h, by simp [includesOf, h], inclNames_of_namesOk T _ segs hok⟩

/-- the extraction list of the scan is `\include`, `\input` -/
theorem C18_inclList : inclList = ["\\include".toList, "\\input".toList] := inclList_eq

/-- **C18 (inclusion), the system.**  `docs` is a finite file system of documents of the class
    above (`docsOk`; `fsOf docs` is what the filter and the shell read), `roots` the files of the
    command line, `skip` the `--skip` predicate; every root and every name in an `\input` /
    `\include` call that is not skipped is a file (`closedOk`: `myopen` does not exit).  The work
    list is computed by the loop of shell.py with the CONCRETE inclusion function `includesOf`
    (the filter of the model with `extr='include,input'`, `split()`, `.tex` added).  With
    `n ≥ |roots| + |docs|` iterations the loop TERMINATES, whether the inclusions are cyclic or
    not, and the list `out` of checked files satisfies:

    (0) every member is a file of `docs` and its scan succeeded (no fatal exit on the way);
    (i) every root that is not skipped is checked;
    (ii) if `f` is checked and contains `\input{g}` (`g' ∈ docIncludes docs f`: `g'` is `g`, or
        `g.tex` if `g` does not end in `.tex`) and `g'` is not skipped, `g'` is checked;
    (iii) exactly: `f` is checked iff it is reachable from a root through such calls, no file on
        the way (both ends included) being skipped (`ReachNS`);
    (iv) each file once, no skipped file; in breadth-first discovery order:
        `out = firstNew skip [] (roots ++ out.flatMap (docIncludes docs))`, and every member is a
        root or is included by an earlier member;
    (v) the same result for every larger number of iterations. -/
theorem C18_include_system (T : PTables) (o : Options) (docs : Docs) (roots : List Str)
    (skip : Str → Bool) (fuel n : Nat) (st1 : PState)
    (hdefs : o.defs = []) (hrepl : o.hasRepl = false)
    (hinit : initParser T fuel (inclOpts o) (initialState T (inclOpts o) false (fsOf docs)) = .ok ((), st1))
    (hst : PlainExtract.stateOk T (initExtractions T st1 inclList) = true)
    (hdocs : docsOk T (initExtractions T st1 inclList) fuel docs = true)
    (hclosed : closedOk skip docs roots = true)
    (hn : roots.length + docs.length ≤ n) :
    ∃ out, includeLoop (includesOf T fuel o (fsOf docs)) skip n roots [] = some out ∧
      (∀ f ∈ out, ∃ segs, docOf docs f = some segs ∧
        includesOf? T fuel o (fsOf docs) f = some (inclNames segs)) ∧
      (∀ r ∈ roots, skip r = false → r ∈ out) ∧
      (∀ f ∈ out, ∀ g ∈ docIncludes docs f, skip g = false → g ∈ out) ∧
      (∀ f, f ∈ out ↔ ReachNS (docIncludes docs) skip roots f) ∧
      out.Nodup ∧ (∀ f ∈ out, skip f = false) ∧
      out = firstNew skip [] (roots ++ out.flatMap (docIncludes docs)) ∧
      Causal (docIncludes docs) roots out ∧
      (∀ n', n ≤ n' → includeLoop (includesOf T fuel o (fsOf docs)) skip n' roots [] = some out) := by
  obtain ⟨out, h, h0, hnd, hsk, hreach, hord, hcaus⟩ :=
    include_system T o docs roots skip fuel n st1 hdefs hrepl hinit hst hdocs hclosed hn
  refine ⟨out, h, h0, ?_, ?_, hreach, hnd, hsk, hord, hcaus, ?_⟩
  · exact fun r hr hs => (hreach r).mpr (.root r hr hs)
  · exact fun f hf g hg hs => (hreach g).mpr (.step f g ((hreach f).mp hf) hg hs)
  · exact fun n' hn' => includeLoop_fuel_mono _ skip n n' roots [] out hn' h

/-! ### the current tables: a three-file system with a cycle -/

namespace IncludeCurrent
open Generated

/-- `main.tex`: `"Intro text \input{a} and \input{b.tex}\nEnd.\n"` -/
def segsMain : List PlainExtract.Seg :=
  [.txt "Intro text ".toList, .call "input".toList "a".toList, .txt " and ".toList,
   .call "input".toList "b.tex".toList, .txt "\nEnd.\n".toList]

/-- `a.tex`: `"Part A \include{main}\n"` — the cycle -/
def segsA : List PlainExtract.Seg :=
  [.txt "Part A ".toList, .call "include".toList "main".toList, .txt "\n".toList]

/-- `b.tex`: `"Part B\label{x}\n% \input{c}\nrest\n"` — a commented-out `\input{c}` (there is no
    file `c.tex`) and a `\label` -/
def segsB : List PlainExtract.Seg :=
  [.txt "Part B".toList, .skip "label".toList "x".toList, .txt "\n".toList,
   .com " \\input{c}".toList, .txt "rest\n".toList]

def docs3 : Docs :=
  [("main.tex".toList, segsMain), ("a.tex".toList, segsA), ("b.tex".toList, segsB)]

/-- the options of the command line: defaults -/
def oCmd : Options := {}

def noSkip : Str → Bool := fun _ => false
/-- `--skip b.tex` -/
def skipB : Str → Bool := fun f => f == "b.tex".toList

def initIncl : Outcome (Unit × PState) :=
  initParser theTables bigFuel (inclOpts oCmd) (initialState theTables (inclOpts oCmd) false (fsOf docs3))

theorem initIncl_ok : (match initIncl with | .ok _ => true | _ => false) = true := by
  decide +kernel

/-- the parser state after `Parser.__init__` with the three files in the file system -/
def stIncl : PState :=
  match initIncl with
  | .ok (_, s) => s
  | _ => stDefault

theorem initParser_incl :
    initParser theTables bigFuel (inclOpts oCmd) (initialState theTables (inclOpts oCmd) false (fsOf docs3))
      = .ok ((), stIncl) := by
  have h := initIncl_ok
  show initIncl = .ok ((), stIncl)
  unfold stIncl
  generalize initIncl = r at h ⊢
  cases r with
  | ok p => obtain ⟨u, s⟩ := p; cases u; rfl
  | fatal m => simp at h
  | crash c => simp at h
  | outOfFuel => simp at h

end IncludeCurrent

open Generated IncludeCurrent in
/-- the file system as the filter and the shell see it -/
theorem C18_include_files_current :
    (fsOf docs3).map (fun p => (String.ofList p.1, String.ofList p.2)) =
      [("main.tex", "Intro text \\input{a} and \\input{b.tex}\nEnd.\n"),
       ("a.tex", "Part A \\include{main}\n"),
       ("b.tex", "Part B\\label{x}\n% \\input{c}\nrest\n")] := by
  decide +kernel

open Generated IncludeCurrent in
/-- the hypotheses of `C18_include_system` hold on the tables of the current /repo for the
    three-file system (with and without `--skip b.tex`; `docsOk` contains that after
    `init_extractions` the first mandatory argument of `\include` and of `\input` is extracted
    and that of `\label` is not: `callDeclOk`, `skipDeclOk`); the names the documents contribute (`\input{a}` gives `a.tex`, `\input{b.tex}` stays, the commented-out
    `\input{c}` and the `\label{x}` give nothing) -/
theorem C18_include_system_current :
    initParser theTables bigFuel (inclOpts oCmd) (initialState theTables (inclOpts oCmd) false (fsOf docs3))
      = .ok ((), stIncl) ∧
    PlainExtract.stateOk theTables (initExtractions theTables stIncl inclList) = true ∧
    docsOk theTables (initExtractions theTables stIncl inclList) bigFuel docs3 = true ∧
    closedOk noSkip docs3 ["main.tex".toList] = true ∧
    closedOk skipB docs3 ["main.tex".toList] = true ∧
    docs3.all (fun d => namesOk d.2) = true ∧
    docs3.map (fun d => (String.ofList d.1, (inclNames d.2).map String.ofList)) =
      [("main.tex", ["a.tex", "b.tex"]), ("a.tex", ["main.tex"]), ("b.tex", [])] := by
  have h : (PlainExtract.stateOk theTables (initExtractions theTables stIncl inclList) &&
      docsOk theTables (initExtractions theTables stIncl inclList) bigFuel docs3) = true := by
    decide +kernel
  rw [Bool.and_eq_true] at h
  exact ⟨initParser_incl, h.1, h.2, by decide +kernel, by decide +kernel, by decide +kernel,
    by decide +kernel⟩

open Generated IncludeCurrent in
/-- **the whole loop evaluated in the kernel** on the model of the filter with the real tables:
    `main.tex` inputs `a` and `b.tex`, `a.tex` includes `main` (a cycle), `b.tex` has a
    commented-out `\input{c}` and a `\label{x}`.  The work list is `main.tex, a.tex, b.tex`
    (three runs of the filter, each with its own `Parser.__init__`). -/
theorem C18_include_example_current :
    includeLoop (includesOf theTables bigFuel oCmd (fsOf docs3)) noSkip 4 ["main.tex".toList] []
      = some ["main.tex".toList, "a.tex".toList, "b.tex".toList] := by
  decide +kernel

open Generated IncludeCurrent in
/-- the same with `--skip b.tex`; and there is no file `c.tex` (opening it would be fatal) -/
theorem C18_include_skip_example_current :
    includeLoop (includesOf theTables bigFuel oCmd (fsOf docs3)) skipB 4 ["main.tex".toList] []
      = some ["main.tex".toList, "a.tex".toList] ∧
    includesOf? theTables bigFuel oCmd (fsOf docs3) "c.tex".toList = none :=
  ⟨by decide +kernel, by decide +kernel⟩

open Generated IncludeCurrent in
/-- an argument with white space: the document `"See \input{my file}.\n"` is in the class (on the
    current tables, empty file system), and the shell takes it for the TWO files `my.tex` and
    `file.tex` (`plain.split()`) -/
theorem C18_include_blank_current :
    initParser theTables bigFuel (inclOpts oCmd) (initialState theTables (inclOpts oCmd) false [])
      = .ok ((), stDefault) ∧
    PlainExtract.segsOk theTables (initExtractions theTables stDefault inclList)
      [.txt "See ".toList, .call "input".toList "my file".toList, .txt ".\n".toList] = true ∧
    inclNames [.txt "See ".toList, .call "input".toList "my file".toList, .txt ".\n".toList]
      = ["my.tex".toList, "file.tex".toList] ∧
    includesOf? theTables bigFuel oCmd [("x.tex".toList, "See \\input{my file}.\n".toList)] "x.tex".toList
      = some ["my.tex".toList, "file.tex".toList] :=
  ⟨initParser_default, by decide +kernel, by decide +kernel, by decide +kernel⟩

open Generated IncludeCurrent in
/-- the system theorem applied to the three-file system on the current tables: the list
    `main.tex, a.tex, b.tex` the kernel computes is the set of files reachable from `main.tex`,
    without duplicates, in discovery order; any larger number of iterations gives the same -/
theorem C18_include_system_example_current :
    let out := ["main.tex".toList, "a.tex".toList, "b.tex".toList]
    out.Nodup ∧
    (∀ f, f ∈ out ↔ ReachNS (docIncludes docs3) noSkip ["main.tex".toList] f) ∧
    out = firstNew noSkip [] (["main.tex".toList] ++ out.flatMap (docIncludes docs3)) ∧
    Causal (docIncludes docs3) ["main.tex".toList] out ∧
    (∀ n, 4 ≤ n → includeLoop (includesOf theTables bigFuel oCmd (fsOf docs3)) noSkip n
        ["main.tex".toList] [] = some out) := by
  obtain ⟨h1, h2, h3, h4, _⟩ := C18_include_system_current
  obtain ⟨out, h, _, _, _, hreach, hnd, _, hord, hcaus, hfuel⟩ := C18_include_system theTables oCmd docs3
    ["main.tex".toList] noSkip bigFuel 4 stIncl rfl rfl h1 h2 h3 h4 (by decide)
  have e := C18_include_example_current
  rw [h] at e
  simp only [Option.some.injEq] at e
  subst e
  exact ⟨hnd, hreach, hord, hcaus, hfuel⟩

end Yalafi
