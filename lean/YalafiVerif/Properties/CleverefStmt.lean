/-
  Properties/CleverefStmt.lean — package `cleveref` (yalafi/packages/cleveref.py) in the model.

  The module is translated like every other package: its macros carry the handlers `.readSed`
  (`\YYCleverefInput`), `.crefWarn` (`\cref` … before a sed file is read), and — created by
  `.readSed` — `.cref tables` / `.crefrange tables` (the closures `h_make_cref(refs[ref])` with
  the dictionaries they capture).  The three regular expressions of the sed reader are the
  hand-written matchers of Model/Cleveref.lean (tied to Python `re` by harness/corr_cref.py).

  Theorems:
  * `C07_no_opaque_module_current`: no module of the current tables is opaque, no declared macro
    or environment has an opaque handler (the two `opaque …` crash markers of `allowedCrash`
    are unreachable for the current tables);
  * `cref_call`: what a reference macro computes — a hit: the scanned replacement text, every token at
    the position of the call and position-fixed, only the diagnostics of the state change; a miss: the
    error mark of `latex_error` at the call;
  * `cref_tokens_fixed` / `crefrange_tokens_fixed` (C04): whatever such a call returns is
    position-fixed; on a hit every token has the position of the call, on a miss the tokens are
    the error mark at the call;
  * `readSed_replaces_tables` (C17): a later `\YYCleverefInput` replaces the tables of the four reference
    macros completely;
  * `cref_loop` (C04 in `expand_sequence`, Proofs/PlainCref.lean) with `cref_loop_example_current`
    (its side conditions on the real tables);
  * `cref_example_eval`, `cref_stale_example_eval`, `cref_nopoorman_example_eval`: documents evaluated by the
    kernel on the real tables with a sed file in the file system of the state (text, 1-based positions,
    diagnostics).
-/
import YalafiVerif.Generated.Init
import YalafiVerif.Spec.Inv
import YalafiVerif.Proofs.PlainCref
namespace Yalafi
open Cleveref

/-! ### no opaque module / handler in the current tables -/

def isOpaqueH : Handler → Bool
  | .opaqueH _ => true
  | _ => false

/-- every bundled package / class module is translated (none is marked opaque), and no macro or
    environment declared anywhere in the tables has a handler the translator did not recognise -/
theorem C07_no_opaque_module_current :
    (∀ m ∈ Generated.theTables.packageModules ++ Generated.theTables.classModules, m.isOpaque = false) ∧
    (∀ m ∈ Generated.theTables.packageModules ++ Generated.theTables.classModules,
      ∀ d ∈ m.macros ++ m.envs, isOpaqueH d.handler = false ∧ isOpaqueH d.endFunc = false) ∧
    (∀ d ∈ Generated.theTables.macroDefsPython ++ Generated.theTables.noSpecialsMacros ++
        Generated.theTables.environmentDefs, isOpaqueH d.handler = false ∧ isOpaqueH d.endFunc = false) ∧
    Generated.unknownHandlers = [] := by
  decide +kernel

/-- the module is there, with the inject rule -/
theorem cleveref_translated_current :
    ((findModule Generated.theTables false "cleveref".toList).map (fun m => (m.crefInject, m.isOpaque, m.macros.map (·.handler))))
      = some (true, false, [.readSed, .none, .crefWarn, .crefWarn, .crefWarn, .crefWarn]) := by
  decide +kernel

/-! ### C04 for the reference macros (proofs: Proofs/PlainCref.lean) -/

open PlainCref (AtCall genToks crefHit CallOk Piece)

/-- what `\cref{…}` computes: a hit in the table the closure captured returns the scanned replacement
    text, every token at the position of the call and position-fixed, and only adds the scanner
    messages to the diagnostics; a miss is `latex_error` at the call with the message of the module -/
theorem cref_call (T : PTables) (fuel : Nat) (plain star : List (Str × Str)) (buf : Buf) (mac : MacroDef)
    (a0 a1 : List Tok) (rest : List (List Tok)) (pos : Nat) (st : PState) :
    callHandler T (fuel + 1) (.cref plain star) buf mac (a0 :: a1 :: rest) pos st =
      match lookupLast (if (getTextDirect a0).isEmpty then plain else star) (getTextDirect a1) with
      | some str => .ok (genToks T str pos, { st with diags := st.diags ++ (scan T.toTables str).diags })
      | none => latexError T.toTables (fmt T.crefMsgs.crefUndef [mac.name, getTextDirect a1]) pos st :=
  PlainCref.cref_call T fuel plain star buf mac a0 a1 rest pos st

/-- **C04 for `\cref` / `\Cref`**: every token a call returns is position-fixed; they all carry the
    position of the call (a hit: the generated text maps to the backslash of the call), or they are the
    error mark `latex_error` puts at the call (a miss).  No side condition. -/
theorem cref_tokens_fixed (T : PTables) (fuel : Nat) (plain star : List (Str × Str)) (buf : Buf) (mac : MacroDef)
    (a0 a1 : List Tok) (rest : List (List Tok)) (pos : Nat) (st st' : PState) (r : List Tok)
    (h : callHandler T (fuel + 1) (.cref plain star) buf mac (a0 :: a1 :: rest) pos st = .ok (r, st')) :
    (∀ t ∈ r, t.fix = true) ∧
    ((∀ t ∈ r, t.pos = pos) ∨ ∃ err, r = latexErrorToks T.toTables err pos st.latex.length) :=
  PlainCref.cref_tokens_fixed T fuel plain star buf mac a0 a1 rest pos st st' r h

/-- **C04 for `\crefrange` / `\Crefrange`** -/
theorem crefrange_tokens_fixed (T : PTables) (fuel : Nat) (plain star : List ((Str × Str) × Str)) (buf : Buf)
    (mac : MacroDef) (a0 a1 a2 : List Tok) (rest : List (List Tok)) (pos : Nat) (st st' : PState) (r : List Tok)
    (h : callHandler T (fuel + 1) (.crefrange plain star) buf mac (a0 :: a1 :: a2 :: rest) pos st = .ok (r, st')) :
    (∀ t ∈ r, t.fix = true) ∧
    ((∀ t ∈ r, t.pos = pos) ∨ ∃ err, r = latexErrorToks T.toTables err pos st.latex.length) :=
  PlainCref.crefrange_tokens_fixed T fuel plain star buf mac a0 a1 a2 rest pos st st' r h

/-- **C04 in the main loop**: a token buffer made of tokens that are copied and of calls `\cref{label}`
    (side conditions computed by `Piece.okB`: declared as `h_read_sed` declares it, label known, its
    replacement text scans without message into tokens that are copied) — `expand_sequence` appends
    the copied tokens and, for every call, an Action token and the replacement text, every generated
    token at the position of the backslash of its call and pinned; nothing of a label; same state. -/
theorem cref_loop (T : PTables) (st : PState) (envStop : Option Str) (rest : Buf) (ps : List Piece)
    (fuel : Nat) (out : List Tok) (hs : noEmptyActive T st = true) (hok : ps.all (Piece.okB T st) = true) :
    (∃ fuel', fuel ≤ fuel' ∧
      expandSequence T (fuel + PlainCref.cost T ps) (PlainCref.flat ps ++ rest) envStop out st
        = expandSequence T fuel' rest envStop (out ++ PlainCref.outP T ps) st) ∧
    (∀ hd lb b rb str, Piece.call hd lb b rb str ∈ ps →
      ∀ t ∈ Piece.out T (.call hd lb b rb str), t.pos = hd.pos ∧ (t = mkAction hd.pos ∨ t.fix = true)) :=
  ⟨PlainCref.seq_pieces T st envStop rest hs ps fuel out (PlainCref.pieces_ok_of hok),
   fun hd lb b rb str _ => PlainCref.outP_call_at T hd lb b rb str⟩

/-- the macro `h_read_sed` defines for `\cref` / `\Cref`: the closure `h_make_cref(refs[name])` over the two
    dictionaries (no star / star) built from the lines of the file -/
def crefMacroOf (ls : List SedLine) (name : Str) : MacroDef :=
  { name := name, args := ['*', 'A'], handler := .cref (refTable ls name []) (refTable ls name ['*']) }

/-- … and for `\crefrange` / `\Crefrange` -/
def crefrangeMacroOf (ls : List SedLine) (name : Str) : MacroDef :=
  { name := name, args := ['*', 'A', 'A'], handler := .crefrange (rangeTable ls name []) (rangeTable ls name ['*']) }

/-- **C17 for the sed tables**: after `\YYCleverefInput` (the part of `h_read_sed` behind the file access,
    when it succeeds) the four reference macros are exactly the closures over the tables of THIS file —
    whatever the macro table held before (the tables of an earlier sed file, a `\renewcommand{\cref}`, the
    warning macros of the package): nothing of an earlier file survives in them -/
theorem readSed_replaces_tables (T : PTables) (sed : Str) (st st' : PState)
    (h : readSedText T sed st = .ok ((), st')) :
    lookupMacro st' nameCref = some (crefMacroOf (sedLines sed) nameCref) ∧
    lookupMacro st' nameCrefU = some (crefMacroOf (sedLines sed) nameCrefU) ∧
    lookupMacro st' nameCrefrange = some (crefrangeMacroOf (sedLines sed) nameCrefrange) ∧
    lookupMacro st' nameCrefrangeU = some (crefrangeMacroOf (sedLines sed) nameCrefrangeU) := by
  have hm := PlainCref.readSedText_macros T sed st st' h
  exact ⟨hm (crefMacroOf (sedLines sed) nameCref) (by simp [crefMacros, crefMacroOf]),
    hm (crefMacroOf (sedLines sed) nameCrefU) (by simp [crefMacros, crefMacroOf]),
    hm (crefrangeMacroOf (sedLines sed) nameCrefrange) (by simp [crefMacros, crefrangeMacroOf]),
    hm (crefrangeMacroOf (sedLines sed) nameCrefrangeU) (by simp [crefMacros, crefrangeMacroOf])⟩

/-! ### the side conditions of `cref_loop` on the real tables -/

/-- the parser state after `Parser.__init__` and reading a sed file with one reference whose replacement
    text is two words -/
def stCref : PState :=
  match readSedText Generated.theTables "s/\\\\cref{eq:1}/Qword eq/g\n".toList Generated.stDefault with
  | .ok (_, s) => s
  | _ => Generated.stDefault

/-- the token buffer of `a \cref{eq:1} b` -/
def loopDoc : List Piece :=
  [.tok { kind := .text, pos := 0, txt := ['a'] }, .tok { kind := .space, pos := 1, txt := [' '] },
   .call { kind := .xmacro, pos := 2, txt := "\\cref".toList } { kind := .special, pos := 7, txt := ['{'] }
     [{ kind := .text, pos := 8, txt := ['e'] }, { kind := .text, pos := 9, txt := ['q'] },
      { kind := .text, pos := 10, txt := [':'] }, { kind := .text, pos := 11, txt := ['1'] }]
     { kind := .special, pos := 12, txt := ['}'] } "Qword eq".toList,
   .tok { kind := .space, pos := 13, txt := [' '] }, .tok { kind := .text, pos := 14, txt := ['b'] }]

/-- it is what the scanner makes of that text; all side conditions hold in `stCref`; the tokens the
    loop appends read `a Qword eq b`, the eight generated characters at the backslash (offset 2) -/
theorem cref_loop_example_current :
    PlainCref.flat loopDoc = (scan Generated.theTables.toTables "a \\cref{eq:1} b".toList).toks ∧
    noEmptyActive Generated.theTables stCref = true ∧
    loopDoc.all (Piece.okB Generated.theTables stCref) = true ∧
    getTxtPos (PlainCref.outP Generated.theTables loopDoc)
      = ("a Qword eq b".toList, [0, 1, 2, 2, 2, 2, 2, 2, 2, 2, 13, 14]) := by
  decide +kernel

/-! ### documents evaluated on the real tables -/

/-- a sed file as cleveref's poorman mode writes it -/
def sedExample : Str :=
  ("s/\\\\cref{eq:1}/eq.\\\\nobreakspace \\\\textup {(\\\\ref {eq:1})}/g\n" ++
   "s/\\\\Cref\\*{eq:1}/Equation\\\\nobreakspace \\\\textup {(\\\\ref {eq:1})}/g\n" ++
   "s/\\\\crefrange{eq:1}{eq:2}/eqs.\\\\nobreakspace \\\\textup {(\\\\ref {eq:1})} to\\\\nobreakspace \\\\textup {(\\\\ref {eq:2})}/g\n" ++
   "s/\\\\[cC]refname{.*}{.*}{.*}//g\n").toList

def docExample : Str :=
  "\\usepackage[poorman]{cleveref}\n\\YYCleverefInput{main.sed}\nSee \\cref{eq:1}. \\Cref*{eq:1} and \\crefrange{eq:1}{eq:2}.".toList

/-- the generated words map to the backslash of their call (1-based positions 63, 76, 93); `\textup` of the
    replacement text is an unknown macro of the default tables (reported once) -/
theorem cref_example_eval :
    (match tex2txt Generated.theTables Generated.bigFuel docExample Generated.defaultOptions false 0
        [("main.sed".toList, sedExample)] with
     | .ok r => r.txt == "See eq.\u00a0(0). Equation\u00a0(0) and eqs.\u00a0(0) to\u00a0(0).".toList &&
        r.pos == [59, 60, 61, 62, 63, 63, 63, 63, 63, 63, 63, 74, 75, 76, 76, 76, 76, 76, 76, 76, 76, 76, 76, 76, 76,
          88, 89, 90, 91, 92, 93, 93, 93, 93, 93, 93, 93, 93, 93, 93, 93, 93, 93, 93, 93, 115] &&
        r.unknowns == ["\\textup".toList] && r.diags.isEmpty
     | _ => false) = true := by
  decide +kernel

/-- a label the sed file does not know: error mark at the call, the message of the module on stderr -/
theorem cref_stale_example_eval :
    (match tex2txt Generated.theTables Generated.bigFuel
        "\\usepackage[poorman]{cleveref}\n\\YYCleverefInput{main.sed}\nSee \\cref{eq:9} end.".toList
        Generated.defaultOptions false 0 [("main.sed".toList, sedExample)] with
     | .ok r => r.txt == "See  LATEXXXERROR  end.".toList &&
        r.pos == [59, 60, 61, 62, 63, 63, 63, 63, 63, 63, 63, 63, 63, 63, 63, 63, 63, 63, 74, 75, 76, 77, 78] &&
        r.diags == [{ line := 3, col := 5, msg :=
          "No replacement for \\cref{eq:9} known.\n*** Run LaTeX again to build a new sed file.\n".toList }]
     | _ => false) = true := by
  decide +kernel

/-- without the option 'poorman' the package warns at the `\usepackage`; a reference before any
    `\YYCleverefInput` warns as well -/
theorem cref_nopoorman_example_eval :
    (match tex2txt Generated.theTables Generated.bigFuel
        "A\\usepackage{cleveref} \\cref{x}".toList
        Generated.defaultOptions false 0 [] with
     | .ok r => r.txt == "A LATEXXXERROR   LATEXXXERROR ".toList &&
        r.pos == [1, 2, 2, 2, 2, 2, 2, 2, 2, 2, 2, 2, 2, 2, 2, 23, 24, 24, 24, 24, 24, 24, 24, 24, 31, 31, 31, 31, 31, 31] &&
        r.diags.map (fun d => (d.line, d.col)) == [(1, 2), (1, 24)] &&
        r.diags.map (·.msg) == [Generated.theTables.crefMsgs.poorman, Generated.theTables.crefMsgs.sedNotLoaded]
     | _ => false) = true := by
  decide +kernel

end Yalafi
