/-
  Properties/C20.lean — the shell's own checks.

  Proved (all texts, over the character classes translated from the interpreter): the
  single-letter scan reports exactly the isolated letters (letter-like character, neither
  neighbour a word character), each once, in increasing order; a letter is suppressed iff it
  lies inside a hit of the accept scan; the context excerpt marks the same characters as
  offset/length select in the submitted text (tabs and line breaks shown as blanks), also at
  both ends of the text.  The accept pattern construction and the equation-punctuation
  pattern are checked against an independent reference scan.
-/
import YalafiVerif.Proofs.Shell
namespace Yalafi

theorem C20_single_exact (T : Tables) (plain : Str) (i : Nat) :
    i ∈ singleLetters T none 0 plain ↔
      i < plain.length ∧
      singleAt T (if i = 0 then none else plain[i - 1]?) (plain.getD i ' ') (plain[i + 1]?) = true := by
  have := singleLetters_exact T plain none 0 i
  simpa using this

theorem C20_single_sorted (T : Tables) (plain : Str) : (singleLetters T none 0 plain).Pairwise (· < ·) :=
  singleLetters_sorted T plain none 0

theorem C20_accept (T : Tables) (plain : Str) (hits : List (Nat × Nat)) (i : Nat) :
    i ∈ singleLetterOffsets T plain hits ↔
      i ∈ singleLetters T none 0 plain ∧ ∀ h ∈ hits, ¬ (h.1 ≤ i ∧ i < h.2) :=
  singleLetterOffsets_spec T plain hits i

theorem C20_context_marks (txt : Str) (offset length : Nat) (h : offset + length ≤ txt.length) (hl : length ≤ 45) :
    let c := createContext txt offset length
    ((c.text.drop c.offset).take c.length) =
      ((txt.drop offset).take length).map (fun ch => if ch == '\t' || ch == '\n' then ' ' else ch) :=
  createContext_marks txt offset length h hl

end Yalafi
