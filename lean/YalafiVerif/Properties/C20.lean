/-
  Properties/C20.lean — the shell's own checks.

  Proved (all texts, over the character classes translated from the interpreter): the
  single-letter scan reports exactly the isolated letters (letter-like character, neither
  neighbour a word character), each once, in increasing order; a letter is suppressed iff it
  lies inside a hit of the accept scan; the context excerpt marks the same characters as
  offset/length select in the submitted text (tabs and line breaks shown as blanks), also at
  both ends of the text.

  Model/Checks.lean + Proofs/Checks.lean (hand-written matchers for the two regular-expression
  scans, tied to `checks.py` by the correspondence operations ACCEPTHITS / EQPUNCT):
  * `C20_accept_split`, `C20_accept_hits_spec`, `C20_single_letters_e2e`: the accept string is
    split at `|`; the hits are exactly the occurrences of the non-empty alternatives (after
    `~` -> U+00A0, `\,` -> U+202F) with a word boundary where the alternative starts / ends with
    a letter; a letter is reported iff it is isolated and no such occurrence covers it.
  * `C20_eqpunct_marks_placeholder`, `C20_eqpunct_sound`, `C20_eqpunct_complete`,
    `C20_eqpunct_excuses_regex`: every message of --equation-punctuation starts with a
    placeholder occurrence (word boundaries on both sides), lies in the text, messages are
    disjoint and increasing; a reported placeholder is followed neither by a full stop, nor by
    another placeholder, nor by a lower-case word (each after the optional white space /
    `,;:`); every placeholder occurrence without such an excuse at an offset that does not lie
    strictly inside an earlier match is reported.
  NOT covered: empty placeholders and placeholders containing regular-expression operators (the
  code does not escape them; the real lists contain neither — asserted by the harness).
-/
import YalafiVerif.Proofs.Shell
import YalafiVerif.Proofs.Checks
import YalafiVerif.Generated.Tables
namespace Yalafi

theorem C20_single_exact (T : Tables) (plain : Str) (i : Nat) :
    i ∈ singleLetters T none 0 plain ↔
      i < plain.length ∧
      singleAt T (if i = 0 then none else plain[i - 1]?) (plain.getD i ' ') (plain[i + 1]?) = true := by
  have := singleLetters_exact T plain none 0 i
  simpa using this

theorem C20_single_sorted (T : Tables) (plain : Str) : (singleLetters T none 0 plain).Pairwise (· < ·) :=
  singleLetters_sorted T plain none 0

theorem C20_accept (T : Tables) (plain : Str) (hits : List (Nat × Nat)) (i : Nat) :
    i ∈ singleLetterOffsets T plain hits ↔
      i ∈ singleLetters T none 0 plain ∧ ∀ h ∈ hits, ¬ (h.1 ≤ i ∧ i < h.2) :=
  singleLetterOffsets_spec T plain hits i

theorem C20_context_marks (txt : Str) (offset length : Nat) (h : offset + length ≤ txt.length) :
    let c := createContext txt offset length
    ((c.text.drop c.offset).take c.length) =
      ((txt.drop offset).take length).map (fun ch => if ch == '\t' || ch == '\n' then ' ' else ch) :=
  createContext_marks txt offset length h

/-! ### the accept patterns (Model/Checks.lean) -/

/-- `splitBar` is `str.split('|')`: joining the pieces with `|` gives the accept string back and
    no piece contains `|` -/
theorem C20_accept_split (accept : Str) :
    ['|'].intercalate (splitBar accept) = accept ∧ ∀ x ∈ splitBar accept, '|' ∉ x :=
  ⟨splitBar_join accept, splitBar_no_bar accept⟩

/-- `(b, e)` is a hit of the accept scan iff a non-empty alternative `s` of the accept string,
    after the two substitutions, stands at `plain[b:e]` (`AcceptOcc`: literally, with `\b` in front
    if it starts with a letter and `\b` behind if it ends with one) -/
theorem C20_accept_hits_spec (T : Tables) (accept plain : Str) (b e : Nat) :
    (b, e) ∈ acceptHits T accept plain ↔
      ∃ s ∈ splitBar accept, s ≠ [] ∧ e = b + (acceptSubst s).length ∧
        ((plain.drop b).take (acceptSubst s).length = acceptSubst s ∧
         (optAlpha T (acceptSubst s).head? = true → wordBoundaryAt T plain b = true) ∧
         (optAlpha T (acceptSubst s).getLast? = true → wordBoundaryAt T plain (b + (acceptSubst s).length) = true)) :=
  acceptHits_spec T accept plain b e

/-- end to end for `--single-letters accept`: offset `i` is reported iff it holds an isolated
    letter and no occurrence of an accepted alternative covers it -/
theorem C20_single_letters_e2e (T : Tables) (accept plain : Str) (i : Nat) :
    i ∈ singleLetterMessages T accept plain ↔
      (i < plain.length ∧
        singleAt T (if i = 0 then none else plain[i - 1]?) (plain.getD i ' ') (plain[i + 1]?) = true) ∧
      ¬ ∃ s ∈ splitBar accept, s ≠ [] ∧ ∃ b, AcceptOcc T (acceptSubst s) plain b ∧
          b ≤ i ∧ i < b + (acceptSubst s).length :=
  singleLetterMessages_spec T accept plain i

/-- the word boundaries in plain words, on tables where every letter is a word character: in
    front of an alternative that starts with a letter stands no word character (or nothing),
    behind an alternative that ends with a letter likewise -/
theorem C20_accept_boundaries (T : Tables) (hT : alphaIsWord T = true) (a plain : Str) (b : Nat)
    (h : (plain.drop b).take a.length = a) :
    (optAlpha T a.head? = true →
      (wordBoundaryAt T plain b = true ↔ optWord T (prevChar plain b) = false)) ∧
    (optAlpha T a.getLast? = true →
      (wordBoundaryAt T plain (b + a.length) = true ↔ optWord T plain[b + a.length]? = false)) :=
  acceptOcc_boundaries T hT a plain b h

/-! ### equation punctuation -/

/-- every message `(o, l)` starts with an occurrence of a placeholder `r` (`EquOcc`: not empty,
    `plain[o : o+|r|] = r`, `\b` on both sides), covers at least the placeholder and lies in the
    text; the messages are pairwise disjoint and increasing -/
theorem C20_eqpunct_marks_placeholder (T : Tables) (repls : List Str) (plain : Str) :
    (∀ o l, (o, l) ∈ eqPunctMessages T repls plain →
      ∃ r ∈ repls, (r ≠ [] ∧ (plain.drop o).take r.length = r ∧
          wordBoundaryAt T plain o = true ∧ wordBoundaryAt T plain (o + r.length) = true) ∧
        r.length ≤ l ∧ o + l ≤ plain.length) ∧
    (eqPunctMessages T repls plain).Pairwise (fun a b => a.1 + a.2 ≤ b.1) :=
  ⟨fun o l h => eqPunct_marks_placeholder T repls plain o l h, eqPunct_disjoint T repls plain⟩

/-- a reported placeholder has none of the three excuses; no other placeholder that stands at
    the same offset is followed by a placeholder either; the message extends over the
    placeholder and the white space behind it or, if a word that does not start with a lower-case
    letter follows (after white space, optional `,;:`, white space), up to the end of that word -/
theorem C20_eqpunct_sound (T : Tables) (repls : List Str) (plain : Str) (o l : Nat)
    (h : (o, l) ∈ eqPunctMessages T repls plain) :
    ∃ r ∈ repls, EquOcc T plain o r ∧
      ¬ FollowsDot plain (o + r.length) ∧
      ¬ FollowsEqu T repls plain (o + r.length) ∧
      ¬ FollowsLowerWord T plain (o + r.length) ∧
      (∀ r' ∈ repls, EquOcc T plain o r' → ¬ FollowsEqu T repls plain (o + r'.length)) ∧
      o + l = (if wordRun T plain (afterSep plain (o + r.length)) = 0
                then o + r.length + wsRun plain (o + r.length)
                else afterSep plain (o + r.length) + wordRun T plain (afterSep plain (o + r.length))) :=
  eqPunct_sound T repls plain o l h

/-- the excuses in the words of the regular expression: `wsRun` is the maximal run of white space;
    a full stop follows iff `\s*\.` can match; on tables where white space and `, ; : .` are no
    word characters, a lower-case word follows iff `\s*[,;:]?\s*` can be matched such that a
    `[^\W0-9_]` character with `islower()` comes next -/
theorem C20_eqpunct_excuses_regex (T : Tables) (plain : Str) (e : Nat) :
    ((∀ i, i < wsRun plain e → ∃ c, plain[e + i]? = some c ∧ isSpace c = true) ∧
      (∀ c, plain[e + wsRun plain e]? = some c → isSpace c = false)) ∧
    (FollowsDot plain e ↔ ∃ k, WsAt plain e k ∧ plain[e + k]? = some '.') ∧
    (checksClassesOk T = true →
      (FollowsLowerWord T plain e ↔
        ∃ i k j c, WsAt plain e i ∧ (k = 0 ∨ (k = 1 ∧ optPunct plain[e + i]? = true)) ∧
          WsAt plain (e + i + k) j ∧ plain[e + i + k + j]? = some c ∧
          isLetterish T c = true ∧ T.isLower c = true)) :=
  ⟨wsRun_spec plain e, followsDot_iff plain e, fun h => followsLowerWord_iff T h plain e⟩

/-- completeness: let the placeholders standing at offset `p` be `r :: rest` (in the order of
    the list), let `p` not lie strictly inside a match that the left-to-right scan found earlier
    (`eqMatches`: start, end, message? of every match — such an offset is never tried as a start),
    let none of the candidates be followed by a placeholder and the first one neither by a full
    stop nor by a lower-case word: then a message at `p` is produced -/
theorem C20_eqpunct_complete (T : Tables) (repls : List Str) (plain : Str) (p : Nat) (r : Str) (rest : List Str)
    (hc : equCands T repls plain p = r :: rest)
    (hfree : ∀ m ∈ eqMatches T repls plain, ¬ (m.1 < p ∧ p < m.2.1))
    (hequ : ∀ r' ∈ r :: rest, ¬ FollowsEqu T repls plain (p + r'.length))
    (hdot : ¬ FollowsDot plain (p + r.length))
    (hlow : ¬ FollowsLowerWord T plain (p + r.length)) :
    ∃ l, (p, l) ∈ eqPunctMessages T repls plain ∧ r.length ≤ l :=
  ⟨_, eqPunct_complete T repls plain p r rest hc hfree hequ hdot hlow, by
    have hocc := ((mem_equCands T repls plain p r).mp (by rw [hc]; simp)).2
    have := tailMatch_bounds T plain (p + r.length) hocc.bound.1
    omega⟩

/-- the candidates at `p` are the placeholders of the list that occur there, in list order -/
theorem C20_eqpunct_cands (T : Tables) (repls : List Str) (plain : Str) (p : Nat) (r : Str) :
    r ∈ equCands T repls plain p ↔ r ∈ repls ∧ EquOcc T plain p r :=
  mem_equCands T repls plain p r

/-- the matches of the scan are the matches at their start offsets, disjoint and increasing -/
theorem C20_eqpunct_matches (T : Tables) (repls : List Str) (plain : Str) :
    (∀ m ∈ eqMatches T repls plain, eqMatchAt T repls plain m.1 = some (m.2.1, m.2.2)) ∧
    (eqMatches T repls plain).Pairwise (fun a b => a.1 ≤ a.2.1 ∧ a.2.1 ≤ b.1) :=
  ⟨fun m hm => (eqScan_mem T repls plain _ 0 m hm).2, eqScan_pairwise T repls plain _ 0⟩

/-! ### instances on the tables translated from the running interpreter -/

/-- white space and `, ; : .` are no word characters (assumption of `tailMatch`) -/
theorem C20_classes_current : checksClassesOk Generated.theTables.toTables = true := by
  decide +kernel

/-- every letter (`str.isalpha`) is a word character (`\w`) -/
theorem C20_alpha_word_current : alphaIsWord Generated.theTables.toTables = true := by
  decide +kernel

section Examples
open Generated

example : eqMatches theTables.toTables ["A-A-A".toList, "B-B-B".toList, "C-C-C".toList]
      "A-A-A , B-B-B and C-C-C\nNext".toList = [(0, 5, false), (8, 17, false), (18, 28, true)] := by
  decide +kernel

example : eqPunctMessages theTables.toTables ["A-A-A".toList, "B-B-B".toList, "C-C-C".toList]
      "A-A-A , B-B-B and C-C-C\nNext".toList = [(18, 10)] := by
  decide +kernel

/-- full stop, lower-case word, upper-case word after `;`, end of text, glued to a word -/
example : eqPunctMessages theTables.toTables ["A-A-A".toList, "B-B-B".toList]
      "A-A-A . B-B-B is; A-A-A ; Then xB-B-B B-B-B".toList = [(18, 12), (38, 5)] := by
  decide +kernel

/-- an occurrence strictly inside an earlier match is not tried (hypothesis `hfree`) -/
example : eqMatches theTables.toTables ["A-A-A".toList] "A-A-A-A-A".toList = [(0, 5, true)] := by
  decide +kernel

example : acceptHits theTables.toTables "a b|b c|z.~B.||".toList "a b c z. B. xa b".toList
      = [(0, 3), (2, 5), (6, 11)] := by
  decide +kernel

example : singleLetterMessages theTables.toTables "a b|b c|z.~B.||".toList "a b c z. B. xa b".toList = [15] := by
  decide +kernel

example : singleLetterMessages theTables.toTables "".toList "a b c z. B. xa b".toList = [0, 2, 4, 6, 9, 15] := by
  decide +kernel

end Examples

end Yalafi
