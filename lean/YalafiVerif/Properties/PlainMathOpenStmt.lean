/-
  Properties/PlainMathOpenStmt.lean — C08 "LaTeX problems yield the full error mark at the right
  place, and only then", end to end on the filter model for UNTERMINATED INLINE MATHS
  (proofs: Proofs/PlainMathOpen.lean, Proofs/PlainMathOpenTok.lean).
-/
import YalafiVerif.Proofs.PlainMathOpen
import YalafiVerif.Generated.Init
namespace Yalafi

open PlainMath PlainMathOpen

/-- **an unterminated inline formula yields exactly one diagnostic at the line and column of its
    `$` and the complete error mark at that position; the text behind the end of its paragraph is
    kept.**  `src = render pre ++ "$" ++ body ++ w ++ render post`: `pre` and `post` are documents of
    inert text and well-formed simple inline formulas (the class of `PlainMath.tex2txt_inline_math`),
    the `$` opens a formula with simple maths material `body` that is never closed — it is cut by the
    paragraph break `w` (a maximal run of white space with at least two line breaks), or `w = []`,
    `post = []` and it runs to the end of the text (all side conditions on the document: `OSegsOk`).
    Then, with `P` = 0-based offset of the `$`:

    * text: output of `pre`, then the complete mark `errMark` = `" " ++ T.mark ++ " "` (plus the message
      in verbose mode), then `openText`: the placeholder whose turn it is and the closing punctuation
      of the maths material read so far (nothing if `body` is blank), then the output of `post`.
      The paragraph break `w` ITSELF IS DROPPED (the model and `expand_math_section` consume the
      paragraph token): `post` is glued to the mark / placeholder;
    * positions (1-based): the first `mx = min |mark| (number of characters from the `$` to the end)`
      characters of the mark at the `$` (`P + 1`), the others — only if the mark is longer than the
      rest of the source — at the last position of the source; the placeholder at the first character
      of `body` that is no white space; `pre` and `post` as in `PlainMath.refMath`: every text
      character at its own position;
    * diagnostics: exactly one more, "missing end of maths", line = line breaks in front of the `$`
      + 1, column = characters between the last line break and the `$` + 1;
    * nothing is reported as unknown. -/
theorem C08_math_unterminated (T : PTables) (o : Options) (fs : FS) (thresh : Nat)
    (pre : List PlainMath.Seg) (body w : Str) (post : List PlainMath.Seg)
    (fuel : Nat) (st1 : PState) (rot : Rot) (repls : List Str)
    (hdefs : o.defs = []) (hextr : o.extr = []) (hrepl : o.hasRepl = false) (hunkn : o.unkn = false)
    (hinit : initParser T fuel o (initialState T o false fs) = .ok ((), st1))
    (hok : OSegsOk T st1 (pre.map ofMath ++ .opn body w :: post.map ofMath))
    (hm : markVisible T.toTables = true)
    (hrot : rotOf st1 (curSettings st1) = some rot) (hrepls : rot.inl = repls)
    (hne : repls ≠ []) (hvis : VisibleRepls repls)
    (hls : (settingsOf T (curSettings st1)).isSome = true)
    (hf : (PlainMath.render pre ++ '$' :: (body ++ (w ++ PlainMath.render post))).length + 3 ≤ fuel) :
    let src := PlainMath.render pre ++ '$' :: (body ++ (w ++ PlainMath.render post))
    let P := (PlainMath.render pre).length
    let mark := errMark T.toTables errMathEnd
    let mx := min mark.length (body.length + w.length + (PlainMath.render post).length + 1)
    let k := nForm pre
    let d := latexErrorDiag errMathEnd P src
    ∃ r, tex2txt T fuel src o false thresh fs = .ok r ∧
      r.txt = (refMath T repls 0 0 pre).1 ++ mark ++ openText T repls k body
        ++ (refMath T repls (openNext k body) (P + (body.length + 1 + w.length)) post).1 ∧
      r.pos = (refMath T repls 0 0 pre).2.map (· + 1)
        ++ List.replicate mx (P + 1) ++ List.replicate (mark.length - mx) (P + mx)
        ++ List.replicate (openText T repls k body).length (P + 2 + leadBlanks body)
        ++ (refMath T repls (openNext k body) (P + (body.length + 1 + w.length)) post).2.map (· + 1) ∧
      r.unknowns = [] ∧
      r.diags = st1.diags ++ [d] ∧
      d.msg = errMathEnd ∧ d.line = countNl (PlainMath.render pre) + 1 ∧
      d.col = (afterLastNl (PlainMath.render pre)).length + 1 :=
  tex2txt_math_unterminated T o fs thresh pre body w post fuel st1 rot repls hdefs hextr hrepl hunkn hinit
    hok hm hrot hrepls hne hvis hls hf

/-- situation (A): the open formula runs to the end of the text, `src = render pre ++ "$" ++ body` -/
theorem C08_math_unterminated_end (T : PTables) (o : Options) (fs : FS) (thresh : Nat)
    (pre : List PlainMath.Seg) (body : Str)
    (fuel : Nat) (st1 : PState) (rot : Rot) (repls : List Str)
    (hdefs : o.defs = []) (hextr : o.extr = []) (hrepl : o.hasRepl = false) (hunkn : o.unkn = false)
    (hinit : initParser T fuel o (initialState T o false fs) = .ok ((), st1))
    (hok : OSegsOk T st1 (pre.map ofMath ++ [.opn body []]))
    (hm : markVisible T.toTables = true)
    (hrot : rotOf st1 (curSettings st1) = some rot) (hrepls : rot.inl = repls)
    (hne : repls ≠ []) (hvis : VisibleRepls repls)
    (hls : (settingsOf T (curSettings st1)).isSome = true)
    (hf : (PlainMath.render pre ++ '$' :: body).length + 3 ≤ fuel) :
    let src := PlainMath.render pre ++ '$' :: body
    let P := (PlainMath.render pre).length
    let mark := errMark T.toTables errMathEnd
    let mx := min mark.length (body.length + 1)
    let k := nForm pre
    let d := latexErrorDiag errMathEnd P src
    ∃ r, tex2txt T fuel src o false thresh fs = .ok r ∧
      r.txt = (refMath T repls 0 0 pre).1 ++ mark ++ openText T repls k body ∧
      r.pos = (refMath T repls 0 0 pre).2.map (· + 1)
        ++ List.replicate mx (P + 1) ++ List.replicate (mark.length - mx) (P + mx)
        ++ List.replicate (openText T repls k body).length (P + 2 + leadBlanks body) ∧
      r.unknowns = [] ∧
      r.diags = st1.diags ++ [d] ∧
      d.msg = errMathEnd ∧ d.line = countNl (PlainMath.render pre) + 1 ∧
      d.col = (afterLastNl (PlainMath.render pre)).length + 1 :=
  tex2txt_math_unterminated_end T o fs thresh pre body fuel st1 rot repls hdefs hextr hrepl hunkn hinit
    hok hm hrot hrepls hne hvis hls hf

/-- general form: any sequence of inert text, well-formed simple inline formulas and open formulas
    (each cut by a paragraph break, the last one possibly by the end of the text): one diagnostic per
    open formula, in order; text and positions are `orefSegs` -/
theorem C08_math_segments (T : PTables) (o : Options) (fs : FS) (thresh : Nat)
    (segs : List OSeg) (fuel : Nat) (st1 : PState) (rot : Rot) (repls : List Str)
    (hdefs : o.defs = []) (hextr : o.extr = []) (hrepl : o.hasRepl = false) (hunkn : o.unkn = false)
    (hinit : initParser T fuel o (initialState T o false fs) = .ok ((), st1))
    (hok : OSegsOk T st1 segs)
    (hm : markVisible T.toTables = true)
    (hrot : rotOf st1 (curSettings st1) = some rot) (hrepls : rot.inl = repls)
    (hne : repls ≠ []) (hvis : VisibleRepls repls)
    (hls : (settingsOf T (curSettings st1)).isSome = true)
    (hf : (orender segs).length + 3 ≤ fuel) :
    ∃ r, tex2txt T fuel (orender segs) o false thresh fs = .ok r ∧
      r.txt = (orefSegs T (orender segs).length repls 0 0 segs).1 ∧
      r.pos = (orefSegs T (orender segs).length repls 0 0 segs).2.map (· + 1) ∧
      r.unknowns = [] ∧ r.diags = st1.diags ++ odiagsSegs (orender segs) 0 segs :=
  tex2txt_math_open_segs T o fs thresh segs fuel st1 rot repls hdefs hextr hrepl hunkn hinit hok hm hrot
    hrepls hne hvis hls hf

/-- the whole mark occurs in the plain text as one contiguous piece (it starts with
    `" " ++ T.mark ++ " "`); its first character is mapped to the `$` (1-based `P + 1`), all its
    characters into the range from the `$` to the end of the source -/
theorem C08_math_mark_complete (T : PTables) (o : Options) (fs : FS) (thresh : Nat)
    (pre : List PlainMath.Seg) (body w : Str) (post : List PlainMath.Seg)
    (fuel : Nat) (st1 : PState) (rot : Rot) (repls : List Str)
    (hdefs : o.defs = []) (hextr : o.extr = []) (hrepl : o.hasRepl = false) (hunkn : o.unkn = false)
    (hinit : initParser T fuel o (initialState T o false fs) = .ok ((), st1))
    (hok : OSegsOk T st1 (pre.map ofMath ++ .opn body w :: post.map ofMath))
    (hm : markVisible T.toTables = true)
    (hrot : rotOf st1 (curSettings st1) = some rot) (hrepls : rot.inl = repls)
    (hne : repls ≠ []) (hvis : VisibleRepls repls)
    (hls : (settingsOf T (curSettings st1)).isSome = true)
    (hf : (PlainMath.render pre ++ '$' :: (body ++ (w ++ PlainMath.render post))).length + 3 ≤ fuel) :
    let src := PlainMath.render pre ++ '$' :: (body ++ (w ++ PlainMath.render post))
    let P := (PlainMath.render pre).length
    ∃ r a b pa pm pb, tex2txt T fuel src o false thresh fs = .ok r ∧
      r.txt = a ++ errMark T.toTables errMathEnd ++ b ∧ r.pos = pa ++ pm ++ pb ∧
      pa.length = a.length ∧ pm.length = (errMark T.toTables errMathEnd).length ∧
      pm.head? = some (P + 1) ∧ (∀ q ∈ pm, P + 1 ≤ q ∧ q ≤ src.length) ∧
      (∃ v, errMark T.toTables errMathEnd = ' ' :: (T.mark ++ ' ' :: v)) :=
  tex2txt_math_mark_complete T o fs thresh pre body w post fuel st1 rot repls hdefs hextr hrepl hunkn hinit
    hok hm hrot hrepls hne hvis hls hf

/-- no text behind the paragraph break that ends the open formula is lost: every character of the
    inert text `s` behind it is in the plain text, at its own (1-based) position -/
theorem C08_math_text_kept (T : PTables) (o : Options) (fs : FS) (thresh : Nat)
    (pre : List PlainMath.Seg) (body w s : Str)
    (fuel : Nat) (st1 : PState) (rot : Rot) (repls : List Str)
    (hdefs : o.defs = []) (hextr : o.extr = []) (hrepl : o.hasRepl = false) (hunkn : o.unkn = false)
    (hinit : initParser T fuel o (initialState T o false fs) = .ok ((), st1))
    (hok : OSegsOk T st1 (pre.map ofMath ++ [.opn body w, .txt s]))
    (hm : markVisible T.toTables = true)
    (hrot : rotOf st1 (curSettings st1) = some rot) (hrepls : rot.inl = repls)
    (hne : repls ≠ []) (hvis : VisibleRepls repls)
    (hls : (settingsOf T (curSettings st1)).isSome = true)
    (hf : (PlainMath.render pre ++ '$' :: (body ++ (w ++ s))).length + 3 ≤ fuel) :
    let src := PlainMath.render pre ++ '$' :: (body ++ (w ++ s))
    ∃ r a pa, tex2txt T fuel src o false thresh fs = .ok r ∧
      r.txt = a ++ s ∧ r.pos = pa ++ List.range' (src.length - s.length + 1) s.length ∧
      pa.length = a.length :=
  tex2txt_math_text_kept T o fs thresh pre body w s fuel st1 rot repls hdefs hextr hrepl hunkn hinit
    hok hm hrot hrepls hne hvis hls hf

/-- the converse (`PlainMath.tex2txt_inline_math`): a document of inert text and WELL-FORMED simple
    inline formulas adds no diagnostic, and its plain text consists of the text segments and the
    placeholders only (`refMath`) — no mark is inserted -/
theorem C08_math_silent (T : PTables) (o : Options) (fs : FS) (thresh : Nat)
    (segs : List PlainMath.Seg) (fuel : Nat) (st1 : PState) (rot : Rot) (repls : List Str)
    (hdefs : o.defs = []) (hextr : o.extr = []) (hrepl : o.hasRepl = false) (hunkn : o.unkn = false)
    (hinit : initParser T fuel o (initialState T o false fs) = .ok ((), st1))
    (hok : PlainMath.SegsOk T st1 segs)
    (hrot : rotOf st1 (curSettings st1) = some rot) (hrepls : rot.inl = repls)
    (hne : repls ≠ []) (hvis : VisibleRepls repls)
    (hls : (settingsOf T (curSettings st1)).isSome = true)
    (hf : (PlainMath.render segs).length + 2 ≤ fuel) :
    ∃ r, tex2txt T fuel (PlainMath.render segs) o false thresh fs = .ok r ∧
      r.diags = st1.diags ∧ r.txt = (refMath T repls 0 0 segs).1 := by
  obtain ⟨r, h, h1, _, _, h4⟩ := PlainMath.tex2txt_inline_math T o fs thresh segs fuel st1 rot repls hdefs
    hextr hrepl hunkn hinit hok hrot hrepls hne hvis hls hf
  exact ⟨r, h, h4, h1⟩

/-! ### the current code -/

/-- the inline collection of the default language after initialisation of the CURRENT code -/
def C08_replsCurrent : List Str :=
  ((rotOf Generated.stDefault (curSettings Generated.stDefault)).map (·.inl)).getD []

/-- `"Abc $a$\nfoo $x+1 def,\n\nNext $y$ para."`: an open formula in the second line, cut by a
    paragraph break, behind and in front of well-formed formulas -/
def C08_preCurrent : List PlainMath.Seg := [.txt "Abc ".toList, .math "a".toList, .txt "\nfoo ".toList]
def C08_postCurrent : List PlainMath.Seg := [.txt "Next ".toList, .math "y".toList, .txt " para.".toList]

/-- the hypotheses about tables and initialised parser hold for the tables translated from /repo
    (the mark is a visible one-line text, the placeholder collection exists, is not empty and its
    entries are visible one-line texts, the language settings exist), and concrete documents satisfy
    the side conditions: situation (B) `"Abc $a$\nfoo $x+1 def,\n\nNext $y$ para."`, situation (A)
    `"Abc $a$\nfoo $x+1 def ghi"`, a lone `$` at the end (`"Price: 5 $"`), and three open formulas in a
    row -/
theorem C08_math_current_facts :
    markVisible Generated.theTables.toTables = true ∧
    (rotOf Generated.stDefault (curSettings Generated.stDefault)).isSome = true ∧
    C08_replsCurrent ≠ [] ∧
    (∀ r ∈ C08_replsCurrent, hasNl r = false ∧ isBlank r = false) ∧
    (settingsOf Generated.theTables (curSettings Generated.stDefault)).isSome = true ∧
    osegsOk Generated.theTables Generated.stDefault
      (C08_preCurrent.map ofMath ++ .opn "x+1 def,".toList "\n\n".toList :: C08_postCurrent.map ofMath) = true ∧
    osegsOk Generated.theTables Generated.stDefault
      (C08_preCurrent.map ofMath ++ [.opn "x+1 def ghi".toList []]) = true ∧
    osegsOk Generated.theTables Generated.stDefault [.txt "Price: 5 ".toList, .opn [] []] = true ∧
    osegsOk Generated.theTables Generated.stDefault
      [.opn "x".toList "\n\n".toList, .opn "y".toList "\n \n".toList, .opn "z".toList []] = true := by
  decide +kernel

/-- the reference output of the document of situation (B) on the current tables -/
theorem C08_math_ref_current :
    let src := PlainMath.render C08_preCurrent
      ++ '$' :: ("x+1 def,".toList ++ ("\n\n".toList ++ PlainMath.render C08_postCurrent))
    src = "Abc $a$\nfoo $x+1 def,\n\nNext $y$ para.".toList ∧
    refMath Generated.theTables C08_replsCurrent 0 0 C08_preCurrent
      = ("Abc C-C-C\nfoo ".toList, [0, 1, 2, 3, 5, 5, 5, 5, 5, 7, 8, 9, 10, 11]) ∧
    errMark Generated.theTables.toTables errMathEnd = " LATEXXXERROR ".toList ∧
    openText Generated.theTables C08_replsCurrent (nForm C08_preCurrent) "x+1 def,".toList = "D-D-D,".toList ∧
    (refMath Generated.theTables C08_replsCurrent (openNext (nForm C08_preCurrent) "x+1 def,".toList)
      ((PlainMath.render C08_preCurrent).length + ("x+1 def,".toList.length + 1 + "\n\n".toList.length))
      C08_postCurrent) = ("Next E-E-E para.".toList, [23, 24, 25, 26, 27, 29, 29, 29, 29, 29, 31, 32, 33, 34, 35, 36]) ∧
    latexErrorDiag errMathEnd (PlainMath.render C08_preCurrent).length src
      = { line := 2, col := 5, msg := "missing end of maths".toList } := by
  decide +kernel

/-- **the theorem applies to the current code**: for `"Abc $a$\nfoo $x+1 def,\n\nNext $y$ para."`
    the filter (model on the tables translated from /repo, default options) returns
    `"Abc C-C-C\nfoo  LATEXXXERROR D-D-D,Next E-E-E para."`, the mark at position 13 (the `$` of line 2,
    column 5), exactly one diagnostic -/
theorem C08_math_unterminated_current (thresh : Nat) :
    ∃ r, tex2txt Generated.theTables Generated.bigFuel
        "Abc $a$\nfoo $x+1 def,\n\nNext $y$ para.".toList Generated.defaultOptions false thresh [] = .ok r ∧
      r.txt = "Abc C-C-C\nfoo  LATEXXXERROR D-D-D,Next E-E-E para.".toList ∧
      r.pos = [1, 2, 3, 4, 6, 6, 6, 6, 6, 8, 9, 10, 11, 12,
               13, 13, 13, 13, 13, 13, 13, 13, 13, 13, 13, 13, 13, 13, 14, 14, 14, 14, 14, 14,
               24, 25, 26, 27, 28, 30, 30, 30, 30, 30, 32, 33, 34, 35, 36, 37] ∧
      r.unknowns = [] ∧
      r.diags = Generated.stDefault.diags ++ [{ line := 2, col := 5, msg := "missing end of maths".toList }] := by
  obtain ⟨hm, hrot, hne, hvis, hls, hok, _⟩ := C08_math_current_facts
  obtain ⟨rot, hrot'⟩ := Option.isSome_iff_exists.mp hrot
  have hrepls : rot.inl = C08_replsCurrent := by
    simp only [C08_replsCurrent, hrot', Option.map_some, Option.getD_some]
  obtain ⟨e1, e2, e3, e4, e5, e6⟩ := C08_math_ref_current
  obtain ⟨r, h, h1, h2, h3, h4, _⟩ := C08_math_unterminated Generated.theTables Generated.defaultOptions []
    thresh C08_preCurrent "x+1 def,".toList "\n\n".toList C08_postCurrent Generated.bigFuel
    Generated.stDefault rot C08_replsCurrent rfl rfl rfl rfl Generated.initParser_default hok hm hrot' hrepls
    hne hvis hls (by decide +kernel)
  rw [e1] at h
  refine ⟨r, h, ?_, ?_, h3, ?_⟩
  · rw [h1, e2, e3, e4, e5]; decide +kernel
  · rw [h2, e2, e3, e4, e5]; decide +kernel
  · rw [h4, e6]

/-- situation (A) on the current code: for `"Abc $x+1 def ghi"` the filter returns
    `"Abc  LATEXXXERROR C-C-C"`; the mark (14 characters) is longer than the rest of the source behind
    the `$` (12 characters): its first 12 characters are mapped to the `$` (position 5), the last two
    to the last position 16; the placeholder to `x` (position 6); one diagnostic at line 1, column 5 -/
theorem C08_math_unterminated_end_current (thresh : Nat) :
    ∃ r, tex2txt Generated.theTables Generated.bigFuel
        "Abc $x+1 def ghi".toList Generated.defaultOptions false thresh [] = .ok r ∧
      r.txt = "Abc  LATEXXXERROR C-C-C".toList ∧
      r.pos = [1, 2, 3, 4, 5, 5, 5, 5, 5, 5, 5, 5, 5, 5, 5, 5, 16, 16, 6, 6, 6, 6, 6] ∧
      r.unknowns = [] ∧
      r.diags = Generated.stDefault.diags ++ [{ line := 1, col := 5, msg := "missing end of maths".toList }] := by
  obtain ⟨hm, hrot, hne, hvis, hls, _⟩ := C08_math_current_facts
  obtain ⟨rot, hrot'⟩ := Option.isSome_iff_exists.mp hrot
  have hrepls : rot.inl = C08_replsCurrent := by
    simp only [C08_replsCurrent, hrot', Option.map_some, Option.getD_some]
  have hok : OSegsOk Generated.theTables Generated.stDefault
      ([PlainMath.Seg.txt "Abc ".toList].map ofMath ++ [.opn "x+1 def ghi".toList []]) := by
    unfold OSegsOk; decide +kernel
  obtain ⟨r, h, h1, h2, h3, h4, _⟩ := C08_math_unterminated_end Generated.theTables Generated.defaultOptions []
    thresh [.txt "Abc ".toList] "x+1 def ghi".toList Generated.bigFuel
    Generated.stDefault rot C08_replsCurrent rfl rfl rfl rfl Generated.initParser_default hok hm hrot' hrepls
    hne hvis hls (by decide +kernel)
  refine ⟨r, h, ?_, ?_, h3, ?_⟩
  · rw [h1]; decide +kernel
  · rw [h2]; decide +kernel
  · rw [h4]; decide +kernel

end Yalafi
