/-
  Properties/PlainDefsStmt.lean — C09, last sentence: "The text extracted from the rest of the document
  is the same, with positions shifted by a constant, whether the definitions stand in the document [or]
  in the file given with --defs": the `--defs` route end to end (Proofs/PlainDefs.lean) and the
  comparison of the two runs (Proofs/PlainDefsCmp.lean), for the document class of
  Proofs/PlainMacroArgs.lean.  (`\LTinput` is not covered.)
-/
import YalafiVerif.Proofs.PlainDefsCmp
import YalafiVerif.Generated.Init
namespace Yalafi

/-- **the `--defs` route**, end to end on the filter model.

    `D`, `X`: documents of the class of `C09_newcommand_args_e2e` (inert text, definitions
    `\newcommand{\name}[n]{body}`, uses `\name{a1}…{am}`); `render D` is given as `--defs`
    (`o.defs = render D`; the empty text = no `--defs`), `render X` is the document.

    Claim: `tex2txt` succeeds and
    * text / 1-based positions are `delLines (segMarks Σ_D 0 X)` with `Σ_D = envAfter [] D` the
      definitions of `D` in force (latest first): the output of `X` exactly as described in
      `C09_newcommand_args_e2e`, but with the definitions of `D` known from the start; positions are
      positions in `X`; NOTHING of `D` reaches the text (text and uses inside `D` are expanded and
      dropped: `parse` keeps only language tokens of the definitions run);
    * `unknowns` is the list of the run on `D ++ X`: a name used in `D` before its definition IS
      reported (`parse` clears the list before, not after, reading the definitions);
    * no diagnostic is added. -/
theorem C09_defs_route_e2e (T : PTables) (o : Options) (fs : FS) (thresh : Nat)
    (D X : List PlainMacroArgs.Seg) (fuel : Nat) (st1 : PState)
    (hdefs : o.defs = PlainMacroArgs.render D) (hextr : o.extr = []) (hrepl : o.hasRepl = false)
    (hunkn : o.unkn = false)
    (hinit : initParser T fuel o (initialState T o false fs) = .ok ((), st1))
    (hok : PlainMacroArgs.DefsOk T st1 D X)
    (hfD : (PlainMacroArgs.render D).length + PlainMacroArgs.segInserted [] 0 D + 6 ≤ fuel)
    (hfX : (PlainMacroArgs.render X).length
      + PlainMacroArgs.segInserted (PlainMacroArgs.envAfter [] D) 0 X + 6 ≤ fuel) :
    ∃ r, tex2txt T fuel (PlainMacroArgs.render X) o false thresh fs = .ok r ∧
      r.txt = (PlainMacro.delLines
        (PlainMacroArgs.segMarks (PlainMacroArgs.envAfter [] D) 0 X)).map (·.1) ∧
      r.pos = (PlainMacro.delLines
        (PlainMacroArgs.segMarks (PlainMacroArgs.envAfter [] D) 0 X)).map (·.2 + 1) ∧
      r.unknowns = (PlainMacroArgs.segUnknowns [] (D ++ X)).eraseDups ∧
      r.diags = st1.diags ∧ r.parts = [] :=
  PlainMacroArgs.tex2txt_defs_route T o fs thresh D X fuel st1 hdefs hextr hrepl hunkn hinit hok hfD hfX

/-- **definitions in the document versus `--defs`**: same text, positions shifted by a constant.

    `D = defLines ds`: the definitions `\newcommand{\name}[n]{body}`, each followed by a line break
    (every definition on a line of its own); `X`: a document of the class.
    `r0` = result for the source `D ++ X` without `--defs`; `r1` = result for the source `X` with
    `--defs D` (all other options equal).  Both runs succeed,
      `r0.txt = r1.txt`, `r0.pos = r1.pos.map (· + |D|)`, `r0.unknowns = r1.unknowns`,
      `r0.diags = r1.diags`,
    and `r1` is `delLines (segMarks ds.reverse 0 X)` (the definitions of `ds` in force, the last one
    first).  In the in-document run the lines of `D` are deleted by `remove_pure_action_lines`. -/
theorem C09_defs_vs_document (T : PTables) (o : Options) (fs : FS) (thresh : Nat)
    (ds : List (Str × Nat × List PlainMacroArgs.BP)) (X : List PlainMacroArgs.Seg) (fuel : Nat) (st1 : PState)
    (hdefs : o.defs = []) (hextr : o.extr = []) (hrepl : o.hasRepl = false) (hunkn : o.unkn = false)
    (hinit : initParser T fuel o (initialState T o false fs) = .ok ((), st1))
    (hok : PlainMacroArgs.CmpOk T st1 ds X)
    (hf : (PlainMacroArgs.render (PlainMacroArgs.defLines ds ++ X)).length
      + PlainMacroArgs.segInserted [] 0 (PlainMacroArgs.defLines ds ++ X) + 6 ≤ fuel) :
    ∃ r0 r1,
      tex2txt T fuel (PlainMacroArgs.render (PlainMacroArgs.defLines ds ++ X)) o false thresh fs = .ok r0 ∧
      tex2txt T fuel (PlainMacroArgs.render X)
        { o with defs := PlainMacroArgs.render (PlainMacroArgs.defLines ds) } false thresh fs = .ok r1 ∧
      r0.txt = r1.txt ∧
      r0.pos = r1.pos.map (· + (PlainMacroArgs.render (PlainMacroArgs.defLines ds)).length) ∧
      r0.unknowns = r1.unknowns ∧ r0.diags = r1.diags ∧
      r1.txt = (PlainMacro.delLines (PlainMacroArgs.segMarks ds.reverse 0 X)).map (·.1) ∧
      r1.pos = (PlainMacro.delLines (PlainMacroArgs.segMarks ds.reverse 0 X)).map (·.2 + 1) :=
  PlainMacroArgs.tex2txt_defs_vs_document T o fs thresh ds X fuel st1 hdefs hextr hrepl hunkn hinit hok hf

/-! ### the instance on the tables of the current /repo -/

/-- the definitions of the instance: `\newcommand{\pp}[2]{a#2b#1c}⏎\newcommand{\qq}[0]{lorem}⏎`
    (56 characters) -/
def defsExampleD : List (Str × Nat × List PlainMacroArgs.BP) :=
  [("pp".toList, 2, [.lit "a".toList, .par 2, .lit "b".toList, .par 1, .lit "c".toList]),
   ("qq".toList, 0, [.lit "lorem".toList])]

/-- the document of the instance: `X \pp{uu}{vv} Y \qq{z} Z.⏎` -/
def defsExampleX : List PlainMacroArgs.Seg :=
  [.txt "X ".toList, .use "pp".toList ["uu".toList, "vv".toList], .txt " Y ".toList,
   .use "qq".toList ["z".toList], .txt " Z.\n".toList]

theorem defsExample_render :
    PlainMacroArgs.render (PlainMacroArgs.defLines defsExampleD)
      = "\\newcommand{\\pp}[2]{a#2b#1c}\n\\newcommand{\\qq}[0]{lorem}\n".toList ∧
    PlainMacroArgs.render defsExampleX = "X \\pp{uu}{vv} Y \\qq{z} Z.\n".toList := by
  decide +kernel

/-- the side conditions of both theorems hold for the parser initialised from the tables of the
    current /repo -/
theorem C09_defs_route_current :
    PlainMacroArgs.DefsOk Generated.theTables Generated.stDefault
      (PlainMacroArgs.defLines defsExampleD) defsExampleX := by
  decide +kernel

theorem C09_defs_vs_document_current :
    PlainMacroArgs.CmpOk Generated.theTables Generated.stDefault defsExampleD defsExampleX := by
  decide +kernel

/-- the reference output of the `--defs` run, evaluated: text `X avvbuuc Y loremz Z.` -/
theorem C09_defs_route_current_ref :
    (PlainMacro.delLines (PlainMacroArgs.segMarks defsExampleD.reverse 0 defsExampleX)).map (·.1)
        = "X avvbuuc Y loremz Z.\n".toList ∧
    (PlainMacro.delLines (PlainMacroArgs.segMarks defsExampleD.reverse 0 defsExampleX)).map (·.2 + 1)
        = [1, 2, 7, 11, 12, 12, 7, 8, 8, 14, 15, 16, 17, 17, 17, 17, 17, 21, 23, 24, 25, 26] ∧
    (PlainMacroArgs.segUnknowns [] (PlainMacroArgs.defLines defsExampleD ++ defsExampleX)).eraseDups = [] := by
  decide +kernel

/-- … and so both runs of `tex2txt` on the real tables yield exactly that: equal texts, positions that
    differ by `|D| = 56` (instance of `C09_defs_vs_document`) -/
theorem C09_defs_vs_document_current_e2e :
    ∃ r0 r1,
      tex2txt Generated.theTables Generated.bigFuel
        "\\newcommand{\\pp}[2]{a#2b#1c}\n\\newcommand{\\qq}[0]{lorem}\nX \\pp{uu}{vv} Y \\qq{z} Z.\n".toList
        Generated.defaultOptions false 0 [] = .ok r0 ∧
      tex2txt Generated.theTables Generated.bigFuel "X \\pp{uu}{vv} Y \\qq{z} Z.\n".toList
        { Generated.defaultOptions with
          defs := "\\newcommand{\\pp}[2]{a#2b#1c}\n\\newcommand{\\qq}[0]{lorem}\n".toList } false 0 [] = .ok r1 ∧
      r0.txt = r1.txt ∧ r0.pos = r1.pos.map (· + 56) ∧
      r1.txt = "X avvbuuc Y loremz Z.\n".toList ∧
      r1.pos = [1, 2, 7, 11, 12, 12, 7, 8, 8, 14, 15, 16, 17, 17, 17, 17, 17, 21, 23, 24, 25, 26] ∧
      r0.unknowns = [] ∧ r1.unknowns = [] := by
  obtain ⟨r0, r1, h0, h1, t, p, u, _, t1, p1⟩ := C09_defs_vs_document Generated.theTables
    Generated.defaultOptions [] 0 defsExampleD defsExampleX Generated.bigFuel Generated.stDefault rfl rfl rfl
    rfl Generated.initParser_default C09_defs_vs_document_current (by decide +kernel)
  obtain ⟨hr1, hr2⟩ := defsExample_render
  obtain ⟨e1, e2, e3⟩ := C09_defs_route_current_ref
  obtain ⟨r1', h1', _, _, u1, _, _⟩ := C09_defs_route_e2e Generated.theTables
    { Generated.defaultOptions with defs := PlainMacroArgs.render (PlainMacroArgs.defLines defsExampleD) } [] 0
    (PlainMacroArgs.defLines defsExampleD) defsExampleX Generated.bigFuel Generated.stDefault rfl rfl rfl rfl
    Generated.initParser_default C09_defs_route_current (by decide +kernel) (by decide +kernel)
  have hu1 : r1.unknowns = [] := by
    rw [h1] at h1'
    cases h1'
    exact u1.trans e3
  have hlen : (PlainMacroArgs.render (PlainMacroArgs.defLines defsExampleD)).length = 56 := by
    decide +kernel
  rw [PlainMacroArgs.render_append, hr1, hr2] at h0
  rw [hr1, hr2] at h1
  rw [hlen] at p
  exact ⟨r0, r1, h0, h1, t, p, t1.trans e1, p1.trans e2, u.trans hu1, hu1⟩

/-- the same two runs evaluated directly by the kernel (no theorem involved) -/
theorem C09_defs_vs_document_current_eval :
    (match tex2txt Generated.theTables Generated.bigFuel
        "\\newcommand{\\pp}[2]{a#2b#1c}\n\\newcommand{\\qq}[0]{lorem}\nX \\pp{uu}{vv} Y \\qq{z} Z.\n".toList
        Generated.defaultOptions false 0 [],
      tex2txt Generated.theTables Generated.bigFuel "X \\pp{uu}{vv} Y \\qq{z} Z.\n".toList
        { Generated.defaultOptions with
          defs := "\\newcommand{\\pp}[2]{a#2b#1c}\n\\newcommand{\\qq}[0]{lorem}\n".toList } false 0 [] with
     | .ok r0, .ok r1 =>
       r0.txt == "X avvbuuc Y loremz Z.\n".toList && r1.txt == r0.txt &&
       r1.pos == [1, 2, 7, 11, 12, 12, 7, 8, 8, 14, 15, 16, 17, 17, 17, 17, 17, 21, 23, 24, 25, 26] &&
       r0.pos == r1.pos.map (· + 56) && r0.unknowns.isEmpty && r1.unknowns.isEmpty
     | _, _ => false) = true := by
  decide +kernel

/-- … and the variant of the task description, `\newcommand{\qq}{lorem}` without `[n]` and the use
    `\qq{}` (these two forms belong to the class of `C09_newcommand_e2e`, not to the class of the
    theorems above; evaluation only): equal texts, positions that differ by `|D| = 53` -/
theorem C09_defs_vs_document_variant_eval :
    (match tex2txt Generated.theTables Generated.bigFuel
        "\\newcommand{\\pp}[2]{a#2b#1c}\n\\newcommand{\\qq}{lorem}\nX \\pp{uu}{vv} Y \\qq{} Z.\n".toList
        Generated.defaultOptions false 0 [],
      tex2txt Generated.theTables Generated.bigFuel "X \\pp{uu}{vv} Y \\qq{} Z.\n".toList
        { Generated.defaultOptions with
          defs := "\\newcommand{\\pp}[2]{a#2b#1c}\n\\newcommand{\\qq}{lorem}\n".toList } false 0 [] with
     | .ok r0, .ok r1 =>
       r0.txt == "X avvbuuc Y lorem Z.\n".toList && r1.txt == r0.txt &&
       r1.pos == [1, 2, 7, 11, 12, 12, 7, 8, 8, 14, 15, 16, 17, 17, 17, 17, 17, 22, 23, 24, 25] &&
       r0.pos == r1.pos.map (· + 53) && r0.unknowns.isEmpty && r1.unknowns.isEmpty
     | _, _ => false) = true := by
  decide +kernel

end Yalafi
