/-
  Properties/C08.lean — LaTeX problems yield the full error mark at the right place.

  Proved for all inputs: the texts of the tokens `latex_error` returns concatenate to the
  complete mark ' ' ++ mark ++ ' ' (…), all tokens are fixed, the first one sits at the
  position of the problem and all are in range — also at the last character of the text and
  when the mark is longer than the rest; the diagnostic's (line, column) is the unique pair
  for that position; the scanner passes the complete mark on for unterminated \verb and
  verbatim (after the `fix:` commit 0650e30).  `mark_implies_diag`, `argBuffer_recovery`,
  `mathSection_stop` of the design are not yet theorems: diagnostics, mark position and
  conservation of the text behind a faulty construct are checked by fault injection on the
  implementation, silence on well-formed generated documents.
-/
import YalafiVerif.Proofs.Scanner
import YalafiVerif.Proofs.Utils
namespace Yalafi

theorem C08_latexError_mark (T : Tables) (err : Str) (pos n : Nat) :
    (getTxtPos (latexErrorToks T err pos n)).1 = errMark T err :=
  latexErrorToks_text T err pos n

theorem C08_latexError_inRange (T : Tables) (hm : T.mark ≠ []) (err : Str) (pos n : Nat) (hp : pos < n) :
    (∀ t ∈ latexErrorToks T err pos n, t.fix = true ∧ t.kind = .text ∧ t.pos < n) ∧
    (latexErrorToks T err pos n).head?.map (·.pos) = some pos ∧
    ∀ p ∈ (getTxtPos (latexErrorToks T err pos n)).2, p < n :=
  latexErrorToks_inv T hm err pos n hp

theorem C08_lineCol (src : Str) (pos : Nat) (hp : pos ≤ src.length) :
    lineStart src pos ≤ pos ∧
    colOf src pos = pos - lineStart src pos + 1 ∧
    lineOf src pos = countNl (src.take pos) + 1 ∧
    countNl ((src.take pos).drop (lineStart src pos)) = 0 ∧
    (lineStart src pos = 0 ∨ src.getD (lineStart src pos - 1) ' ' = nl) :=
  lineCol_correct src pos hp

theorem C08_scanVerb_mark (T : Tables) (src : Str) (start : Nat) (rest : Str)
    (h : (scanVerb T src start rest).diag ≠ none) :
    (scanVerb T src start rest).tok :: (scanVerb T src start rest).extra = latexErrorToks T errBadVerb start src.length :=
  scanVerb_err_mark T src start rest h

theorem C08_scanVerbatim_mark (T : Tables) (src : Str) (start : Nat) (rest : Str)
    (h : (scanVerbatim T src start rest).diag ≠ none) :
    (scanVerbatim T src start rest).tok :: (scanVerbatim T src start rest).extra =
      latexErrorToks T errMissingEndVerbatim start src.length :=
  scanVerbatim_err_mark T src start rest h

end Yalafi
