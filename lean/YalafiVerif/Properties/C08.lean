/-
  Properties/C08.lean — LaTeX problems yield the full error mark at the right place.

  Proved for all inputs: the texts of the tokens `latex_error` returns concatenate to the
  complete mark ' ' ++ mark ++ ' ' (…), all tokens are fixed, the first one sits at the
  position of the problem and all are in range — also at the last character of the text and
  when the mark is longer than the rest; the diagnostic's (line, column) is the unique pair
  for that position; the scanner passes the complete mark on for unterminated \verb and
  verbatim (after the `fix:` commit 0650e30).  `mark_implies_diag`, `argBuffer_recovery`,
  `mathSection_stop` of the design are not yet theorems: diagnostics, mark position and
  conservation of the text behind a faulty construct are checked by fault injection on the
  implementation, silence on well-formed generated documents.
-/
import YalafiVerif.Proofs.Scanner
import YalafiVerif.Proofs.Utils
import YalafiVerif.Proofs.PlainVerb
import YalafiVerif.Generated.Init
import YalafiVerif.Properties.PlainMathOpenStmt
import YalafiVerif.Properties.PlainFaultStmt
namespace Yalafi

theorem C08_latexError_mark (T : Tables) (err : Str) (pos n : Nat) :
    (getTxtPos (latexErrorToks T err pos n)).1 = errMark T err :=
  latexErrorToks_text T err pos n

theorem C08_latexError_inRange (T : Tables) (hm : T.mark ≠ []) (err : Str) (pos n : Nat) (hp : pos < n) :
    (∀ t ∈ latexErrorToks T err pos n, t.fix = true ∧ t.kind = .text ∧ t.pos < n) ∧
    (latexErrorToks T err pos n).head?.map (·.pos) = some pos ∧
    ∀ p ∈ (getTxtPos (latexErrorToks T err pos n)).2, p < n :=
  latexErrorToks_inv T hm err pos n hp

theorem C08_lineCol (src : Str) (pos : Nat) (hp : pos ≤ src.length) :
    lineStart src pos ≤ pos ∧
    colOf src pos = pos - lineStart src pos + 1 ∧
    lineOf src pos = countNl (src.take pos) + 1 ∧
    countNl ((src.take pos).drop (lineStart src pos)) = 0 ∧
    (lineStart src pos = 0 ∨ src.getD (lineStart src pos - 1) ' ' = nl) :=
  lineCol_correct src pos hp

theorem C08_scanVerb_mark (T : Tables) (src : Str) (start : Nat) (rest : Str)
    (h : (scanVerb T src start rest).diag ≠ none) :
    (scanVerb T src start rest).tok :: (scanVerb T src start rest).extra = latexErrorToks T errBadVerb start src.length :=
  scanVerb_err_mark T src start rest h

theorem C08_scanVerbatim_mark (T : Tables) (src : Str) (start : Nat) (rest : Str)
    (h : (scanVerbatim T src start rest).diag ≠ none) :
    (scanVerbatim T src start rest).tok :: (scanVerbatim T src start rest).extra =
      latexErrorToks T errMissingEndVerbatim start src.length :=
  scanVerbatim_err_mark T src start rest h

/-- **an unterminated `\\verb` yields exactly one diagnostic at its line and column and the complete
    error mark at its position**, end to end on the filter model: for `pre ++ \\verb d content` with
    inert `pre` and `content` running to the end of the source (no `d`, no line break), the text
    before is unchanged with its own positions, the complete mark follows (its characters mapped to
    the backslash of `\\verb`; the part of a mark longer than the faulty construct to the last source
    position, as `latex_error` does), the content is dropped, and the diagnostics grow by exactly
    `bad \\verb argument` at (line, column) of the backslash -/
theorem C08_verb_unterminated (T : PTables) (o : Options) (fs : FS) (thresh : Nat)
    (pre : Str) (d : Char) (content : Str) (fuel : Nat) (st1 : PState)
    (hdefs : o.defs = []) (hextr : o.extr = []) (hrepl : o.hasRepl = false) (hunkn : o.unkn = false)
    (hinit : initParser T fuel o (initialState T o false fs) = .ok ((), st1))
    (hok : vsegsOk T st1 [.txt pre, .bad d content] = true)
    (hf : (pre ++ (sVerb ++ d :: content)).length + 2 ≤ fuel) :
    ∃ r, tex2txt T fuel (pre ++ (sVerb ++ d :: content)) o false thresh fs = .ok r ∧
      r.txt = pre ++ errMark T.toTables errBadVerb ∧
      r.unknowns = [] ∧
      r.diags = st1.diags ++ [latexErrorDiag errBadVerb pre.length (pre ++ (sVerb ++ d :: content))] := by
  obtain ⟨r, h1, h2, _, h4, h5, _⟩ :=
    tex2txt_verb_unterminated T o fs thresh pre d content fuel st1 hdefs hextr hrepl hunkn hinit hok hf
  exact ⟨r, h1, h2, h4, h5⟩

/-- several unterminated `\\verb`s (each up to its line break) give one diagnostic each, in order -/
theorem C08_verb_segments (T : PTables) (o : Options) (fs : FS) (thresh : Nat) (segs : List VSeg)
    (fuel : Nat) (st1 : PState)
    (hdefs : o.defs = []) (hextr : o.extr = []) (hrepl : o.hasRepl = false) (hunkn : o.unkn = false)
    (hinit : initParser T fuel o (initialState T o false fs) = .ok ((), st1))
    (hok : vsegsOk T st1 segs = true) (hlines : vlinesOK segs = true)
    (hf : (renderV segs).length + 2 ≤ fuel) :
    ∃ r, tex2txt T fuel (renderV segs) o false thresh fs = .ok r ∧
      r.txt = (outV T.toTables (renderV segs).length 0 segs).map (·.1) ∧
      r.pos = (outV T.toTables (renderV segs).length 0 segs).map (·.2 + 1) ∧
      r.unknowns = [] ∧ r.diags = st1.diags ++ diagsV (renderV segs) 0 segs :=
  tex2txt_verb_segs T o fs thresh segs fuel st1 hdefs hextr hrepl hunkn hinit hok hlines hf

end Yalafi
