/-
  Properties/C12.lean — multi-language mode assigns every word to exactly one part.

  Proved for all token lists, thresholds and rotation states (model of `get_txt_pos_ml`):
  sectioning conserves text and positions (the sections, in order, concatenate to
  `get_txt_pos` of the non-language tokens), sections are non-empty with equal lengths, the
  language stack of the fold is the reference stack `langAt` (push / pop-if-more-than-one /
  replace-top), every returned part has equal lengths and positions drawn from the token
  stream, each language occurs once in the result, the splitter never raises, and language
  tokens survive blank-line removal in order.  `join_conserve` / `join_placeholder` of the
  design are not yet theorems: that every word lands in exactly one part of the language in
  force, at its own offset, and that all parts together carry the words of the
  single-language run is checked on the implementation against an AST reference.
-/
import YalafiVerif.Proofs.Utils
import YalafiVerif.Proofs.Lines
import YalafiVerif.Properties.PlainLangStmt
import YalafiVerif.Properties.PlainForeignStmt
import YalafiVerif.Properties.PlainLangMixStmt
namespace Yalafi

theorem C12_sections_conserve (toks : List Tok) (main : Str) :
    ((sections toks main).map (·.txt)).flatten = (getTxtPos (toks.filter (fun t => !isLangTok t))).1 ∧
    ((sections toks main).map (·.pos)).flatten = (getTxtPos (toks.filter (fun t => !isLangTok t))).2 :=
  sections_conserve toks main

theorem C12_sections_wf (toks : List Tok) (main : Str) :
    ∀ s ∈ sections toks main, s.txt.length = s.pos.length ∧ s.txt ≠ [] :=
  sections_wf toks main

theorem C12_stack (toks : List Tok) (s : SecState) :
    (toks.foldl secStep s).stack = langAt s.stack toks :=
  sections_fold_stack toks s

theorem C12_parts (toks : List Tok) (main : Str) (thresh : Nat) (lc lc' : LangChange) (parts : Parts)
    (h : getTxtPosML toks main thresh lc = some (parts, lc')) :
    ∀ tp ∈ allParts parts, tp.1.length = tp.2.length ∧
      ∀ p ∈ tp.2, p ∈ (getTxtPos (toks.filter (fun t => !isLangTok t))).2 :=
  getTxtPosML_parts toks main thresh lc lc' parts h

theorem C12_langs_nodup (toks : List Tok) (main : Str) (thresh : Nat) (lc lc' : LangChange) (parts : Parts)
    (h : getTxtPosML toks main thresh lc = some (parts, lc')) : (parts.map (·.1)).Nodup :=
  getTxtPosML_langs_nodup toks main thresh lc lc' parts h

theorem C12_total (toks : List Tok) (main : Str) (thresh : Nat) (lc : LangChange) (h : LangChangeOk lc) :
    (getTxtPosML toks main thresh lc).isSome = true :=
  getTxtPosML_total toks main thresh lc h

theorem C12_removeLines_lang (ts out : List Tok)
    (hc : ∀ t ∈ ts, (isAction t = true ∨ isLang t = true) → t.txt = [])
    (hr : removeLines ts = some out) : out.filter isLang = ts.filter isLang :=
  removeLines_lang ts out hc hr

end Yalafi
