/-
  Properties/C06.lean — plain prose is a fixed point; special sequences follow the table.

  Proved for all inputs: at every offset the scanner returns the *longest* key of the special
  table that is a prefix there (and no special token if none is), a character that starts
  no special sequence, no white space, `%`, `#` or `\` is a one-character text token, and
  the *generated* table contains the documented entries (`decide` on the table translated
  from /repo on this run).  The step "a Special token becomes its table value at the same
  offset" is the `special` branch of `expandSequence` (covered by `seq_step`, C01).
  `C06_identity_partial`: the end-to-end identity on inert strings is checked on the
  implementation (exhaustive short strings + random), not yet a theorem.
-/
import YalafiVerif.Proofs.Scanner
import YalafiVerif.Generated.Tables
import YalafiVerif.Proofs.Plain
import YalafiVerif.Proofs.PlainSpecial
import YalafiVerif.Generated.WF
import YalafiVerif.Generated.Init
namespace Yalafi

theorem C06_longest_match (T : Tables) (h : T.WFScan) (rest : Str) (t : Str)
    (hm : matchSpecial T rest = some t) :
    startsWith rest t = true ∧ t ∈ T.special.map (·.1) ∧
    ∀ k ∈ T.special.map (·.1), startsWith rest k = true → k.length ≤ t.length :=
  matchSpecial_longest T h rest t hm

theorem C06_no_match (T : Tables) (h : T.WFScan) (rest : Str) (hm : matchSpecial T rest = none) :
    ∀ k ∈ T.special.map (·.1), startsWith rest k = false :=
  matchSpecial_none T h rest hm

/-- every other character is copied: an ordinary character is a one-character text token at
    its own offset -/
theorem C06_scan_text_char (T : Tables) (src : Str) (start : Nat) (c : Char) (cs : Str)
    (h1 : isSpace c = false) (h2 : c ≠ '%') (h3 : c ≠ '#') (h4 : c ≠ '\\')
    (h5 : matchSpecial T (c :: cs) = none) :
    nextToken T src start (c :: cs) = { tok := { kind := .text, pos := start, txt := [c] }, len := 1 } := by
  simp [nextToken, h1, h2, h3, h4, h5]

/-- the table the code uses *now* contains the documented replacements -/
theorem C06_tables_documented :
    let T := Generated.theTables.toTables
    T.specialVal "--".toList = some [Char.ofNat 0x2013] ∧ T.specialVal "---".toList = some [Char.ofNat 0x2014] ∧
    T.specialVal "``".toList = some [Char.ofNat 0x201C] ∧ T.specialVal "''".toList = some [Char.ofNat 0x201D] ∧
    T.specialVal "~".toList = some [Char.ofNat 0xA0] ∧ T.specialVal "\\,".toList = some [Char.ofNat 0x202F] ∧
    T.specialVal "\\%".toList = some ['%'] ∧ T.specialVal "\\&".toList = some ['&'] ∧
    T.specialVal "\\$".toList = some ['$'] ∧ T.specialVal "\\#".toList = some ['#'] ∧
    T.specialVal "\\_".toList = some ['_'] ∧ T.specialVal "\\{".toList = some ['{'] ∧
    T.specialVal "\\}".toList = some ['}'] ∧ T.specialVal "\\\\".toList = some [' '] ∧
    T.specialVal "&".toList = some [' '] := by
  decide

/-- **plain prose is a fixed point**, end to end on the filter model: if every character of the
    source is inert — white space, or a character that has no syntactic role (`% # \ $ { }`),
    starts no special sequence of the table and is no active character of the language settings
    (`inertChar`) — then, for default options (no `--defs`, `--extr`, `--repl`, `--unkn`) and
    enough fuel (two more than the length), the filter returns the source itself and the i-th
    output character maps to source position i; there are no unknowns and no new diagnostics.
    `hinit`: the parser was initialised (`Parser.__init__`) with result state `st1`. -/
theorem C06_plain_fixed_point (T : PTables) (o : Options) (fs : FS) (thresh : Nat) (src : Str) (fuel : Nat)
    (st1 : PState) (hdefs : o.defs = []) (hextr : o.extr = []) (hrepl : o.hasRepl = false)
    (hunkn : o.unkn = false)
    (hinit : initParser T fuel o (initialState T o false fs) = .ok ((), st1))
    (h : ∀ c ∈ src, inertChar T st1 c = true) (hf : src.length + 2 ≤ fuel) :
    ∃ r, tex2txt T fuel src o false thresh fs = .ok r ∧ r.txt = src ∧
      r.pos = (List.range src.length).map (· + 1) ∧ r.unknowns = [] ∧ r.diags = st1.diags :=
  tex2txt_plain T o fs thresh src fuel st1 hdefs hextr hrepl hunkn hinit h hf

/-- the same for the weaker, position-dependent condition `inertText` (a lone `-`, `'` or a `"`
    that completes no short macro are admitted), with the complete result -/
theorem C06_plain_fixed_point_text (T : PTables) (o : Options) (fs : FS) (thresh : Nat) (src : Str) (fuel : Nat)
    (st1 : PState) (hdefs : o.defs = []) (hextr : o.extr = []) (hrepl : o.hasRepl = false)
    (hunkn : o.unkn = false)
    (hinit : initParser T fuel o (initialState T o false fs) = .ok ((), st1))
    (h : inertText T st1 src = true) (hf : src.length + 2 ≤ fuel) :
    tex2txt T fuel src o false thresh fs
      = .ok { toks := (scan T.toTables src).toks, txt := src,
              pos := (List.range src.length).map (· + 1), parts := [], unknowns := [],
              diags := st1.diags, foreign := false } :=
  tex2txt_plain_text T o fs thresh src fuel st1 hdefs hextr hrepl hunkn hinit h hf

/-- **special sequences follow the table**, end to end on the filter model: for a source made of
    copied characters and special sequences (`specText`: at every offset outside a matched key
    either the longest matching key of the table is a `plainSpecialKey` — not white space, `%`,
    `#`, `$`, `\\(`, `$$`, `\\[`, `\\\\`, `{`, `}` — or no key matches and the character is copied),
    on which no line consists of white space and blank-valued special sequences only (`linesOK`:
    C05's case), the output text and its positions are those of the reference `refSpecial`:
    left to right, the longest matching key is replaced by its table value mapped to the offset
    where the key starts, every other character is copied with its own offset.  No unknowns, no
    new diagnostics.  `hnl`: no table value contains a line break. -/
theorem C06_specials_follow_table (T : PTables) (o : Options) (fs : FS) (thresh : Nat) (src : Str)
    (fuel : Nat) (st1 : PState)
    (hwf : T.toTables.WFScan) (hnl : ∀ e ∈ T.special, hasNl e.2 = false)
    (hdefs : o.defs = []) (hextr : o.extr = []) (hrepl : o.hasRepl = false) (hunkn : o.unkn = false)
    (hinit : initParser T fuel o (initialState T o false fs) = .ok ((), st1))
    (h : specText T st1 src = true) (hlines : linesOK T.toTables src = true)
    (hf : src.length + 2 ≤ fuel) :
    ∃ r, tex2txt T fuel src o false thresh fs = .ok r ∧
      r.txt = (refSpecial T.toTables src 0).1 ∧
      r.pos = (refSpecial T.toTables src 0).2.map (· + 1) ∧
      r.unknowns = [] ∧ r.diags = st1.diags :=
  tex2txt_special T o fs thresh src fuel st1 hwf hnl hdefs hextr hrepl hunkn hinit h hlines hf

/-- the table translated from the current /repo satisfies the two table hypotheses -/
theorem C06_specials_tables_current :
    Generated.theTables.toTables.WFScan ∧ (∀ e ∈ Generated.theTables.special, hasNl e.2 = false) :=
  ⟨Generated.wfScan, by decide +kernel⟩

/-- the fixed-point theorem for the CURRENT code: tables translated from /repo, default options,
    parser initialisation evaluated by the kernel (`Generated.initParser_default`) -/
theorem C06_plain_fixed_point_current (src : Str) (thresh : Nat)
    (h : ∀ c ∈ src, inertChar Generated.theTables Generated.stDefault c = true)
    (hf : src.length + 2 ≤ Generated.bigFuel) :
    ∃ r, tex2txt Generated.theTables Generated.bigFuel src Generated.defaultOptions false thresh [] = .ok r ∧
      r.txt = src ∧ r.pos = (List.range src.length).map (· + 1) ∧ r.unknowns = [] ∧
      r.diags = Generated.stDefault.diags :=
  C06_plain_fixed_point Generated.theTables Generated.defaultOptions [] thresh src Generated.bigFuel
    Generated.stDefault rfl rfl rfl rfl Generated.initParser_default h hf

/-- … and these ASCII characters are inert for it (letters, digits, blank, line break, tab and the
    punctuation that starts no special sequence): the premise is satisfiable on the real tables -/
theorem C06_inert_ascii_current :
    ∀ c ∈ "ABCDEFGHIJKLMNOPQRSTUVWXYZabcdefghijklmnopqrstuvwxyz0123456789 \n\t.,;:!?()/*=+<>|@[]\"".toList,
      inertChar Generated.theTables Generated.stDefault c = true := by
  decide +kernel

theorem C06_specials_follow_table_current (src : Str) (thresh : Nat)
    (h : specText Generated.theTables Generated.stDefault src = true)
    (hlines : linesOK Generated.theTables.toTables src = true)
    (hf : src.length + 2 ≤ Generated.bigFuel) :
    ∃ r, tex2txt Generated.theTables Generated.bigFuel src Generated.defaultOptions false thresh [] = .ok r ∧
      r.txt = (refSpecial Generated.theTables.toTables src 0).1 ∧
      r.pos = (refSpecial Generated.theTables.toTables src 0).2.map (· + 1) ∧
      r.unknowns = [] ∧ r.diags = Generated.stDefault.diags :=
  C06_specials_follow_table Generated.theTables Generated.defaultOptions [] thresh src Generated.bigFuel
    Generated.stDefault C06_specials_tables_current.1 C06_specials_tables_current.2 rfl rfl rfl rfl
    Generated.initParser_default h hlines hf

/-- a concrete text with special sequences satisfies the premises on the real tables -/
theorem C06_specials_example_current :
    specText Generated.theTables Generated.stDefault "A -- B~C, 100\\% sure: ``x'' --- y.".toList = true ∧
    linesOK Generated.theTables.toTables "A -- B~C, 100\\% sure: ``x'' --- y.".toList = true := by
  decide +kernel

end Yalafi
