/-
  Properties/PlainGroupStmt.lean — C03 "every word in arguments of unknown or pass-through macros
  appears exactly once, in order; no markup (control sequences, grouping braces) is left" and C02
  "arguments of unknown or pass-through macros carry the offset of that very character", end to end
  on the filter model, for documents of inert text, undeclared control words and brace groups,
  nested arbitrarily (`\name{a1}…{an}` = the control word followed by `n` groups;
  `PlainGroup.mac name [a1, …, an]`).
  Proofs, side conditions and what is not covered: Proofs/PlainGroup.lean.
-/
import YalafiVerif.Proofs.PlainGroup
import YalafiVerif.Generated.Init
namespace Yalafi

/-- **arguments of unknown macros and groups stay in the text flow**, end to end on the filter
    model.  For every document `render doc` of inert text, undeclared control words `\name` and brace
    groups `{ … }` — nested to any depth, so in particular `\name{ … }…{ … }` with arguments that
    again hold such calls — (`PlainGroup.DocOk`: all side conditions, computable), `st1` the state
    after `Parser.__init__`, no `--defs --extr --repl --unkn`, single-language mode, fuel = source
    length + 2: `tex2txt` succeeds; the output text with its (1-based) positions is
    `delLines (marks 0 doc)` where `marks` = every text character with its OWN source position, one
    text-less mark for every brace and every control word, the white space directly behind a control
    word dropped (a run with at most one line break: `skip_space`), and `delLines` = the exact model
    of `remove_pure_action_lines` (a line that consists only of white space and marks, at least one,
    disappears with its line break).  The unknowns list holds the control words, each once, in
    order of first occurrence; no diagnostic is added. -/
theorem C03_unknown_args_e2e (T : PTables) (o : Options) (fs : FS) (thresh : Nat)
    (doc : List PlainGroup.Item) (fuel : Nat) (st1 : PState)
    (hdefs : o.defs = []) (hextr : o.extr = []) (hrepl : o.hasRepl = false) (hunkn : o.unkn = false)
    (hinit : initParser T fuel o (initialState T o false fs) = .ok ((), st1))
    (hok : PlainGroup.DocOk T st1 doc) (hf : (PlainGroup.render doc).length + 2 ≤ fuel) :
    ∃ r, tex2txt T fuel (PlainGroup.render doc) o false thresh fs = .ok r ∧
      r.txt = (PlainMacro.delLines (PlainGroup.marks 0 doc)).map (·.1) ∧
      r.pos = (PlainMacro.delLines (PlainGroup.marks 0 doc)).map (·.2 + 1) ∧
      r.unknowns = (PlainGroup.names doc).eraseDups ∧ r.diags = st1.diags := by
  obtain ⟨r, h1, h2, h3, h4, h5, _⟩ :=
    PlainGroup.tex2txt_groups T o fs thresh doc fuel st1 hdefs hextr hrepl hunkn hinit hok hf
  exact ⟨r, h1, h2, h3, h4, h5⟩

/-- **C03, readable form: the text survives, the markup goes.**  When no line consists of white
    space and markup only (`linesKept`, decidable), the output is exactly `PlainGroup.plain 0 doc`:
    the marks without the text-less ones, i.e. the source with every `{`, `}` and `\name` (plus the
    blanks skipped behind a name) deleted, every character at its own position. -/
theorem C03_unknown_args_text (T : PTables) (o : Options) (fs : FS) (thresh : Nat)
    (doc : List PlainGroup.Item) (fuel : Nat) (st1 : PState)
    (hdefs : o.defs = []) (hextr : o.extr = []) (hrepl : o.hasRepl = false) (hunkn : o.unkn = false)
    (hinit : initParser T fuel o (initialState T o false fs) = .ok ((), st1))
    (hok : PlainGroup.DocOk T st1 doc) (hf : (PlainGroup.render doc).length + 2 ≤ fuel)
    (hk : PlainMacro.linesKept true false (PlainGroup.marks 0 doc) = true) :
    ∃ r, tex2txt T fuel (PlainGroup.render doc) o false thresh fs = .ok r ∧
      r.txt = (PlainGroup.plain 0 doc).map (·.1) ∧
      r.pos = (PlainGroup.plain 0 doc).map (·.2 + 1) := by
  obtain ⟨r, h1, h2, h3, _⟩ := C03_unknown_args_e2e T o fs thresh doc fuel st1 hdefs hextr hrepl hunkn hinit hok hf
  rw [PlainMacro.delLines_kept _ hk] at h2 h3
  exact ⟨r, h1, h2, h3⟩

/-- … and when, in addition, no control word is directly followed by white space
    (`PlainGroup.tight`): the output is `PlainGroup.textOf 0 doc`, all text characters of the
    document — at every depth — in source order with their source positions, nothing else. -/
theorem C03_unknown_args_text_tight (T : PTables) (o : Options) (fs : FS) (thresh : Nat)
    (doc : List PlainGroup.Item) (fuel : Nat) (st1 : PState)
    (hdefs : o.defs = []) (hextr : o.extr = []) (hrepl : o.hasRepl = false) (hunkn : o.unkn = false)
    (hinit : initParser T fuel o (initialState T o false fs) = .ok ((), st1))
    (hok : PlainGroup.DocOk T st1 doc) (hf : (PlainGroup.render doc).length + 2 ≤ fuel)
    (hk : PlainMacro.linesKept true false (PlainGroup.marks 0 doc) = true)
    (ht : PlainGroup.tight doc = true) :
    ∃ r, tex2txt T fuel (PlainGroup.render doc) o false thresh fs = .ok r ∧
      r.txt = (PlainGroup.textOf 0 doc).map (·.1) ∧
      r.pos = (PlainGroup.textOf 0 doc).map (·.2 + 1) := by
  obtain ⟨r, h1, h2, h3⟩ := C03_unknown_args_text T o fs thresh doc fuel st1 hdefs hextr hrepl hunkn hinit hok hf hk
  rw [PlainGroup.plain_tight doc 0 ht] at h2 h3
  exact ⟨r, h1, h2, h3⟩

/-- **C02: every output character carries the offset of that very character.**  The character at
    output index `i` is the source character at the (1-based) position `r.pos[i]`. -/
theorem C02_unknown_args_positions (T : PTables) (o : Options) (fs : FS) (thresh : Nat)
    (doc : List PlainGroup.Item) (fuel : Nat) (st1 : PState)
    (hdefs : o.defs = []) (hextr : o.extr = []) (hrepl : o.hasRepl = false) (hunkn : o.unkn = false)
    (hinit : initParser T fuel o (initialState T o false fs) = .ok ((), st1))
    (hok : PlainGroup.DocOk T st1 doc) (hf : (PlainGroup.render doc).length + 2 ≤ fuel) :
    ∃ r, tex2txt T fuel (PlainGroup.render doc) o false thresh fs = .ok r ∧
      r.pos.length = r.txt.length ∧
      ∀ (i : Nat) (h1 : i < r.txt.length) (h2 : i < r.pos.length),
        1 ≤ r.pos[i] ∧ (PlainGroup.render doc)[r.pos[i] - 1]? = some r.txt[i] := by
  obtain ⟨r, h1, h2, h3, _⟩ := C03_unknown_args_e2e T o fs thresh doc fuel st1 hdefs hextr hrepl hunkn hinit hok hf
  refine ⟨r, h1, by rw [h2, h3]; simp, ?_⟩
  intro i hi1 hi2
  have hi : i < (PlainMacro.delLines (PlainGroup.marks 0 doc)).length := by
    rw [h2] at hi1; simpa using hi1
  have e1 : r.txt[i] = ((PlainMacro.delLines (PlainGroup.marks 0 doc))[i]).1 := by
    simp only [h2, List.getElem_map]
  have e2 : r.pos[i] = ((PlainMacro.delLines (PlainGroup.marks 0 doc))[i]).2 + 1 := by
    simp only [h3, List.getElem_map]
  have hm := PlainVanish.delLines_mem (List.getElem_mem hi)
  obtain ⟨_, hsrc⟩ := PlainGroup.marksA_src (c := _) (q := _) hm
  rw [e1, e2, PlainGroup.render_eq]
  exact ⟨by omega, by simpa using hsrc⟩

/-- **C03: exactly once, in order.**  The output positions are strictly increasing: no source
    character is used twice and the order of the source is kept.  (With `C02_unknown_args_positions`
    the output is a subsequence of the source; with `C03_unknown_args_text` every text character
    of a line that is kept is there.) -/
theorem C03_unknown_args_once (T : PTables) (o : Options) (fs : FS) (thresh : Nat)
    (doc : List PlainGroup.Item) (fuel : Nat) (st1 : PState)
    (hdefs : o.defs = []) (hextr : o.extr = []) (hrepl : o.hasRepl = false) (hunkn : o.unkn = false)
    (hinit : initParser T fuel o (initialState T o false fs) = .ok ((), st1))
    (hok : PlainGroup.DocOk T st1 doc) (hf : (PlainGroup.render doc).length + 2 ≤ fuel) :
    ∃ r, tex2txt T fuel (PlainGroup.render doc) o false thresh fs = .ok r ∧
      r.pos.Pairwise (· < ·) := by
  obtain ⟨r, h1, _, h3, _⟩ := C03_unknown_args_e2e T o fs thresh doc fuel st1 hdefs hextr hrepl hunkn hinit hok hf
  refine ⟨r, h1, ?_⟩
  have := PlainGroup.delLines_sorted (PlainGroup.atoms doc) 0
  rw [h3, show (fun x : Char × Nat => x.2 + 1) = (· + 1) ∘ (·.2) from rfl, ← List.map_map]
  exact (List.pairwise_map.mpr (this.imp (by intro a b h; exact Nat.succ_lt_succ h)))

/-- **C03: no markup is left.**  The output contains no backslash and no brace. -/
theorem C03_no_markup (T : PTables) (o : Options) (fs : FS) (thresh : Nat)
    (doc : List PlainGroup.Item) (fuel : Nat) (st1 : PState)
    (hdefs : o.defs = []) (hextr : o.extr = []) (hrepl : o.hasRepl = false) (hunkn : o.unkn = false)
    (hinit : initParser T fuel o (initialState T o false fs) = .ok ((), st1))
    (hok : PlainGroup.DocOk T st1 doc) (hf : (PlainGroup.render doc).length + 2 ≤ fuel) :
    ∃ r, tex2txt T fuel (PlainGroup.render doc) o false thresh fs = .ok r ∧
      ∀ c ∈ r.txt, c ≠ '\\' ∧ c ≠ '{' ∧ c ≠ '}' := by
  obtain ⟨r, h1, h2, _⟩ := C03_unknown_args_e2e T o fs thresh doc fuel st1 hdefs hextr hrepl hunkn hinit hok hf
  refine ⟨r, h1, ?_⟩
  intro c hc
  rw [h2] at hc
  obtain ⟨cp, hcp, rfl⟩ := List.mem_map.mp hc
  have hm := PlainVanish.delLines_mem hcp
  exact PlainGroup.not_markup (PlainGroup.atomsOk_chr hok.2 (PlainGroup.marksA_text hm))

/-- the end-to-end theorem for the CURRENT code (tables translated from /repo, default options,
    parser initialisation evaluated by the kernel) -/
theorem C03_unknown_args_e2e_current (doc : List PlainGroup.Item) (thresh : Nat)
    (hok : PlainGroup.DocOk Generated.theTables Generated.stDefault doc)
    (hf : (PlainGroup.render doc).length + 2 ≤ Generated.bigFuel) :
    ∃ r, tex2txt Generated.theTables Generated.bigFuel (PlainGroup.render doc) Generated.defaultOptions
          false thresh [] = .ok r ∧
      r.txt = (PlainMacro.delLines (PlainGroup.marks 0 doc)).map (·.1) ∧
      r.pos = (PlainMacro.delLines (PlainGroup.marks 0 doc)).map (·.2 + 1) ∧
      r.unknowns = (PlainGroup.names doc).eraseDups ∧ r.diags = Generated.stDefault.diags :=
  C03_unknown_args_e2e Generated.theTables Generated.defaultOptions [] thresh doc Generated.bigFuel
    Generated.stDefault rfl rfl rfl rfl Generated.initParser_default hok hf

open PlainGroup in
/-- `Some \textbf{bold \emph{and nested}} text {grouped} \foo{a}{b}.` — nested calls of undeclared
    macros, a group, a call with two arguments — for the tables of the current /repo -/
def C03_unknown_args_doc : List PlainGroup.Item :=
  [.txt "Some ".toList] ++
  mac "textbf".toList [[.txt "bold ".toList] ++ mac "emph".toList [[.txt "and nested".toList]]] ++
  [.txt " text ".toList, .grp [.txt "grouped".toList], .txt " ".toList] ++
  mac "foo".toList [[.txt "a".toList], [.txt "b".toList]] ++ [.txt ".".toList]

theorem C03_unknown_args_doc_src :
    PlainGroup.render C03_unknown_args_doc
      = "Some \\textbf{bold \\emph{and nested}} text {grouped} \\foo{a}{b}.".toList := by
  decide +kernel

/-- the side conditions hold for it on the real tables -/
theorem C03_unknown_args_example_current :
    PlainGroup.DocOk Generated.theTables Generated.stDefault C03_unknown_args_doc := by
  decide +kernel

/-- … they also follow from the context-free conditions (every text character inert by itself, the
    names good, no letter directly behind a name; the real tables scan braces as braces) -/
theorem C03_unknown_args_example_simple :
    PlainGroup.tablesOk Generated.theTables = true ∧
    PlainGroup.docOkSimple Generated.theTables Generated.stDefault C03_unknown_args_doc = true ∧
    PlainGroup.tight C03_unknown_args_doc = true ∧
    PlainMacro.linesKept true false (PlainGroup.marks 0 C03_unknown_args_doc) = true := by
  decide +kernel

/-- … and this is what the theorem says about it: the reference output, text and positions -/
theorem C03_unknown_args_example_ref :
    (PlainMacro.delLines (PlainGroup.marks 0 C03_unknown_args_doc)).map (·.1)
        = "Some bold and nested text grouped ab.".toList ∧
    (PlainMacro.delLines (PlainGroup.marks 0 C03_unknown_args_doc)).map (·.2 + 1)
        = [1, 2, 3, 4, 5, 14, 15, 16, 17, 18, 25, 26, 27, 28, 29, 30, 31, 32, 33, 34, 37, 38, 39, 40,
           41, 42, 44, 45, 46, 47, 48, 49, 50, 52, 58, 61, 63] ∧
    (PlainGroup.names C03_unknown_args_doc).eraseDups
        = ["\\textbf".toList, "\\emph".toList, "\\foo".toList] := by
  decide +kernel

/-- … which is what the model computes (evaluated by the kernel) -/
theorem C03_unknown_args_example_eval :
    (match tex2txt Generated.theTables Generated.bigFuel (PlainGroup.render C03_unknown_args_doc)
        Generated.defaultOptions false 0 [] with
     | .ok r => r.txt == "Some bold and nested text grouped ab.".toList &&
                r.pos == [1, 2, 3, 4, 5, 14, 15, 16, 17, 18, 25, 26, 27, 28, 29, 30, 31, 32, 33, 34,
                          37, 38, 39, 40, 41, 42, 44, 45, 46, 47, 48, 49, 50, 52, 58, 61, 63] &&
                r.unknowns == ["\\textbf".toList, "\\emph".toList, "\\foo".toList] && r.diags.isEmpty
     | _ => false) = true := by
  decide +kernel

open PlainGroup in
/-- a second document: white space behind a control word (dropped: `\foo {x}`, also with ONE line
    break; kept with a blank line in between), a line that holds only markup and disappears
    (`{\bar}`), three levels of nesting -/
def C03_unknown_args_doc2 : List PlainGroup.Item :=
  [.txt "A ".toList, .cw "foo".toList, .txt " ".toList, .grp [.txt "x".toList], .txt "\n".toList,
   .grp [.cw "bar".toList], .txt "\nB ".toList, .cw "baz".toList, .txt "\n\nC ".toList] ++
  mac "xa".toList [mac "xb".toList [mac "xc".toList [[.txt "deep".toList]]]] ++
  [.txt "\n".toList, .cw "foo".toList, .txt "\nD".toList]

theorem C03_unknown_args_example2_current :
    PlainGroup.DocOk Generated.theTables Generated.stDefault C03_unknown_args_doc2 := by
  decide +kernel

theorem C03_unknown_args_example2_eval :
    PlainGroup.render C03_unknown_args_doc2
      = "A \\foo {x}\n{\\bar}\nB \\baz\n\nC \\xa{\\xb{\\xc{deep}}}\n\\foo\nD".toList ∧
    (PlainMacro.delLines (PlainGroup.marks 0 C03_unknown_args_doc2)).map (·.1)
      = "A x\nB \n\nC deep\nD".toList ∧
    (match tex2txt Generated.theTables Generated.bigFuel (PlainGroup.render C03_unknown_args_doc2)
        Generated.defaultOptions false 0 [] with
     | .ok r => r.txt == "A x\nB \n\nC deep\nD".toList &&
                r.unknowns == ["\\foo", "\\bar", "\\baz", "\\xa", "\\xb", "\\xc"].map String.toList
     | _ => false) = true := by
  decide +kernel

end Yalafi
