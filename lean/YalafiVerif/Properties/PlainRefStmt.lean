/-
  Properties/PlainRefStmt.lean — C04 "generated text maps into the construct that produced it" and
  C03 "keys never leak", end to end on the filter model, for documents of inert text, references
  `\ref{key}` / `\pageref{key}` and citations `\cite{key}` / `\cite[note]{key}` (first part), and
  for documents of inert text, definitions `\newtheorem{name}{title}` and theorem-like environments
  `\begin{name}` / `\begin{name}[note]` … `\end{name}` (second part).
  Proofs, side conditions and what is not covered: Proofs/PlainRef.lean (with PlainRefBase.lean),
  Proofs/PlainThm.lean (with PlainThmBase.lean).
-/
import YalafiVerif.Proofs.PlainRef
import YalafiVerif.Proofs.PlainThm
import YalafiVerif.Generated.Init
namespace Yalafi

/-- **references and citations are replaced by placeholders that map to the backslash of the
    call**, end to end on the filter model.  For every document `render segs` of inert text,
    references `\name{key}` (`\name` declared like `\ref`: one mandatory argument, a replacement of
    visible text tokens) and citations `\name{key}` / `\name[note]{key}` (`\name` declared like
    `\cite`: arguments `OA`, handler `h_cite`) — `PlainRef.SegsOk`: all side conditions, computable —,
    `st1` the state after `Parser.__init__`, no `--defs --extr --repl --unkn`, single-language mode,
    fuel = source length + 2: `tex2txt` succeeds; the output text with its (1-based) positions is
    `PlainRef.refOut st1 0 segs`:
    * every text character is copied with its own position;
    * `\ref{key}` becomes the placeholder of the declaration (`PlainRef.phOf st1`; current tables:
      `0`), every character of it at the position of the backslash;
    * `\cite{key}` becomes `[0]`, every character at the position of the backslash;
    * `\cite[note]{key}` becomes `[0, note]`: `[0, ` at the position of the backslash, the note
      at its own positions, the closing `]` at the start of the last token of the note;
    * nothing of a key appears; no line is deleted; no unknowns, no diagnostic. -/
theorem C04_ref_cite_e2e (T : PTables) (o : Options) (fs : FS) (thresh : Nat)
    (segs : List PlainRef.Seg) (fuel : Nat) (st1 : PState)
    (hdefs : o.defs = []) (hextr : o.extr = []) (hrepl : o.hasRepl = false) (hunkn : o.unkn = false)
    (hinit : initParser T fuel o (initialState T o false fs) = .ok ((), st1))
    (hok : PlainRef.SegsOk T st1 segs) (hf : (PlainRef.render segs).length + 2 ≤ fuel) :
    ∃ r, tex2txt T fuel (PlainRef.render segs) o false thresh fs = .ok r ∧
      r.txt = (PlainRef.refOut st1 0 segs).map (·.1) ∧
      r.pos = (PlainRef.refOut st1 0 segs).map (·.2 + 1) ∧
      r.unknowns = [] ∧ r.diags = st1.diags := by
  obtain ⟨r, h1, h2, h3, h4, h5, _⟩ :=
    PlainRef.tex2txt_ref_cite T o fs thresh segs fuel st1 hdefs hextr hrepl hunkn hinit hok hf
  exact ⟨r, h1, h2, h3, h4, h5⟩

/-- **every output position that is not the own position of a copied text character lies in the
    source span of a call** — from its backslash through the closing brace of its key
    (`PlainRef.spans 0 segs`: 0-based start and length; output positions are 1-based;
    `PlainRef.textChars 0 segs`: the characters of the text segments with their 0-based positions).
    The `k`-th output character with its position is a text character at its own position, or the
    position lies in the span of a call. -/
theorem C04_ref_span (T : PTables) (o : Options) (fs : FS) (thresh : Nat)
    (segs : List PlainRef.Seg) (fuel : Nat) (st1 : PState)
    (hdefs : o.defs = []) (hextr : o.extr = []) (hrepl : o.hasRepl = false) (hunkn : o.unkn = false)
    (hinit : initParser T fuel o (initialState T o false fs) = .ok ((), st1))
    (hok : PlainRef.SegsOk T st1 segs) (hf : (PlainRef.render segs).length + 2 ≤ fuel) :
    ∃ r, tex2txt T fuel (PlainRef.render segs) o false thresh fs = .ok r ∧
      ∀ cq ∈ r.txt.zip r.pos,
        (∃ cp ∈ PlainRef.textChars 0 segs, cq = (cp.1, cp.2 + 1)) ∨
        ∃ sp ∈ PlainRef.spans 0 segs, sp.1 < cq.2 ∧ cq.2 ≤ sp.1 + sp.2 := by
  obtain ⟨r, h1, h2, h3, _⟩ := C04_ref_cite_e2e T o fs thresh segs fuel st1 hdefs hextr hrepl hunkn hinit hok hf
  refine ⟨r, h1, ?_⟩
  intro cq hcq
  rw [h2, h3, List.zip_map'] at hcq
  obtain ⟨cp, hcp, rfl⟩ := List.mem_map.mp hcq
  rcases PlainRef.refOut_span st1 hcp with h | ⟨sp, hsp, h⟩
  · exact Or.inl ⟨cp, h, rfl⟩
  · exact Or.inr ⟨sp, hsp, by simp only []; omega, by simp only []; omega⟩

/-- **no key leaks**: no output position lies inside the braces `{key}` of a reference or a
    citation (`PlainRef.keySpans 0 segs`: 0-based start of `{` and length of `{key}`; output
    positions are 1-based).  With `C04_ref_cite_e2e`: the output consists of copied text, notes and
    the placeholders only. -/
theorem C03_ref_no_key (T : PTables) (o : Options) (fs : FS) (thresh : Nat)
    (segs : List PlainRef.Seg) (fuel : Nat) (st1 : PState)
    (hdefs : o.defs = []) (hextr : o.extr = []) (hrepl : o.hasRepl = false) (hunkn : o.unkn = false)
    (hinit : initParser T fuel o (initialState T o false fs) = .ok ((), st1))
    (hok : PlainRef.SegsOk T st1 segs) (hf : (PlainRef.render segs).length + 2 ≤ fuel) :
    ∃ r, tex2txt T fuel (PlainRef.render segs) o false thresh fs = .ok r ∧
      ∀ q ∈ r.pos, ∀ sp ∈ PlainRef.keySpans 0 segs, q ≤ sp.1 ∨ sp.1 + sp.2 < q := by
  obtain ⟨r, h1, _, h3, _⟩ := C04_ref_cite_e2e T o fs thresh segs fuel st1 hdefs hextr hrepl hunkn hinit hok hf
  refine ⟨r, h1, ?_⟩
  intro q hq sp hsp
  rw [h3] at hq
  obtain ⟨cp, hcp, rfl⟩ := List.mem_map.mp hq
  rcases PlainRef.refOut_no_key st1 hcp hsp with h | h
  · left; omega
  · right; omega

/-- the end-to-end theorem for the CURRENT code (tables translated from /repo, default options,
    parser initialisation evaluated by the kernel) -/
theorem C04_ref_cite_e2e_current (segs : List PlainRef.Seg) (thresh : Nat)
    (hok : PlainRef.SegsOk Generated.theTables Generated.stDefault segs)
    (hf : (PlainRef.render segs).length + 2 ≤ Generated.bigFuel) :
    ∃ r, tex2txt Generated.theTables Generated.bigFuel (PlainRef.render segs) Generated.defaultOptions
          false thresh [] = .ok r ∧
      r.txt = (PlainRef.refOut Generated.stDefault 0 segs).map (·.1) ∧
      r.pos = (PlainRef.refOut Generated.stDefault 0 segs).map (·.2 + 1) ∧
      r.unknowns = [] ∧ r.diags = Generated.stDefault.diags :=
  C04_ref_cite_e2e Generated.theTables Generated.defaultOptions [] thresh segs Generated.bigFuel
    Generated.stDefault rfl rfl rfl rfl Generated.initParser_default hok hf

/-- `See \ref{eq:1} and \cite[p. 3]{knuth84}, \cite{a,b}.` and a second line with `\pageref`, a
    key with `_ - :` and digits, a note with a line break — for the tables of the current /repo -/
def C04_ref_doc : List PlainRef.Seg :=
  [.txt "See ".toList, .ref "ref".toList "eq:1".toList, .txt " and ".toList,
   .cite "cite".toList (some "p. 3".toList) "knuth84".toList, .txt ", ".toList,
   .cite "cite".toList none "a,b".toList, .txt ".\n".toList,
   .ref "pageref".toList "sec:a_1-b".toList, .txt "\n".toList,
   .cite "cite".toList (some "see\nthere ".toList) "x".toList]

/-- the source text of the example -/
theorem C04_ref_doc_src : PlainRef.render C04_ref_doc
    = "See \\ref{eq:1} and \\cite[p. 3]{knuth84}, \\cite{a,b}.\n\\pageref{sec:a_1-b}\n\\cite[see\nthere ]{x}".toList := by
  decide +kernel

/-- the side conditions hold for it on the real tables -/
theorem C04_ref_example_current :
    PlainRef.SegsOk Generated.theTables Generated.stDefault C04_ref_doc := by
  decide +kernel

/-- the placeholder of `\ref` and `\pageref` in the current tables is `0` -/
theorem C04_ref_placeholder_current :
    PlainRef.phOf Generated.stDefault "ref".toList = "0".toList ∧
    PlainRef.phOf Generated.stDefault "pageref".toList = "0".toList := by
  decide +kernel

/-- … and this is what the theorem says about it: the reference output, text and 1-based positions -/
theorem C04_ref_example_ref :
    (PlainRef.refOut Generated.stDefault 0 C04_ref_doc).map (·.1)
      = "See 0 and [0, p. 3], [0].\n0\n[0, see\nthere ]".toList ∧
    (PlainRef.refOut Generated.stDefault 0 C04_ref_doc).map (·.2 + 1)
      = [1, 2, 3, 4, 5, 15, 16, 17, 18, 19, 20, 20, 20, 20, 26, 27, 28, 29, 29, 40, 41, 42, 42, 42, 52, 53,
         54, 73, 74, 74, 74, 74, 80, 81, 82, 83, 84, 85, 86, 87, 88, 89, 89] := by
  decide +kernel

/-- … which is what the model computes (evaluated by the kernel) -/
theorem C04_ref_example_eval :
    (match tex2txt Generated.theTables Generated.bigFuel (PlainRef.render C04_ref_doc)
        Generated.defaultOptions false 0 [] with
     | .ok r => r.txt == "See 0 and [0, p. 3], [0].\n0\n[0, see\nthere ]".toList &&
        r.pos == [1, 2, 3, 4, 5, 15, 16, 17, 18, 19, 20, 20, 20, 20, 26, 27, 28, 29, 29, 40, 41, 42, 42,
          42, 52, 53, 54, 73, 74, 74, 74, 74, 80, 81, 82, 83, 84, 85, 86, 87, 88, 89, 89] &&
        r.unknowns.isEmpty && r.diags.isEmpty
     | _ => false) = true := by
  decide +kernel

/-! ### theorem-like environments -/

/-- **a theorem-like environment starts with its title, which maps to the position of `\begin`**,
    end to end on the filter model.  For every document `render segs` of inert text, definitions
    `\newtheorem{name}{title}` and environments `\begin{name}` / `\begin{name}[note]` … `\end{name}`
    of names defined before (`PlainThm.SegsOk`: all side conditions, computable), `st1` the state
    after `Parser.__init__`, no `--defs --extr --repl --unkn`, single-language mode, fuel = source
    length + 2: `tex2txt` succeeds; the output text with its (1-based) positions is
    `delLines (PlainThm.marks [] 0 segs)`:
    * every text character is copied with its own position;
    * a definition leaves one Action mark and no text; the white space behind it (at most one
      line break) is skipped; it comes into force behind it (the latest definition of a name counts);
    * `\begin{name}` is replaced by a paragraph break (two line breaks), `Title.` and a line break,
      every character at the position of `\begin`; the white space behind it (at most one line
      break) is skipped;
    * `\begin{name}[note]` is replaced by a paragraph break and `Title (` at the position of
      `\begin`, the note at its own positions, `).` and a line break at the start of the last token
      of the note;
    * `\end{name}` is replaced by a paragraph break at the position of `\end`;
    * then every line is deleted, together with its line break, that consists only of white space
      and at least one definition (`PlainMacro.delLines`);
    * no unknowns, no diagnostic. -/
theorem C04_theorem_e2e (T : PTables) (o : Options) (fs : FS) (thresh : Nat)
    (segs : List PlainThm.Seg) (fuel : Nat) (st1 : PState)
    (hdefs : o.defs = []) (hextr : o.extr = []) (hrepl : o.hasRepl = false) (hunkn : o.unkn = false)
    (hinit : initParser T fuel o (initialState T o false fs) = .ok ((), st1))
    (hok : PlainThm.SegsOk T st1 segs) (hf : (PlainThm.render segs).length + 2 ≤ fuel) :
    ∃ r, tex2txt T fuel (PlainThm.render segs) o false thresh fs = .ok r ∧
      r.txt = (PlainMacro.delLines (PlainThm.marks [] 0 segs)).map (·.1) ∧
      r.pos = (PlainMacro.delLines (PlainThm.marks [] 0 segs)).map (·.2 + 1) ∧
      r.unknowns = [] ∧ r.diags = st1.diags := by
  obtain ⟨r, h1, h2, h3, h4, h5, _⟩ :=
    PlainThm.tex2txt_theorem T o fs thresh segs fuel st1 hdefs hextr hrepl hunkn hinit hok hf
  exact ⟨r, h1, h2, h3, h4, h5⟩

/-- … when no line consists of white space and definitions only (`linesKept`, decidable): the
    output is `PlainThm.thmOut [] 0 segs`, the explicit reference (nothing but the definitions and
    the skipped white space is removed) -/
theorem C04_theorem_kept (T : PTables) (o : Options) (fs : FS) (thresh : Nat)
    (segs : List PlainThm.Seg) (fuel : Nat) (st1 : PState)
    (hdefs : o.defs = []) (hextr : o.extr = []) (hrepl : o.hasRepl = false) (hunkn : o.unkn = false)
    (hinit : initParser T fuel o (initialState T o false fs) = .ok ((), st1))
    (hok : PlainThm.SegsOk T st1 segs) (hf : (PlainThm.render segs).length + 2 ≤ fuel)
    (hk : PlainMacro.linesKept true false (PlainThm.marks [] 0 segs) = true) :
    ∃ r, tex2txt T fuel (PlainThm.render segs) o false thresh fs = .ok r ∧
      r.txt = (PlainThm.thmOut [] 0 segs).map (·.1) ∧
      r.pos = (PlainThm.thmOut [] 0 segs).map (·.2 + 1) := by
  obtain ⟨r, h1, h2, h3, _⟩ :=
    PlainThm.tex2txt_theorem_kept T o fs thresh segs fuel st1 hdefs hextr hrepl hunkn hinit hok hf hk
  exact ⟨r, h1, h2, h3⟩

/-- **every output position that is not the own position of a copied text character lies in the
    source span of a `\begin{name}` / `\begin{name}[note]` / `\end{name}`** — from its backslash
    through its closing brace resp. the closing `]` of the note (`PlainThm.spans 0 segs`: 0-based
    start and length; output positions are 1-based; `PlainThm.textChars 0 segs`: the characters of
    the text segments with their 0-based positions) -/
theorem C04_theorem_span (T : PTables) (o : Options) (fs : FS) (thresh : Nat)
    (segs : List PlainThm.Seg) (fuel : Nat) (st1 : PState)
    (hdefs : o.defs = []) (hextr : o.extr = []) (hrepl : o.hasRepl = false) (hunkn : o.unkn = false)
    (hinit : initParser T fuel o (initialState T o false fs) = .ok ((), st1))
    (hok : PlainThm.SegsOk T st1 segs) (hf : (PlainThm.render segs).length + 2 ≤ fuel) :
    ∃ r, tex2txt T fuel (PlainThm.render segs) o false thresh fs = .ok r ∧
      ∀ cq ∈ r.txt.zip r.pos,
        (∃ cp ∈ PlainThm.textChars 0 segs, cq = (cp.1, cp.2 + 1)) ∨
        ∃ sp ∈ PlainThm.spans 0 segs, sp.1 < cq.2 ∧ cq.2 ≤ sp.1 + sp.2 := by
  obtain ⟨r, h1, h2, h3, _⟩ := C04_theorem_e2e T o fs thresh segs fuel st1 hdefs hextr hrepl hunkn hinit hok hf
  refine ⟨r, h1, ?_⟩
  intro cq hcq
  rw [h2, h3, List.zip_map'] at hcq
  obtain ⟨cp, hcp, rfl⟩ := List.mem_map.mp hcq
  rcases PlainThm.out_span hcp with h | ⟨sp, hsp, h⟩
  · exact Or.inl ⟨cp, h, rfl⟩
  · exact Or.inr ⟨sp, hsp, by simp only []; omega, by simp only []; omega⟩

/-- the end-to-end theorem for the CURRENT code (tables translated from /repo, default options,
    parser initialisation evaluated by the kernel) -/
theorem C04_theorem_e2e_current (segs : List PlainThm.Seg) (thresh : Nat)
    (hok : PlainThm.SegsOk Generated.theTables Generated.stDefault segs)
    (hf : (PlainThm.render segs).length + 2 ≤ Generated.bigFuel) :
    ∃ r, tex2txt Generated.theTables Generated.bigFuel (PlainThm.render segs) Generated.defaultOptions
          false thresh [] = .ok r ∧
      r.txt = (PlainMacro.delLines (PlainThm.marks [] 0 segs)).map (·.1) ∧
      r.pos = (PlainMacro.delLines (PlainThm.marks [] 0 segs)).map (·.2 + 1) ∧
      r.unknowns = [] ∧ r.diags = Generated.stDefault.diags :=
  C04_theorem_e2e Generated.theTables Generated.defaultOptions [] thresh segs Generated.bigFuel
    Generated.stDefault rfl rfl rfl rfl Generated.initParser_default hok hf

/-- two definitions in a preamble, a theorem without note on lines of its own, a lemma with a
    note inside a line — for the tables of the current /repo -/
def C04_theorem_doc : List PlainThm.Seg :=
  [.newthm "thm".toList "Theorem".toList "\n".toList,
   .newthm "lem".toList "Lemma".toList [],
   .txt "\n\nIntro.\n".toList,
   .beg "thm".toList "\n".toList, .txt "Every x is y.\n".toList, .en "thm".toList,
   .txt "\nMiddle\n".toList,
   .begN "lem".toList "Zorn, 1935".toList, .txt " A chain. ".toList, .en "lem".toList,
   .txt " End.".toList]

/-- the source text of the example -/
theorem C04_theorem_doc_src : PlainThm.render C04_theorem_doc
    = ("\\newtheorem{thm}{Theorem}\n\\newtheorem{lem}{Lemma}\n\nIntro.\n\\begin{thm}\nEvery x is y.\n" ++
       "\\end{thm}\nMiddle\n\\begin{lem}[Zorn, 1935] A chain. \\end{lem} End.").toList := by
  decide +kernel

/-- the side conditions hold for it on the real tables -/
theorem C04_theorem_example_current :
    PlainThm.SegsOk Generated.theTables Generated.stDefault C04_theorem_doc := by
  decide +kernel

/-- … and this is what the theorem says about it: the reference output, text and 1-based positions
    (the line of the two definitions is deleted with its line break) -/
theorem C04_theorem_example_ref :
    (PlainMacro.delLines (PlainThm.marks [] 0 C04_theorem_doc)).map (·.1)
      = ("\nIntro.\n\n\nTheorem.\nEvery x is y.\n\n\n\nMiddle\n\n\nLemma (Zorn, 1935).\n A chain. \n\n End.").toList ∧
    (PlainMacro.delLines (PlainThm.marks [] 0 C04_theorem_doc)).map (·.2 + 1)
      = [51, 52, 53, 54, 55, 56, 57, 58, 59, 59, 59, 59, 59, 59, 59, 59, 59, 59, 59, 71, 72, 73, 74, 75,
         76, 77, 78, 79, 80, 81, 82, 83, 84, 85, 85, 94, 95, 96, 97, 98, 99, 100, 101, 102, 102, 102, 102,
         102, 102, 102, 102, 102, 114, 115, 116, 117, 118, 119, 120, 121, 122, 123, 123, 123, 123, 125,
         126, 127, 128, 129, 130, 131, 132, 133, 134, 135, 135, 144, 145, 146, 147, 148] := by
  decide +kernel

/-- … which is what the model computes (evaluated by the kernel) -/
theorem C04_theorem_example_eval :
    (match tex2txt Generated.theTables Generated.bigFuel (PlainThm.render C04_theorem_doc)
        Generated.defaultOptions false 0 [] with
     | .ok r =>
        r.txt == ("\nIntro.\n\n\nTheorem.\nEvery x is y.\n\n\n\nMiddle\n\n\nLemma (Zorn, 1935).\n A chain. \n\n End.").toList &&
        r.pos == [51, 52, 53, 54, 55, 56, 57, 58, 59, 59, 59, 59, 59, 59, 59, 59, 59, 59, 59, 71, 72, 73,
          74, 75, 76, 77, 78, 79, 80, 81, 82, 83, 84, 85, 85, 94, 95, 96, 97, 98, 99, 100, 101, 102, 102,
          102, 102, 102, 102, 102, 102, 102, 114, 115, 116, 117, 118, 119, 120, 121, 122, 123, 123, 123,
          123, 125, 126, 127, 128, 129, 130, 131, 132, 133, 134, 135, 135, 144, 145, 146, 147, 148] &&
        r.unknowns.isEmpty && r.diags.isEmpty
     | _ => false) = true := by
  decide +kernel

end Yalafi
