/-
  Properties/PlainMix3Stmt.lean — C03 "hidden material never leaks" and C05 "text flow is preserved",
  end to end on the filter model, for documents that MIX twenty-two kinds of constructs, among them
  the STATEFUL ones: inert text, special sequences, braces / groups and undeclared control words with
  braced arguments at any depth, vanishing calls, `%` comments, `\verb`, inline formulas of the RICH
  class (`$x^2+\alpha$`, `\(\,y_1.\)`), `\ref` / `\pageref`, `\cite` / `\cite[note]`, `\footnote`,
  headings, ACCENT calls (`\'e`, `\"{o}`), USER DEFINITIONS `\newcommand{\name}[n]{body}` and their
  USES `\name{a1}…{am}` (the definition in force at that point; before it: an unknown control word),
  simple DISPLAYED EQUATIONS `\[ … \]` and `\begin{equation} … \end{equation}` (second rotating
  placeholder collection), LIST ENVIRONMENTS `\begin{enumerate}`, `\item`, `\end{enumerate}` at any
  nesting (the stack of label generators)
  — in any order (`PlainMix3.Seg`).
  Proofs, side conditions and what is not covered: Proofs/PlainMix3E2E.lean (header),
  Proofs/PlainMix3.lean + Proofs/PlainMix3Loop.lean (one loop lemma), Proofs/PlainMix3Scan.lean (one
  scanner lemma), Proofs/PlainMix3Sem.lean (the meaning of the pieces along the changing macro
  table), Proofs/PlainMix3Src.lean (documents, reference), Proofs/PlainMix3Read.lean (readings).
-/
import YalafiVerif.Proofs.PlainMix3Read
import YalafiVerif.Generated.Init
namespace Yalafi

/-- **mixed documents with the stateful kinds, end to end.**
    For every document `render segs` (`PlainMix3.SegsOk`: all side conditions, computable; `repls` /
    `drepls` = the inline / display placeholder collections of the language, only looked at if
    there is a formula / a displayed equation), `st1` the state after `Parser.__init__`, no `--defs
    --extr --repl --unkn`, single-language mode, fuel = source length + the number of tokens the
    uses insert (`PlainMix3.inserted`) + 6: `tex2txt` succeeds; the output text with its (1-based)
    positions is `delLines (marks …) ++ flows …`:

    * `marks` (main flow; `PlainMix3.marks`, threading the definitions in force, the label
      generators `itemStack` and the numbers of formulas and displayed equations in front): a text
      character with its own position; special sequences, braces, control words, vanishing calls,
      comments, `\verb`, references, citations, footnotes, headings as in `C03_mix2_e2e`; a formula = a mark, `[blank] placeholder
      [punctuation] [blank]` pinned to the first maths token, a mark; an accent call = the
      character(s) of the accent table at the backslash, no mark; a definition = a text-less mark;
      a use = a mark, the body of the definition in force with `#k` replaced by the `k`-th argument
      at its own positions, the surplus groups; a use of an undefined name = a mark and its groups;
      a displayed equation = a mark, two blanks at the backslash, the display placeholder at the
      first element of the body, the closing punctuation at the first body character, a mark
      (`\begin{equation}`: two more marks in front); `\begin{name}` of a list environment = the marks
      of `add_pars` and a mark, `\item` = a mark, a blank, the next label of the innermost label
      generator, a blank (all at the backslash), `\end{name}` = the marks of `add_pars`;
    * `delLines`: every line of the main flow that consists of white space and at least one
      text-less mark is deleted with its line break (`remove_pure_action_lines`); nothing else;
    * `flows`: for every footnote, in order, behind the main text: three line breaks, the body at
      its own positions, a line break;
    * the unknowns are the undeclared control words and the uses of names that are not (yet)
      defined, each once, in order of first use; no diagnostic. -/
theorem C03_mix3_e2e (T : PTables) (o : Options) (fs : FS) (thresh : Nat)
    (segs : List PlainMix3.Seg) (fuel : Nat) (st1 : PState) (repls drepls : List Str)
    (hdefs : o.defs = []) (hextr : o.extr = []) (hrepl : o.hasRepl = false) (hunkn : o.unkn = false)
    (hinit : initParser T fuel o (initialState T o false fs) = .ok ((), st1))
    (hok : PlainMix3.SegsOk T st1 repls drepls segs)
    (hf : (PlainMix3.render segs).length + PlainMix3.inserted [] 0 segs + 6 ≤ fuel) :
    ∃ r, tex2txt T fuel (PlainMix3.render segs) o false thresh fs = .ok r ∧
      r.txt = (PlainMacro.delLines (PlainMix3.marks T st1 repls drepls [] st1.itemStack 0 0 0 segs)
                ++ PlainMix3.flows 0 segs).map (·.1) ∧
      r.pos = (PlainMacro.delLines (PlainMix3.marks T st1 repls drepls [] st1.itemStack 0 0 0 segs)
                ++ PlainMix3.flows 0 segs).map (·.2 + 1) ∧
      r.unknowns = (PlainMix3.unkNames [] segs).eraseDups ∧ r.diags = st1.diags := by
  obtain ⟨r, h1, h2, h3, h4, h5, _⟩ :=
    PlainMix3.tex2txt_mix3 T o fs thresh segs fuel st1 repls drepls hdefs hextr hrepl hunkn hinit hok hf
  exact ⟨r, h1, h2, h3, h4, h5⟩

/-- **nothing hidden leaks, nothing visible is lost.**  The output characters that are no white
    space, with their positions, are exactly those of `PlainMix3.plain` (text, special values,
    `\verb` contents, placeholders, notes, titles and their full stops, accent values, the expansions
    of the uses, the two blanks and placeholders of the displayed equations, the labels of the
    items) followed by those of the footnote bodies (`PlainMix3.footBodies`), in this order — no character of a key, a label, a comment, a control-word name, a formula or
    equation body (but its closing punctuation) or a definition, and every footnote body exactly
    once. -/
theorem C03_mix3_words (T : PTables) (o : Options) (fs : FS) (thresh : Nat)
    (segs : List PlainMix3.Seg) (fuel : Nat) (st1 : PState) (repls drepls : List Str)
    (hdefs : o.defs = []) (hextr : o.extr = []) (hrepl : o.hasRepl = false) (hunkn : o.unkn = false)
    (hinit : initParser T fuel o (initialState T o false fs) = .ok ((), st1))
    (hok : PlainMix3.SegsOk T st1 repls drepls segs)
    (hf : (PlainMix3.render segs).length + PlainMix3.inserted [] 0 segs + 6 ≤ fuel) :
    ∃ r, tex2txt T fuel (PlainMix3.render segs) o false thresh fs = .ok r ∧
      (r.txt.zip r.pos).filter (fun cp => !isSpace cp.1)
        = ((PlainMix3.plain T st1 repls drepls [] st1.itemStack 0 0 0 segs ++ PlainMix3.footBodies 0 segs).filter
            (fun cp => !isSpace cp.1)).map (fun cp => (cp.1, cp.2 + 1)) := by
  obtain ⟨r, h1, h2, h3, _⟩ :=
    C03_mix3_e2e T o fs thresh segs fuel st1 repls drepls hdefs hextr hrepl hunkn hinit hok hf
  refine ⟨r, h1, ?_⟩
  rw [h2, h3, List.zip_map', List.filter_map]
  have hw := PlainMix.delLines_words (PlainMix3.marks T st1 repls drepls [] st1.itemStack 0 0 0 segs)
  rw [PlainMix3.marks_chars] at hw
  have hfl := PlainMix3.flows_vis segs 0
  show List.map _ (List.filter PlainMix.vis _) = List.map _ (List.filter PlainMix.vis _)
  rw [List.filter_append, List.filter_append, hw, hfl]

/-- **no character is added, in particular no line break in the main flow**: the main part of the
    output is a subsequence of `PlainMix3.plain`, and it is followed by exactly the flows. -/
theorem C05_mix3_nothing_added (T : PTables) (o : Options) (fs : FS) (thresh : Nat)
    (segs : List PlainMix3.Seg) (fuel : Nat) (st1 : PState) (repls drepls : List Str)
    (hdefs : o.defs = []) (hextr : o.extr = []) (hrepl : o.hasRepl = false) (hunkn : o.unkn = false)
    (hinit : initParser T fuel o (initialState T o false fs) = .ok ((), st1))
    (hok : PlainMix3.SegsOk T st1 repls drepls segs)
    (hf : (PlainMix3.render segs).length + PlainMix3.inserted [] 0 segs + 6 ≤ fuel) :
    ∃ r, tex2txt T fuel (PlainMix3.render segs) o false thresh fs = .ok r ∧
      ∃ main, r.txt.zip r.pos
          = (main ++ PlainMix3.flows 0 segs).map (fun cp => (cp.1, cp.2 + 1)) ∧
        List.Sublist main (PlainMix3.plain T st1 repls drepls [] st1.itemStack 0 0 0 segs) := by
  obtain ⟨r, h1, h2, h3, _⟩ :=
    C03_mix3_e2e T o fs thresh segs fuel st1 repls drepls hdefs hextr hrepl hunkn hinit hok hf
  refine ⟨r, h1, PlainMacro.delLines (PlainMix3.marks T st1 repls drepls [] st1.itemStack 0 0 0 segs), ?_, ?_⟩
  · rw [h2, h3, List.zip_map']
  · have := PlainMix.delLines_sublist (PlainMix3.marks T st1 repls drepls [] st1.itemStack 0 0 0 segs)
    rw [PlainMix3.marks_chars] at this
    exact this

/-- **a line of the main flow is deleted iff it is pure.**  Split the marks of the document at a
    line: `A` (empty or ending with a line break), the line `L` (no line break), its line break
    `nlp`, the rest `B`.  Then the output is the output of `A`, followed by nothing if `L` is *pure*
    (`PlainMix.pureLine`: white space only and at least one text-less mark — the line and its line
    break are deleted) and by the characters of `L` and the line break otherwise, followed by the
    output of `B` and the flows. -/
theorem C05_mix3_lines (T : PTables) (o : Options) (fs : FS) (thresh : Nat)
    (segs : List PlainMix3.Seg) (fuel : Nat) (st1 : PState) (repls drepls : List Str)
    (hdefs : o.defs = []) (hextr : o.extr = []) (hrepl : o.hasRepl = false) (hunkn : o.unkn = false)
    (hinit : initParser T fuel o (initialState T o false fs) = .ok ((), st1))
    (hok : PlainMix3.SegsOk T st1 repls drepls segs)
    (hf : (PlainMix3.render segs).length + PlainMix3.inserted [] 0 segs + 6 ≤ fuel)
    (A L B : List PlainMacro.Mark) (nlp : Char × Nat)
    (hsplit : PlainMix3.marks T st1 repls drepls [] st1.itemStack 0 0 0 segs = A ++ (L ++ some nlp :: B))
    (hA : A = [] ∨ ∃ A' q, A = A' ++ [some q] ∧ (q.1 == nl) = true)
    (hL : L.any PlainMix.isNlMark = false) (hn : (nlp.1 == nl) = true) :
    ∃ r, tex2txt T fuel (PlainMix3.render segs) o false thresh fs = .ok r ∧
      r.txt = ((PlainMacro.delLines A ++ ((if PlainMix.pureLine L then [] else L.filterMap id ++ [nlp])
                ++ PlainMacro.delLines B)) ++ PlainMix3.flows 0 segs).map (·.1) ∧
      r.pos = ((PlainMacro.delLines A ++ ((if PlainMix.pureLine L then [] else L.filterMap id ++ [nlp])
                ++ PlainMacro.delLines B)) ++ PlainMix3.flows 0 segs).map (·.2 + 1) := by
  obtain ⟨r, h1, h2, h3, _⟩ :=
    C03_mix3_e2e T o fs thresh segs fuel st1 repls drepls hdefs hextr hrepl hunkn hinit hok hf
  rw [hsplit, PlainMix.delLines_mid A L B nlp hA hL hn] at h2 h3
  exact ⟨r, h1, h2, h3⟩

/-- … and the last line of the main flow (no line break behind it) -/
theorem C05_mix3_last_line (T : PTables) (o : Options) (fs : FS) (thresh : Nat)
    (segs : List PlainMix3.Seg) (fuel : Nat) (st1 : PState) (repls drepls : List Str)
    (hdefs : o.defs = []) (hextr : o.extr = []) (hrepl : o.hasRepl = false) (hunkn : o.unkn = false)
    (hinit : initParser T fuel o (initialState T o false fs) = .ok ((), st1))
    (hok : PlainMix3.SegsOk T st1 repls drepls segs)
    (hf : (PlainMix3.render segs).length + PlainMix3.inserted [] 0 segs + 6 ≤ fuel)
    (A L : List PlainMacro.Mark)
    (hsplit : PlainMix3.marks T st1 repls drepls [] st1.itemStack 0 0 0 segs = A ++ L)
    (hA : A = [] ∨ ∃ A' q, A = A' ++ [some q] ∧ (q.1 == nl) = true)
    (hL : L.any PlainMix.isNlMark = false) :
    ∃ r, tex2txt T fuel (PlainMix3.render segs) o false thresh fs = .ok r ∧
      r.txt = ((PlainMacro.delLines A ++ (if PlainMix.pureLine L then [] else L.filterMap id))
                ++ PlainMix3.flows 0 segs).map (·.1) ∧
      r.pos = ((PlainMacro.delLines A ++ (if PlainMix.pureLine L then [] else L.filterMap id))
                ++ PlainMix3.flows 0 segs).map (·.2 + 1) := by
  obtain ⟨r, h1, h2, h3, _⟩ :=
    C03_mix3_e2e T o fs thresh segs fuel st1 repls drepls hdefs hextr hrepl hunkn hinit hok hf
  rw [hsplit, PlainMix.delLines_end A L hA hL] at h2 h3
  exact ⟨r, h1, h2, h3⟩

/-- … when no line of the main flow is pure (`linesKept`, decidable): the output is
    `PlainMix3.plain` — the document with every definition removed and every use expanded —
    followed by the flows; nothing else added or removed -/
theorem C05_mix3_kept (T : PTables) (o : Options) (fs : FS) (thresh : Nat)
    (segs : List PlainMix3.Seg) (fuel : Nat) (st1 : PState) (repls drepls : List Str)
    (hdefs : o.defs = []) (hextr : o.extr = []) (hrepl : o.hasRepl = false) (hunkn : o.unkn = false)
    (hinit : initParser T fuel o (initialState T o false fs) = .ok ((), st1))
    (hok : PlainMix3.SegsOk T st1 repls drepls segs)
    (hf : (PlainMix3.render segs).length + PlainMix3.inserted [] 0 segs + 6 ≤ fuel)
    (hk : PlainMacro.linesKept true false (PlainMix3.marks T st1 repls drepls [] st1.itemStack 0 0 0 segs) = true) :
    ∃ r, tex2txt T fuel (PlainMix3.render segs) o false thresh fs = .ok r ∧
      r.txt = (PlainMix3.plain T st1 repls drepls [] st1.itemStack 0 0 0 segs ++ PlainMix3.flows 0 segs).map (·.1) ∧
      r.pos = (PlainMix3.plain T st1 repls drepls [] st1.itemStack 0 0 0 segs ++ PlainMix3.flows 0 segs).map (·.2 + 1) := by
  obtain ⟨r, h1, h2, h3, _⟩ :=
    C03_mix3_e2e T o fs thresh segs fuel st1 repls drepls hdefs hextr hrepl hunkn hinit hok hf
  rw [PlainMacro.delLines_kept _ hk, PlainMix3.marks_chars] at h2 h3
  exact ⟨r, h1, h2, h3⟩

/-- the end-to-end theorem for the CURRENT code (tables translated from /repo, default options,
    parser initialisation evaluated by the kernel) -/
theorem C03_mix3_e2e_current (segs : List PlainMix3.Seg) (repls drepls : List Str) (thresh : Nat)
    (hok : PlainMix3.SegsOk Generated.theTables Generated.stDefault repls drepls segs)
    (hf : (PlainMix3.render segs).length + PlainMix3.inserted [] 0 segs + 6 ≤ Generated.bigFuel) :
    ∃ r, tex2txt Generated.theTables Generated.bigFuel (PlainMix3.render segs) Generated.defaultOptions
          false thresh [] = .ok r ∧
      r.txt = (PlainMacro.delLines
                  (PlainMix3.marks Generated.theTables Generated.stDefault repls drepls []
                    Generated.stDefault.itemStack 0 0 0 segs)
                ++ PlainMix3.flows 0 segs).map (·.1) ∧
      r.pos = (PlainMacro.delLines
                  (PlainMix3.marks Generated.theTables Generated.stDefault repls drepls []
                    Generated.stDefault.itemStack 0 0 0 segs)
                ++ PlainMix3.flows 0 segs).map (·.2 + 1) ∧
      r.unknowns = (PlainMix3.unkNames [] segs).eraseDups ∧ r.diags = Generated.stDefault.diags :=
  C03_mix3_e2e Generated.theTables Generated.defaultOptions [] thresh segs Generated.bigFuel
    Generated.stDefault repls drepls rfl rfl rfl rfl Generated.initParser_default hok hf

/-- the inline placeholder collection of the current /repo for English -/
def C03_mix3_repls : List Str :=
  ["B-B-B", "C-C-C", "D-D-D", "E-E-E", "F-F-F", "G-G-G"].map String.toList

/-- the display placeholder collection of the current /repo for English -/
def C03_mix3_drepls : List Str :=
  ["U-U-U", "V-V-V", "W-W-W", "X-X-X", "Y-Y-Y", "Z-Z-Z"].map String.toList

/-- a document that uses every kind of segment.  Source:

        \pair{u} first
        \newcommand{\pair}[2]{(#1, #2)}
        \section{Intro}
        Alpha--beta \textbf{bold \emph{and $x^2+\alpha$ nested}} gamma\label{sec:a} see \ref{sec:a} and \cite{knuth84}, \cite[p. 3]{lamport}.\footnote{A note.} 100\% sure. % hidden
          Next {\foo a~b} caf\'e G\"{o}del \pair{a}{bc} and \pair{x}{y}{z} with \(\,y_1.\)
        \[ a+b = c. \]
        more \begin{equation}= z,\end{equation}
        \begin{enumerate}
        \item one \pair{p}{q}
        \begin{itemize}
        \item inner
        \end{itemize}
        \item two $z$
        \end{enumerate}
        \bar % again
        \verb|x_$%| end.
        % last
-/
def C03_mix3_doc : List PlainMix3.Seg :=
  [.use "pair".toList ["u".toList], .txt " first\n".toList,
   .defn "pair".toList 2 [.lit "(".toList, .par 1, .lit ", ".toList, .par 2, .lit ")".toList],
   .txt "\n".toList, .head "section".toList "Intro".toList, .txt "\nAlpha".toList, .spc "--".toList,
   .txt "beta ".toList]
  ++ PlainMix3.mac "textbf".toList
      [[.txt "bold ".toList] ++ PlainMix3.mac "emph".toList
        [[.txt "and ".toList,
          .math false [.chars "x".toList, .spec "^".toList, .chars "2+".toList, .cw "alpha".toList],
          .txt " nested".toList]]]
  ++ [.txt " gamma".toList, .van "label".toList "sec:a".toList, .txt " see ".toList,
      .ref "ref".toList "sec:a".toList, .txt " and ".toList, .cite "cite".toList "knuth84".toList,
      .txt ", ".toList, .citeN "cite".toList "p. 3".toList "lamport".toList, .txt ".".toList,
      .foot "A note.".toList, .txt " 100".toList, .spc "\\%".toList, .txt " sure. ".toList,
      .com " hidden\n  ".toList, .txt "Next ".toList]
  ++ PlainMix3.grp [.cw "foo".toList " ".toList, .txt "a".toList, .spc "~".toList, .txt "b".toList]
  ++ [.txt " caf".toList, .acc "'".toList [] false 'e', .txt " G".toList, .acc "\"".toList [] true 'o',
      .txt "del ".toList, .use "pair".toList ["a".toList, "bc".toList], .txt " and ".toList,
      .use "pair".toList ["x".toList, "y".toList, "z".toList], .txt " with ".toList,
      .math true [.spec "\\,".toList, .chars "y".toList, .spec "_".toList, .chars "1.".toList],
      .txt "\n".toList, .disp " a+b = c. ".toList, .txt "\nmore ".toList,
      .denv "equation".toList "= z,".toList, .txt "\n".toList,
      .beg "enumerate".toList, .txt "\n".toList, .item " ".toList, .txt "one ".toList,
      .use "pair".toList ["p".toList, "q".toList], .txt "\n".toList,
      .beg "itemize".toList, .txt "\n".toList, .item " ".toList, .txt "inner\n".toList,
      .en "itemize".toList, .txt "\n".toList, .item " ".toList, .txt "two ".toList,
      .math false [.chars "z".toList], .txt "\n".toList, .en "enumerate".toList, .txt "\n".toList,
      .cw "bar".toList " ".toList, .com " again\n".toList,
      .verb '|' "x_$%".toList, .txt " end.\n".toList, .com " last".toList]

/-- the side conditions hold for it on the real tables -/
theorem C03_mix3_example_current :
    PlainMix3.SegsOk Generated.theTables Generated.stDefault C03_mix3_repls C03_mix3_drepls
      C03_mix3_doc := by
  decide +kernel

/-- … with the fuel of the instance -/
theorem C03_mix3_example_fuel :
    (PlainMix3.render C03_mix3_doc).length + PlainMix3.inserted [] 0 C03_mix3_doc + 6
      ≤ Generated.bigFuel := by
  decide +kernel

/-- … and this is what the theorem says about it: the reference output, text and positions.
    (The first `\pair{u}` precedes the definition: it is reported as unknown and its group is read as
    a plain group; the line with the `\newcommand` is pure and disappears; the heading gets its full
    stop; the first formula gives the second inline placeholder `C-C-C`; `\ref` gives `0`, the
    citations `[0]` and `[0, p. 3]`; `~` gives U+00A0; the accent calls give `é` and `ö`;
    `\pair{a}{bc}` gives `(a, bc)` — the arguments at their own positions; the third group of
    `\pair{x}{y}{z}` stays; the second formula starts with maths space and ends with a full stop:
    ` D-D-D.`; the displayed equations give two blanks, the display placeholders `V-V-V`, `W-W-W`
    and the closing punctuation; the `\begin` / `\end` lines of the lists are pure and disappear;
    the items of `enumerate` get ` 1. ` and ` 2. `, the item of the nested `itemize` the empty
    label between two blanks; the use and the formula inside the items work as elsewhere (third
    inline placeholder `E-E-E`); the line `\bar % again` is pure and disappears; the footnote body
    comes last, behind three line breaks.) -/
theorem C03_mix3_example_ref :
    (PlainMacro.delLines (PlainMix3.marks Generated.theTables Generated.stDefault C03_mix3_repls C03_mix3_drepls []
        Generated.stDefault.itemStack 0 0 0 C03_mix3_doc) ++ PlainMix3.flows 0 C03_mix3_doc).map (·.1)
      = "u first\nIntro.\nAlpha\u2013beta bold and C-C-C nested gamma see 0 and [0], [0, p. 3]. 100% sure. Next a\u00a0b caf\u00e9 G\u00f6del (a, bc) and (x, y)z with  D-D-D.\n  V-V-V.\nmore   W-W-W,\n 1. one (p, q)\n  inner\n 2. two E-E-E\nx_$% end.\n\n\n\nA note.\n".toList ∧
    (PlainMacro.delLines (PlainMix3.marks Generated.theTables Generated.stDefault C03_mix3_repls C03_mix3_drepls []
        Generated.stDefault.itemStack 0 0 0 C03_mix3_doc) ++ PlainMix3.flows 0 C03_mix3_doc).map (·.2 + 1)
      = [7, 9, 10, 11, 12, 13, 14, 15, 57, 58, 59, 60, 61, 61, 63, 64, 65, 66, 67, 68, 69, 71, 72,
         73, 74, 75, 84, 85, 86, 87, 88, 95, 96, 97, 98, 100, 100, 100, 100, 100, 111, 112, 113,
         114, 115, 116, 117, 120, 121, 122, 123, 124, 125, 139, 140, 141, 142, 143, 144, 155, 156,
         157, 158, 159, 160, 160, 160, 174, 175, 176, 176, 176, 176, 182, 183, 184, 185, 185, 196,
         215, 216, 217, 218, 219, 221, 222, 223, 224, 225, 226, 227, 239, 240, 241, 242, 243, 250,
         251, 252, 254, 255, 256, 257, 258, 261, 262, 263, 268, 269, 270, 271, 281, 278, 278, 278,
         281, 282, 282, 284, 285, 286, 287, 288, 298, 295, 295, 295, 298, 298, 301, 303, 304, 305,
         306, 307, 308, 311, 311, 311, 311, 311, 311, 311, 319, 320, 320, 323, 323, 323, 323, 323,
         323, 334, 335, 336, 337, 338, 339, 340, 340, 358, 358, 358, 358, 358, 356, 374, 393, 393,
         393, 393, 399, 400, 401, 402, 412, 409, 409, 409, 412, 412, 414, 431, 431, 437, 438, 439,
         440, 441, 442, 457, 457, 457, 457, 463, 464, 465, 466, 468, 468, 468, 468, 468, 470, 506,
         507, 508, 509, 511, 512, 513, 514, 515, 516, 207, 207, 207, 207, 208, 209, 210, 211, 212,
         213, 213] ∧
    (PlainMix3.unkNames [] C03_mix3_doc).eraseDups
      = ["\\pair".toList, "\\textbf".toList, "\\emph".toList, "\\foo".toList, "\\bar".toList] := by
  decide +kernel

/-- … which is what the model computes (evaluated by the kernel): text, positions, unknowns -/
theorem C03_mix3_example_eval :
    (match tex2txt Generated.theTables Generated.bigFuel (PlainMix3.render C03_mix3_doc)
        Generated.defaultOptions false 0 [] with
     | .ok r =>
       r.txt == "u first\nIntro.\nAlpha\u2013beta bold and C-C-C nested gamma see 0 and [0], [0, p. 3]. 100% sure. Next a\u00a0b caf\u00e9 G\u00f6del (a, bc) and (x, y)z with  D-D-D.\n  V-V-V.\nmore   W-W-W,\n 1. one (p, q)\n  inner\n 2. two E-E-E\nx_$% end.\n\n\n\nA note.\n".toList &&
       r.pos == [7, 9, 10, 11, 12, 13, 14, 15, 57, 58, 59, 60, 61, 61, 63, 64, 65, 66, 67, 68, 69, 71, 72,
         73, 74, 75, 84, 85, 86, 87, 88, 95, 96, 97, 98, 100, 100, 100, 100, 100, 111, 112, 113,
         114, 115, 116, 117, 120, 121, 122, 123, 124, 125, 139, 140, 141, 142, 143, 144, 155, 156,
         157, 158, 159, 160, 160, 160, 174, 175, 176, 176, 176, 176, 182, 183, 184, 185, 185, 196,
         215, 216, 217, 218, 219, 221, 222, 223, 224, 225, 226, 227, 239, 240, 241, 242, 243, 250,
         251, 252, 254, 255, 256, 257, 258, 261, 262, 263, 268, 269, 270, 271, 281, 278, 278, 278,
         281, 282, 282, 284, 285, 286, 287, 288, 298, 295, 295, 295, 298, 298, 301, 303, 304, 305,
         306, 307, 308, 311, 311, 311, 311, 311, 311, 311, 319, 320, 320, 323, 323, 323, 323, 323,
         323, 334, 335, 336, 337, 338, 339, 340, 340, 358, 358, 358, 358, 358, 356, 374, 393, 393,
         393, 393, 399, 400, 401, 402, 412, 409, 409, 409, 412, 412, 414, 431, 431, 437, 438, 439,
         440, 441, 442, 457, 457, 457, 457, 463, 464, 465, 466, 468, 468, 468, 468, 468, 470, 506,
         507, 508, 509, 511, 512, 513, 514, 515, 516, 207, 207, 207, 207, 208, 209, 210, 211, 212,
         213, 213] &&
       r.unknowns == ["\\pair".toList, "\\textbf".toList, "\\emph".toList, "\\foo".toList, "\\bar".toList]
     | _ => false) = true := by
  decide +kernel

end Yalafi
