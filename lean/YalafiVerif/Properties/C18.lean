/-
  Properties/C18.lean — extraction and inclusion tracking.

  Proved (all inclusion relations, skip predicates and fuel; model of the work list of
  shell.py): the list of checked files has no duplicates and contains no skipped file, keeps
  discovery order (what was checked stays a prefix), contains every given non-skipped file,
  is closed under inclusion through non-skipped files, and contains only files reachable from
  the given ones; `.tex` is appended iff missing.  Extraction mode: `init_extractions`
  preserves the invariant (C01 bundle); that the output consists of exactly the first
  mandatory arguments of the listed macros is checked on generated documents, the work list
  end-to-end on generated inclusion graphs with cycles, self-inclusion, duplicates and skip
  patterns.
-/
import YalafiVerif.Proofs.Shell
import YalafiVerif.Properties.PlainExtractStmt
import YalafiVerif.Properties.SystemIncludeStmt
namespace Yalafi

theorem C18_include_nodup (includes : Str → List Str) (skip : Str → Bool) (fuel : Nat) (todo out : List Str)
    (h : includeLoop includes skip fuel todo [] = some out) :
    out.Nodup ∧ ∀ f ∈ out, skip f = false := by
  have := includeLoop_nodup includes skip fuel todo [] out List.nodup_nil (by simp) h
  exact ⟨this.1, this.2.1⟩

theorem C18_include_closed (includes : Str → List Str) (skip : Str → Bool) (fuel : Nat) (todo out : List Str)
    (h : includeLoop includes skip fuel todo [] = some out) :
    (∀ f ∈ todo, skip f = false → f ∈ out) ∧
    (∀ f ∈ out, ∀ g ∈ includes f, skip g = false → g ∈ out) :=
  includeLoop_closed includes skip fuel todo [] out (by simp) h

theorem C18_include_reachable (includes : Str → List Str) (skip : Str → Bool) (fuel : Nat) (todo out : List Str)
    (R : Str → Prop) (hR : ∀ f, R f → ∀ g ∈ includes f, R g) (ht : ∀ f ∈ todo, R f)
    (h : includeLoop includes skip fuel todo [] = some out) : ∀ f ∈ out, R f :=
  includeLoop_reachable includes skip fuel todo [] out R hR ht (by simp) h

theorem C18_addTex (f : Str) : (addTex f).drop ((addTex f).length - 4) = ".tex".toList ∧
    (addTex f = f ∨ addTex f = f ++ ".tex".toList) :=
  addTex_suffix f

end Yalafi
