/-
  Properties/PlainFlowsStmt.lean — C03 "detached flows (footnotes, captions) follow the main flow, each
  complete and in order of appearance", end to end on the filter model, for ALL macros of the tables
  that detach an argument (`\footnote`, `\footnotetext`, `\caption`: `C03_flow_macros_current`), with
  and without optional argument, inside and outside the float environments `figure` / `table`.
  Proofs, side conditions, what is not covered: Proofs/PlainFlows.lean (header),
  Proofs/PlainFlowsBase.lean (expander level), Proofs/PlainFlowsRead.lean (readings).
-/
import YalafiVerif.Proofs.PlainFlowsRead
import YalafiVerif.Generated.Init
namespace Yalafi

open PlainFlows in
/-- **detached flows, end to end.**  For every document `render segs` of inert text, calls
    `\name{body}` / `\name[opt]{body}` of macros declared like `\footnote` and float environments
    `\begin{name}` / `\begin{name}[placement]` … `\end{name}` declared like `figure`
    (`PlainFlows.SegsOk`: all side conditions, computable), `st1` the state after `Parser.__init__`,
    no `--defs --extr --repl --unkn`, single-language mode, fuel = source length + 4: `tex2txt`
    succeeds; the output text with its (1-based) positions is
    `refOut segs = delLines (marks 0 segs) ++ flows 0 segs`:

    * `marks`: a text character with its own position; a call = ONE text-less mark at the call site
      (nothing of `opt` or `body` stays); `\begin{…}` = two text-less marks (the white space behind
      `\begin{name}` is swallowed), `\end{…}` = one;
    * `delLines`: every line that consists of white space and at least one text-less mark is
      deleted with its line break (`remove_pure_action_lines`); nothing else;
    * `flows`: behind ALL main text, for every call in source order, three line breaks pinned to the
      first body character, the body at its own positions, one line break pinned to the start of
      the last token of the body;
    * no unknowns, no diagnostic. -/
theorem C03_detached_flows_e2e (T : PTables) (o : Options) (fs : FS) (thresh : Nat)
    (segs : List PlainFlows.Seg) (fuel : Nat) (st1 : PState)
    (hdefs : o.defs = []) (hextr : o.extr = []) (hrepl : o.hasRepl = false) (hunkn : o.unkn = false)
    (hinit : initParser T fuel o (initialState T o false fs) = .ok ((), st1))
    (hok : PlainFlows.SegsOk T st1 segs) (hf : (PlainFlows.render segs).length + 4 ≤ fuel) :
    ∃ r, tex2txt T fuel (PlainFlows.render segs) o false thresh fs = .ok r ∧
      r.txt = (PlainFlows.refOut segs).map (·.1) ∧
      r.pos = (PlainFlows.refOut segs).map (·.2 + 1) ∧
      r.unknowns = [] ∧ r.diags = st1.diags := by
  obtain ⟨r, h1, h2, h3, h4, h5, _⟩ :=
    tex2txt_flows T o fs thresh segs fuel st1 hdefs hextr hrepl hunkn hinit hok hf
  exact ⟨r, h1, h2, h3, h4, h5⟩

open PlainFlows in
/-- **the flows appear in source order of their calls, after all main text.**  `bodies 0 segs` lists
    the calls of the document in source order (`b.1` = 0-based offset of the first body character,
    `b.2` = the body); the offsets increase and a body ends before the next one starts.  The output
    text is the main text (`delLines (marks 0 segs)`: text characters only) followed, for these calls
    IN THIS ORDER, by three line breaks, the body and one line break; with positions: `flowOut b.1 b.2`
    for each. -/
theorem C03_flows_order (T : PTables) (o : Options) (fs : FS) (thresh : Nat)
    (segs : List PlainFlows.Seg) (fuel : Nat) (st1 : PState)
    (hdefs : o.defs = []) (hextr : o.extr = []) (hrepl : o.hasRepl = false) (hunkn : o.unkn = false)
    (hinit : initParser T fuel o (initialState T o false fs) = .ok ((), st1))
    (hok : PlainFlows.SegsOk T st1 segs) (hf : (PlainFlows.render segs).length + 4 ≤ fuel) :
    ∃ r, tex2txt T fuel (PlainFlows.render segs) o false thresh fs = .ok r ∧
      r.txt = (PlainMacro.delLines (marks 0 segs)).map (·.1)
        ++ (bodies 0 segs).flatMap (fun b => [nl, nl, nl] ++ b.2 ++ [nl]) ∧
      r.pos = ((PlainMacro.delLines (marks 0 segs))
        ++ (bodies 0 segs).flatMap (fun b => PlainFootnote.flowOut b.1 b.2)).map (·.2 + 1) ∧
      (bodies 0 segs).Pairwise (fun a b => a.1 + a.2.length < b.1) ∧
      (∀ cp ∈ PlainMacro.delLines (marks 0 segs), cp ∈ textChars 0 segs) := by
  obtain ⟨r, h1, h2, h3, _⟩ :=
    tex2txt_flows T o fs thresh segs fuel st1 hdefs hextr hrepl hunkn hinit hok hf
  refine ⟨r, h1, ?_, ?_, bodies_sorted segs 0, fun cp h => main_sub_text h⟩
  · rw [h2, refOut, List.map_append, flows_text]
  · rw [h3, refOut, flows_eq_bodies]

open PlainFlows in
/-- **every flow is complete and appears exactly once.**  For every call of the document (`b ∈ bodies 0
    segs`): the source text has the body at offset `b.1`; the output (characters with 0-based
    positions, `refOut`) is `A ++ flowOut b.1 b.2 ++ B` — three line breaks, EVERY body character at
    its own position, one line break — and no other entry of the output (main flow or another flow)
    has a position in the span of the body. -/
theorem C03_flows_complete (T : PTables) (o : Options) (fs : FS) (thresh : Nat)
    (segs : List PlainFlows.Seg) (fuel : Nat) (st1 : PState)
    (hdefs : o.defs = []) (hextr : o.extr = []) (hrepl : o.hasRepl = false) (hunkn : o.unkn = false)
    (hinit : initParser T fuel o (initialState T o false fs) = .ok ((), st1))
    (hok : PlainFlows.SegsOk T st1 segs) (hf : (PlainFlows.render segs).length + 4 ≤ fuel) :
    ∃ r, tex2txt T fuel (PlainFlows.render segs) o false thresh fs = .ok r ∧
      r.txt = (refOut segs).map (·.1) ∧ r.pos = (refOut segs).map (·.2 + 1) ∧
      ∀ b ∈ bodies 0 segs,
        ((PlainFlows.render segs).drop b.1).take b.2.length = b.2 ∧
        ∃ A B, refOut segs = A ++ PlainFootnote.flowOut b.1 b.2 ++ B ∧
          (∀ cp ∈ A, cp.2 < b.1 ∨ b.1 + b.2.length < cp.2) ∧
          (∀ cp ∈ B, cp.2 < b.1 ∨ b.1 + b.2.length < cp.2) := by
  obtain ⟨r, h1, h2, h3, _⟩ :=
    tex2txt_flows T o fs thresh segs fuel st1 hdefs hextr hrepl hunkn hinit hok hf
  refine ⟨r, h1, h2, h3, fun b hb => ⟨?_, flow_block segs 0 b hb⟩⟩
  simpa using (bodies_in_source segs 0 b hb).2

open PlainFlows in
/-- **nothing of an optional argument appears.**  No output position — of the main flow or of a
    flow — lies inside the source span of an optional argument `[opt]` of a call or of a placement
    `[…]` of a float (`optSpans`: start and length, brackets included; positions 0-based here,
    `r.pos` is 1-based). -/
theorem C03_optional_hidden (T : PTables) (o : Options) (fs : FS) (thresh : Nat)
    (segs : List PlainFlows.Seg) (fuel : Nat) (st1 : PState)
    (hdefs : o.defs = []) (hextr : o.extr = []) (hrepl : o.hasRepl = false) (hunkn : o.unkn = false)
    (hinit : initParser T fuel o (initialState T o false fs) = .ok ((), st1))
    (hok : PlainFlows.SegsOk T st1 segs) (hf : (PlainFlows.render segs).length + 4 ≤ fuel) :
    ∃ r, tex2txt T fuel (PlainFlows.render segs) o false thresh fs = .ok r ∧
      ∀ q ∈ r.pos, ∀ x ∈ optSpans 0 segs, q < x.1 + 1 ∨ x.1 + x.2 + 1 ≤ q := by
  obtain ⟨r, h1, _, h3, _⟩ :=
    tex2txt_flows T o fs thresh segs fuel st1 hdefs hextr hrepl hunkn hinit hok hf
  refine ⟨r, h1, ?_⟩
  intro q hq x hx
  rw [h3] at hq
  obtain ⟨cp, hcp, rfl⟩ := List.mem_map.mp hq
  have := out_avoids_opt segs 0 cp x hcp hx
  omega

/-! ### the current code -/

/-- the macros of the CURRENT tables (parser state after `Parser.__init__`, default options) that
    detach an argument are exactly `\caption`, `\footnote`, `\footnotetext`, and each is declared
    with `flowDeclOk` (argument codes `OA`, no handler, empty replacement, extraction `#2`); the float
    environments `figure` and `table` are declared with `figEnvOk`; `\footnotemark` (defined by `\newcommand{\footnotemark}[1][]{}`) detaches nothing -/
theorem C03_flow_macros_current :
    (Generated.stDefault.macros.filter (fun m => !m.extract.isEmpty)).map (·.name)
      = ["\\caption".toList, "\\footnote".toList, "\\footnotetext".toList] ∧
    (Generated.stDefault.macros.filter (fun m => !m.extract.isEmpty)).all PlainFlows.flowDeclOk = true ∧
    PlainFlows.figEnvAt Generated.stDefault "figure".toList = true ∧
    PlainFlows.figEnvAt Generated.stDefault "table".toList = true ∧
    ((lookupMacro Generated.stDefault "\\footnotemark".toList).map (fun m => (m.args, m.extract.isEmpty)))
      = some (['O'], true) := by
  decide +kernel

/-- the end-to-end theorem for the CURRENT code (tables translated from /repo, default options,
    parser initialisation evaluated by the kernel) -/
theorem C03_detached_flows_current (segs : List PlainFlows.Seg) (thresh : Nat)
    (hok : PlainFlows.SegsOk Generated.theTables Generated.stDefault segs)
    (hf : (PlainFlows.render segs).length + 4 ≤ Generated.bigFuel) :
    ∃ r, tex2txt Generated.theTables Generated.bigFuel (PlainFlows.render segs) Generated.defaultOptions
          false thresh [] = .ok r ∧
      r.txt = (PlainFlows.refOut segs).map (·.1) ∧
      r.pos = (PlainFlows.refOut segs).map (·.2 + 1) ∧
      r.unknowns = [] ∧ r.diags = Generated.stDefault.diags :=
  C03_detached_flows_e2e Generated.theTables Generated.defaultOptions [] thresh segs Generated.bigFuel
    Generated.stDefault rfl rfl rfl rfl Generated.initParser_default hok hf

namespace PlainFlowsExample
open PlainFlows

/-- `Text\footnote[2]{first note} more \footnotetext{second} end.⏎\caption[short]{A long caption}` -/
def doc1 : List PlainFlows.Seg :=
  [.txt "Text".toList, .callO "footnote".toList "2".toList "first note".toList,
   .txt " more ".toList, .call "footnotetext".toList "second".toList, .txt " end.\n".toList,
   .callO "caption".toList "short".toList "A long caption".toList]

/-- `A⏎\begin{figure}⏎\caption{Cap text}⏎\end{figure}⏎B⏎` -/
def doc2 : List PlainFlows.Seg :=
  [.txt "A\n".toList, .beg "figure".toList "\n".toList, .call "caption".toList "Cap text".toList,
   .txt "\n".toList, .en "figure".toList, .txt "\nB\n".toList]

/-- `A⏎\begin{table}[ht]⏎body \caption[]{Cap⏎⏎ text}⏎\end{table}⏎B⏎` (empty optional argument, a
    blank line inside the body, text inside the float) -/
def doc3 : List PlainFlows.Seg :=
  [.txt "A\n".toList, .begN "table".toList "ht".toList, .txt "\nbody ".toList,
   .callO "caption".toList [] "Cap\n\n text".toList, .txt "\n".toList, .en "table".toList,
   .txt "\nB\n".toList]

theorem doc1_src : PlainFlows.render doc1
    = "Text\\footnote[2]{first note} more \\footnotetext{second} end.\n\\caption[short]{A long caption}".toList := by
  decide

theorem doc2_src : PlainFlows.render doc2 = "A\n\\begin{figure}\n\\caption{Cap text}\n\\end{figure}\nB\n".toList := by
  decide

theorem doc3_src : PlainFlows.render doc3
    = "A\n\\begin{table}[ht]\nbody \\caption[]{Cap\n\n text}\n\\end{table}\nB\n".toList := by
  decide

end PlainFlowsExample

open PlainFlowsExample in
/-- three concrete documents satisfy all side conditions on the real tables -/
theorem C03_detached_flows_example_current :
    PlainFlows.SegsOk Generated.theTables Generated.stDefault doc1 ∧
    PlainFlows.SegsOk Generated.theTables Generated.stDefault doc2 ∧
    PlainFlows.SegsOk Generated.theTables Generated.stDefault doc3 := by
  decide +kernel

open PlainFlowsExample in
/-- the reference output of the first document: the main text without the calls (the line of
    `\caption` has disappeared), then the three flows in source order; of `[2]` and `[short]`
    nothing appears (1-based positions) -/
theorem C03_detached_flows_doc1_ref :
    (PlainFlows.refOut doc1).map (·.1)
      = "Text more  end.\n\n\n\nfirst note\n\n\n\nsecond\n\n\n\nA long caption\n".toList ∧
    (PlainFlows.refOut doc1).map (·.2 + 1)
      = [1, 2, 3, 4, 29, 30, 31, 32, 33, 34, 56, 57, 58, 59, 60, 61,
         18, 18, 18, 18, 19, 20, 21, 22, 23, 24, 25, 26, 27, 27,
         49, 49, 49, 49, 50, 51, 52, 53, 54, 54,
         78, 78, 78, 78, 79, 80, 81, 82, 83, 84, 85, 86, 87, 88, 89, 90, 91, 91] := by
  decide +kernel

open PlainFlowsExample in
/-- the model, evaluated by the kernel on the first document with the real tables: the output is
    the reference output -/
theorem C03_detached_flows_doc1_eval :
    (match tex2txt Generated.theTables 200 (PlainFlows.render doc1) Generated.defaultOptions false 0 [] with
     | .ok r => r.txt == "Text more  end.\n\n\n\nfirst note\n\n\n\nsecond\n\n\n\nA long caption\n".toList &&
        r.pos == (PlainFlows.refOut doc1).map (·.2 + 1) && r.unknowns.isEmpty
     | _ => false) = true := by
  decide +kernel

open PlainFlowsExample in
/-- the caption inside a float: every line of the float is a pure Action line and disappears; the
    caption follows the main text (kernel evaluation of the model and of the reference) -/
theorem C03_detached_flows_doc2_eval :
    (PlainFlows.refOut doc2).map (·.1) = "A\nB\n\n\n\nCap text\n".toList ∧
    (PlainFlows.refOut doc2).map (·.2 + 1) = [1, 2, 50, 51, 27, 27, 27, 27, 28, 29, 30, 31, 32, 33, 34, 34] ∧
    (match tex2txt Generated.theTables 200 (PlainFlows.render doc2) Generated.defaultOptions false 0 [] with
     | .ok r => r.txt == (PlainFlows.refOut doc2).map (·.1) &&
        r.pos == (PlainFlows.refOut doc2).map (·.2 + 1) && r.unknowns.isEmpty
     | _ => false) = true := by
  decide +kernel

open PlainFlowsExample in
/-- text inside the float stays in the main flow, the placement `[ht]` and the empty `[]` vanish, the
    blank line inside the caption is kept -/
theorem C03_detached_flows_doc3_eval :
    (PlainFlows.refOut doc3).map (·.1) = "A\nbody \nB\n\n\n\nCap\n\n text\n".toList ∧
    (match tex2txt Generated.theTables 200 (PlainFlows.render doc3) Generated.defaultOptions false 0 [] with
     | .ok r => r.txt == (PlainFlows.refOut doc3).map (·.1) &&
        r.pos == (PlainFlows.refOut doc3).map (·.2 + 1) && r.unknowns.isEmpty
     | _ => false) = true := by
  decide +kernel

/-- `\footnotemark` and `\footnotemark[3]` vanish (declared with `O`, no extraction, an empty replacement):
    kernel evaluation of the model; OUTSIDE the document class of the theorems above -/
theorem C03_footnotemark_eval :
    (match tex2txt Generated.theTables 200 "A\\footnotemark B\\footnotemark[3] C\n".toList
        Generated.defaultOptions false 0 [] with
     | .ok r => r.txt == "AB C\n".toList && r.pos == [1, 16, 33, 34, 35] && r.unknowns.isEmpty
     | _ => false) = true := by
  decide +kernel

end Yalafi
