/-
  Properties/C04.lean — generated text maps into the source span of the construct that generated it.

  Proved so far: an error mark starts at the position of the problem (all its tokens fixed
  and in range); a stored body token re-stamped at a use is fixed at the anchor.  The
  per-step anchor lemmas of the design (`genRepl_anchor`, handlers, maths placeholders) and
  `fromDoc` are being added; until then the span claim is checked on the implementation:
  words of macro bodies / defaults / theorem titles must map into a use of that macro, every
  fixed character into the span of a construct of the generated AST.
-/
import YalafiVerif.Proofs.Inv.Basic
import YalafiVerif.Proofs.Utils
import YalafiVerif.Proofs.GenRepl
import YalafiVerif.Proofs.PlainHeading
import YalafiVerif.Proofs.PlainItem
import YalafiVerif.Generated.Init
import YalafiVerif.Properties.PlainRefStmt
import YalafiVerif.Properties.PlainItemLStmt
import YalafiVerif.Properties.CleverefStmt
namespace Yalafi

theorem C04_latexError_anchor (T : Tables) (hm : T.mark ≠ []) (err : Str) (pos n : Nat) (hp : pos < n) :
    (∀ t ∈ latexErrorToks T err pos n, t.fix = true ∧ t.kind = .text ∧ t.pos < n) ∧
    (latexErrorToks T err pos n).head?.map (·.pos) = some pos :=
  ⟨(latexErrorToks_inv T hm err pos n hp).1, (latexErrorToks_inv T hm err pos n hp).2.1⟩

/-- copying a body token to a use: fixed, at the anchor, kind and text unchanged -/
theorem C04_restamp (T : PTables) (n p : Nat) (t : Tok) (hs : storedOk T t = true) (hp : p < n) :
    BTok T n { t with pos := p, fix := true } :=
  BTok_restamp T n p t hs hp

/-- every token of a macro expansion is a token of an argument (unchanged, so it keeps its own
    source position), or generated text pinned (`fix`) to the start of the call or to the position
    of an argument token, or a text-less position marker at an argument token: nothing in an
    expansion maps outside the call and its arguments -/
theorem C04_genRepl_anchor (args : List (List Tok)) (repl : List Tok) (start : Nat) (out : List Tok)
    (h : generateReplacements args repl start = some out) :
    ∀ t ∈ out, (∃ a ∈ args, t ∈ a) ∨
      (t.fix = true ∧ (t.pos = start ∨ ∃ a ∈ args, ∃ u ∈ a, t.pos = u.pos)) ∨
      (∃ a ∈ args, ∃ u ∈ a, t = mkAction u.pos) :=
  genRepl_anchor args repl start out h

/-- **headings**, end to end on the filter model: for documents of inert text and
    `\\section{title}`-like headings (any macro declared with `*OA` and the heading handler; inert
    non-blank title without line break), every heading is replaced by its title, followed by a full
    stop unless the title ends with a mark of `heading_punct`; title characters map to their own
    positions and the generated full stop maps INTO the heading (the start of the last token of the
    title); text keeps its positions; no line is deleted; no unknowns, no diagnostics -/
theorem C04_heading_e2e (T : PTables) (o : Options) (fs : FS) (thresh : Nat) (segs : List PlainHeading.Seg)
    (fuel : Nat) (st1 : PState)
    (hdefs : o.defs = []) (hextr : o.extr = []) (hrepl : o.hasRepl = false) (hunkn : o.unkn = false)
    (hinit : initParser T fuel o (initialState T o false fs) = .ok ((), st1))
    (hst : PlainHeading.stateOk T st1 = true) (hok : PlainHeading.segsOk T st1 segs = true)
    (hf : (PlainHeading.render segs).length + 4 ≤ fuel) :
    ∃ r, tex2txt T fuel (PlainHeading.render segs) o false thresh fs = .ok r ∧
      r.txt = PlainHeading.outText T segs ∧
      r.txt = (PlainHeading.refOut T 0 segs).map (·.1) ∧
      r.pos = (PlainHeading.refOut T 0 segs).map (fun cp => cp.2 + 1) ∧
      r.unknowns = [] ∧ r.diags = st1.diags ∧ r.foreign = false :=
  PlainHeading.tex2txt_heading T o fs thresh segs fuel st1 hdefs hextr hrepl hunkn hinit hst hok hf

/-- **list items**, end to end on the filter model: for documents of inert text, `\\begin{name}` /
    `\\end{name}` of declared list environments (any nesting) and unlabelled `\\item`s, the k-th
    `\\item` of a list is replaced by blank + its default label + blank with every generated
    character mapped to the backslash of that `\\item`; item texts keep their own positions; the
    `\\begin` / `\\end` lines vanish (`delLines`: exact character-level model of blank-line removal);
    no unknowns, no diagnostics -/
theorem C04_items_e2e (T : PTables) (o : Options) (fs : FS) (thresh : Nat) (segs : List PlainItem.Seg)
    (fuel : Nat) (st1 : PState)
    (hdefs : o.defs = []) (hextr : o.extr = []) (hrepl : o.hasRepl = false) (hunkn : o.unkn = false)
    (hinit : initParser T fuel o (initialState T o false fs) = .ok ((), st1))
    (hok : PlainItem.SegsOk T st1 segs) (hf : (PlainItem.render segs).length + 4 ≤ fuel) :
    ∃ r, tex2txt T fuel (PlainItem.render segs) o false thresh fs = .ok r ∧
      r.txt = (PlainMacro.delLines (PlainItem.segMarks T st1 st1.itemStack 0 segs)).map (·.1) ∧
      r.pos = (PlainMacro.delLines (PlainItem.segMarks T st1 st1.itemStack 0 segs)).map (·.2 + 1) ∧
      r.unknowns = [] ∧ r.diags = st1.diags ∧ r.parts = [] :=
  PlainItem.tex2txt_lists T o fs thresh segs fuel st1 hdefs hextr hrepl hunkn hinit hok hf

/-- the state hypotheses of the heading theorem hold for the parser initialised from the tables of
    the current /repo, and a concrete document satisfies its side conditions -/
theorem C04_heading_current :
    PlainHeading.stateOk Generated.theTables Generated.stDefault = true ∧
    PlainHeading.segsOk Generated.theTables Generated.stDefault
      [.head "section".toList "First title".toList, .txt "\nSome text.\n".toList, .head "subsection".toList "Is it so?".toList,
       .txt "\nMore.\n".toList] = true := by
  decide +kernel

end Yalafi
