/-
  Properties/C04.lean — generated text maps into the source span of the construct that generated it.

  Proved so far: an error mark starts at the position of the problem (all its tokens fixed
  and in range); a stored body token re-stamped at a use is fixed at the anchor.  The
  per-step anchor lemmas of the design (`genRepl_anchor`, handlers, maths placeholders) and
  `fromDoc` are being added; until then the span claim is checked on the implementation:
  words of macro bodies / defaults / theorem titles must map into a use of that macro, every
  fixed character into the span of a construct of the generated AST.
-/
import YalafiVerif.Proofs.Inv.Basic
import YalafiVerif.Proofs.Utils
import YalafiVerif.Proofs.GenRepl
namespace Yalafi

theorem C04_latexError_anchor (T : Tables) (hm : T.mark ≠ []) (err : Str) (pos n : Nat) (hp : pos < n) :
    (∀ t ∈ latexErrorToks T err pos n, t.fix = true ∧ t.kind = .text ∧ t.pos < n) ∧
    (latexErrorToks T err pos n).head?.map (·.pos) = some pos :=
  ⟨(latexErrorToks_inv T hm err pos n hp).1, (latexErrorToks_inv T hm err pos n hp).2.1⟩

/-- copying a body token to a use: fixed, at the anchor, kind and text unchanged -/
theorem C04_restamp (T : PTables) (n p : Nat) (t : Tok) (hs : storedOk T t = true) (hp : p < n) :
    BTok T n { t with pos := p, fix := true } :=
  BTok_restamp T n p t hs hp

/-- every token of a macro expansion is a token of an argument (unchanged, so it keeps its own
    source position), or generated text pinned (`fix`) to the start of the call or to the position
    of an argument token, or a text-less position marker at an argument token: nothing in an
    expansion maps outside the call and its arguments -/
theorem C04_genRepl_anchor (args : List (List Tok)) (repl : List Tok) (start : Nat) (out : List Tok)
    (h : generateReplacements args repl start = some out) :
    ∀ t ∈ out, (∃ a ∈ args, t ∈ a) ∨
      (t.fix = true ∧ (t.pos = start ∨ ∃ a ∈ args, ∃ u ∈ a, t.pos = u.pos)) ∨
      (∃ a ∈ args, ∃ u ∈ a, t = mkAction u.pos) :=
  genRepl_anchor args repl start out h

end Yalafi
