/-
  Properties/PlainUnkn2Stmt.lean — C19, the unknowns list, END TO END for documents that mix all
  the kinds of use the property speaks about (Proofs/PlainUnkn2.lean, Proofs/PlainUnkn2Src.lean):

    inert text | `\name` undeclared | `\begin{name}` … `\end{name}` undeclared (any nesting) |
    `\name{key}` declared (`\label{x}`) | `$ … \alpha_1^{n} … $` | `% comment`

  "With --unkn / --list-unknown the output lists each macro and environment name that is used
  outside maths and is declared neither built-in, by a loaded package or class, nor by a
  definition that precedes the use — once each, in order of first use, one per line.  Names used
  only inside maths, in comments or in skipped regions are not listed, and declared names never
  are."

  Not covered here: definitions inside the document (`\newcommand` before / after the use:
  Proofs/PlainMacro.lean), skipped regions (`%%% LT-SKIP-BEGIN`), the output TEXT without `--unkn`
  (only the list and the diagnostics are claimed then), displayed formulas, nested environments,
  `--defs`, `--extr`, `--repl`, multi-language mode.
-/
import YalafiVerif.Proofs.PlainUnkn2Src
import YalafiVerif.Generated.Init
namespace Yalafi


/-- **C19 end to end.**  `segs` is a document of the class (`PlainUnkn2.Seg`, `PlainUnkn2.render`);
    all side conditions are in the decidable `PlainUnkn2.SegsOk T st1 segs` (the constructs are
    scanned as what they look like; the `.cw` / `.env` names are not declared in the initialised
    parser `st1`, the `.decl` names are declared as vanishing macros; control words in formulas are
    not declared, no `\text`-like macros, not maths space, not ignored); `st1` is the state after
    `Parser.__init__`; no `--defs`, `--extr`, `--repl`; single-language mode.  With one unit of fuel
    per source character plus two, for BOTH settings of `--unkn`, `tex2txt` succeeds and

    * `r.unknowns = PlainUnkn2.refUnknowns segs`: the control words `\name` and the environment names `name`
      (the model lists environments WITHOUT backslash) used in text mode, each once, in order of
      first use; nothing from formulas, declared macros, comments;
    * no diagnostic is added;
    * with `--unkn`: the output text is the list, one name per line (each followed by a line
      break; for the empty list a single line break), all positions are 1;
    * without `--unkn`: text and positions are those of the result tokens (no explicit reference
      for the text is claimed here). -/
theorem C19_unknowns_e2e (T : PTables) (o : Options) (fs : FS) (thresh : Nat)
    (segs : List PlainUnkn2.Seg) (fuel : Nat) (st1 : PState)
    (hdefs : o.defs = []) (hextr : o.extr = []) (hrepl : o.hasRepl = false)
    (hinit : initParser T fuel o (initialState T o false fs) = .ok ((), st1))
    (hok : PlainUnkn2.SegsOk T st1 segs) (hf : (PlainUnkn2.render segs).length + 2 ≤ fuel) :
    ∃ r, tex2txt T fuel (PlainUnkn2.render segs) o false thresh fs = .ok r ∧
      r.unknowns = PlainUnkn2.refUnknowns segs ∧
      r.diags = st1.diags ∧
      (o.unkn = true → r.txt = strJoin [nl] (PlainUnkn2.refUnknowns segs) ++ [nl] ∧
        r.pos = List.replicate r.txt.length 1) ∧
      (o.unkn = false → r.txt = (getTxtPos r.toks).1 ∧ r.pos = (getTxtPos r.toks).2.map (· + 1)) := by
  obtain ⟨r, h1, h2, h3, _, h5, h6⟩ :=
    PlainUnkn2.tex2txt_unknowns_e2e T o fs thresh segs fuel st1 hdefs hextr hrepl hinit hok hf
  exact ⟨r, h1, h2, h3, h5, h6⟩

/-- **declared names never are listed**: every name of the list is a control word that is not
    declared as a macro in `st1`, or an environment name that is not declared as an environment;
    and the name of a `.decl` call of the document is not in the list. -/
theorem C19_declared_never_listed (T : PTables) (o : Options) (fs : FS) (thresh : Nat)
    (segs : List PlainUnkn2.Seg) (fuel : Nat) (st1 : PState)
    (hdefs : o.defs = []) (hextr : o.extr = []) (hrepl : o.hasRepl = false)
    (hinit : initParser T fuel o (initialState T o false fs) = .ok ((), st1))
    (hok : PlainUnkn2.SegsOk T st1 segs) (hf : (PlainUnkn2.render segs).length + 2 ≤ fuel) :
    ∃ r, tex2txt T fuel (PlainUnkn2.render segs) o false thresh fs = .ok r ∧
      (∀ n ∈ r.unknowns,
        (∃ name, n = '\\' :: name ∧ lookupMacro st1 n = none) ∨ lookupEnv st1 n = none) ∧
      (∀ name key, PlainUnkn2.Seg.decl name key ∈ segs → '\\' :: name ∉ r.unknowns) := by
  obtain ⟨r, h1, h2, _⟩ :=
    PlainUnkn2.tex2txt_unknowns_e2e T o fs thresh segs fuel st1 hdefs hextr hrepl hinit hok hf
  refine ⟨r, h1, ?_, ?_⟩
  · intro n hn
    rw [h2] at hn
    exact PlainUnkn2.refUnknowns_undeclared T st1 segs hok.2 n hn
  · intro name key hd
    rw [h2]
    exact PlainUnkn2.refUnknowns_decl T st1 segs hok.2 name key hd

/-- **names used only inside maths (or comments) are not listed**: if `\name` does not occur as a
    text-mode control word (`.cw name`) of the document, it is not in the list — however often it
    is used in the formulas and comments. -/
theorem C19_maths_not_listed (T : PTables) (o : Options) (fs : FS) (thresh : Nat)
    (segs : List PlainUnkn2.Seg) (fuel : Nat) (st1 : PState)
    (hdefs : o.defs = []) (hextr : o.extr = []) (hrepl : o.hasRepl = false)
    (hinit : initParser T fuel o (initialState T o false fs) = .ok ((), st1))
    (hok : PlainUnkn2.SegsOk T st1 segs) (hf : (PlainUnkn2.render segs).length + 2 ≤ fuel) :
    ∃ r, tex2txt T fuel (PlainUnkn2.render segs) o false thresh fs = .ok r ∧
      ∀ name, PlainUnkn2.Seg.cw name ∉ segs → '\\' :: name ∉ r.unknowns := by
  obtain ⟨r, h1, h2, _⟩ :=
    PlainUnkn2.tex2txt_unknowns_e2e T o fs thresh segs fuel st1 hdefs hextr hrepl hinit hok hf
  refine ⟨r, h1, ?_⟩
  intro name hd
  rw [h2]
  exact PlainUnkn2.refUnknowns_maths T st1 segs hok.2 name hd

/-- **once each, in order of first use**: the list has no duplicates, it holds exactly the names
    used in text mode (`usedNames`: `\name` for `.cw name`, `name` for `.env name _`), and a name
    stands directly behind the distinct names that are used before its first use. -/
theorem C19_each_once_in_order (T : PTables) (o : Options) (fs : FS) (thresh : Nat)
    (segs : List PlainUnkn2.Seg) (fuel : Nat) (st1 : PState)
    (hdefs : o.defs = []) (hextr : o.extr = []) (hrepl : o.hasRepl = false)
    (hinit : initParser T fuel o (initialState T o false fs) = .ok ((), st1))
    (hok : PlainUnkn2.SegsOk T st1 segs) (hf : (PlainUnkn2.render segs).length + 2 ≤ fuel) :
    ∃ r, tex2txt T fuel (PlainUnkn2.render segs) o false thresh fs = .ok r ∧
      r.unknowns.Nodup ∧
      (∀ n, n ∈ r.unknowns ↔ n ∈ PlainUnkn2.usedNames segs) ∧
      (∀ pre n post, PlainUnkn2.usedNames segs = pre ++ n :: post → n ∉ pre →
        ∃ X, r.unknowns = pre.eraseDups ++ n :: X) := by
  obtain ⟨r, h1, h2, _⟩ :=
    PlainUnkn2.tex2txt_unknowns_e2e T o fs thresh segs fuel st1 hdefs hextr hrepl hinit hok hf
  refine ⟨r, h1, ?_, ?_, ?_⟩
  · rw [h2]; exact PlainUnkn2.refUnknowns_nodup segs
  · intro n; rw [h2]; exact PlainUnkn2.mem_refUnknowns segs n
  · intro pre n post he hn
    rw [h2]; exact PlainUnkn2.refUnknowns_order segs pre post n he hn

/-! ### the current code -/

/-- `Parser.__init__` does not look at `--unkn` -/
theorem initParser_unkn (T : PTables) (fuel : Nat) (o : Options) (b : Bool) (fs : FS) :
    initParser T fuel { o with unkn := b } (initialState T { o with unkn := b } false fs)
      = initParser T fuel o (initialState T o false fs) := rfl

/-- C19 end to end for the CURRENT code (tables translated from /repo, parser initialisation
    evaluated by the kernel), with and without `--unkn` -/
theorem C19_unknowns_e2e_current (unkn : Bool) (segs : List PlainUnkn2.Seg) (thresh : Nat)
    (hok : PlainUnkn2.SegsOk Generated.theTables Generated.stDefault segs)
    (hf : (PlainUnkn2.render segs).length + 2 ≤ Generated.bigFuel) :
    ∃ r, tex2txt Generated.theTables Generated.bigFuel (PlainUnkn2.render segs)
        { Generated.defaultOptions with unkn := unkn } false thresh [] = .ok r ∧
      r.unknowns = PlainUnkn2.refUnknowns segs ∧ r.diags = Generated.stDefault.diags ∧
      (unkn = true → r.txt = strJoin [nl] (PlainUnkn2.refUnknowns segs) ++ [nl]) := by
  obtain ⟨r, h1, h2, h3, h4, _⟩ := C19_unknowns_e2e Generated.theTables
    { Generated.defaultOptions with unkn := unkn } [] thresh segs Generated.bigFuel Generated.stDefault
    rfl rfl rfl
    ((initParser_unkn Generated.theTables Generated.bigFuel Generated.defaultOptions unkn []).trans
      Generated.initParser_default) hok hf
  exact ⟨r, h1, h2, h3, fun hu => (h4 hu).1⟩

/-- `Text \foo and \begin{myenv} inner \end{myenv} with \label{x} and $\alpha_1 + \xi^{2n}$ and \foo again, \bar.`,
    a comment line `% \baz is a comment`, and
    `\begin{outer} \zap $\xi+1$ \end{outer} End.` (a control word and a formula inside an
    undeclared environment) -/
def C19_exampleDoc : List PlainUnkn2.Seg :=
  [.txt "Text ".toList, .cw "foo".toList, .txt " and ".toList, .env "myenv".toList " inner ".toList,
   .txt " with ".toList, .decl "label".toList "x".toList, .txt " and ".toList,
   .math [.cw "alpha".toList, .spec "_".toList, .chars "1 + ".toList, .cw "xi".toList,
          .spec "^".toList, .spec "{".toList, .chars "2n".toList, .spec "}".toList],
   .txt " and ".toList, .cw "foo".toList, .txt " again, ".toList, .cw "bar".toList, .txt ".\n".toList,
   .com " \\baz is a comment".toList, .txt "\n".toList,
   .beg "outer".toList, .txt " ".toList, .cw "zap".toList, .txt " ".toList,
   .math [.cw "xi".toList, .chars "+1".toList], .txt " ".toList, .en "outer".toList,
   .txt " End.".toList]

theorem C19_exampleDoc_src : PlainUnkn2.render C19_exampleDoc =
    ("Text \\foo and \\begin{myenv} inner \\end{myenv} with \\label{x} and $\\alpha_1 + \\xi^{2n}$ and " ++
     "\\foo again, \\bar.\n% \\baz is a comment\n\\begin{outer} \\zap $\\xi+1$ \\end{outer} End.").toList := by
  decide +kernel

/-- the side conditions hold for the example on the real tables; the reference list is
    `\foo`, `myenv`, `\bar`, `outer`, `\zap` (not `\label`, `\alpha`, `\xi`, `\baz`) -/
theorem C19_e2e_example_current :
    PlainUnkn2.SegsOk Generated.theTables Generated.stDefault C19_exampleDoc ∧
    PlainUnkn2.refUnknowns C19_exampleDoc
      = ["\\foo".toList, "myenv".toList, "\\bar".toList, "outer".toList, "\\zap".toList] := by
  decide +kernel

/-- … so, for the current code, `--unkn` prints `\foo`, `myenv`, `\bar`, `outer`, `\zap`, one per
    line -/
theorem C19_e2e_example_output :
    ∃ r, tex2txt Generated.theTables Generated.bigFuel (PlainUnkn2.render C19_exampleDoc)
        { Generated.defaultOptions with unkn := true } false 0 [] = .ok r ∧
      r.unknowns = ["\\foo".toList, "myenv".toList, "\\bar".toList, "outer".toList, "\\zap".toList] ∧
      r.txt = "\\foo\nmyenv\n\\bar\nouter\n\\zap\n".toList ∧ r.diags = Generated.stDefault.diags := by
  obtain ⟨r, h1, h2, h3, h4⟩ := C19_unknowns_e2e_current true C19_exampleDoc 0
    C19_e2e_example_current.1 (by decide +kernel)
  refine ⟨r, h1, by rw [h2, C19_e2e_example_current.2], ?_, h3⟩
  rw [h4 rfl, C19_e2e_example_current.2]
  decide +kernel

/-- the same, seen by a kernel evaluation of the whole filter on the real tables -/
theorem C19_e2e_example_eval :
    (match tex2txt Generated.theTables Generated.bigFuel (PlainUnkn2.render C19_exampleDoc)
        { Generated.defaultOptions with unkn := true } false 0 [] with
     | .ok r => r.txt == "\\foo\nmyenv\n\\bar\nouter\n\\zap\n".toList &&
                r.unknowns == ["\\foo".toList, "myenv".toList, "\\bar".toList, "outer".toList,
                               "\\zap".toList]
     | _ => false) = true := by
  decide +kernel

/-- the side conditions reject what they should: a declared macro used as `.cw`, an undeclared one
    used as `.decl`, a declared environment used as `.env`, a declared control word (`\\quad`) and a `\\text`-like macro (`\\mbox`) in a formula -/
theorem C19_e2e_rejects_current :
    ¬ PlainUnkn2.SegsOk Generated.theTables Generated.stDefault ([.txt "Use ".toList, .cw "LaTeX".toList] : List PlainUnkn2.Seg) ∧
    ¬ PlainUnkn2.SegsOk Generated.theTables Generated.stDefault ([.decl "foo".toList "x".toList] : List PlainUnkn2.Seg) ∧
    ¬ PlainUnkn2.SegsOk Generated.theTables Generated.stDefault ([.env "itemize".toList " a ".toList] : List PlainUnkn2.Seg) ∧
    ¬ PlainUnkn2.SegsOk Generated.theTables Generated.stDefault ([.math [.cw "quad".toList]] : List PlainUnkn2.Seg) ∧
    ¬ PlainUnkn2.SegsOk Generated.theTables Generated.stDefault ([.math [.cw "mbox".toList]] : List PlainUnkn2.Seg) := by
  decide +kernel

end Yalafi
