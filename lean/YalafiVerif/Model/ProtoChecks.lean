/-
  Model/ProtoChecks.lean — driver operations for Model/Checks.lean.
    ACCEPTHITS  accept plain          -> ok  <n> (b e)*
    EQPUNCT     <k> repl*  plain      -> ok  <n> (offset length)*   <m> (start end msg)*
-/
import YalafiVerif.Model.Proto
import YalafiVerif.Model.Checks
namespace Yalafi.Proto

def encPairs (l : List (Nat × Nat)) : List String :=
  toString l.length :: (l.map (fun h => [toString h.1, toString h.2])).flatten

def opAcceptHits (T : Tables) : R (List String) := do
  let accept ← str
  let plain ← str
  pure ("ok" :: encPairs (acceptHits T accept plain))

def opEqPunct (T : Tables) : R (List String) := do
  let repls ← list str
  let plain ← str
  let ms := eqMatches T repls plain
  pure (("ok" :: encPairs (eqPunctMessages T repls plain)) ++
    (toString ms.length :: (ms.map (fun m => [toString m.1, toString m.2.1, encBool m.2.2])).flatten))

end Yalafi.Proto
