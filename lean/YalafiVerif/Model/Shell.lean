/-
  Model/Shell.lean — the pure part of `yalafi/shell/*`: typed JSON access, assembly of
  the submitted parts, sorting, `map_match_position`, line/column arithmetic of the report
  formats, HTML escaping, the `--include` work list, the single-letter check.
-/
import YalafiVerif.Model.Tables
namespace Yalafi

/-! ### JSON values as `json.loads` delivers them -/

inductive Json where
  | null
  | bool (b : Bool)
  | int (i : Int)
  | float              -- only its type matters
  | str (s : Str)
  | arr (l : List Json)
  | obj (kv : List (Str × Json))
deriving Repr, Inhabited

inductive JType where
  | int | str | list | dict
deriving Repr, DecidableEq

/-- `isinstance(x, typ)`; NB `isinstance(True, int)` holds in Python -/
def Json.hasType : Json → JType → Bool
  | .int _, .int => true
  | .bool _, .int => true
  | .str _, .str => true
  | .arr _, .list => true
  | .obj _, .dict => true
  | _, _ => false

/-- `dict.get(item)`: the last duplicate key wins in `json.loads` -/
def Json.get (j : Json) (item : Str) : Option Json :=
  match j with
  | .obj kv => (kv.reverse.find? (·.1 == item)).map (·.2)
  | _ => none

/-- result of the shell's own error exit (`tex2txt.fatal`, status 1) or a Python exception -/
inductive SOut (α : Type) where
  | ok (a : α)
  | fatal
  | crash (site : String)
deriving Repr

namespace SOut
@[inline] def bind {α β} (x : SOut α) (f : α → SOut β) : SOut β :=
  match x with | ok a => f a | fatal => fatal | crash s => crash s
instance : Monad SOut where
  pure := ok
  bind := bind
end SOut

/-- `json_get(dic, item, typ)` -/
def jsonGet (dic : Json) (item : Str) (typ : JType) : SOut Json :=
  match dic with
  | .obj _ =>
    match dic.get item with
    | some v => if v.hasType typ then .ok v else .fatal
    | none => .fatal
  | _ => .fatal

def Json.asInt : Json → Option Int
  | .int i => some i
  | .bool b => some (if b then 1 else 0)
  | _ => none

def jsonGetInt (dic : Json) (item : Str) : SOut Int :=
  match jsonGet dic item .int with
  | .ok v => match v.asInt with | some i => .ok i | none => .fatal
  | .fatal => .fatal
  | .crash s => .crash s

/-! ### map_match_position -/

def iabs (i : Int) : Int := if i < 0 then -i else i

/-- `re.search(r'\A\\[A-Za-z]+', latex[offset:])` length, or none -/
def macroNameLen (s : Str) : Option Nat :=
  match s with
  | '\\' :: rest =>
    let n := (rest.takeWhile (fun c => ('a' ≤ c && c ≤ 'z') || ('A' ≤ c && c ≤ 'Z'))).length
    if n == 0 then none else some (n + 1)
  | _ => none

/-- `correct_mark_macroname` -/
def correctMarkMacroname (offset length : Int) (latex : Str) : Int :=
  if length == 1 && 0 ≤ offset && offset < (latex.length : Int) - 1 && latex[offset.toNat]? == some '\\' then
    match macroNameLen (latex.drop offset.toNat) with
    | some n => n
    | none => length
  else length

/-- Python list indexing `xs[i]` for an int `i` (negative indices count from the end) -/
def pyGet (xs : List Int) (i : Int) : Option Int :=
  if 0 ≤ i then xs[i.toNat]? else if -i ≤ xs.length then xs[(xs.length - (-i).toNat)]? else none

/-- `map_match_position(m, latex, charmap)` on the two fields it touches.
    `length` is the raw JSON value of `m['length']` (no type check in the code before the
    `fix:` commit; afterwards the caller validates it). -/
def mapMatch (charmap : List Int) (latex : Str) (offset : Int) (length : Option Json) : SOut (Int × Int) :=
  let n : Int := charmap.length
  let beg := min (max 0 offset) (n - 1)
  match length with
  | none => .crash "utils.py:map_match_position:m['length']"
  | some lj =>
    match lj.asInt with
    | none => .crash "utils.py:map_match_position:beg + m['length']"
    | some len =>
      let e := min (max 0 (beg + len - 1)) (n - 1)
      match pyGet charmap beg, pyGet charmap e with
      | some cb, some ce =>
        let off := iabs cb - 1
        let l := iabs ce - iabs cb + 1
        .ok (off, correctMarkMacroname off l latex)
      | _, _ => .crash "utils.py:map_match_position:charmap[beg]"

/-! ### line and column of an offset (all report formats) -/

/-- `tex.count('\n', 0, offset)` and `offset - (tex.rfind('\n', 0, offset) + 1)` for `0 ≤ offset` -/
def lineIdx (tex : Str) (offset : Nat) : Nat := (tex.take offset).count '\n'
def colIdx (tex : Str) (offset : Nat) : Nat :=
  offset - (match (tex.take offset).reverse.idxOf? '\n' with
            | some k => (min offset tex.length) - k
            | none => 0)

/-- text report: 1-based line and column -/
def textLineCol (tex : Str) (offset : Nat) : Nat × Nat := (lineIdx tex offset + 1, colIdx tex offset + 1)

/-- JSON / XML: `fromy, fromx, toy, tox` (0-based line, 0-based column; `tox` is one past the last) -/
def xmlFields (tex : Str) (offset length : Nat) : Nat × Nat × Nat × Nat :=
  let e := offset + length - 1
  (lineIdx tex offset, colIdx tex offset, lineIdx tex e, colIdx tex e + 1)

/-- UTF-8 length of one code point -/
def utf8Len (c : Char) : Nat :=
  let n := c.toNat
  if n < 0x80 then 1 else if n < 0x800 then 2 else if n < 0x10000 then 3 else 4

def utf8Size (s : Str) : Nat := (s.map utf8Len).sum

/-! ### assembling the submitted parts (proofreader.run_proofreader_options) -/

structure Part where
  plain : Str
  charmap : List Int
deriving Repr, Inhabited

/-- a match as far as the assembly is concerned: its offset and the rest -/
structure RawMatch where
  offset : Int
  rest : Json
deriving Repr, Inhabited

structure Assembled where
  plainTot : Str
  charmapTot : List Int
  hits : List RawMatch
deriving Repr, Inhabited

/-- one submitted part: shift the offsets of its matches by the text assembled so far, append text and
    map, pad with the delimiter `'\n\n'` mapped to the last position -/
def assembleStepNB (a : Assembled) (p : Part × List RawMatch) : Assembled :=
  let shift : Int := a.plainTot.length
  let ms := p.2.map (fun m => { m with offset := m.offset + shift })
  let cm := a.charmapTot ++ p.1.charmap
  let last := cm.getLast?.getD 0
  { plainTot := a.plainTot ++ p.1.plain ++ ['\n', '\n'],
    charmapTot := cm ++ [last, last],
    hits := a.hits ++ ms }

/-- assembly of parts that are all submitted -/
def assembleNB (ps : List (Part × List RawMatch)) : Assembled :=
  ps.foldl assembleStepNB { plainTot := [], charmapTot := [], hits := [] }

/-- one part of the loop of `run_proofreader_options`: `if not plain.strip(): continue` — a blank part is
    not submitted and leaves no trace in text, map and matches -/
def assembleStep (a : Assembled) (p : Part × List RawMatch) : Assembled :=
  if isBlank p.1.plain then a else assembleStepNB a p

def assemble (ps : List (Part × List RawMatch)) : Assembled :=
  ps.foldl assembleStep { plainTot := [], charmapTot := [], hits := [] }

/-- insertion into a list sorted by key (stable: equal keys keep their order) -/
def insertByKey (key : RawMatch → Int) (m : RawMatch) : List RawMatch → List RawMatch
  | [] => [m]
  | x :: xs => if key m < key x then m :: x :: xs else x :: insertByKey key m xs

/-- `matches_tot.sort(key=f)` (stable), with `f` validating the offset -/
def sortMatches (charmapTot : List Int) (ms : List RawMatch) : SOut (List RawMatch) :=
  if ms.any (fun m => m.offset < 0 || m.offset ≥ charmapTot.length) then .fatal
  else
    let key (m : RawMatch) : Int := iabs ((charmapTot[m.offset.toNat]?).getD 0)
    .ok (ms.foldl (fun acc m => insertByKey key m acc) [])

/-! ### HTML escaping -/

/-- `protect_html` -/
def protectHtml (s : Str) : Str :=
  s.flatMap (fun c =>
    if c == '&' then "&amp;".toList
    else if c == '"' then "&quot;".toList
    else if c == '<' then "&lt;".toList
    else if c == '>' then "&gt;".toList
    else if c == '\t' then (List.replicate 8 "&ensp;".toList).flatten
    else if c == ' ' then "&ensp;".toList
    else if c == '\n' then "<br>\n".toList
    else [c])

/-! ### the `--include` work list -/

/-- `todo`/`done` loop of shell.py: `includes f` = the file names the filter extracted from `f`
    (already with `.tex` appended), `skip` the `--skip` predicate; fuel bounds the loop -/
def includeLoop (includes : Str → List Str) (skip : Str → Bool) : Nat → List Str → List Str → Option (List Str)
  | _, [], done => some done
  | 0, _ :: _, _ => none
  | fuel + 1, f :: todo, done =>
    if done.contains f || skip f then includeLoop includes skip fuel todo done
    else
      let done' := done ++ [f]
      let new := (includes f).foldl (fun acc g =>
        if (done' ++ todo ++ acc).contains g || skip g then acc else acc ++ [g]) []
      includeLoop includes skip fuel (todo ++ new) done'

/-- adding `.tex` where missing -/
def addTex (f : Str) : Str :=
  let suf := ".tex".toList
  if f.length ≥ 4 && f.drop (f.length - 4) == suf then f else f ++ suf

/-! ### --single-letters -/

/-- `\b[^\W0-9_]\b` filtered by `str.isalpha()` (since the `fix:` commit): a letter with
    non-word neighbours; a letter is a word character that is no ASCII digit and not `_` -/
def isLetterLike (T : Tables) (c : Char) : Bool :=
  T.isWord c && !('0' ≤ c && c ≤ '9') && c != '_' && T.isAlpha c

def singleAt (T : Tables) (prev : Option Char) (c : Char) (next : Option Char) : Bool :=
  isLetterLike T c && !(match prev with | some p => T.isWord p | none => false)
    && !(match next with | some n => T.isWord n | none => false)

/-- offsets of all isolated letters -/
def singleLetters (T : Tables) : Option Char → Nat → Str → List Nat
  | _, _, [] => []
  | prev, i, c :: cs =>
    (if singleAt T prev c cs.head? then [i] else []) ++ singleLetters T (some c) (i + 1) cs

/-- a single letter is suppressed iff it lies inside a hit `(beg, end)` of the accept scan -/
def notCovered (hits : List (Nat × Nat)) (i : Nat) : Bool := !hits.any (fun h => h.1 ≤ i && i < h.2)

def singleLetterOffsets (T : Tables) (plain : Str) (hits : List (Nat × Nat)) : List Nat :=
  (singleLetters T none 0 plain).filter (notCovered hits)

/-- `create_context` -/
structure Context where
  text : Str
  offset : Nat
  length : Nat
deriving Repr, Inhabited

def createContext (txt : Str) (offset length : Nat) : Context :=
  let beg := offset - 45
  let e := min (max (offset + 45) (offset + length)) txt.length
  let s := ((txt.take e).drop beg).map (fun c => if c == '\t' || c == '\n' then ' ' else c)
  { text := "...".toList ++ s ++ "...".toList, offset := offset - beg + 3, length := length }

end Yalafi
