/-
  Model/Utils.lean — `yalafi/utils.py`: latex_error, get_txt_pos, substitute.
-/
import YalafiVerif.Model.Tables
namespace Yalafi

/-- `utils.latex_error`: the diagnostic and the mark tokens.
    Python: `mx = min(len(mark), len(latex) - pos)`; first token `mark[:mx]` at `pos`,
    the rest (if any) at `pos + mx - 1`.  Modelled for `pos ≤ len(latex)`. -/
def errMark (T : Tables) (err : Str) : Str :=
  [' '] ++ T.mark ++ [' '] ++ (if T.markVerbose then ['('] ++ err ++ [')', ' '] else [])

def latexErrorToks (T : Tables) (err : Str) (pos : Nat) (n : Nat) : List Tok :=
  let mark := errMark T err
  let mx := min mark.length (n - pos)
  let t1 : Tok := { kind := .text, pos := pos, txt := mark.take mx, fix := true }
  if mx < mark.length then
    [t1, { kind := .text, pos := pos + mx - 1, txt := mark.drop mx, fix := true }]
  else [t1]

def latexErrorDiag (err : Str) (pos : Nat) (src : Str) : Diag :=
  { line := lineOf src pos, col := colOf src pos, msg := err }

/-- `[t.pos] * len` or `range(t.pos, t.pos+len)` -/
def tokPositions (t : Tok) : List Nat :=
  if t.fix then List.replicate t.txt.length t.pos
  else (List.range t.txt.length).map (t.pos + ·)

/-- `utils.get_txt_pos` -/
def getTxtPos : List Tok → Str × List Nat
  | [] => ([], [])
  | t :: ts =>
    let r := getTxtPos ts
    (t.txt ++ r.1, tokPositions t ++ r.2)

/-- One regex match handed to `substitute`: start and (non-zero) length. -/
structure Span where
  start : Nat
  len : Nat
deriving Repr, DecidableEq, Inhabited

/-- positions contributed by one replaced match (`utils.substitute`, inner part).
    `i_pos[cur:cur+r_len]` or `i_pos[cur:cur+m_len] + [i_pos[cur+m_len-1]] * (r_len-m_len)`.
    `ps` is `i_pos[cur:cur+m_len]` (length `m_len ≥ 1`). -/
def replPositions (ps : List Nat) (rLen : Nat) : List Nat :=
  if rLen ≤ ps.length then ps.take rLen
  else match ps.getLast? with
    | some l => ps ++ List.replicate (rLen - ps.length) l
    | none => ps

/-- `utils.substitute` over an explicit list of non-empty, disjoint, increasing
    match spans (what `re.finditer` yields after the `if not m_len: continue`). -/
def substituteFrom (repl : Str) : Nat → Str → List Nat → List Span → Str × List Nat
  | _, txt, pos, [] => (txt, pos)
  | last, txt, pos, m :: ms =>
    let gap := m.start - last
    let r := substituteFrom repl (m.start + m.len) (txt.drop (gap + m.len)) (pos.drop (gap + m.len)) ms
    (txt.take gap ++ repl ++ r.1,
     pos.take gap ++ replPositions ((pos.drop gap).take m.len) repl.length ++ r.2)

def substitute (txt : Str) (pos : List Nat) (ms : List Span) (repl : Str) : Str × List Nat :=
  substituteFrom repl 0 txt pos ms

end Yalafi
