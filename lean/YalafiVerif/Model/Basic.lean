/-
  Model/Basic.lean — strings, tokens, outcomes.

  Strings are `List Char`, indices are code points (Python `str`).
  No imports beyond core Lean: the driver links this file natively.
-/
namespace Yalafi

abbrev Str := List Char

/-- Token classes of `yalafi/defs.py` (Python `type(t) is X` = match on `kind`). -/
inductive Kind where
  | text | space | par | comment | special | xmacro | xbegin | xend | item | accent
  | verb (environ : Bool)
  | arg (n : Nat)
  | action | void
  | lang (l : Str) (back hard brk : Bool)
  | mathBegin (remove : Bool)      -- txt = environment name; `remove` = env.remove
  | mathElem | mathOper | mathSpace
deriving DecidableEq, Repr, Inhabited

structure Tok where
  kind : Kind
  pos  : Nat
  txt  : Str
  fix  : Bool := false
deriving DecidableEq, Repr, Inhabited

/-- Python exceptions, `sys.exit` and non-termination are values. -/
inductive Outcome (α : Type) where
  | ok (a : α)
  | fatal (msg : Str)
  | crash (site : String)
  | outOfFuel
deriving Repr

namespace Outcome
@[inline] def bind {α β} (x : Outcome α) (f : α → Outcome β) : Outcome β :=
  match x with
  | ok a => f a
  | fatal m => fatal m
  | crash s => crash s
  | outOfFuel => outOfFuel
instance : Monad Outcome where
  pure := ok
  bind := bind
def isCrash {α} : Outcome α → Bool
  | crash _ => true
  | _ => false
end Outcome

/-- One `latex_error` diagnostic: 1-based line and column, message. -/
structure Diag where
  line : Nat
  col  : Nat
  msg  : Str
deriving DecidableEq, Repr, Inhabited

/-! ### Python `str` predicates that are small enough to be written out -/

/-- `str.isspace` for one character (29 code points; CPython `_PyUnicode_IsWhitespace`). -/
def isSpace (c : Char) : Bool :=
  let n := c.toNat
  (9 ≤ n && n ≤ 13) || (28 ≤ n && n ≤ 32) || n == 0x85 || n == 0xA0 || n == 0x1680 ||
  (0x2000 ≤ n && n ≤ 0x200A) || n == 0x2028 || n == 0x2029 || n == 0x202F ||
  n == 0x205F || n == 0x3000

def nl : Char := '\n'

/-- `Parameters.macro_character` -/
def macroChar (c : Char) : Bool :=
  ('a' ≤ c && c ≤ 'z') || ('A' ≤ c && c ≤ 'Z') || c == '@'

def isAsciiLetter (c : Char) : Bool :=
  ('a' ≤ c && c ≤ 'z') || ('A' ≤ c && c ≤ 'Z')

/-! ### String helpers (Python semantics) -/

/-- number of `'\n'` in `s` -/
def countNl (s : Str) : Nat := s.count nl

def hasNl (s : Str) : Bool := s.contains nl

/-- `s.strip()` -/
def lstrip (s : Str) : Str := s.dropWhile isSpace
def rstrip (s : Str) : Str := (s.reverse.dropWhile isSpace).reverse
def strip (s : Str) : Str := rstrip (lstrip s)

/-- `not s.strip()` -/
def isBlank (s : Str) : Bool := s.all isSpace

/-- `s.split()` : split on runs of white space, no empty items -/
def splitWsAux : Str → Str → List Str → List Str
  | [], cur, acc => (if cur.isEmpty then acc else cur.reverse :: acc).reverse
  | c :: cs, cur, acc =>
    if isSpace c then splitWsAux cs [] (if cur.isEmpty then acc else cur.reverse :: acc)
    else splitWsAux cs (c :: cur) acc
def splitWs (s : Str) : List Str := splitWsAux s [] []

/-- `p` is a prefix of `s` (`s.startswith(p)`) -/
def startsWith : Str → Str → Bool
  | _, [] => true
  | [], _ :: _ => false
  | c :: cs, p :: ps => c == p && startsWith cs ps

/-- `s.find(p)` relative to the start of `s`; `none` for -1 -/
def findSub (p : Str) : Str → Option Nat
  | [] => if p.isEmpty then some 0 else none
  | c :: cs => if startsWith (c :: cs) p then some 0 else (findSub p cs).map (· + 1)

/-- index of first element satisfying `f`, or the length -/
def idxOf (f : Char → Bool) : Str → Nat
  | [] => 0
  | c :: cs => if f c then 0 else idxOf f cs + 1

/-- `s.find('\n')` as Option -/
def findNl (s : Str) : Option Nat :=
  if hasNl s then some (idxOf (· == nl) s) else none

/-- `s.rfind('\n')` as Option -/
def rfindNl (s : Str) : Option Nat :=
  if hasNl s then some (s.length - 1 - idxOf (· == nl) s.reverse) else none

/-- `latex.count('\n', 0, pos) + 1` and `pos - (latex.rfind('\n', 0, pos) + 1) + 1` -/
def lineOf (src : Str) (pos : Nat) : Nat := countNl (src.take pos) + 1
def lineStart (src : Str) (pos : Nat) : Nat :=
  match rfindNl (src.take pos) with
  | some i => i + 1
  | none => 0
def colOf (src : Str) (pos : Nat) : Nat := pos - lineStart src pos + 1

/-- decimal rendering, `str(n)` -/
def natToStr (n : Nat) : Str := (toString n).toList

def strJoin (sep : Str) : List Str → Str
  | [] => []
  | [a] => a
  | a :: as => a ++ sep ++ strJoin sep as

/-- slice `s[a:b]` for `0 ≤ a`, Python clamping -/
def slice (s : Str) (a b : Nat) : Str := (s.take b).drop a

end Yalafi
