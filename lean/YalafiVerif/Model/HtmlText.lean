/-
  Model/HtmlText.lean — the STRING level of `yalafi/shell/genhtml.py` (the text that is written into
  the HTML report), on top of the structure of Model/Html.lean.

  The output is assembled from PIECES:
    `lit s`       text fixed by the program: tag templates, the style strings of `vars`, numbers
    `raw s`       data written as it is (only the file name: `<a id="…">`, `<a href="#…-@@@">`)
    `esc s`       data run through `protect_html`
    `escTitle s`  data run through `protect_title` (= `protect_html`, then `'<br>\n'` ↦ `'&#10;'`)
    `escAttr s`   data run through `html.escape(s)` (`quote=True`: `& < > " '`)
  and `renderPieces` flattens a list of pieces to the string.

  What is modelled exactly (statement by statement of the Python functions):
  * `protect_title` (`protectTitle`: `str.replace` as a left-to-right scan, `replaceBr`), `html.escape`
    (`htmlEscape`, character-wise like `protectHtml`: the five `str.replace` calls of the library do
    not interfere, `&` first).
  * `begin_match(m, lin, unsure)` on the JSON record `m` (`beginMatch`): all `json_get`s (any failure is
    the shell's error exit `fatal`), `txt[beg:end]`, `txt[:beg]`, `txt[end:]` with Python's slice
    semantics for arbitrary ints (`sliceII`, `pyTake`, `pyDrop`), `str(lin)`, the `'+'` of an unsure
    match, `subId` only if the key is present, `'; '.join` of the suggestions, the literal line breaks
    inside the title, the style, and the `--link` branch (only if the key `urls` is present and the
    list is non-empty; only `urls[0]`).
    NB the line `style = highlight_style_unsure if unsure else highlight_style` reads a global that
    `genhtml.init` does not set in /repo: for `unsure = True` the real function raises `NameError`
    (after all `json_get`s up to the suggestions, before the `urls` are looked at).  The model has the
    style as `Option` (`Vars.highlightStyleUnsure`): `none` = the name is not defined = `crash`.
    (Latent in the shell: the filter's position map has no negative entries.)
  * the regular expression `((?:.|\n)*?(?!\Z)|(?:.|\n)+?)(<br>\n|\Z)` of `generate_highlight` and
    `add_line_numbers` under `re.sub` (`brMatches`, for ARBITRARY strings): at a position `p`
      - if `<br>\n` occurs at some `q ≥ p` (first such `q`): group 1 = `s[p:q]` (may be empty),
        group 2 = `<br>\n`, the search goes on behind it;
      - otherwise, if `p < len(s)`: group 1 = `s[p:]`, group 2 = `''` (the `\Z` alternative);
      - otherwise (`p = len(s)`): no match — the first alternative needs `(?!\Z)`, the second one
        at least one character.
    Hence: the empty string has no match at all; a string ending in `<br>\n` has no (empty) match
    behind its last `<br>\n`; a non-empty string without `<br>\n` is one match.
  * `generate_highlight` (`highlightWith`, `generateHighlight`): `pre + group1 + post + group2` for
    every match over `protect_html(s)`.
  * `add_line_numbers` (`addLineNumbers`): one table row per match, `line_numbers[k]` for the `k`-th
    match (`IndexError` = `crash` if there are more matches than numbers; surplus numbers are ignored),
    `str(lin + 1)` or nothing for a negative entry; group 2 is dropped.
  * `generate_html` (`generateHtmlText`): title, anchor, prefix, the first loop with its `json_get`s
    for `offset`/`length` interleaved with the computations of Model/Html.lean (`olPrefix`: the first
    failure in match order decides), the regions (`regionText`), `res_tot`, the "no problems" display,
    `add_line_numbers` only for a non-empty `line_numbers`, the link to and the table of the
    overlapping messages.  `generate_highlight` is called for EVERY match in match order (also for an
    overlapping one, before the overlap test): `matchTags` runs `begin_match` in that order, so that
    the first `fatal`/`crash` is the one Python reports.

  Not modelled: `generate_html_report` (page frame, index of several files).
-/
import YalafiVerif.Model.Html
namespace Yalafi
namespace HtmlText
open Html

/-! ### escaping -/

/-- `'<br>\n'` -/
def br : Str := "<br>\n".toList

/-- `s.replace('<br>\n', '&#10;')` -/
def replaceBr : Str → Str
  | '<' :: 'b' :: 'r' :: '>' :: '\n' :: rest => "&#10;".toList ++ replaceBr rest
  | c :: rest => c :: replaceBr rest
  | [] => []

/-- `protect_title` -/
def protectTitle (s : Str) : Str := replaceBr (protectHtml s)

/-- `html.escape(s)` (`quote=True`) -/
def htmlEscape (s : Str) : Str :=
  s.flatMap (fun c =>
    if c == '&' then "&amp;".toList
    else if c == '<' then "&lt;".toList
    else if c == '>' then "&gt;".toList
    else if c == '"' then "&quot;".toList
    else if c == '\'' then "&#x27;".toList
    else [c])

/-! ### pieces -/

inductive TPiece where
  | lit (s : Str)
  | raw (s : Str)
  | esc (s : Str)
  | escTitle (s : Str)
  | escAttr (s : Str)
deriving Repr, Inhabited, DecidableEq

def TPiece.render : TPiece → Str
  | .lit s => s
  | .raw s => s
  | .esc s => protectHtml s
  | .escTitle s => protectTitle s
  | .escAttr s => htmlEscape s

def renderPieces (ps : List TPiece) : Str := ps.flatMap TPiece.render

/-- a program literal -/
def L (s : String) : TPiece := .lit s.toList

/-! ### Python slices with arbitrary ints, `str(int)` -/

/-- `txt[a:b]` -/
def sliceII (txt : Str) (a b : Int) : Str := (txt.take (pyEnd txt b)).drop (pyEnd txt a)
/-- `txt[:b]` -/
def pyTake (txt : Str) (b : Int) : Str := txt.take (pyEnd txt b)
/-- `txt[a:]` -/
def pyDrop (txt : Str) (a : Int) : Str := txt.drop (pyEnd txt a)

/-- `str(i)` -/
def intToStr (i : Int) : Str := if i < 0 then '-' :: natToStr (-i).toNat else natToStr i.toNat

/-! ### begin_match -/

/-- what `genhtml.init` copies from `vars`, and `cmdline.link` -/
structure Vars where
  highlightStyle : Str
  /-- `none`: the global `highlight_style_unsure` is not defined in `genhtml` (NameError) -/
  highlightStyleUnsure : Option Str
  numberStyle : Str
  link : Bool
deriving Repr, Inhabited

def jsonGetStr (dic : Json) (item : String) : SOut Str :=
  match jsonGet dic item.toList .str with
  | .ok (.str s) => .ok s
  | .ok _ => .fatal
  | .fatal => .fatal
  | .crash s => .crash s

def jsonGetList (dic : Json) (item : String) : SOut (List Json) :=
  match jsonGet dic item.toList .list with
  | .ok (.arr l) => .ok l
  | .ok _ => .fatal
  | .fatal => .fatal
  | .crash s => .crash s

/-- `json_get(r, 'value', str) for r in …` -/
def replValues : List Json → SOut (List Str)
  | [] => .ok []
  | r :: rs =>
    match jsonGetStr r "value" with
    | .ok v =>
      match replValues rs with
      | .ok vs => .ok (v :: vs)
      | .fatal => .fatal
      | .crash s => .crash s
    | .fatal => .fatal
    | .crash s => .crash s

/-- the data `begin_match` reads from the message -/
structure MatchData where
  message : Str
  /-- `context.text` -/
  txt : Str
  /-- `context.offset` -/
  beg : Int
  /-- `beg + context.length` -/
  fin : Int
  /-- `rule.id`, followed by `[subId]` if the rule has the key -/
  ruleId : Str
  /-- the `value`s of the `replacements` -/
  repls : List Str
deriving Repr, Inhabited

/-- `rule_id` -/
def ruleIdOf (rule : Json) : SOut Str :=
  match jsonGetStr rule "id" with
  | .ok id =>
    match rule.get "subId".toList with
    | none => .ok id
    | some _ =>
      match jsonGetStr rule "subId" with
      | .ok sub => .ok (id ++ "[".toList ++ sub ++ "]".toList)
      | .fatal => .fatal
      | .crash s => .crash s
  | .fatal => .fatal
  | .crash s => .crash s

/-- all `json_get`s of `begin_match` in front of the choice of the style -/
def matchData (m : Json) : SOut MatchData := do
  let cont ← jsonGet m "context".toList .dict
  let txt ← jsonGetStr cont "text"
  let beg ← jsonGetInt cont "offset".toList
  let len ← jsonGetInt cont "length".toList
  let rule ← jsonGet m "rule".toList .dict
  let message ← jsonGetStr m "message"
  let ruleId ← ruleIdOf rule
  let rs ← jsonGetList m "replacements"
  let repls ← replValues rs
  pure { message := message, txt := txt, beg := beg, fin := beg + len, ruleId := ruleId, repls := repls }

/-- the `--link` branch: the URL that goes into `href`, if any -/
def ruleUrl (link : Bool) (m : Json) : SOut (Option Str) :=
  if !link then .ok none else
  match jsonGet m "rule".toList .dict with
  | .ok rule =>
    match rule.get "urls".toList with
    | none => .ok none
    | some _ =>
      match jsonGetList rule "urls" with
      | .ok [] => .ok none
      | .ok (u :: _) =>
        match jsonGetStr u "value" with
        | .ok v => .ok (some v)
        | .fatal => .fatal
        | .crash s => .crash s
      | .fatal => .fatal
      | .crash s => .crash s
  | .fatal => .fatal
  | .crash s => .crash s

/-- `txt[beg:end]` -/
def MatchData.hit (d : MatchData) : Str := sliceII d.txt d.beg d.fin

/-- `msg`: the value of the `title` attribute -/
def titlePieces (d : MatchData) (lin : Int) (unsure : Bool) : List TPiece :=
  [ .escTitle d.message, L "\n",
    .escTitle ("Line ".toList ++ intToStr lin ++ (if unsure then "+".toList else []) ++ ": >>>".toList
                ++ d.hit ++ "<<<".toList),
    .escTitle ("    (Rule ID: ".toList ++ d.ruleId ++ ")".toList), L "\n",
    L "Suggestion: ", .escTitle (strJoin "; ".toList d.repls), L "\n",
    L "Context: ",
    .escTitle (pyTake d.txt d.beg ++ ">>>".toList ++ d.hit ++ "<<<".toList ++ pyDrop d.txt d.fin) ]

/-- `'<span style="' + style + '" title="' + msg + '">'` -/
def spanOpen (style : Str) (title : List TPiece) : List TPiece :=
  [L "<span style=\"", .lit style, L "\" title=\""] ++ title ++ [L "\">"]

/-- `'<a href="' + html.escape(url) + '" target="_blank">'` -/
def linkOpen : Option Str → List TPiece
  | none => []
  | some url => [L "<a href=\"", .escAttr url, L "\" target=\"_blank\">"]

/-- `end_href` -/
def linkClose : Option Str → List TPiece
  | none => []
  | some _ => [L "</a>"]

/-- `begin_match(m, lin, unsure)`: `(beg_tag, end_href)` -/
def beginMatch (V : Vars) (m : Json) (lin : Int) (unsure : Bool) : SOut (List TPiece × List TPiece) :=
  match matchData m with
  | .ok d =>
    match (if unsure then V.highlightStyleUnsure else some V.highlightStyle) with
    | none => .crash "genhtml.py:begin_match:highlight_style_unsure"
    | some style =>
      match ruleUrl V.link m with
      | .ok url => .ok (spanOpen style (titlePieces d lin unsure) ++ linkOpen url, linkClose url)
      | .fatal => .fatal
      | .crash s => .crash s
  | .fatal => .fatal
  | .crash s => .crash s

/-- `end_match()` -/
def endMatch : List TPiece := [L "</span>"]

/-! ### the regular expression over `<br>\n` -/

/-- the matches of `((?:.|\n)*?(?!\Z)|(?:.|\n)+?)(<br>\n|\Z)` that `re.sub` finds in a string:
    group 1 and whether group 2 is `<br>\n`; `acc` = the characters since the end of the last match -/
def brMatchesAux : Str → Str → List (Str × Bool)
  | acc, '<' :: 'b' :: 'r' :: '>' :: '\n' :: rest => (acc, true) :: brMatchesAux [] rest
  | acc, c :: rest => brMatchesAux (acc ++ [c]) rest
  | acc, [] => if acc.isEmpty then [] else [(acc, false)]

def brMatches (s : Str) : List (Str × Bool) := brMatchesAux [] s

/-- group 2 -/
def brGroup2 (b : Bool) : Str := if b then br else []

/-! ### generate_highlight -/

/-- `re.sub(…, lambda m: pre + m.group(1) + post + m.group(2), protect_html(s))` -/
def highlightWith (pre post : Str) (s : Str) : Str :=
  (brMatches (protectHtml s)).flatMap (fun m => pre ++ m.1 ++ post ++ brGroup2 m.2)

/-- `generate_highlight(m, s, lin, unsure)` -/
def generateHighlight (V : Vars) (m : Json) (s : Str) (lin : Int) (unsure : Bool) : SOut Str :=
  match beginMatch V m lin unsure with
  | .ok t => .ok (highlightWith (renderPieces t.1) (renderPieces (t.2 ++ endMatch)) s)
  | .fatal => .fatal
  | .crash s => .crash s

/-! ### add_line_numbers -/

/-- `str(lin + 1) if lin >= 0 else ''` -/
def lineLabel (lin : Int) : Str := if lin ≥ 0 then natToStr (lin + 1).toNat else []

/-- one row of the big table: in front of and behind its cell -/
def rowHead (numberStyle : Str) (lin : Int) : List TPiece :=
  [L "<tr>\n<td style=\"", .lit numberStyle, L "\" align=\"right\" valign=\"top\">", .lit (lineLabel lin),
   L "&nbsp;&nbsp;</td>\n<td>"]
def rowTail : List TPiece := [L "</td>\n</tr>\n"]

/-- the callback `f` over all matches; `nums` = `line_numbers[aux.lineno:]` -/
def numberRows (numberStyle : Str) : List (Str × Bool) → List Int → SOut Str
  | [], _ => .ok []
  | _ :: _, [] => .crash "genhtml.py:add_line_numbers:line_numbers[aux.lineno]"
  | m :: ms, n :: nums =>
    match numberRows numberStyle ms nums with
    | .ok r => .ok (renderPieces (rowHead numberStyle n) ++ m.1 ++ renderPieces rowTail ++ r)
    | .fatal => .fatal
    | .crash s => .crash s

def tableOpen : TPiece := L "<table cellspacing=\"0\">\n"
def tableClose : TPiece := L "</table>\n"

/-- `add_line_numbers(s, line_numbers)` -/
def addLineNumbers (numberStyle : Str) (s : Str) (nums : List Int) : SOut Str :=
  match numberRows numberStyle (brMatches s) nums with
  | .ok r => .ok (tableOpen.render ++ r ++ tableClose.render)
  | .fatal => .fatal
  | .crash s => .crash s

/-! ### generate_html -/

/-- `json_get(m, 'offset', int)`, `json_get(m, 'length', int)` -/
def matchOffLen (m : Json) : Option (Int × Int) :=
  match jsonGetInt m "offset".toList, jsonGetInt m "length".toList with
  | .ok o, .ok l => some (o, l)
  | _, _ => none

/-- the matches in front of the first one whose `offset`/`length` is missing or no int -/
def olPrefix : List Json → List (Int × Int)
  | [] => []
  | m :: ms =>
    match matchOffLen m with
    | some ol => ol :: olPrefix ms
    | none => []

/-- the tag pieces of a match: `(beg_tag, end_href)` of `begin_match` -/
abbrev Tag := List TPiece × List TPiece

/-- `begin_match` for every match, in match order -/
def matchTags (V : Vars) (ms : List Json) : List HData → SOut (List Tag)
  | [] => .ok []
  | h :: hs =>
    match beginMatch V (ms.getD h.idx .null) ((h.lin : Int) + 1) h.unsure with
    | .ok t =>
      match matchTags V ms hs with
      | .ok ts => .ok (t :: ts)
      | .fatal => .fatal
      | .crash s => .crash s
    | .fatal => .fatal
    | .crash s => .crash s

/-- `pre` and `post` of `generate_highlight` -/
def Tag.pre (t : Tag) : Str := renderPieces t.1
def Tag.post (t : Tag) : Str := renderPieces (t.2 ++ endMatch)

/-- `generate_highlight` of match `idx` on the text `s` -/
def hlText (tags : List Tag) (idx : Nat) (s : Str) : Str :=
  highlightWith (tags.getD idx ([], [])).pre (tags.getD idx ([], [])).post s

/-- `res` of one region -/
def regionText (tags : List Tag) (ps : List Piece) : Str :=
  ps.flatMap (fun p => match p with
    | .plain s => protectHtml s
    | .hi idx s => hlText tags idx s)

/-- one row of the table of overlapping messages: in front of and behind its cell -/
def overlapRowHead (numberStyle : Str) (lin : Nat) : List TPiece :=
  [L "<tr><td style=\"", .lit numberStyle, L "\" align=\"right\" valign=\"top\">", .lit (natToStr lin),
   L "&nbsp;&nbsp;</td><td>"]
def overlapRowTail : List TPiece := [L "</td></tr>\n"]

/-- `'File "' + file + '" with ' + str(len(matches)) + ' problem(s)'` -/
def titleText (file : Str) (n : Nat) : Str :=
  "File \"".toList ++ file ++ "\" with ".toList ++ natToStr n ++ " problem(s)".toList

/-- `prefix` (with the link to the overlapping messages if there are any) -/
def prefixPieces (file : Str) (n : Nat) (overlaps : Bool) : List TPiece :=
  [L "<a id=\"", .raw file, L "\"></a><H3>", .esc (titleText file n), L "</H3>\n"] ++
  (if overlaps then
    [L "<a href=\"#", .raw file, L "-@@@", L "\">", L "<H3>Overlapping message(s) found:", L " see here</H3></a>\n"]
   else [])

/-- `postfix`: in front of and behind the rows of its table -/
def postfixHead (file : Str) : List TPiece :=
  [L "<a id=\"", .raw file, L "-@@@", L "\"></a><H3>", .esc ("File \"".toList ++ file ++ "\":".toList),
   L " overlapping message(s)</H3>\n", L "<table cellspacing=\"0\">\n"]
def postfixTail : List TPiece := [L "</table>\n"]

/-- the result tuple of `generate_html` -/
structure FileReport where
  title : Str
  anchor : Str
  body : Str
  count : Nat
deriving Repr, Inhabited, DecidableEq

/-- `res_tot` and `line_numbers` in front of `add_line_numbers` -/
def resTot (tags : List Tag) (rep : Report) : Str :=
  match rep.first with
  | some f => protectHtml f.1
  | none => rep.regions.flatMap (fun r => regionText tags r.pieces ++ br)

/-- the part of `generate_html` behind the first loop -/
def assemble (V : Vars) (ms : List Json) (file : Str) (rep : Report) : SOut FileReport :=
  match matchTags V ms rep.hdata with
  | .ok tags =>
    let nums := rep.lineNumbers
    let table : SOut Str := if nums.isEmpty then .ok (resTot tags rep) else addLineNumbers V.numberStyle (resTot tags rep) nums
    match table with
    | .ok tab =>
      let ov := rep.overlaps
      let post : Str :=
        if ov.isEmpty then [] else
          renderPieces (postfixHead file) ++
            ov.flatMap (fun o => renderPieces (overlapRowHead V.numberStyle o.lin) ++ hlText tags o.idx o.text
                                  ++ renderPieces overlapRowTail) ++
            renderPieces postfixTail
      .ok { title := protectHtml (titleText file ms.length), anchor := file,
            body := renderPieces (prefixPieces file ms.length (!ov.isEmpty)) ++ tab ++ post,
            count := ms.length }
    | .fatal => .fatal
    | .crash s => .crash s
  | .fatal => .fatal
  | .crash s => .crash s

/-- `generate_html(tex, charmap, matches, file)` with `cmdline.context = context` -/
def generateHtmlText (T : Tables) (V : Vars) (tex : Str) (charmap : List Int) (ms : List Json) (file : Str)
    (context : Nat) : SOut FileReport :=
  let ols := olPrefix ms
  match hdataFrom T tex charmap 0 ols with
  | .fatal => .fatal
  | .crash s => .crash s
  | .ok _ =>
    if ols.length < ms.length then .fatal else
    match generateHtml T tex charmap ols context with
    | .ok rep => assemble V ms file rep
    | .fatal => .fatal
    | .crash s => .crash s

end HtmlText
end Yalafi
