/-
  Model/Tex2txt.lean — `Parser.__init__`, `Parser.parse`, `tex2txt.tex2txt`.
-/
import YalafiVerif.Model.Expander
import YalafiVerif.Model.ML
import YalafiVerif.Model.Replace
namespace Yalafi

open M

/-- `tex2txt.Options` (the fields the filter reads) -/
structure Options where
  lang : Str := []
  pack : Str := []
  dcls : Str := []
  defs : Str := []
  extr : Str := []
  seqs : Bool := false
  nosp : Bool := false
  unkn : Bool := false
  repl : List Str := []
  hasRepl : Bool := false
deriving Repr, Inhabited

/-- `tex2txt.get_packages` -/
def getPackages (T : PTables) (cls : Bool) (packs : Str) : List (Str × ModuleDef) :=
  if packs.isEmpty then [] else
  let table := if cls then T.loadTableClasses else T.loadTablePackages
  ((splitOn ',' packs []).map (fun p =>
    match table.find? (·.1 == p) with
    | some e => e.2.map (fun m => (m, (findModule T cls m).getD (emptyModule m)))
    | none => [(p, (findModule T cls p).getD (emptyModule p))])).flatten

def initialState (T : PTables) (o : Options) (multi : Bool) (fs : FS) : PState :=
  let lang := o.lang
  { itemStack := [{ style := .dflt, level := 0, count := 0, env := [] }],
    langStack := [(checkLang T lang, lang)],
    rots := T.langs.map (fun l => { code := l.code, inl := l.inlineRepl, disp := l.displayRepl, chg := l.langChange }),
    mathTextMacros := T.mathTextMacros,
    mathOperators := T.mathOperators,
    newcommandIgnore := T.newcommandIgnore,
    multiLanguage := multi,
    displayedSimple := o.seqs,
    skipBegin := if o.nosp then ['x'] else T.commentSkipBegin,
    skipEnd := if o.nosp then ['x'] else T.commentSkipEnd,
    fs := fs }

def builtinModule (T : PTables) (o : Options) : ModuleDef :=
  { name := [], requires := [], macrosLatex := T.macroDefsLatex,
    macros := T.macroDefsPython ++ (if o.nosp then T.noSpecialsMacros else []),
    envs := T.environmentDefs }

/-- `Parser.__init__`: built-in definitions, then class modules, then package modules -/
def initParser (T : PTables) (fuel : Nat) (o : Options) : M Unit := do
  let _ ← initPackage T fuel [] (builtinModule T o) true [] 0
  let mods := getPackages T true o.dcls ++ getPackages T false o.pack
  mods.forM (fun nm => do let _ ← initPackage T fuel nm.1 nm.2 false [] 0; pure ())

/-- `Parser.parse` -/
def parse (T : PTables) (fuel : Nat) (latex define : Str) (extract : List Str) : M (List Tok) := do
  if !extract.isEmpty then modify (fun s => initExtractions T s extract)
  modify (fun s => { s with extracted := [], unknowns := [] })
  let main0 ← (if define.isEmpty then pure [] else do
    let t ← parserWork T fuel define
    pure (filterSetToks t 0 true))
  -- text extracted from the definitions is discarded (ghost: the root document starts here)
  modify (fun s => { s with extracted := [], foreign := false, nest := 0 })
  let body ← parserWork T fuel latex
  let st ← get
  let main := if extract.isEmpty then main0 ++ body else []
  let flows := st.extracted.map (fun e =>
    match e.head?, e.getLast? with
    | some h, some l => [mkFix .par h.pos [nl, nl, nl]] ++ e ++ [mkFix .space l.pos [nl]]
    | _, _ => [])
  pure (main ++ flows.flatten)

structure T2TResult where
  toks : List Tok
  txt : Str
  pos : List Nat
  parts : Parts
  unknowns : List Str
  diags : List Diag
  /-- ghost flag of the final state (see `PState.foreign`) -/
  foreign : Bool := false
deriving Repr, Inhabited

/-- `tex2txt.tex2txt`; `thresh` = `ml_continue_thresh` set through `modify_parms` -/
def tex2txt (T : PTables) (fuel : Nat) (latex : Str) (o : Options) (multi : Bool) (thresh : Nat) (fs : FS) :
    Outcome T2TResult :=
  let extr : List Str := if o.extr.isEmpty then [] else (splitOn ',' o.extr []).map (fun s => '\\' :: s)
  let run : M (List Tok) := do
    initParser T fuel o
    parse T fuel latex o.defs extr
  match run (initialState T o multi fs) with
  | .fatal m => .fatal m
  | .crash c => .crash c
  | .outOfFuel => .outOfFuel
  | .ok (toks, st) =>
    if !multi then
      let tp := getTxtPos toks
      let tp1 := if o.hasRepl then replacePhrases T.toTables tp.1 tp.2 o.repl else tp
      let tp2 : Str × List Nat :=
        if o.unkn then
          let t := strJoin [nl] st.unknowns ++ [nl]
          (t, List.replicate t.length 0)
        else tp1
      .ok { toks := toks, txt := tp2.1, pos := tp2.2.map (· + 1), parts := [], unknowns := st.unknowns, diags := st.diags, foreign := st.foreign }
    else
      let lc : LangChange := st.rots.map (fun r => (r.code, r.chg))
      match getTxtPosML toks o.lang thresh lc with
      | none => .crash "utils.py:get_txt_pos_ml"
      | some (parts, _) =>
        let parts1 : Parts := parts.map (fun e =>
          if o.hasRepl && e.1 == o.lang then (e.1, e.2.map (fun tp => replacePhrases T.toTables tp.1 tp.2 o.repl)) else e)
        let parts2 : Parts := parts1.map (fun e => (e.1, e.2.map (fun tp => (tp.1, tp.2.map (· + 1)))))
        .ok { toks := toks, txt := [], pos := [], parts := parts2, unknowns := st.unknowns, diags := st.diags, foreign := st.foreign }

end Yalafi
