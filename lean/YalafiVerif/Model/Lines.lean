/-
  Model/Lines.lean — `Parser.remove_pure_action_lines` (parser.py 520–591), verbatim:
  sentinels, `can_start/can_end/is_blank` (with the overrides that are lost when a
  token is pushed back and re-evaluated), the work list.
-/
import YalafiVerif.Model.Utils
namespace Yalafi

structure LItem where
  tok : Tok
  blank : Bool
  cs : Bool     -- can_start
  ce : Bool     -- can_end
deriving Repr, Inhabited

def isAction (t : Tok) : Bool := t.kind == .action
def isLang (t : Tok) : Bool := match t.kind with | .lang .. => true | _ => false

/-- text from the last newline on (`txt[txt.rfind('\n'):]`) -/
def afterLastNl (s : Str) : Str := (s.reverse.takeWhile (· != nl)).reverse
/-- text before the first newline (`txt[:txt.find('\n')]`) -/
def beforeFirstNl (s : Str) : Str := s.takeWhile (· != nl)
/-- `txt[:txt.rfind('\n')+1]` -/
def uptoLastNl (s : Str) : Str := (s.reverse.dropWhile (· != nl)).reverse
/-- `txt[txt.find('\n')+1:]` (only used when a newline exists) -/
def afterFirstNl (s : Str) : Str := (s.dropWhile (· != nl)).drop 1

def evalTok (t : Tok) : LItem :=
  if isAction t then { tok := t, blank := true, cs := false, ce := false }
  else
    { tok := t,
      blank := !hasNl t.txt && isBlank t.txt,
      cs := hasNl t.txt && isBlank (afterLastNl t.txt),
      ce := hasNl t.txt && isBlank (beforeFirstNl t.txt) }

def sentinel (pos : Nat) : Tok := { kind := .text, pos := pos, txt := [] }

/-- inner `while tokens:` — collect up to and including the first token that can
    end a line or is not blank.  Returns (collected, rest, can_remove). -/
def collectLine : List LItem → List LItem × List LItem × Bool
  | [] => ([], [], true)
  | t :: ts =>
    if t.ce then ([t], ts, true)
    else if !t.blank then ([t], ts, false)
    else
      let r := collectLine ts
      (t :: r.1, r.2.1, r.2.2)

def trimFirst (t : Tok) : Tok :=
  { t with txt := if hasNl t.txt then uptoLastNl t.txt else [] }

/-- the position of a position-counting token advances by the removed prefix;
    a fixed token keeps its position -/
def trimLast (t : Tok) : Tok :=
  let k := if hasNl t.txt then (beforeFirstNl t.txt).length + 1 else t.txt.length
  { t with txt := if hasNl t.txt then afterFirstNl t.txt else [],
           pos := if t.fix then t.pos else t.pos + k }

def linesLoop : Nat → List LItem → List Tok → Option (List Tok)
  | _, [], out => some out
  | 0, _ :: _, _ => none
  | fuel + 1, t :: rest, out =>
    if !t.cs then linesLoop fuel rest (out ++ [t.tok])
    else
      let c := collectLine rest
      let buf := t :: c.1
      let rest' := c.2.1
      if c.2.2 && buf.length > 1 && buf.any (fun i => isAction i.tok) then
        let langToks := (buf.map (·.tok)).filter isLang
        let t1 := trimFirst t.tok
        let t2 := trimLast (buf.getLast?.getD t).tok
        let s : LItem := { evalTok (sentinel t2.pos) with cs := true }
        linesLoop fuel (s :: evalTok t2 :: rest') (out ++ [t1] ++ langToks)
      else if buf.length > 1 then
        let lastI := (buf.getLast?.getD t)
        linesLoop fuel (evalTok lastI.tok :: rest') (out ++ (buf.dropLast.map (·.tok)))
      else
        linesLoop fuel rest' (out ++ buf.map (·.tok))

def keepIn (t : Tok) : Bool := !t.txt.isEmpty || isAction t || isLang t
def keepOut (t : Tok) : Bool := !t.txt.isEmpty || isLang t

def linesInit (tokens : List Tok) : List LItem :=
  let ts := tokens.filter keepIn
  let first : LItem := { evalTok (sentinel 0) with cs := true }
  let lastPos := match ts.getLast? with | some t => t.pos | none => 0
  let last : LItem := { evalTok (sentinel lastPos) with ce := true }
  first :: ts.map evalTok ++ [last]

/-- `remove_pure_action_lines`; `none` = the work list did not shrink (never:
    `removeLines_progress`). -/
def removeLines (tokens : List Tok) : Option (List Tok) :=
  let items := linesInit tokens
  (linesLoop (2 * items.length + 4) items []).map (·.filter keepOut)

end Yalafi
