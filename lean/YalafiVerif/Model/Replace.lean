/-
  Model/Replace.lean — `utils.replace_phrases`: line parsing and a hand-written
  matcher for exactly the regular expression the code builds:
     [\b] w1 (?:[ \t]*\n[ \t]*|[ \t]+) w2 … wk [\b]
  (words are `re.escape`d literals without white space).  That this matcher
  equals `re.finditer` on that pattern is validated by the correspondence check.
-/
import YalafiVerif.Model.Utils
namespace Yalafi

def isBlankTab (c : Char) : Bool := c == ' ' || c == '\t'

/-- the separator `(?:[ \t]*\n[ \t]*|[ \t]+)` at the head of `s`; returns its length.
    Deterministic because the next literal starts with a non-space character. -/
def sepLen (s : Str) : Option Nat :=
  let b1 := s.takeWhile isBlankTab
  match s.drop b1.length with
  | c :: more =>
    if c == nl then some (b1.length + 1 + (more.takeWhile isBlankTab).length)
    else if b1.length > 0 then some b1.length else none
  | [] => if b1.length > 0 then some b1.length else none

/-- match the word list at the head of `s`; returns the matched length -/
def matchWords : List Str → Str → Option Nat
  | [], _ => some 0
  | [w], s => if startsWith s w then some w.length else none
  | w :: ws, s =>
    if startsWith s w then
      match sepLen (s.drop w.length) with
      | none => none
      | some k =>
        match matchWords ws (s.drop (w.length + k)) with
        | none => none
        | some m => some (w.length + k + m)
    else none

structure Phrase where
  words : List Str      -- non-empty, each non-empty, no white space inside
  bLeft : Bool          -- leading `\b`
  bRight : Bool         -- trailing `\b`
deriving Repr, Inhabited

/-- `\b` between `prev` (none at text start) and `next` (none at text end) -/
def wordBoundary (T : Tables) (prev next : Option Char) : Bool :=
  (match prev with | some c => T.isWord c | none => false) !=
  (match next with | some c => T.isWord c | none => false)

/-- try to match the phrase at the head of `s`, `prev` being the character before -/
def matchAt (T : Tables) (ph : Phrase) (prev : Option Char) (s : Str) : Option Nat :=
  if ph.bLeft && !wordBoundary T prev s.head? then none
  else match matchWords ph.words s with
    | none => none
    | some 0 => none
    | some m =>
      if ph.bRight && !wordBoundary T ((s.take m).getLast?) (s.drop m).head? then none
      else some m

/-- leftmost non-overlapping matches (`re.finditer`); fuel = remaining length
    (every step consumes at least one character) -/
def findSpans (T : Tables) (ph : Phrase) : Nat → Nat → Option Char → Str → List Span
  | 0, _, _, _ => []
  | _, _, _, [] => []
  | fuel + 1, i, prev, c :: cs =>
    match matchAt T ph prev (c :: cs) with
    | some m =>
      { start := i, len := m } ::
        findSpans T ph fuel (i + m) ((c :: cs).take m).getLast? ((c :: cs).drop m)
    | none => findSpans T ph fuel (i + 1) (some c) cs

structure Rule where
  phrase : Phrase
  repl : Str
deriving Repr, Inhabited

/-- one line of the replacement file → rule (or none: comment / no left side) -/
def parseRule (T : Tables) (line : Str) : Option Rule :=
  let l := line.takeWhile (· != '#')
  let ws := splitWs l
  let lhs := ws.takeWhile (· != ['&'])
  let rhs := (ws.dropWhile (· != ['&'])).drop 1
  match lhs.head?, lhs.getLast? with
  | some w1, some wk =>
    match w1.head?, wk.getLast? with
    | some c1, some ck =>
      some { phrase := { words := lhs, bLeft := T.isAlpha c1, bRight := T.isAlpha ck },
             repl := strJoin [' '] rhs }
    | _, _ => none
  | _, _ => none

def applyRule (T : Tables) (tp : Str × List Nat) (r : Rule) : Str × List Nat :=
  substitute tp.1 tp.2 (findSpans T r.phrase tp.1.length 0 none tp.1) r.repl

/-- `utils.replace_phrases` -/
def replacePhrases (T : Tables) (txt : Str) (pos : List Nat) (lines : List Str) : Str × List Nat :=
  (lines.filterMap (parseRule T)).foldl (applyRule T) (txt, pos)

end Yalafi
