/-
  Model/Scanner.lean — `yalafi/scanner.py`, class Scanner.

  The scanner works on the suffix `rest = src.drop pos`; every sub-scanner
  returns the token and the number of characters consumed.  `scan` is driven by
  fuel `src.length`; that the fuel suffices is `Proofs/Scanner.lean`.
-/
import YalafiVerif.Model.Utils
namespace Yalafi

structure ScanStep where
  tok : Tok
  len : Nat                      -- characters consumed (new `self.pos` − start)
  diag : Option Diag := none     -- scanner errors write to stderr
  extra : List Tok := []         -- further tokens of a split error mark
deriving Repr, Inhabited

def sBegin : Str := "\\begin".toList
def sEnd : Str := "\\end".toList
def sItem : Str := "\\item".toList
def sVerb : Str := "\\verb".toList
def sVerbatimArg : Str := "{verbatim}".toList
def sEndVerbatim : Str := "\\end{verbatim}".toList
def errBadVerb : Str := "bad \\verb argument".toList
def errMissingEndVerbatim : Str := "missing end of verbatim".toList

/-- `scan_space` : `rest` starts with a white-space character -/
def scanSpace (start : Nat) (rest : Str) : ScanStep :=
  let sp := rest.takeWhile isSpace
  { tok := { kind := if countNl sp < 2 then .space else .par, pos := start, txt := sp },
    len := sp.length }

/-- `scan_comment` : `rest` starts with `%` -/
def commentLen (rest : Str) : Nat :=
  let k := 1 + (rest.tail.takeWhile (· != nl)).length     -- index of '\n' or length
  let after := rest.drop k
  match after with
  | [] => k
  | _ :: more =>
    let sp := more.takeWhile isSpace
    if hasNl sp then k else k + 1 + sp.length

def scanComment (start : Nat) (rest : Str) : ScanStep :=
  let k := commentLen rest
  { tok := { kind := .comment, pos := start, txt := rest.take k }, len := k }

/-- Unicode decimal digits (`str.isdecimal`, `int(c)`): table of the first code
    point of each run of ten. -/
def decimalValue (zeros : List Nat) (c : Char) : Option Nat :=
  (zeros.find? (fun z => z ≤ c.toNat && c.toNat < z + 10)).map (c.toNat - ·)

/-- `scan_arg_token` : `rest` starts with `#` -/
def scanArgToken (T : Tables) (start : Nat) (rest : Str) : ScanStep :=
  match rest.tail.head? with
  | none => { tok := { kind := .special, pos := start, txt := rest.take 1 }, len := 1 }
  | some d =>
    match decimalValue T.decimalZeros d with
    | none => { tok := { kind := .special, pos := start, txt := rest.take 1 }, len := 1 }
    | some v => { tok := { kind := .arg v, pos := start, txt := rest.take 2 }, len := 2 }

/-- `scan_verb` : `rest` starts with `\verb` -/
def scanVerb (T : Tables) (src : Str) (start : Nat) (rest : Str) : ScanStep :=
  let err (len : Nat) : ScanStep :=
    { tok := (latexErrorToks T errBadVerb start src.length).headD default,
      len := len, diag := some (latexErrorDiag errBadVerb start src),
      extra := (latexErrorToks T errBadVerb start src.length).tail }
  match rest.drop 5 with
  | [] => err 5
  | delim :: body =>
    let j := idxOf (fun c => c == delim || c == nl) body    -- relative to start+6
    match body.drop j with
    | [] => err (6 + j)
    | c :: _ =>
      if c == nl then err (6 + j)
      else { tok := { kind := .verb false, pos := start + 6, txt := body.take j },
             len := 6 + j + 1 }

/-- `scan_verbatim` : `rest` starts with `\begin` -/
def scanVerbatim (T : Tables) (src : Str) (start : Nat) (rest : Str) : ScanStep :=
  let sp := (rest.drop 6).takeWhile isSpace
  let p := 6 + sp.length
  let after := rest.drop p
  if after.isEmpty || countNl sp > 1 || !startsWith after sVerbatimArg then
    { tok := { kind := .xbegin, pos := start, txt := sBegin }, len := 6 }
  else
    let p2 := p + 10
    match findSub sEndVerbatim (rest.drop p2) with
    | none =>
      { tok := (latexErrorToks T errMissingEndVerbatim start src.length).headD default,
        len := 6, diag := some (latexErrorDiag errMissingEndVerbatim start src),
        extra := (latexErrorToks T errMissingEndVerbatim start src.length).tail }
    | some e =>
      { tok := { kind := .verb true, pos := start + p2, txt := (rest.drop p2).take e },
        len := p2 + e + 14 }

/-- `scan_macro` : `rest` starts with a backslash -/
def macroLen (rest : Str) : Nat :=
  let k := 1 + (rest.tail.takeWhile macroChar).length
  if k == 1 && 1 < rest.length then 2 else k

def scanMacro (T : Tables) (src : Str) (start : Nat) (rest : Str) : ScanStep :=
  let k := macroLen rest
  let mac := rest.take k
  if mac == sBegin then scanVerbatim T src start rest
  else if mac == sEnd then { tok := { kind := .xend, pos := start, txt := mac }, len := k }
  else if mac == sItem then { tok := { kind := .item, pos := start, txt := mac }, len := k }
  else if mac == sVerb then scanVerb T src start rest
  else if T.isAccent mac then { tok := { kind := .accent, pos := start, txt := mac }, len := k }
  else { tok := { kind := .xmacro, pos := start, txt := mac }, len := k }

/-- first entry of the sorted special list that is a prefix of `rest` -/
def matchSpecial (T : Tables) (rest : Str) : Option Str :=
  T.specialSorted.find? (fun t => startsWith rest t)

/-- `next_token` on a non-empty suffix -/
def nextToken (T : Tables) (src : Str) (start : Nat) (rest : Str) : ScanStep :=
  match rest with
  | [] => { tok := default, len := 0 }
  | c :: _ =>
    if isSpace c then scanSpace start rest
    else if c == '%' then scanComment start rest
    else if c == '#' then scanArgToken T start rest
    else match matchSpecial T rest with
      | some t => { tok := { kind := .special, pos := start, txt := t }, len := t.length }
      | none =>
        if c == '\\' then scanMacro T src start rest
        else { tok := { kind := .text, pos := start, txt := [c] }, len := 1 }

structure ScanRes where
  toks : List Tok
  diags : List Diag
  /-- `false` iff the loop met a step that did not advance (never: `scan_complete`) -/
  complete : Bool
deriving Repr, Inhabited

/-- the scanner loop as a list of steps; the flag is `false` iff the fuel ran out
    or a step did not advance -/
def scanSteps (T : Tables) (src : Str) : Nat → Nat → Str → List ScanStep × Bool
  | _, _, [] => ([], true)
  | 0, _, _ :: _ => ([], false)
  | fuel + 1, pos, rest@(_ :: _) =>
    let s := nextToken T src pos rest
    if s.len == 0 then ([], false) else
    let r := scanSteps T src fuel (pos + s.len) (rest.drop s.len)
    (s :: r.1, r.2)

/-- `Scanner.scan` -/
def scan (T : Tables) (src : Str) : ScanRes :=
  let r := scanSteps T src src.length 0 src
  { toks := (r.1.map (fun s => s.tok :: s.extra)).flatten, diags := (r.1.map (·.diag.toList)).flatten, complete := r.2 }

end Yalafi
