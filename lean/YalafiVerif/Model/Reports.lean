/-
  Model/Reports.lean — the position arithmetic of the report generators of `yalafi/shell`
  and of the command line of `yalafi/tex2txt.py`, statement by statement.

  * `gentext.output_text_report`:  `lin`, `col` from `m['offset']`            (`textReport`)
  * `genjson.output_json`:         `priv = {fromy, fromx, toy, tox}`           (`jsonPriv`)
  * `genxml.output_xml_report`:    the same four numbers, and the byte variant
                                   `len(tex[nl:beg].encode())`                 (`xmlReport`)
  * all three after `utils.map_match_position`                                 (`reportAll`)
  * `tex2txt.write_output`:        the lines of the `--nums` file              (`writeNums`, `writeOutput`)
  * `tex2txt.translate_numbers`:   plain (line, column) ↦ tex (line, column)  (`translateNumbers`)

  Python meaning of the index arguments, modelled exactly:
  `tex.count('\n', 0, e)` and `tex.rfind('\n', 0, e)` accept ANY int `e`: a negative `e` counts
  from the end (`e + len(tex)`, then clamped at `0`), an `e` behind the text is clamped to
  `len(tex)` (`Html.pyEnd` followed by `List.take`).  `m['offset']` is `abs(charmap[..]) - 1`, i.e.
  `-1` for a map entry `0`, and `end = beg + length - 1` is `-1` for such an entry too; the
  column arithmetic `offset - nl + 1`, `end - nl + 1` uses the UNCLAMPED int.  Hence all
  reported numbers are `Int` here.  The byte variant slices: `tex[nl:beg]`, `tex[nl:end+1]`
  (`sliceE`: begin `nl ≥ 0`, end any int).

  `str.encode()` of a text that holds an unpaired surrogate raises; `Char` has no surrogates
  (a file read as UTF-8 has none either), so this case is outside the model.

  Core Lean only.
-/
import YalafiVerif.Model.Html
namespace Yalafi
namespace Reports
open Html (pyEnd getLineStarts)

/-! ### `count`, `rfind`, slices with Python's index conventions -/

/-- `s.rfind('\n') + 1`: the begin of the last line of `s` (`0` if `s` has no line break) -/
def lastLineStart (s : Str) : Nat :=
  match s.reverse.idxOf? '\n' with
  | some k => s.length - k
  | none => 0

/-- `tex.count('\n', 0, e)` for any int `e` -/
def pyCountNl (tex : Str) (e : Int) : Nat := (tex.take (pyEnd tex e)).count '\n'

/-- `tex.rfind('\n', 0, e) + 1` for any int `e` -/
def pyNl (tex : Str) (e : Int) : Nat := lastLineStart (tex.take (pyEnd tex e))

/-- `tex[a:b]` for `0 ≤ a` and any int `b` -/
def sliceE (tex : Str) (a : Nat) (b : Int) : Str := (tex.take (pyEnd tex b)).drop a

/-! ### the three reports -/

/-- text report: `(lin, col)` of `offset = m['offset']` -/
def textReport (tex : Str) (offset : Int) : Int × Int :=
  ((pyCountNl tex offset : Int) + 1, offset - (pyNl tex offset : Int) + 1)

/-- the four location fields of the JSON (`priv`) and XML reports -/
structure Priv where
  fromy : Int
  fromx : Int
  toy : Int
  tox : Int
deriving Repr, Inhabited, DecidableEq

/-- `genjson.output_json`: `priv` from `beg = m['offset']`, `m['length']` -/
def jsonPriv (tex : Str) (beg length : Int) : Priv :=
  let e := beg + length - 1
  { fromy := pyCountNl tex beg,
    fromx := beg - (pyNl tex beg : Int),
    toy := pyCountNl tex e,
    tox := e - (pyNl tex e : Int) + 1 }

/-- `genxml.output_xml_report`; `byte = true` is `--output xml-b` -/
def xmlReport (tex : Str) (byte : Bool) (beg length : Int) : Priv :=
  let e := beg + length - 1
  let nl1 := pyNl tex beg
  let nl2 := pyNl tex e
  { fromy := pyCountNl tex beg,
    fromx := if byte then (utf8Size (sliceE tex nl1 beg) : Int) else beg - (nl1 : Int),
    toy := pyCountNl tex e,
    tox := if byte then (utf8Size (sliceE tex nl2 (e + 1)) : Int) else e - (nl2 : Int) + 1 }

/-- everything the reports say about the place of one match -/
structure Located where
  /-- `m['offset']`, `m['length']` after `map_match_position` (json report, server answer) -/
  offset : Int
  length : Int
  /-- text report -/
  lin : Int
  col : Int
  json : Priv
  xml : Priv
  xmlb : Priv
deriving Repr, Inhabited, DecidableEq

def locate (tex : Str) (offset length : Int) : Located :=
  { offset := offset, length := length,
    lin := (textReport tex offset).1, col := (textReport tex offset).2,
    json := jsonPriv tex offset length,
    xml := xmlReport tex false offset length,
    xmlb := xmlReport tex true offset length }

/-- `map_match_position` followed by the arithmetic of the generators (`m['length']` raw, as in
    `mapMatch`) -/
def reportAll (charmap : List Int) (tex : Str) (offset : Int) (length : Option Json) : SOut Located :=
  match mapMatch charmap tex offset length with
  | .ok (off, len) => .ok (locate tex off len)
  | .fatal => .fatal
  | .crash s => .crash s

/-! ### `write_output`: the `--nums` file -/

/-- `text_get_txt`, `text_get_num` -/
def textGetTxt (text : Str × List Int) : Str := text.1
def textGetNum (text : Str × List Int) : List Int := text.2

/-- one line of the `--nums` file (without its line break): `str(abs(n))`, `+` for `n < 0` -/
def numLine (n : Int) : Str := natToStr n.natAbs ++ (if n < 0 then ['+'] else [])

/-- the lines written to `fn` -/
def writeNums (nums : List Int) : List Str := nums.map numLine

/-- the content of the `--nums` file: every line followed by a line break -/
def numsFile (nums : List Int) : Str := (writeNums nums).flatMap (· ++ ['\n'])

/-- `write_output(text, ft, fn)` with both files given: what is written to `ft` and to `fn` -/
def writeOutput (text : Str × List Int) : Str × Str := (textGetTxt text, numsFile (textGetNum text))

/-! ### `translate_numbers` -/

structure TNum where
  lin : Nat
  col : Nat
  flag : Bool
deriving Repr, Inhabited, DecidableEq

/-- `translate_numbers(tex, plain, charmap, starts, lin, col)`; `none` = `None` -/
def translateNumbers (tex plain : Str) (charmap : List Int) (starts : List Nat) (lin col : Int) : Option TNum :=
  if lin < 1 || col < 1 then none else
  if lin > (starts.length : Int) then none else
  match starts[(lin - 1).toNat]? with
  | none => none          -- not reachable: `1 ≤ lin ≤ len(starts)`
  | some n0 =>
    let s := plain.drop n0
    -- `i = s.find('\n')`; `if i >= 0 and col > i or i < 0 and col > len(s): return None`
    let tooLong : Bool := match s.idxOf? '\n' with
      | some i => decide (col > (i : Int))
      | none => decide (col > (s.length : Int))
    if tooLong then none else
    let n1 := n0 + (col - 1).toNat
    if n1 ≥ charmap.length then none else
    match charmap[n1]? with
    | none => none        -- not reachable
    | some c =>
      let n := c.natAbs
      if n > tex.length then none else
      let s := tex.take n
      some { lin := s.count '\n' + 1, col := max 1 (s.length - lastLineStart s), flag := decide (c < 0) }

end Reports
end Yalafi
