/-
  Model/Proto.lean — line protocol of the driver (DESIGN Appendix C):
  TAB-separated fields; a string is its code points in decimal separated by
  blanks (`-` = empty); a list is `<count>` followed by its items.
-/
import YalafiVerif.Model.ML
import YalafiVerif.Model.Lines
import YalafiVerif.Model.Scanner
import YalafiVerif.Model.Replace
namespace Yalafi.Proto

abbrev Fields := List String

/-- reader over the field list -/
abbrev R := StateT Fields (Except String)

def next : R String := do
  match (← get) with
  | [] => throw "missing field"
  | f :: fs => set fs; pure f

def nat : R Nat := do
  let f ← next
  match f.toNat? with
  | some n => pure n
  | none => throw s!"bad nat '{f}'"

def int : R Int := do
  let f ← next
  match f.toInt? with
  | some n => pure n
  | none => throw s!"bad int '{f}'"

def bool : R Bool := do
  let n ← nat
  pure (n != 0)

def decodeStr (f : String) : Except String Str :=
  if f == "-" then pure [] else
  (f.splitOn " ").mapM (fun w => match w.toNat? with
    | some n => pure (Char.ofNat n)
    | none => throw s!"bad code point '{w}'")

def str : R Str := do
  let f ← next
  match decodeStr f with
  | .ok s => pure s
  | .error e => throw e

def list {α} (item : R α) : R (List α) := do
  let n ← nat
  let rec go : Nat → List α → R (List α)
    | 0, acc => pure acc.reverse
    | k + 1, acc => do let a ← item; go k (a :: acc)
  go n []

def natList : R (List Nat) := do
  let f ← next
  if f == "-" then pure [] else
  (f.splitOn " ").mapM (fun w => match w.toNat? with
    | some n => pure n
    | none => throw s!"bad nat '{w}'")

def intList : R (List Int) := do
  let f ← next
  if f == "-" then pure [] else
  (f.splitOn " ").mapM (fun w => match w.toInt? with
    | some n => pure n
    | none => throw s!"bad int '{w}'")

/-! encoding -/
def encStr (s : Str) : String :=
  if s.isEmpty then "-" else " ".intercalate (s.map (fun c => toString c.toNat))
def encNatList (l : List Nat) : String :=
  if l.isEmpty then "-" else " ".intercalate (l.map toString)
def encIntList (l : List Int) : String :=
  if l.isEmpty then "-" else " ".intercalate (l.map toString)
def encBool (b : Bool) : String := if b then "1" else "0"

def kindName : Kind → String
  | .text => "text" | .space => "space" | .par => "par" | .comment => "comment"
  | .special => "special" | .xmacro => "macro" | .xbegin => "begin" | .xend => "end"
  | .item => "item" | .accent => "accent" | .verb _ => "verb" | .arg _ => "arg"
  | .action => "action" | .void => "void" | .lang .. => "lang"
  | .mathBegin _ => "mathbegin" | .mathElem => "mathelem" | .mathOper => "mathoper"
  | .mathSpace => "mathspace"

def kindExtra : Kind → String
  | .verb e => encBool e
  | .arg n => toString n
  | .lang l b h k => encBool b ++ encBool h ++ encBool k ++ ":" ++ encStr l
  | .mathBegin r => encBool r
  | _ => "-"

/-- a token is five fields: kind pos fix txt extra -/
def encTok (t : Tok) : List String :=
  [kindName t.kind, toString t.pos, encBool t.fix, encStr t.txt, kindExtra t.kind]

def encToks (ts : List Tok) : List String :=
  toString ts.length :: (ts.map encTok).flatten

def decodeKind (name extra : String) : Except String Kind :=
  match name with
  | "text" => pure .text | "space" => pure .space | "par" => pure .par
  | "comment" => pure .comment | "special" => pure .special | "macro" => pure .xmacro
  | "begin" => pure .xbegin | "end" => pure .xend | "item" => pure .item
  | "accent" => pure .accent
  | "verb" => pure (.verb (extra == "1"))
  | "arg" => match extra.toNat? with
    | some n => pure (.arg n) | none => throw "bad arg"
  | "action" => pure .action | "void" => pure .void
  | "lang" =>
    match extra.splitOn ":" with
    | [flags, l] => do
      let ls ← decodeStr l
      let fl := flags.toList
      pure (.lang ls (fl.getD 0 '0' == '1') (fl.getD 1 '0' == '1') (fl.getD 2 '0' == '1'))
    | _ => throw "bad lang extra"
  | "mathbegin" => pure (.mathBegin (extra == "1"))
  | "mathelem" => pure .mathElem | "mathoper" => pure .mathOper | "mathspace" => pure .mathSpace
  | k => throw s!"bad kind '{k}'"

def tok : R Tok := do
  let k ← next
  let p ← nat
  let f ← bool
  let t ← str
  let e ← next
  match decodeKind k e with
  | .ok kind => pure { kind := kind, pos := p, txt := t, fix := f }
  | .error m => throw m

def toks : R (List Tok) := list tok

def encDiag (d : Diag) : List String := [toString d.line, toString d.col, encStr d.msg]
def encDiags (ds : List Diag) : List String := toString ds.length :: (ds.map encDiag).flatten

def encTxtPos (r : Str × List Nat) : List String := [encStr r.1, encNatList r.2]

def encParts (p : Parts) : List String :=
  toString p.length :: (p.map (fun e =>
    encStr e.1 :: toString e.2.length :: (e.2.map encTxtPos).flatten)).flatten

end Yalafi.Proto
