/-
  Model/ProtoHtmlText.lean — driver operations for Model/HtmlText.lean.
    <vars> = highlight_style  <0 | 1 highlight_style_unsure>  number_style  link
    <json> = z | t | f | d | i <int> | s <str> | a <n> <json>* | o <n> (<str> <json>)*
    ESCAPES     s                                   -> ok protect_title(s) html.escape(s)
    BRMATCHES   s                                   -> ok <n> (group1 isBr)*
    BEGINMATCH  <vars> <json m> lin unsure          -> ok beg_tag end_href | fatal | crash site
    HIGHLIGHT   <vars> <json m> s lin unsure        -> ok text | fatal | crash site
    ADDLINES    number_style s nums                 -> ok text | crash site
    HTMLTEXT    <vars> tex charmap <n> <json m>* file context -> ok title anchor body count | fatal | crash site
-/
import YalafiVerif.Model.Proto
import YalafiVerif.Model.HtmlText
namespace Yalafi.Proto
open Yalafi.HtmlText

partial def json : R Json := do
  let tag ← next
  match tag with
  | "z" => pure .null
  | "t" => pure (.bool true)
  | "f" => pure (.bool false)
  | "d" => pure .float
  | "i" => do let v ← int; pure (.int v)
  | "s" => do let v ← str; pure (.str v)
  | "a" => do let l ← list json; pure (.arr l)
  | "o" => do
    let kv ← list (do let k ← str; let v ← json; pure (k, v))
    pure (.obj kv)
  | _ => throw s!"bad json tag '{tag}'"

def vars : R Vars := do
  let hs ← str
  let has ← bool
  let hsu ← if has then (do let s ← str; pure (some s)) else pure none
  let ns ← str
  let link ← bool
  pure { highlightStyle := hs, highlightStyleUnsure := hsu, numberStyle := ns, link := link }

def encS {α} (x : SOut α) (f : α → List String) : List String :=
  match x with
  | .ok a => "ok" :: f a
  | .fatal => ["fatal"]
  | .crash s => ["crash", s]

def opEscapes : R (List String) := do
  let s ← str
  pure ["ok", encStr (protectTitle s), encStr (htmlEscape s)]

def opBrMatches : R (List String) := do
  let s ← str
  let ms := brMatches s
  pure (["ok", toString ms.length] ++ (ms.map (fun m => [encStr m.1, encBool m.2])).flatten)

def opBeginMatch : R (List String) := do
  let V ← vars
  let m ← json
  let lin ← int
  let unsure ← bool
  pure (encS (beginMatch V m lin unsure) (fun t => [encStr (renderPieces t.1), encStr (renderPieces t.2)]))

def opHighlight : R (List String) := do
  let V ← vars
  let m ← json
  let s ← str
  let lin ← int
  let unsure ← bool
  pure (encS (generateHighlight V m s lin unsure) (fun t => [encStr t]))

def opAddLines : R (List String) := do
  let ns ← str
  let s ← str
  let nums ← intList
  pure (encS (addLineNumbers ns s nums) (fun t => [encStr t]))

def opHtmlText (T : Tables) : R (List String) := do
  let V ← vars
  let tex ← str
  let cm ← intList
  let ms ← list json
  let file ← str
  let ctx ← int
  pure (encS (generateHtmlText T V tex cm ms file (Html.normContext ctx))
    (fun r => [encStr r.title, encStr r.anchor, encStr r.body, toString r.count]))

end Yalafi.Proto
