/-
  Model/Expander.lean — the mutually recursive macro expander of `yalafi/parser.py`,
  `yalafi/mathparser.py`, `yalafi/handlers.py` and the handlers of the bundled
  packages, as one mutual block of functions that are structurally recursive on a
  fuel argument (one unit per Python call / loop iteration).

  Python exceptions are `Outcome.crash`, `utils.fatal` is `Outcome.fatal`.
-/
import YalafiVerif.Model.PState
import YalafiVerif.Model.Cleveref
namespace Yalafi

open M

/-! ### helpers that need no recursion -/

def curSettings (st : PState) : Str := (st.langStack.head?.map (·.1)).getD "en".toList
def curLang (st : PState) : Str := (st.langStack.head?.map (·.2)).getD []

def settingsOf (T : PTables) (code : Str) : Option LangSettings := T.langs.find? (·.code == code)

/-- `Parameters.check_parser_lang` -/
def checkLang (T : PTables) (lang : Str) : Str :=
  let l := (lang.take 2).map asciiLower
  if T.langs.any (·.code == l) then l else "en".toList
where asciiLower (c : Char) : Char := if 'A' ≤ c && c ≤ 'Z' then Char.ofNat (c.toNat + 32) else c

/-- `Parameters.change_parser_lang` -/
def changeParserLang (T : PTables) (st : PState) (l : Str) (back hard : Bool) : PState :=
  if back then
    if st.langStack.length > 1 then { st with langStack := st.langStack.tail } else st
  else if hard then { st with langStack := (checkLang T l, l) :: st.langStack.tail }
  else { st with langStack := (checkLang T l, l) :: st.langStack }

def rotOf (st : PState) (code : Str) : Option Rot := st.rots.find? (·.code == code)
def setRot (st : PState) (r : Rot) : PState :=
  { st with rots := st.rots.map (fun x => if x.code == r.code then r else x) }
def rotL (l : List Str) : List Str := l.drop 1 ++ l.take 1

def addUnknown (name : Str) (math : Bool) : M Unit :=
  modify (fun st => if math || st.unknowns.contains name then st else { st with unknowns := st.unknowns ++ [name] })

def filterSetToks (ts : List Tok) (pos : Nat) (onlyLang : Bool) : List Tok :=
  (ts.filter (fun t => !onlyLang || isLang t)).map (fun t => { t with pos := pos })

/-- `parse_newline_option` (`markup_txt`: the text of verbatim material is no markup) -/
def parseNewlineOption (T : PTables) (buf : Buf) (skip : Bool) : M Buf := do
  let buf1 := if skip then (match lookAheadSL buf with
                            | some t => if txtIsNV t "[" then skipSpace buf else buf
                            | none => buf) else buf
  match buf1 with
  | t :: _ =>
    if txtIsNV t "[" then do
      let r ← argBuffer T.toTables buf1 t.pos false
      pure r.2
    else pure buf1
  | [] => pure buf1

/-- collection of the arguments of one call (`expand_arguments`, first part) -/
structure Args where
  args : List (List Tok) := []
  extr : List (List Tok) := []
  /-- language tokens skipped while looking for arguments (re-inserted behind the macro) -/
  langs : List Tok := []
deriving Repr, Inhabited

def collectArgs (T : PTables) (mac : MacroDef) : List Char → Nat → Buf → Nat → Args → M (Args × Buf)
  | [], _, buf, _, acc => pure (acc, buf)
  | code :: codes, n, buf0, pos0, acc0 => do
    let acc : Args := { acc0 with langs := acc0.langs ++ skippedLangs buf0 }
    let buf := skipSpace buf0
    let tok := buf.head?
    let pos := match tok with | some t => t.pos | none => pos0
    if code == '*' then
      match tok with
      | some t =>
        if txtIsNV t "*" then collectArgs T mac codes (n + 1) buf.tail pos { acc with args := acc.args ++ [[t]], extr := acc.extr ++ [[t]] }
        else collectArgs T mac codes (n + 1) buf pos { acc with args := acc.args ++ [[]], extr := acc.extr ++ [[]] }
      | none => collectArgs T mac codes (n + 1) buf pos { acc with args := acc.args ++ [[]], extr := acc.extr ++ [[]] }
    else if code == 'O' then
      if (match tok with | some t => txtIsNV t "[" | none => false) then do
        let r ← argBuffer T.toTables buf pos false
        collectArgs T mac codes (n + 1) r.2 pos { acc with args := acc.args ++ [r.1], extr := acc.extr ++ [r.1] }
      else
        let dflt := match mac.defaults[n]? with
          | some d => d.map (fun t => { t with pos := pos0, fix := true })
          | none => []
        collectArgs T mac codes (n + 1) buf pos { acc with args := acc.args ++ [dflt], extr := acc.extr ++ [[]] }
    else if code == 'A' then
      if (match tok with | some t => txtIsNV t "}" | none => false) then
        collectArgs T mac codes (n + 1) buf pos { acc with args := acc.args ++ [[mkVoid pos]], extr := acc.extr ++ [[mkVoid pos]] }
      else do
        let r ← argBuffer T.toTables buf pos true
        collectArgs T mac codes (n + 1) r.2 pos { acc with args := acc.args ++ [r.1], extr := acc.extr ++ [r.1] }
    else fatal ("illegal arg code".toList)

/-- `parse_def_macro` (buffer is positioned after `\def`) -/
def defArgs : Nat → Buf → List Tok → Option (List Tok × Buf)
  | 0, _, _ => none
  | fuel + 1, buf, acc =>
    match skipSpace buf with
    | [] => none
    | t :: rest => if txtIs t "{" then some (acc.reverse, t :: rest) else defArgs fuel rest (t :: acc)

def defArgPosMap : List Tok → Nat → Nat → List Nat → Except Tok (List Nat)
  | [], _, _, acc => .ok acc
  | t :: ts, k, n, acc =>
    match argRef t with
    | some a => if a != n then .error t else defArgPosMap ts (k + 1) (n + 1) (acc ++ [k])
    | none => defArgPosMap ts (k + 1) n acc

def defMapRepl (map : List Nat) : List Tok → List Tok → Except Tok (List Tok)
  | [], acc => .ok acc.reverse
  | t :: ts, acc =>
    match argRef t with
    | some a =>
      if a < 1 || a > map.length then .error t
      else defMapRepl map ts ({ t with kind := .arg (map.getD (a - 1) 0) } :: acc)
    | none => defMapRepl map ts (t :: acc)

def reprStr (s : Str) : Str := ['\''] ++ s ++ ['\'']   -- Python repr for the plain cases

def parseDefMacro (T : PTables) (buf : Buf) (start : Nat) : M (List Tok × Buf) := do
  match skipSpace buf with
  | [] => do
    let e ← latexError T.toTables "\\def: missing macro name".toList start
    pure (e, [])
  | tok :: rest =>
    if tok.kind != .xmacro then do
      let e ← latexError T.toTables ("\\def: illegal macro name \"".toList ++ tok.txt ++ ['"']) tok.pos
      pure (e, tok :: rest)
    else
      match defArgs (rest.length + 1) rest [] with
      | none => do
        let e ← latexError T.toTables "\\def: missing macro body".toList start
        pure (e, [])
      | some (args, buf1) => do
        let p := match buf1.head? with | some t => t.pos | none => start
        let r ← argBuffer T.toTables buf1 p true
        match defArgPosMap args 1 1 [] with
        | .error t => do
          let e ← latexError T.toTables ("\\def: unexpected argument ".toList ++ reprStr t.txt) t.pos
          pure (e, r.2)
        | .ok map =>
          match defMapRepl map r.1 [] with
          | .error t => do
            let e ← latexError T.toTables ("\\def: illegal argument reference ".toList ++ reprStr t.txt) t.pos
            pure (e, r.2)
          | .ok repl => do
            let m : MacroDef := { name := tok.txt, args := List.replicate args.length 'A', repl := repl }
            modify (fun st => { st with macros := setMacro st.macros m })
            pure ([mkAction start], r.2)

/-- `expand_short_macro` (buffer positioned after `tok`) -/
def expandShortMacro (T : PTables) (st : PState) (tok : Tok) (rest : Buf) : Tok × Buf :=
  match rest with
  | [] => (tok, [])
  | cur :: rest' =>
    let sm := ((settingsOf T (curSettings st)).map (·.shortMacros)).getD []
    match sm.find? (·.1 == tok.txt ++ cur.txt) with
    | none => (tok, rest)
    | some e => (mkFix .text tok.pos e.2, rest')

def activeChars (T : PTables) (st : PState) : List Str :=
  (((settingsOf T (curSettings st)).map (·.shortMacros)).getD []).map (fun e => e.1.take 1)

/-! ### maths: parts and `replace_section` -/

inductive SecItem where
  | tok (t : Tok)
  | part (ts : List Tok)
deriving Repr, Inhabited

def isMathTok (t : Tok) : Bool :=
  match t.kind with | .mathElem | .mathOper | .mathSpace => true | _ => false

/-- `detect_math_parts` -/
def detectMathParts : List Tok → List Tok → List SecItem
  | [], cur => if cur.isEmpty then [] else [.part cur.reverse]
  | t :: ts, cur =>
    if isMathTok t then detectMathParts ts (t :: cur)
    else (if cur.isEmpty then [] else [.part cur.reverse]) ++ .tok t :: detectMathParts ts []

structure RsState where
  firstPart : Bool
  nextRepl : Bool
  repls : List Str
  out : List Tok
deriving Repr, Inhabited

def mathSp (pos : Nat) : Tok := mkFix .space pos [' ']

/-- one step of the loop in `replace_section`; `none` = IndexError / KeyError -/
def replaceStep (T : PTables) (opText : List (Str × Str)) (opDefault : Option Str) (inline : Bool)
    (s : RsState) : SecItem → Option RsState
  | .tok t =>
    some (if !isBlank t.txt then { s with out := s.out ++ [t], firstPart := false, nextRepl := true }
          else { s with out := s.out ++ [t] })
  | .part ts =>
    match ts.head?, ts.getLast? with
    | some t0, some tl =>
      if ts.all (·.kind == .mathSpace) then some { s with out := s.out ++ [mathSp t0.pos] }
      else
        let out1 := if t0.kind == .mathSpace then s.out ++ [mathSp t0.pos] else s.out
        let op : Option Tok := match ts.find? (·.kind != .mathSpace) with
          | some t => if t.kind == .mathOper then some t else none
          | none => none
        let elem := ts.find? (fun t => t.kind == .mathElem && !T.mathPunctuation.contains t.txt)
        let stepOp : Option (List Tok) :=
          match op with
          | some o =>
            if !inline && s.firstPart then
              match opDefault with
              | none => none
              | some d =>
                let w := ((opText.find? (·.1 == o.txt)).map (·.2)).getD d
                some (out1 ++ [mathSp t0.pos, mkFix .text o.pos w, mathSp o.pos])
            else some out1
          | none => some out1
        match stepOp with
        | none => none
        | some out2 =>
          let rot := inline || ((s.nextRepl || (op.isSome && s.firstPart)) && elem.isSome)
          let repls := if rot then rotL s.repls else s.repls
          let emit := inline || elem.isSome
          match (if emit then repls.head? else some []) with
          | none => none
          | some r0 =>
            let ppos := if inline then t0.pos else (elem.map (·.pos)).getD t0.pos
            let out3 := if emit then out2 ++ [mkFix .text ppos r0] else out2
            let lastc := (strip (getTextDirect ts)).getLast?
            let isP := match lastc with | some c => T.mathPunctuation.contains [c] | none => false
            let out4 := match lastc with
              | some c => if isP then out3 ++ [mkFix .text t0.pos [c]] else out3
              | none => out3
            let next := isP || (op.isSome && elem.isNone)
            let out5 := if tl.kind == .mathSpace then out4 ++ [mathSp t0.pos] else out4
            some { s with out := out5, repls := repls, nextRepl := next }
    | _, _ => none

def replaceSection (T : PTables) (opText : List (Str × Str)) (opDefault : Option Str) (inline : Bool)
    (items : List SecItem) (firstSection nextRepl : Bool) (repls : List Str) : Option RsState :=
  items.foldlM (replaceStep T opText opDefault inline)
    { firstPart := !firstSection, nextRepl := nextRepl, repls := repls, out := [] }

/-- `special(t)` of expand_math_section -/
def mathSpecialTxt (T : PTables) (t : Tok) : Option Str :=
  if t.kind == .special then T.toTables.specialVal t.txt else some t.txt

/-! ### key-value lists (text form) -/

def splitOn (sep : Char) : Str → Str → List Str
  | [], cur => [cur.reverse]
  | c :: cs, cur => if c == sep then cur.reverse :: splitOn sep cs [] else splitOn sep cs (c :: cur)

/-- `utils.get_module_handler`: normalised module name; `none` for the `.abs.path` form -/
def normModule (T : PTables) (name : Str) : Option Str :=
  let n := name.map (fun c => if (T.toTables.isWord c && c != '_') || c == '.' then c else '_')
  if n.head? == some '.' then none else some n

def findModule (T : PTables) (cls : Bool) (name : Str) : Option ModuleDef :=
  match normModule T name with
  | none => none
  | some n => (if cls then T.classModules else T.packageModules).find? (·.name == n)

def emptyModule (name : Str) : ModuleDef :=
  { name := name, requires := [], macrosLatex := [], macros := [], envs := [] }

/-- `babel.get_language_token` -/
def babelLanguageToken (T : PTables) (opts : List KeyVal) : List Tok :=
  match opts.reverse.find? (fun o => o.val.isNone && T.babelMap.any (·.1 == o.key)) with
  | some o =>
    let lt := ((T.babelMap.find? (·.1 == o.key)).map (·.2)).getD []
    [mkLang 0 lt false true true]
  | none => []

def translateLang (T : PTables) (lang : Str) : Option Str :=
  match T.babelMap.find? (·.1 == lang) with
  | some e => some e.2
  | none => (T.babelMap.find? (·.1 == "english".toList)).map (·.2)

/-- the `\hspace` number test: `\s*(\d+[.,]?\d*|[.,]\d+)` matched at the start, value == 0 -/
def hspaceIsZero (T : PTables) (s : Str) : Bool :=
  let s1 := s.dropWhile isSpace
  let isD (c : Char) : Bool := (decimalValue T.decimalZeros c).isSome
  let d1 := s1.takeWhile isD
  let num : Option Str :=
    if !d1.isEmpty then
      let r := s1.drop d1.length
      match r with
      | c :: r' => if c == '.' || c == ',' then some (d1 ++ ['.'] ++ r'.takeWhile isD) else some d1
      | [] => some d1
    else
      match s1 with
      | c :: r =>
        if (c == '.' || c == ',') && !(r.takeWhile isD).isEmpty then some (['.'] ++ r.takeWhile isD) else none
      | [] => none
  match num with
  | none => false
  | some n => n.all (fun c => c == '.' || decimalValue T.decimalZeros c == some 0)

/-- glossary: `cap_first` / `cap_all` (after the `fix:` commit: a change of length pins the token) -/
def upperTok (t : Tok) (txt : Str) : Tok :=
  { t with txt := txt, fix := if txt.length != t.txt.length then true else t.fix }

def capFirst (T : PTables) (ts : List Tok) : Option (List Tok) :=
  match ts.findIdx? (·.kind == .text) with
  | none => some ts
  | some i =>
    match ts[i]? with
    | none => some ts
    | some t =>
      match t.txt.head? with
      | none => none            -- txt[0] of an empty text: IndexError
      | some c => some (ts.set i (upperTok t (T.toTables.upper c)))

def capAll (T : PTables) (ts : List Tok) : List Tok :=
  ts.map (fun t => if t.kind == .text then upperTok t (t.txt.flatMap T.toTables.upper) else t)

/-- `iter_token_levels` + `h_substack` -/
def substackLoop : Int → List Tok → List Tok
  | _, [] => []
  | lev, t :: ts =>
    let lev' := if txtIs t "{" then lev + 1 else if txtIs t "}" then lev - 1 else lev
    (if txtIs t "\\\\" && lev' == 0 then mkTok .special t.pos "\\;".toList else t) :: substackLoop lev' ts

/-- `biblatex.h_cite` -/
def bibCite (T : PTables) (args : List (List Tok)) (pos : Nat) : Option (List Tok) :=
  match args[1]?, args[2]? with
  | some o1, some o2 =>
    let isVoid (l : List Tok) : Bool := match l with | [t] => t.kind == .void | _ => false
    let opt1 := if isVoid o1 then [] else o1
    let pre := if o2.isEmpty then [] else opt1
    let post := if o2.isEmpty then opt1 else (if isVoid o2 then [] else o2)
    let out0 := [mkFix .text pos ['[']]
    let lastPos (l : List Tok) : Nat := (l.getLast?.map (·.pos)).getD pos
    let out1 := if pre.isEmpty then out0 else (out0 ++ pre) ++ [mkFix .space (lastPos (out0 ++ pre)) [' ']]
    let out2 := out1 ++ [mkFix .text (lastPos out1) T.citeText]
    let out3 := if post.isEmpty then out2
      else out2 ++ [mkFix .text (lastPos out2) [','], mkFix .space (lastPos out2) [' ']] ++ post
    some (out3 ++ [mkFix .text (lastPos out3) [']'], mkAction (lastPos out3)])
  | _, _ => none

/-- `init_extractions` -/
def initExtractions (T : PTables) (st : PState) (extracts : List Str) : PState :=
  let upd (m : MacroDef) : MacroDef :=
    if extracts.contains m.name then
      let p := idxOf (· == 'A') m.args
      let ex : List Tok :=
        if p < m.args.length then (scan T.toTables (['#'] ++ natToStr (p + 1))).toks else []
      { m with extract := ex, repl := [], handler := .none }
    else { m with extract := [], repl := [], handler := .none }
  let ms := st.macros.map upd
  let add := (extracts.filter (fun n => !(ms.any (·.name == n)))).eraseDups
  { st with macros := ms ++ add.map (fun n =>
      { name := n, args := ['A'], repl := [], extract := (scan T.toTables "#1".toList).toks }) }

/-- the skip pre-pass of `parser_work` over the scanned tokens: returns the kept tokens
    before an unclosed skip comment, its position, and the tokens after it -/
def skipPass (st : PState) : Nat → List Tok → List Tok → (List Tok × Option Nat × List Tok)
  | 0, _, out => (out, none, [])
  | fuel + 1, toks, out =>
    let isBeg (t : Tok) : Bool := t.kind == .comment && startsWith t.txt st.skipBegin
    let isEnd (t : Tok) : Bool := t.kind == .comment && startsWith t.txt st.skipEnd
    let pre := toks.takeWhile (fun t => !isBeg t)
    match toks.drop pre.length with
    | [] => (out ++ pre, none, [])
    | b :: after =>
      let mid := after.takeWhile (fun t => !isEnd t)
      match after.drop mid.length with
      | [] => (out ++ pre, some b.pos, after)
      | _ :: rest => skipPass st fuel rest (out ++ pre)

def glsMissing : Str :=
  "could not find label for \\gls... - did you include \"\\LTinput{<main file>.glsdefs}\"?".toList

def setPackage (ps : List (Str × List KeyVal)) (name : Str) (opts : List KeyVal) : List (Str × List KeyVal) :=
  if ps.any (·.1 == name) then ps.map (fun e => if e.1 == name then (name, opts) else e)
  else ps ++ [(name, opts)]

abbrev GlossEntry := List (Str × Option (List Tok))
def setGloss (g : List (Str × GlossEntry)) (label : Str) (e : GlossEntry) : List (Str × GlossEntry) :=
  if g.any (·.1 == label) then g.map (fun x => if x.1 == label then (label, e) else x)
  else g ++ [(label, e)]

/-- try/except of `init_package`: any exception or exit becomes `fatal` -/
def catchAll {α} (x : M α) (msg : Str) : M α := fun s =>
  match x s with
  | .ok r => .ok r
  | .outOfFuel => .outOfFuel
  | _ => .fatal msg

/-! ### cleveref (`packages/cleveref.py`): the parts that need no recursion -/

/-- `is_poorman_used`: `'poorman' in opt` for a tuple `opt = (key, value)` is membership,
    not a substring test: the key or the value IS 'poorman' -/
def poormanUsed (options : List KeyVal) : Bool :=
  options.any (fun o => o.key == "poorman".toList || o.val == some "poorman".toList)

/-- `parser.the_macros[name] = Macro(parser.parms, name, args='A'*n, repl=string)`: the constructor
    scans the text (scanner messages go to stderr) and checks the argument references
    (`utils.fatal` otherwise) -/
def defineSedMacro (T : PTables) (m : Cleveref.SedMacro) : M Unit := do
  let sc := scan T.toTables m.repl
  modify (fun s => { s with diags := s.diags ++ sc.diags })
  match sc.toks.find? (fun t => match argRef t with | some k => k < 1 || k > m.nargs | none => false) with
  | some bad => fatal ("illegal argument reference ".toList ++ reprStr bad.txt ++ " for ".toList ++ reprStr m.name)
  | none =>
    let md : MacroDef := { name := m.name, args := List.replicate m.nargs 'A', repl := sc.toks }
    modify (fun s => { s with macros := setMacro s.macros md })

/-- the four reference macros `h_read_sed` (re)defines at its end, closures over the new tables -/
def crefMacros (ls : List Cleveref.SedLine) : List MacroDef :=
  [ { name := Cleveref.nameCref, args := ['*', 'A'],
      handler := .cref (Cleveref.refTable ls Cleveref.nameCref []) (Cleveref.refTable ls Cleveref.nameCref ['*']) },
    { name := Cleveref.nameCrefU, args := ['*', 'A'],
      handler := .cref (Cleveref.refTable ls Cleveref.nameCrefU []) (Cleveref.refTable ls Cleveref.nameCrefU ['*']) },
    { name := Cleveref.nameCrefrange, args := ['*', 'A', 'A'],
      handler := .crefrange (Cleveref.rangeTable ls Cleveref.nameCrefrange []) (Cleveref.rangeTable ls Cleveref.nameCrefrange ['*']) },
    { name := Cleveref.nameCrefrangeU, args := ['*', 'A', 'A'],
      handler := .crefrange (Cleveref.rangeTable ls Cleveref.nameCrefrangeU []) (Cleveref.rangeTable ls Cleveref.nameCrefrangeU ['*']) } ]

/-- the body of `h_read_sed` behind the file access -/
def readSedText (T : PTables) (sed : Str) : M Unit := do
  let ls := Cleveref.sedLines sed
  (Cleveref.sedMacros ls).forM (defineSedMacro T)
  modify (fun s => { s with macros := (crefMacros ls).foldl setMacro s.macros })

/-- `toks = scanner.scan(string)`, every token pinned to the call -/
def crefToks (T : PTables) (str : Str) (pos : Nat) : M (List Tok) := do
  let sc := scan T.toTables str
  modify (fun s => { s with diags := s.diags ++ sc.diags })
  pure (sc.toks.map (fun t => { t with pos := pos, fix := true }))

/-! ### the expander -/

structure MathSec where
  out : List Tok
  term : Option Tok
  buf : Buf
deriving Repr, Inhabited

mutual

/-- `Parser.expand_sequence` — one loop iteration per unit of fuel.
    `out` is the accumulated output; `envStop` the environment to stop at. -/
def expandSequence (T : PTables) : Nat → Buf → Option Str → List Tok → M (List Tok × Buf)
  | 0, _, _, _ => outOfFuel
  | fuel + 1, buf, envStop, out =>
    match buf with
    | [] =>
      match removeLines out with
      | some r => pure (r, [])
      | none => outOfFuel
    | tok :: rest => do
      let st ← get
      if tok.kind == .xbegin then do
        let r ← beginEnvironment T fuel rest tok false
        expandSequence T fuel (r.1 ++ r.2) envStop out
      else if tok.kind == .xend then do
        let r ← endEnvironment T fuel rest tok envStop
        if r.1.2 then pure (r.1.1, r.2)
        else expandSequence T fuel (r.1.1 ++ r.2) envStop out
      else if tok.kind == .item then do
        let r ← expandItem T fuel rest tok out
        expandSequence T fuel (r.1 ++ r.2) envStop out
      else if tok.kind == .xmacro then
        if txtIs tok "\\def" then do
          let r ← parseDefMacro T rest tok.pos
          expandSequence T fuel r.2 envStop (out ++ r.1)
        else do
          let r ← expandMacro T fuel rest tok false
          expandSequence T fuel (r.1 ++ r.2) envStop out
      else if (match tok.kind with | .verb _ => true | _ => false) then
        if tok.kind == .verb true then
          expandSequence T fuel (expandVerbEnvToken tok ++ rest) envStop out
        else
          expandSequence T fuel rest envStop
            (out ++ [mkAction tok.pos, { kind := .text, pos := tok.pos, txt := tok.txt, fix := tok.fix }])
      else if txtIs tok "$" || txtIs tok "\\(" then do
        let r ← expandInlineMath T fuel rest tok
        expandSequence T fuel r.2 envStop (out ++ r.1)
      else if (match tok.kind with | .mathBegin _ => true | _ => false) then do
        let rem := match tok.kind with | .mathBegin r => r | _ => false
        let r ← expandDisplayMath T fuel rest tok tok.txt rem
        expandSequence T fuel r.2 envStop (out ++ r.1)
      else if txtIs tok "$$" || txtIs tok "\\[" then
        match lookupEnv st T.mathDefaultEnv with
        | none => fatal "no environment for '$$' or '\\['".toList
        | some env =>
          if !env.isEqu then fatal (reprStr env.name ++ " is not an EquEnv".toList)
          else do
            let r ← expandDisplayMath T fuel rest tok env.name env.remove
            expandSequence T fuel r.2 envStop (out ++ r.1)
      else if tok.kind == .accent then do
        let r ← expandAccent T fuel rest tok
        expandSequence T fuel r.2 envStop (out ++ r.1)
      else if txtIs tok "\\\\" then do
        let b ← parseNewlineOption T rest true
        expandSequence T fuel b envStop (out ++ [mkAction tok.pos, mkTok .space tok.pos [' ']])
      else if txtIs tok "{" || txtIs tok "}" then
        expandSequence T fuel rest envStop (out ++ [mkAction tok.pos])
      else if tok.kind == .special then
        match T.toTables.specialVal tok.txt with
        | none => crash "parser.py:expand_sequence:special_tokens[tok.txt]"
        | some v =>
          expandSequence T fuel rest envStop
            (out ++ [mkAction tok.pos, { kind := .text, pos := tok.pos, txt := v, fix := tok.fix }])
      else if (match tok.kind with | .lang .. => true | _ => false) then
        if st.multiLanguage then do
          match tok.kind with
          | .lang l back hard _ => modify (fun s => changeParserLang T s l back hard)
          | _ => pure ()
          expandSequence T fuel rest envStop (out ++ [tok])
        else expandSequence T fuel rest envStop out
      else if (activeChars T st).contains tok.txt then
        let r := expandShortMacro T st tok rest
        expandSequence T fuel r.2 envStop (out ++ [r.1])
      else if tok.kind == .comment then
        expandSequence T fuel rest envStop out
      else expandSequence T fuel rest envStop (out ++ [tok])

/-- `get_text_expanded` -/
def getTextExpanded (T : PTables) : Nat → List Tok → M Str
  | 0, _ => outOfFuel
  | fuel + 1, toks => do
    let r ← expandSequence T fuel toks none []
    pure (getTextDirect r.1)

/-- `get_environment_name` (buffer positioned after `\begin` / `\end`) -/
def getEnvironmentName (T : PTables) : Nat → Buf → Tok → M (Str × Buf)
  | 0, _, _ => outOfFuel
  | fuel + 1, buf, tok => do
    let r ← argBuffer T.toTables buf tok.pos true
    let name ← getTextExpanded T fuel r.1
    pure (name, r.2)

def beginEnvironment (T : PTables) : Nat → Buf → Tok → Bool → M (List Tok × Buf)
  | 0, _, _, _ => outOfFuel
  | fuel + 1, buf, tok, math => do
    let r ← getEnvironmentName T fuel buf tok
    let st ← get
    match lookupEnv st r.1 with
    | none => do
      addUnknown r.1 math
      pure ([mkAction tok.pos], r.2)
    | some env => do
      match env.items with
      | some style =>
        let level := (st.itemStack.filter (·.env == r.1)).length
        modify (fun s => { s with itemStack := { style := style, level := level, count := 0, env := r.1 } :: s.itemStack })
      | none => pure ()
      let out0 := if env.addPars then [mkFix .par tok.pos [nl, nl]] else [mkAction tok.pos]
      let a ← expandArguments T fuel r.2 env tok.pos
      if env.isEqu then
        pure (out0 ++ a.1 ++ [{ kind := .mathBegin env.remove, pos := tok.pos, txt := r.1 }], a.2)
      else if env.remove then do
        let s ← expandSequence T fuel a.2 (some r.1) []
        pure (out0 ++ a.1 ++ s.1, s.2)
      else pure (out0 ++ a.1, a.2)

def endEnvironment (T : PTables) : Nat → Buf → Tok → Option Str → M ((List Tok × Bool) × Buf)
  | 0, _, _, _ => outOfFuel
  | fuel + 1, buf, tok, envStop => do
    let r ← getEnvironmentName T fuel buf tok
    let st ← get
    let stop := envStop == some r.1
    match lookupEnv st r.1 with
    | none => pure (([mkAction tok.pos], stop), r.2)
    | some env => do
      if env.items.isSome && st.itemStack.length > 1 then
        modify (fun s => { s with itemStack := s.itemStack.tail })
      let out0 := if env.addPars then [mkFix .par tok.pos [nl, nl]] else [mkAction tok.pos]
      if env.endFunc == .none then pure ((out0, stop), r.2)
      else do
        let h ← callHandler T fuel env.endFunc r.2 env [] tok.pos
        pure ((out0 ++ h, stop), r.2)

/-- `expand_macro` (buffer positioned after the macro token) -/
def expandMacro (T : PTables) : Nat → Buf → Tok → Bool → M (List Tok × Buf)
  | 0, _, _, _ => outOfFuel
  | fuel + 1, buf, tok, math => do
    let buf := skipSpaceStopLangAct buf
    let st ← get
    match lookupMacro st tok.txt with
    | none => do
      addUnknown tok.txt math
      pure ([mkAction tok.pos], buf)
    | some mac => expandArguments T fuel buf mac tok.pos

def expandArguments (T : PTables) : Nat → Buf → MacroDef → Nat → M (List Tok × Buf)
  | 0, _, _, _ => outOfFuel
  | fuel + 1, buf, mac, start => do
    let r ← collectArgs T mac mac.args 0 buf start {}
    if !mac.extract.isEmpty then do
      let st ← get
      match generateReplacements r.1.extr mac.extract start with
      | none => crash "parser.py:generate_replacements:arguments[tok.arg-1]"
      | some g => do
        let e ← expandSequence T fuel (mkLang start (curLang st) false true true :: g) none []
        modify (fun s => { s with extracted := s.extracted ++ [e.1], foreign := s.foreign || s.nest != 1 })
    if mac.handler != .none then do
      let h ← callHandler T fuel mac.handler r.2 mac r.1.args start
      pure (mkAction start :: h ++ r.1.langs, r.2)
    else
      match generateReplacements r.1.args mac.repl start with
      | none => crash "parser.py:generate_replacements:arguments[tok.arg-1]"
      | some g => pure (mkAction start :: g ++ r.1.langs, r.2)

/-- `expand_item` (buffer positioned after `\item`) -/
def expandItem (T : PTables) : Nat → Buf → Tok → List Tok → M (List Tok × Buf)
  | 0, _, _, _ => outOfFuel
  | fuel + 1, buf, tok, outSoFar => do
    let start := tok.pos
    let itemMac : MacroDef := { name := sItem, args := ['O'], repl := [{ kind := .arg 1, pos := 0, txt := "#1".toList }] }
    let r ← expandArguments T fuel buf itemMac start
    let sp (p : Nat) : Tok := mkFix .space p [' ']
    if r.1.all (fun t => t.kind == .action || isLangK t) then do
      let st ← get
      match st.itemStack with
      | [] => crash "parser.py:expand_item:item_lab_stack[-1]"
      | g :: gs =>
        match itemLabel T.itemDefaultLabel g with
        | none => crash "parameters.py:labs:item_default_label[..]"
        | some lab => do
          modify (fun s => { s with itemStack := { g with count := g.count + 1 } :: gs })
          pure (r.1 ++ [sp start, mkFix .text start lab, sp start], r.2)
    else
      let lastPos (l : List Tok) : Nat := (l.getLast?.map (·.pos)).getD start
      let prev := outSoFar.reverse.find? (fun t => !isBlank t.txt)
      let out1 := match prev with
        | some p =>
          match p.txt.getLast? with
          | some c => if T.itemPunctuation.contains [c] then r.1 ++ [mkFix .text (lastPos r.1) [c]] else r.1
          | none => r.1
        | none => r.1
      pure (sp start :: (out1 ++ [sp (lastPos out1)]), r.2)

/-- `expand_accent` (buffer positioned after the accent token) -/
def expandAccent (T : PTables) : Nat → Buf → Tok → M (List Tok × Buf)
  | 0, _, _ => outOfFuel
  | fuel + 1, buf, tok => do
    let a ← argBuffer T.toTables buf tok.pos true
    let e ← expandSequence T fuel a.1 none []
    let args := e.1
    let names := ((T.accents.find? (·.1 == tok.txt)).map (·.2))
    match names with
    | none => crash "parser.py:expand_accent:accent_macros[tok.txt]"
    | some names =>
      -- (c, remaining args)
      let split : Option Char × List Tok :=
        match args with
        | [] => (none, [])
        | t :: ts =>
          match t.txt with
          | [] => (none, args)
          | [c] => (some c, ts)
          | c :: cs => (some c, { t with txt := cs } :: ts)
      let c := split.1
      let rest := split.2
      let blank := match c with | none => true | some ch => isSpace ch
      if blank then
        let nm := strJoin [' '] names
        match T.unicodeNames.find? (·.1 == nm) with
        | some u => pure ({ kind := .text, pos := tok.pos, txt := u.2, fix := tok.fix || decide (1 < u.2.length) } :: rest, a.2)
        | none => do
          let er ← latexError T.toTables ("could not find UTF-8 character \"".toList ++ nm ++ ['"']) tok.pos
          pure (er, a.2)
      else
        match c with
        | none => crash "unreachable"
        | some ch =>
          if !isAsciiLetter ch then do
            let er ← latexError T.toTables "text-mode accent for non-letter".toList tok.pos
            pure (er, a.2)
          else
            match names.head? with
            | none => crash "parser.py:expand_accent:accent_macros[tok.txt][0]"
            | some n0 =>
              let lower := 'a' ≤ ch && ch ≤ 'z'
              let up : Char := if lower then Char.ofNat (ch.toNat - 32) else ch
              let nm := "LATIN ".toList ++ (if lower then "SMALL".toList else "CAPITAL".toList)
                          ++ " LETTER ".toList ++ [up] ++ " WITH ".toList ++ n0
              match T.unicodeNames.find? (·.1 == nm) with
              | some u => pure ({ kind := .text, pos := tok.pos, txt := u.2, fix := tok.fix || decide (1 < u.2.length) } :: rest, a.2)
              | none => do
                let er ← latexError T.toTables ("could not find UTF-8 character \"".toList ++ nm ++ ['"']) tok.pos
                pure (er, a.2)

/-- `parser_work`: scan, skip pre-pass, expand -/
def parserWork (T : PTables) : Nat → Str → M (List Tok)
  | 0, _ => outOfFuel
  | fuel + 1, latex => do
    let st0 ← get
    let saved := st0.latex
    modify (fun s => { s with latex := latex, nest := s.nest + 1 })
    let sc := scan T.toTables latex
    modify (fun s => { s with diags := s.diags ++ sc.diags })
    let st ← get
    let sp := skipPass st (sc.toks.length + 1) sc.toks []
    let toks ← (match sp.2.1 with
      | none => pure sp.1
      | some bpos => do
        let er ← latexError T.toTables
          ("cannot find closing LaTeX comment ".toList ++ reprStr st.skipEnd) bpos
        pure (sp.1 ++ er ++ sp.2.2))
    let r ← expandSequence T fuel toks none []
    modify (fun s => { s with latex := saved, nest := s.nest - 1 })
    pure r.1

/-- `init_package` -/
def initPackage (T : PTables) : Nat → Str → ModuleDef → Bool → List KeyVal → Nat → M (List Tok)
  | 0, _, _, _, _, _ => outOfFuel
  | fuel + 1, name, mod, builtin, options, position => do
    let st ← get
    if !name.isEmpty && (st.packages.find? (·.1 == name)).map (·.2) == some (st.globalOptions ++ options) then
      pure []
    else
      catchAll (do
        let reqOut ← mod.requires.foldlM (fun acc requ => do
          let s ← get
          let p := (s.packages.find? (·.1 == requ)).map (·.2)
          if p.isNone || p == some options then do
            let m := (findModule T false requ).getD (emptyModule requ)
            let o ← initPackage T fuel requ m false options position
            pure (acc ++ o)
          else pure acc) []
        if !name.isEmpty then
          modify (fun s => { s with packages := setPackage s.packages name (s.globalOptions ++ options) })
        let o ← modifyParameters T fuel mod options position
        pure (reqOut ++ o)) ("error loading module ".toList ++ reprStr name)

/-- `modify_parameters` with the translated effect of the module's `init_module` -/
def modifyParameters (T : PTables) : Nat → ModuleDef → List KeyVal → Nat → M (List Tok)
  | 0, _, _, _ => outOfFuel
  | fuel + 1, mod, options, position => do
    if mod.isOpaque then crash "opaque module (not modelled)"
    else do
      let st0 ← get
      -- babel computes its inject tokens from the options before anything else changes
      let inject0 := if mod.babelInject then babelLanguageToken T (st0.globalOptions ++ options) else []
      -- cleveref warns (at the place of the `\usepackage`) unless the option 'poorman' is given
      let cinj ← (if mod.crefInject && !poormanUsed options then latexError T.toTables T.crefMsgs.poorman position
                  else pure [])
      let inject := inject0 ++ cinj
      modify (fun s => { s with
        globalOptions := if mod.addsGlobalOptions then s.globalOptions ++ options else s.globalOptions,
        mathTextMacros := s.mathTextMacros ++ mod.addMathText,
        mathOperators := s.mathOperators ++ mod.addMathOps,
        newcommandIgnore := s.newcommandIgnore ++ mod.addIgnore,
        macros := mod.macros.foldl setMacro s.macros,
        envs := mod.envs.foldl setMacro s.envs })
      if !mod.macrosLatex.isEmpty then do
        let _ ← parserWork T fuel mod.macrosLatex
        pure inject
      else pure inject

/-- `parse_keyvals_list` -/
def parseKeyvals (T : PTables) : Nat → Buf → List (Str × Option (List Tok)) → M (List (Str × Option (List Tok)))
  | 0, _, _ => outOfFuel
  | fuel + 1, buf, acc =>
    match skipSpace buf with
    | [] => pure acc
    | b => do
      let keyToks := b.takeWhile (fun t => t.kind == .text && !(txtIs t "=" || txtIs t ","))
      let key ← getTextExpanded T fuel keyToks
      let b1 := skipSpace (b.drop keyToks.length)
      match b1 with
      | [] => pure (acc ++ [(key, none)])
      | t :: rest =>
        if txtIs t "," then parseKeyvals T fuel rest (acc ++ [(key, none)])
        else do
          -- skip '=' (whatever token it is), then leading space
          let r ← parseValue T fuel (skipSpace rest) []
          let val := match r.1.getLast? with
            | some l => if l.kind == .space then r.1.dropLast else r.1
            | none => r.1
          parseKeyvals T fuel (r.2.drop 1) (acc ++ [(key, some val)])

/-- the value loop of `parse_keyvals_list` -/
def parseValue (T : PTables) : Nat → Buf → List Tok → M (List Tok × Buf)
  | 0, _, _ => outOfFuel
  | fuel + 1, buf, val =>
    match buf with
    | [] => pure (val, [])
    | t :: rest =>
      if txtIs t "," then pure (val, buf)
      else if txtIs t "{" then do
        let r ← argBuffer T.toTables buf 0 true
        -- Python: `if buf.cur() is tok` (no closing brace: `arg_buffer` has pushed the brace back,
        -- followed by an error mark and everything it had collected).  With value semantics this
        -- holds exactly when the buffer returned by `argBuffer` is not shorter than the buffer
        -- before the call (a successful call consumes at least the brace).  Then the brace is an
        -- ordinary token of the value, and the loop goes on behind it (with the error mark).
        if r.2.length ≥ buf.length then parseValue T fuel (r.2.drop 1) (val ++ [t])
        else
          let seq := match r.1 with
            | [v] => if v.kind == .void then [] else
                [mkTok .special t.pos ['{'], v, mkTok .special v.pos ['}']]
            | s => [mkTok .special t.pos ['{']] ++ s ++ [mkTok .special ((s.getLast?.map (·.pos)).getD 0) ['}']]
          parseValue T fuel r.2 (val ++ seq)
      else parseValue T fuel rest (val ++ [t])

/-- `expand_keyvals` -/
def expandKeyvals (T : PTables) : Nat → List (Str × Option (List Tok)) → M (List KeyVal)
  | 0, _ => outOfFuel
  | _ + 1, [] => pure []
  | fuel + 1, (k, v) :: kvs => do
    let v' ← (match v with
      | none => pure none
      | some toks => do let s ← getTextExpanded T fuel toks; pure (some s))
    let r ← expandKeyvals T fuel kvs
    pure ({ key := k, val := v' } :: r)

/-- glossaries: `modify_description` -/
def modifyDescription (T : PTables) : Nat → List Tok → M (List Tok)
  | 0, _ => outOfFuel
  | fuel + 1, toks =>
    match capFirst T toks with
    | none => crash "glossaries.py:cap_first:txt[0]"
    | some ts => do
      let txt ← getTextExpanded T fuel ts
      match txt.getLast? with
      | some c =>
        if c == '.' || c == '!' || c == '?' then pure ts
        else
          match ts.getLast? with
          | some l => pure (ts ++ [mkFix .text l.pos ['.']])
          | none => crash "glossaries.py:modify_description:toks[-1]"
      | none => pure ts

/-- the Python handlers.  `buf` is the buffer behind the call (read only: `h_xspace`). -/
def callHandler (T : PTables) : Nat → Handler → Buf → MacroDef → List (List Tok) → Nat → M (List Tok)
  | 0, _, _, _, _, _ => outOfFuel
  | fuel + 1, h, buf, mac, args, pos =>
    let arg (k : Nat) : M (List Tok) := match args[k]? with
      | some a => pure a
      | none => crash "handler:args[k]"
    match h with
    | .none => pure []
    | .opaqueH _ => crash "opaque handler (not modelled)"
    | .newcommand => do
      let a1 ← arg 1; let a2 ← arg 2; let a3 ← arg 3; let a4 ← arg 4
      let name := getTextDirect a1
      let st ← get
      if st.newcommandIgnore.contains name then pure []
      else do
        let ns ← getTextExpanded T fuel a2
        let nargs : Nat :=
          if !ns.isEmpty && ns.all (fun c => (decimalValue T.decimalZeros c).isSome) then
            ns.foldl (fun acc c => acc * 10 + (decimalValue T.decimalZeros c).getD 0) 0
          else 0
        -- as in LaTeX: at most nine parameters (tested before any list of that length is built)
        if nargs > 9 then
          latexError T.toTables ("illegal number of arguments in definition of macro ".toList ++ name) pos
        else
          match a4.find? (fun t => match argRef t with | some k => k < 1 || k > nargs | none => false) with
          | some bad =>
            latexError T.toTables ("illegal argument #".toList ++ natToStr ((argRef bad).getD 0)
              ++ " in definition of macro ".toList ++ name) bad.pos
          | none =>
            if !a3.isEmpty then
              if nargs < 1 then
                match a1.head? with
                | some h1 => latexError T.toTables ("illegal default value in definition of macro ".toList ++ name) h1.pos
                | none => crash "handlers.py:h_newcommand:args[1][0]"
              else do
                let m : MacroDef := { name := name, args := 'O' :: List.replicate (nargs - 1) 'A', repl := a4, defaults := [a3] }
                modify (fun s => { s with macros := setMacro s.macros m })
                pure []
            else do
              let m : MacroDef := { name := name, args := List.replicate nargs 'A', repl := a4 }
              modify (fun s => { s with macros := setMacro s.macros m })
              pure []
    | .theorem title => do
      let a0 ← arg 0
      match a0.getLast? with
      | some l =>
        pure ([mkFix .text pos title, mkFix .space pos [' '], mkFix .text pos ['(']] ++ a0
              ++ [mkFix .text l.pos [')', '.'], mkFix .space l.pos [nl]])
      | none => pure [mkFix .text pos title, mkFix .text pos ['.'], mkFix .space pos [nl]]
    | .newtheorem => do
      let a0 ← arg 0; let a2 ← arg 2
      let name ← getTextExpanded T fuel a0
      let title ← getTextExpanded T fuel a2
      let m : MacroDef := { name := name, args := ['O'], handler := .theorem title }
      modify (fun s => { s with envs := setMacro s.envs m })
      pure []
    | .heading => do
      let a ← arg 2
      let txt ← getTextExpanded T fuel a
      match (strip txt).getLast?, a.getLast? with
      | some c, some l =>
        if !T.headingPunct.isEmpty && !T.headingPunct.contains [c] then pure (a ++ [mkTok .text l.pos ['.']])
        else pure a
      | some _, none => crash "handlers.py:h_heading:arg[-1]"
      | none, _ => pure a
    | .phantom => do
      let a ← arg 0
      let txt ← getTextExpanded T fuel a
      if txt.length > 0 then pure [mkTok .special pos "\\;".toList] else pure []
    | .hspace => do
      let a ← arg 1
      let txt ← getTextExpanded T fuel a
      if hspaceIsZero T txt then pure [] else pure [mkTok .space pos [' ']]
    | .cite => do
      let a0 ← arg 0
      match a0.getLast? with
      | some l =>
        pure ([mkFix .text pos "[0,".toList, mkFix .space pos [' ']] ++ a0 ++ [mkTok .text l.pos [']'], mkAction l.pos])
      | none => pure [mkFix .text pos "[0]".toList, mkAction pos]
    | .loadDefs => do
      let st ← get
      if !st.readMacros then pure []
      else do
        let a0 ← arg 0
        let file ← getTextExpanded T fuel a0
        let st1 ← get
        match st1.fs.find? (·.1 == file) with
        | none => latexError T.toTables ("could not read file ".toList ++ reprStr file) pos
        | some f => do
          let saved := st1.extracted
          let savedF := st1.foreign
          modify (fun s => { s with extracted := [] })
          let toks ← parserWork T fuel f.2
          modify (fun s => { s with extracted := saved, foreign := savedF })
          pure (filterSetToks toks pos true)
    | .loadModule cls => do
      let a0 ← arg 0; let a1 ← arg 1
      let kv ← parseKeyvals T fuel a0 []
      let options ← expandKeyvals T fuel kv
      let packs ← getTextExpanded T fuel a1
      let names := ((splitOn ',' packs []).map strip).filter (fun p => !p.isEmpty)
      let out ← names.foldlM (fun acc p => do
        let m := (findModule T cls p).getD (emptyModule p)
        let o ← initPackage T fuel p m false options pos
        pure (acc ++ o)) []
      pure (filterSetToks out pos false)
    | .foreignlanguage => do
      let a1 ← arg 1; let a2 ← arg 2
      let l ← getTextExpanded T fuel a1
      match translateLang T (strip l), a2.getLast? with
      | some lt, some last => pure (mkLang pos lt false false T.foreignBrk :: a2 ++ [mkLang last.pos [] true false false])
      | none, _ => crash "babel.py:translate_lang:language_map['english']"
      | _, none => crash "babel.py:h_foreignlanguage:args[2][-1]"
    | .selectlanguage => do
      let a0 ← arg 0
      let l ← getTextExpanded T fuel a0
      match translateLang T (strip l) with
      | some lt => pure [mkLang pos lt false true T.selectBrk]
      | none => crash "babel.py:translate_lang:language_map['english']"
    | .beginOtherlang => do
      let a0 ← arg 0
      let l ← getTextExpanded T fuel a0
      match translateLang T (strip l) with
      | some lt => pure [mkLang pos lt false false T.otherBrk]
      | none => crash "babel.py:translate_lang:language_map['english']"
    | .endOtherlang => pure [mkLang pos [] true false false, mkTok .xmacro pos "\\babel@skip@space".toList]
    | .endOtherlangStar => pure [mkLang pos [] true false false]
    | .substack => do
      let a0 ← arg 0
      pure (substackLoop 0 a0)
    | .proof => do
      let a0 ← arg 0
      let st ← get
      let ret := if !a0.isEmpty then a0
        else [mkFix .text pos (((settingsOf T (curSettings st)).map (·.proofName)).getD [])]
      match ret.getLast? with
      | some l => pure (ret ++ [mkFix .text l.pos ['.'], mkFix .space l.pos [nl]])
      | none => crash "amsthm.py:h_proof:ret[-1]"
    | .bibCite =>
      match bibCite T args pos with
      | some o => pure o
      | none => crash "biblatex.py:h_cite:args[k]"
    | .footcite =>
      match bibCite T args pos with
      | some o =>
        let lp := (o.getLast?.map (·.pos)).getD pos
        pure ([mkTok .xmacro pos "\\footnote".toList, mkTok .special pos ['{']] ++ o
              ++ [mkFix .text lp ['.'], mkTok .special lp ['}'], mkAction lp])
      | none => crash "biblatex.py:h_cite:args[k]"
    | .xspace =>
      match buf.head? with
      | some t => if T.xspaceExcl.contains t.txt then pure [] else pure [mkTok .space pos [' ']]
      | none => pure []
    | .gls key cf ca => do
      let a1 ← arg 1
      let label ← getTextExpanded T fuel a1
      let st ← get
      let entry := (st.glossary.find? (·.1 == label)).bind (fun e => e.2.find? (·.1 == key))
      -- `get_tokens` returns the stored value, which is `None` for a key given without `=`:
      -- treated like a missing label
      match entry with
      | none => latexError T.toTables glsMissing pos
      | some (_, none) => latexError T.toTables glsMissing pos
      | some (_, some toks) =>
        match (if cf then capFirst T toks else some toks) with
        | none => crash "glossaries.py:cap_first:txt[0]"
        | some t1 =>
          let t2 := if ca then capAll T t1 else t1
          pure (t2.map (fun t => { t with pos := pos, fix := true }))
    | .newacronym => do
      let a2 ← arg 2
      modifyDescription T fuel a2
    | .newglossaryentry => do
      let a1 ← arg 1
      let kv ← parseKeyvals T fuel a1 []
      -- dict(...).get('description') or []  (last duplicate wins)
      let d := (kv.reverse.find? (·.1 == "description".toList)).bind (·.2)
      modifyDescription T fuel (d.getD [])
    | .parseGlsdefs => do
      let a0 ← arg 0; let a1 ← arg 1
      let label ← getTextExpanded T fuel a0
      let kv ← parseKeyvals T fuel a1 []
      -- dict semantics: later duplicate keys overwrite earlier ones (position of first kept)
      let dedup := kv.foldl (fun acc e =>
        if acc.any (·.1 == e.1) then acc.map (fun x => if x.1 == e.1 then e else x) else acc ++ [e]) []
      modify (fun s => { s with glossary := setGloss s.glossary label dedup })
      pure []

    -- package cleveref (kept behind the other cases: proofs refer to the cases above by equation number)
    | .crefWarn => latexError T.toTables T.crefMsgs.sedNotLoaded pos
    | .readSed => do
      let st ← get
      if !st.readMacros then pure []
      else do
        let a0 ← arg 0
        let file ← getTextExpanded T fuel a0
        let st1 ← get
        match st1.fs.find? (·.1 == file) with
        | none => latexError T.toTables ("could not read file ".toList ++ reprStr file) pos
        | some f => do
          readSedText T f.2
          pure []
    | .cref plain star => do
      let a0 ← arg 0; let a1 ← arg 1
      -- `cref[star]`: the star argument is `[]` or the single token '*'
      let tbl := if (getTextDirect a0).isEmpty then plain else star
      let rep := getTextDirect a1
      match Cleveref.lookupLast tbl rep with
      | some str => crefToks T str pos
      | none => latexError T.toTables (Cleveref.fmt T.crefMsgs.crefUndef [mac.name, rep]) pos
    | .crefrange plain star => do
      let a0 ← arg 0; let a1 ← arg 1; let a2 ← arg 2
      let tbl := if (getTextDirect a0).isEmpty then plain else star
      let r1 := getTextDirect a1
      let r2 := getTextDirect a2
      match Cleveref.lookupLast tbl (r1, r2) with
      | some str => crefToks T str pos
      | none => latexError T.toTables (Cleveref.fmt T.crefMsgs.crefrangeUndef [mac.name, r1, r2]) pos

/-- `expand_math_section` — one loop iteration per unit of fuel -/
def expandMathSection (T : PTables) : Nat → Buf → Nat → List Str → Option Str → List Tok → M MathSec
  | 0, _, _, _, _, _ => outOfFuel
  | fuel + 1, buf, start, toksStop, envStop, out => do
    let fin (o : List Tok) : List Tok := o.filter (fun t => !(t.kind == .void || t.kind == .action))
    match skipSpace buf with
    | [] => do
      let e ← latexError T.toTables "missing end of maths".toList start
      pure { out := fin (e ++ out), term := none, buf := [] }
    | tok :: rest =>
      if tok.kind == .par then do
        let e ← latexError T.toTables "missing end of maths".toList start
        pure { out := fin (e ++ out), term := some tok, buf := rest }
      else if isVerb tok then
        -- before all tests on `tok.txt`: verbatim text is no markup
        expandMathSection T fuel rest start toksStop envStop (out ++ [mkTok .mathElem tok.pos tok.txt])
      else if toksStop.contains tok.txt then pure { out := fin out, term := some tok, buf := rest }
      else if tok.kind == .xbegin then do
        let r ← beginEnvironment T fuel rest tok true
        expandMathSection T fuel (r.1 ++ r.2) start toksStop envStop out
      else if tok.kind == .xend then do
        let r ← endEnvironment T fuel rest tok envStop
        if r.1.2 then pure { out := fin (out ++ r.1.1), term := some tok, buf := r.2 }
        else expandMathSection T fuel (r.1.1 ++ r.2) start toksStop envStop out
      else if tok.kind == .xmacro then do
        let st ← get
        if st.mathTextMacros.contains tok.txt then do
          let a ← argBuffer T.toTables rest tok.pos true
          let e ← expandSequence T fuel a.1 none []
          expandMathSection T fuel a.2 start toksStop envStop (out ++ e.1)
        else do
          let r ← expandMacro T fuel rest tok true
          let st1 ← get
          let pre : List Tok :=
            if T.mathSpace.contains tok.txt then [mkTok .mathSpace tok.pos [' ']]
            else if st1.mathOperators.contains tok.txt then [mkTok .mathOper tok.pos tok.txt]
            else if !((lookupMacro st1 tok.txt).isSome || T.mathIgnore.contains tok.txt) then [mkTok .mathElem tok.pos tok.txt]
            else []
          expandMathSection T fuel (pre ++ r.1 ++ r.2) start toksStop envStop out
      else do
        let st ← get
        if isMathTok tok then expandMathSection T fuel rest start toksStop envStop (out ++ [tok])
        else if T.mathIgnore.contains tok.txt then expandMathSection T fuel rest start toksStop envStop out
        else if isLang tok then expandMathSection T fuel rest start toksStop envStop out
        else if T.mathSpace.contains tok.txt then
          expandMathSection T fuel rest start toksStop envStop (out ++ [mkTok .mathSpace tok.pos [' ']])
        else
          match mathSpecialTxt T tok with
          | none => crash "mathparser.py:special:special_tokens[t.txt]"
          | some txt =>
            if st.mathOperators.contains tok.txt then
              expandMathSection T fuel rest start toksStop envStop (out ++ [mkTok .mathOper tok.pos txt])
            else expandMathSection T fuel rest start toksStop envStop (out ++ [mkTok .mathElem tok.pos txt])

/-- `expand_inline_math` (buffer positioned after the opening token) -/
def expandInlineMath (T : PTables) : Nat → Buf → Tok → M (List Tok × Buf)
  | 0, _, _ => outOfFuel
  | fuel + 1, buf, tok => do
    let sec ← expandMathSection T fuel buf tok.pos ["$".toList, "\\)".toList] none []
    let st ← get
    let code := curSettings st
    match rotOf st code, settingsOf T code with
    | some rot, some ls =>
      match replaceSection T ls.opText ls.opDefault true (detectMathParts sec.out []) true true rot.inl with
      | none => crash "mathparser.py:replace_section"
      | some rs => do
        modify (fun s => setRot s { rot with inl := rs.repls })
        let out := mkAction tok.pos :: rs.out
        pure (out ++ [mkAction ((out.getLast?.map (·.pos)).getD tok.pos)], sec.buf)
    | _, _ => crash "parameters.py:lang_context"

/-- the row/section loop of `expand_display_math`.  Third component: `errors`, the error mark of
    an unterminated last section (`not end or type(end) is ParagraphToken`; `latex_error_mark`,
    without a second message) at the `start` of that section -/
def displayLoop (T : PTables) : Nat → Buf → Nat → Str → Bool → Bool → List Tok → M (List Tok × Buf × List Tok)
  | 0, _, _, _, _, _, _ => outOfFuel
  | fuel + 1, buf, start, envName, firstSection, nextRepl, out => do
    let sec ← expandMathSection T fuel buf start ["&".toList, "\\\\".toList, "$$".toList, "\\]".toList] (some envName) []
    let st ← get
    let code := curSettings st
    match rotOf st code, settingsOf T code with
    | some rot, some ls =>
      match replaceSection T ls.opText ls.opDefault false (detectMathParts sec.out []) firstSection nextRepl rot.disp with
      | none => crash "mathparser.py:replace_section"
      | some rs => do
        modify (fun s => setRot s { rot with disp := rs.repls })
        let out1 := out ++ rs.out
        let lp := (out1.getLast?.map (·.pos)).getD start
        let nextStart (b : Buf) : Nat := match b.head? with | some t => t.pos | none => start
        match sec.term with
        | some e =>
          if txtIs e "&" then
            displayLoop T fuel sec.buf (nextStart sec.buf) envName false rs.nextRepl (out1 ++ [mkFix .space lp [' ']])
          else if txtIs e "\\\\" then do
            let b ← parseNewlineOption T sec.buf false
            displayLoop T fuel b (nextStart b) envName true rs.nextRepl (out1 ++ [mkFix .space lp [nl, ' ', ' ']])
          else if e.kind == .par then
            pure (out1, sec.buf, latexErrorToks T.toTables "missing end of maths".toList start st.latex.length)
          else pure (out1, sec.buf, [])
        | none => pure (out1, sec.buf, latexErrorToks T.toTables "missing end of maths".toList start st.latex.length)
    | _, _ => crash "parameters.py:lang_context"

/-- `expand_display_math` (buffer positioned after the opening token) -/
def expandDisplayMath (T : PTables) : Nat → Buf → Tok → Str → Bool → M (List Tok × Buf)
  | 0, _, _, _, _ => outOfFuel
  | fuel + 1, buf, tok, envName, remove => do
    let start := tok.pos
    let r ← displayLoop T fuel buf start envName true true [mkAction start, mkFix .space start [' ', ' ']]
    let out := r.1
    let errors := r.2.2
    let lp := (out.getLast?.map (·.pos)).getD start
    let txt := strip (getTextDirect out)
    let punct : Option Char := match txt.getLast? with
      | some c => if T.mathPunctuation.contains [c] then some c else none
      | none => none
    if remove then
      match punct with
      | some c => pure (errors ++ [mkFix .text lp [c]], r.2.1)
      | none => pure (errors ++ [mkAction lp], r.2.1)
    else do
      let st ← get
      if st.displayedSimple then
        match (rotOf st (curSettings st)).bind (·.disp.head?) with
        | none => crash "mathparser.py:expand_display_math:math_repl_display[0]"
        | some d0 =>
          let o := [mkAction start, mkFix .space start [' ', ' ']] ++ errors ++ [mkFix .text start d0]
                    ++ (match punct with | some c => [mkFix .text start [c]] | none => [])
          pure (o ++ [mkAction start], r.2.1)
      else pure (out ++ [mkAction lp], r.2.1)

end

end Yalafi
