/-
  Model/Checks.lean — the two regular-expression scans of `yalafi/shell/checks.py` that
  Model/Shell.lean takes as given:

  (1) the ACCEPT patterns of `create_single_letter_matches`:
        accept = cmdline.single_letters.split('|');  f(s) for s in accept if s
        f: '~' -> U+00A0, '\\,' -> U+202F, re.escape, r'\b' in front / behind where the
        (escaped) pattern starts / ends with a letter (`str.isalpha`), r'(' … r')'
        hits += (m.start(1), m.end(1)) for m in re.finditer(r'(?=' + pat + r')', plain)
      `re.escape` puts a backslash in front of the special characters only, so the first /
      last character of the escaped pattern is a letter iff the first / last character of the
      substituted alternative is one, and the escaped pattern matches exactly the literal text.
      `(?=(pat))` is an empty match: `finditer` tries every start offset 0 … len(plain).

  (2) `create_equation_punct_messages`:
        equ  = \b(?:r1|r2|…)\b
        expr = (equ(?=\s*[,;:]?\s*equ))|equ\s*(?:(\.)|[,;:]?\s*([^\W0-9_]+))?
        messages: the matches m of re.finditer(expr, plain) with
                  not (m[1] or dot or word and word[0].islower())
      Hand-written matcher (backtracking semantics of `re`, worked out by hand):
      * at a start offset `p` the candidates are the placeholders, IN THE GIVEN ORDER, that stand
        at `p` with a word boundary on both sides (`equAt`);
      * alternative 1: the first candidate `r` for which the look-ahead succeeds — every split
        of the white space (`\s*` may give characters back), an optional `,;:`, white space,
        a candidate — is the match `plain[p : p+|r|]`, group 1 is set: no message;
      * otherwise alternative 2 with the FIRST candidate `r` (it cannot fail: the tail is
        optional): `\s*` takes the whole run of white space up to `q`; then
          - `plain[q] = '.'`: match up to `q+1`, group `dot`: no message;
          - else optional `,;:`, the whole white space after it, up to `q2`, then the maximal
            run `w` of `[^\W0-9_]` characters: if `w` is not empty the match ends behind the
            word and a message is produced iff `not plain[q2].islower()`;
          - else the optional group fails as a whole: the match is the placeholder PLUS the
            white space behind it (`\s*` keeps what it took, the empty option of `(…)?`
            succeeds at once), all groups are unset: message of length `q - p`;
        (giving back white space or the `,;:` never helps the word: a white-space character
        or `,;:` is no word character in the interpreter's tables — `checksClassesOk`);
      * `finditer`: non-overlapping, left to right, the next search starts where the last
        match ended (all matches are non-empty).
      Restrictions: the placeholders are taken literally (the code does NOT escape them: the
      harness asserts that the real placeholders contain no regular-expression operator) and
      empty placeholders are ignored (the real lists contain none; with an empty one Python's
      empty-match rules of `finditer` would apply).

  Character classes: `T.isWord` (`\w`), `T.isAlpha` (`str.isalpha`), `T.isLower`
  (`str.islower`) from the translated tables, `isSpace` (`\s` = `str.isspace`, Basic.lean).
-/
import YalafiVerif.Model.Shell
namespace Yalafi

/-! ### positions, `\b`, literal occurrences -/

def optWord (T : Tables) : Option Char → Bool
  | some c => T.isWord c
  | none => false

def optAlpha (T : Tables) : Option Char → Bool
  | some c => T.isAlpha c
  | none => false

/-- the character in front of offset `p` -/
def prevChar (plain : Str) (p : Nat) : Option Char := if p = 0 then none else plain[p - 1]?

/-- `\b` at offset `p`: exactly one of the two neighbours is a word character -/
def wordBoundaryAt (T : Tables) (plain : Str) (p : Nat) : Bool :=
  optWord T (prevChar plain p) != optWord T plain[p]?

/-- `plain[p : p + len(r)] == r` -/
def litAt (r plain : Str) (p : Nat) : Bool := (plain.drop p).take r.length == r

/-! ### (1) accepted patterns of --single-letters -/

/-- `s.split('|')` -/
def splitBar : Str → List Str
  | [] => [[]]
  | c :: cs =>
    if c == '|' then [] :: splitBar cs
    else match splitBar cs with
      | h :: t => (c :: h) :: t
      | [] => [[c]]

/-- `s.replace('\\,', '\N{NARROW NO-BREAK SPACE}')` -/
def replNarrow : Str → Str
  | '\\' :: ',' :: cs => Char.ofNat 0x202F :: replNarrow cs
  | c :: cs => c :: replNarrow cs
  | [] => []

/-- the two substitutions of `f`, in the order of the code -/
def acceptSubst (s : Str) : Str :=
  replNarrow (s.map (fun c => if c == '~' then Char.ofNat 0xA0 else c))

/-- the literal texts of the accepted alternatives -/
def acceptAlts (accept : Str) : List Str :=
  ((splitBar accept).filter (fun s => !s.isEmpty)).map acceptSubst

/-- the pattern built from alternative `a` matches at offset `p` -/
def altAt (T : Tables) (a plain : Str) (p : Nat) : Bool :=
  litAt a plain p
    && (!optAlpha T a.head? || wordBoundaryAt T plain p)
    && (!optAlpha T a.getLast? || wordBoundaryAt T plain (p + a.length))

def altHits (T : Tables) (a plain : Str) : List (Nat × Nat) :=
  ((List.range (plain.length + 1)).filter (altAt T a plain)).map (fun p => (p, p + a.length))

/-- `hits` of `create_single_letter_matches` -/
def acceptHits (T : Tables) (accept plain : Str) : List (Nat × Nat) :=
  (acceptAlts accept).flatMap (fun a => altHits T a plain)

/-- offsets of the messages of `--single-letters <accept>` -/
def singleLetterMessages (T : Tables) (accept plain : Str) : List Nat :=
  singleLetterOffsets T plain (acceptHits T accept plain)

/-! ### (2) --equation-punctuation -/

/-- length of the run of `\s` characters at offset `p` -/
def wsRun (plain : Str) (p : Nat) : Nat := ((plain.drop p).takeWhile isSpace).length

/-- `[^\W0-9_]` -/
def isLetterish (T : Tables) (c : Char) : Bool :=
  T.isWord c && !('0' ≤ c && c ≤ '9') && c != '_'

/-- length of the run of `[^\W0-9_]` characters at offset `p` -/
def wordRun (T : Tables) (plain : Str) (p : Nat) : Nat :=
  ((plain.drop p).takeWhile (isLetterish T)).length

def optPunct : Option Char → Bool
  | some c => c == ',' || c == ';' || c == ':'
  | none => false

def optLower (T : Tables) : Option Char → Bool
  | some c => T.isLower c
  | none => false

/-- `\b r \b` matches at offset `p` -/
def equAt (T : Tables) (plain : Str) (p : Nat) (r : Str) : Bool :=
  !r.isEmpty && litAt r plain p && wordBoundaryAt T plain p && wordBoundaryAt T plain (p + r.length)

/-- the placeholders that `equ` can match at `p`, in the order the alternation tries them -/
def equCands (T : Tables) (repls : List Str) (plain : Str) (p : Nat) : List Str :=
  repls.filter (equAt T plain p)

/-- `\s*equ` matches at `a` (the white space may be taken partially) -/
def wsThenEqu (T : Tables) (repls : List Str) (plain : Str) (a : Nat) : Bool :=
  (List.range (wsRun plain a + 1)).any (fun j => repls.any (equAt T plain (a + j)))

/-- the look-ahead `(?=\s*[,;:]?\s*equ)` at offset `e` -/
def followedByEqu (T : Tables) (repls : List Str) (plain : Str) (e : Nat) : Bool :=
  (List.range (wsRun plain e + 1)).any (fun i =>
    wsThenEqu T repls plain (e + i) || (optPunct plain[e + i]? && wsThenEqu T repls plain (e + i + 1)))

/-- alternative 2 behind the placeholder that ends at `e`: end of the match, message? -/
def tailMatch (T : Tables) (plain : Str) (e : Nat) : Nat × Bool :=
  let q := e + wsRun plain e
  if plain[q]? == some '.' then (q + 1, false)
  else
    let q1 := if optPunct plain[q]? then q + 1 else q
    let q2 := q1 + wsRun plain q1
    let w := wordRun T plain q2
    if w == 0 then (q, true) else (q2 + w, !optLower T plain[q2]?)

/-- the match of `expr` that starts at offset `p`: its end and whether it yields a message -/
def eqMatchAt (T : Tables) (repls : List Str) (plain : Str) (p : Nat) : Option (Nat × Bool) :=
  match (equCands T repls plain p).find? (fun r => followedByEqu T repls plain (p + r.length)) with
  | some r => some (p + r.length, false)
  | none =>
    match equCands T repls plain p with
    | [] => none
    | r :: _ => some (tailMatch T plain (p + r.length))

/-- `re.finditer(expr, plain)`: (start, end, message?) of every match -/
def eqScan (T : Tables) (repls : List Str) (plain : Str) : Nat → Nat → List (Nat × Nat × Bool)
  | 0, _ => []
  | fuel + 1, p =>
    match eqMatchAt T repls plain p with
    | none => eqScan T repls plain fuel (p + 1)
    | some em => (p, em.1, em.2) :: eqScan T repls plain fuel em.1

def eqMatches (T : Tables) (repls : List Str) (plain : Str) : List (Nat × Nat × Bool) :=
  eqScan T repls plain (plain.length + 1) 0

/-- (offset, length) of the messages of `create_equation_punct_messages` -/
def eqPunctMessages (T : Tables) (repls : List Str) (plain : Str) : List (Nat × Nat) :=
  (eqMatches T repls plain).filterMap (fun m => if m.2.2 then some (m.1, m.2.1 - m.1) else none)

/-- the assumption of `tailMatch` on the character classes: white space and `, ; : .` are
    no word characters (a closed fact of the generated tables) -/
def spaceCodes : List Nat :=
  [9, 10, 11, 12, 13, 28, 29, 30, 31, 32, 0x85, 0xA0, 0x1680, 0x2000, 0x2001, 0x2002, 0x2003, 0x2004,
   0x2005, 0x2006, 0x2007, 0x2008, 0x2009, 0x200A, 0x2028, 0x2029, 0x202F, 0x205F, 0x3000]

def checksClassesOk (T : Tables) : Bool :=
  (spaceCodes ++ [44, 59, 58, 46]).all (fun n => !T.isWord (Char.ofNat n))

end Yalafi
