/-
  Model/Tables.lean — the data the filter is driven by.  An instance is
  *generated from /repo on every run* (Generated/Tables.lean); model functions
  and theorems are parametric in `T : Tables`.
-/
import YalafiVerif.Model.Basic
namespace Yalafi

/-- `ParserLanguageSettings` (the `_vowel` lists alias the plain ones today; the
    translator checks that and `WF` records it). -/
structure LangSettings where
  code : Str
  proofName : Str
  inlineRepl : List Str
  displayRepl : List Str
  opText : List (Str × Str)
  opDefault : Option Str
  langChange : List Str
  shortMacros : List (Str × Str)
deriving Repr, Inhabited

structure Tables where
  /-- `Parameters.special_tokens` in dict order -/
  special : List (Str × Str)
  /-- `Scanner.special_tokens_sorted` exactly as Python computed it -/
  specialSorted : List Str
  /-- `Parameters.accent_macros` -/
  accents : List (Str × List Str)
  mark : Str
  markVerbose : Bool
  commentSkipBegin : Str
  commentSkipEnd : Str
  langs : List LangSettings
  /-- first code point of every run of ten Unicode decimal digits (`str.isdecimal`) -/
  decimalZeros : List Nat
  /-- `str.isalpha` as inclusive code-point ranges -/
  alphaRanges : List (Nat × Nat)
  /-- regex `\w` for `str` patterns: `isalnum() or '_'` -/
  wordRanges : List (Nat × Nat)
  /-- `str.islower` -/
  lowerRanges : List (Nat × Nat)
  /-- code points whose `upper()` differs from themselves -/
  upperMap : List (Nat × Str)
deriving Repr, Inhabited

def inRanges (rs : List (Nat × Nat)) (c : Char) : Bool :=
  rs.any (fun r => r.1 ≤ c.toNat && c.toNat ≤ r.2)

def Tables.isAlpha (T : Tables) (c : Char) : Bool := inRanges T.alphaRanges c
def Tables.isWord (T : Tables) (c : Char) : Bool := inRanges T.wordRanges c
def Tables.isLower (T : Tables) (c : Char) : Bool := inRanges T.lowerRanges c
def Tables.upper (T : Tables) (c : Char) : Str :=
  match T.upperMap.find? (·.1 == c.toNat) with
  | some e => e.2
  | none => [c]

def Tables.specialVal (T : Tables) (k : Str) : Option Str :=
  (T.special.find? (·.1 == k)).map (·.2)

def Tables.isAccent (T : Tables) (k : Str) : Bool :=
  T.accents.any (·.1 == k)

end Yalafi
