/-
  Model/ProtoReports.lean — driver operations for Model/Reports.lean.
    REPORTS   charmap tex offset <json length>   -> ok <located> | fatal | crash site
    LOCATE    tex offset length                   -> ok <located>
       <located> = offset length lin col  (fromy fromx toy tox) x json, xml, xml-b
    NUMS      nums                                -> ok <n> line*  file
    TRANSNUM  tex plain charmap starts lin col    -> ok none | ok some lin col flag
-/
import YalafiVerif.Model.Proto
import YalafiVerif.Model.Reports
namespace Yalafi.Proto
open Yalafi.Reports

/-- the JSON value of `m['length']`, by a tag (as `jfield` of Driver.lean) -/
def jfieldR : R (Option Json) := do
  let tag ← next
  match tag with
  | "n" => pure none
  | "i" => do let v ← int; pure (some (.int v))
  | "t" => pure (some (.bool true))
  | "f" => pure (some (.bool false))
  | "s" => pure (some (.str []))
  | "d" => pure (some .float)
  | "z" => pure (some .null)
  | "a" => pure (some (.arr []))
  | "o" => pure (some (.obj []))
  | _ => throw "bad json tag"

def encPriv (p : Priv) : List String := [toString p.fromy, toString p.fromx, toString p.toy, toString p.tox]

def encLocated (l : Located) : List String :=
  [toString l.offset, toString l.length, toString l.lin, toString l.col] ++ encPriv l.json ++ encPriv l.xml ++ encPriv l.xmlb

def opReports : R (List String) := do
  let cm ← intList
  let tex ← str
  let off ← int
  let len ← jfieldR
  match reportAll cm tex off len with
  | .ok l => pure ("ok" :: encLocated l)
  | .fatal => pure ["fatal"]
  | .crash s => pure ["crash", s]

def opLocate : R (List String) := do
  let tex ← str
  let off ← int
  let len ← int
  pure ("ok" :: encLocated (locate tex off len))

def opNums : R (List String) := do
  let nums ← intList
  let ls := writeNums nums
  pure (["ok", toString ls.length] ++ ls.map encStr ++ [encStr (writeOutput ([], nums)).2])

def opTransNum : R (List String) := do
  let tex ← str
  let plain ← str
  let cm ← intList
  let starts ← natList
  let lin ← int
  let col ← int
  match translateNumbers tex plain cm starts lin col with
  | none => pure ["ok", "none"]
  | some r => pure ["ok", "some", toString r.lin, toString r.col, encBool r.flag]

end Yalafi.Proto
