/-
  Model/Html.lean — the STRUCTURE of `yalafi/shell/genhtml.py: generate_html`.

  What is modelled exactly (statement by statement of the Python function):
  * `tex2txt.get_line_starts` (`getLineStarts`): `0` followed by `i + 1` for every line break at
    index `i`.  For a text with `N` line breaks the list has `N + 1` entries; its last entry is
    `len(tex)` iff the text ends in a line break (or is empty), otherwise it is the begin of the
    unterminated last line — which therefore lies behind `starts[len(starts) - 1]` and is never
    part of a region slice.  (`proofreader.py` appends a line break to a file that lacks one
    before `generate_html` sees the text.)
  * the per-match data (`computeH`): the `fatal` test on `beg`/`end`, `h.unsure`, `h.beg`,
    `h.end` with `max(1, length)`, the repair `h.end <= h.beg`, the two HACKs (backslash + macro
    name through `correctMarkMacroname`; unsure + letter → to the end of the word), `h.beglin`,
    `h.endlin`, `h.lin`.  `tex[h.beg]` raises `IndexError` behind the end of the text: outcome
    `crash`.  A map entry `0` gives `h.beg = -1`, which Python reads as "last character"
    (`tex[-1]`, `tex.count('\n', 0, -1)`, `tex[-1:h.end]`): modelled too (`pyEnd`, `pyIndex`),
    `h.beg` is an `Int` for this reason.
  * widening by `context`, clamping with `len(starts) - 1` (`widen`); `cmdline.context` is a
    natural number here: `shell.py` replaces a negative value by `int(1e8)` before any report is
    written (`normContext`).
  * grouping into regions (`groupAux`, `maxEndlin`).
  * the assembly of one region (`regionPieces`, `regionOverlaps`, `mkRegion`), the list of
    overlapping messages, `line_numbers`, the "no problems" case (`noProblems`).
  * Python slices clamp: `slice tex a b = tex[a:b]` for `0 ≤ a, b`, `sliceI` for a begin `-1`.
  * rows: `protect_html` turns every line break into `<br>\n`, `generate_highlight` closes and
    reopens its tag around every `<br>\n`, each region is followed by one more `<br>\n`, and
    `add_line_numbers` makes one table row per `<br>\n`: the rows of a region are its tagged
    characters split at the line breaks (`splitRows`), the last row being the piece before the
    region's own `<br>\n`.

  What is abstracted: a highlight tag is the opaque piece `hi idx text` (idx = position of the match
  in `matches`); the title attribute, styles and the page frame are not modelled
  (`protectHtml` theorems cover the escaping).

  Letter classes: `tex[h.beg].isalpha()` is `T.isAlpha`; `[^\W0-9_]` is `T.isWord` minus ASCII
  digits and `_` (`isWordLetter`; NOT `isLetterLike` of Model/Shell.lean, which has an extra
  `isAlpha` conjunct).  The theorems hold for every `T`.
-/
import YalafiVerif.Model.Shell
namespace Yalafi
namespace Html

/-! ### line starts, slices -/

/-- `i + 1` for every line break at index `i` (indices start at `off`) -/
def lineStartsAux : Nat → Str → List Nat
  | _, [] => []
  | i, c :: cs => if c == '\n' then (i + 1) :: lineStartsAux (i + 1) cs else lineStartsAux (i + 1) cs

/-- `tex2txt.get_line_starts(s)` = `[m.start(0) for m in re.finditer(r'\n', '\n' + s)]` -/
def getLineStarts (s : Str) : List Nat := 0 :: lineStartsAux 0 s

-- Python `tex[a:b]` for `0 ≤ a`, `0 ≤ b` (clamping; empty for `a ≥ b`) is `Yalafi.slice` of
-- Model/Basic.lean: `slice s a b = (s.take b).drop a`

/-- a slice end / `count` end that may be negative (Python adds `len`, then clamps at `0`) -/
def pyEnd (tex : Str) (i : Int) : Nat := if i < 0 then ((tex.length : Int) + i).toNat else i.toNat

/-- Python `tex[a:b]` for an `a` that may be negative and `0 ≤ b` -/
def sliceI (tex : Str) (a : Int) (b : Nat) : Str := (tex.take b).drop (pyEnd tex a)

/-- Python `tex[i]` (`none` = IndexError) -/
def pyIndex (tex : Str) (i : Int) : Option Char :=
  if 0 ≤ i then tex[i.toNat]? else if -i ≤ tex.length then tex[tex.length - (-i).toNat]? else none

/-- `[^\W0-9_]` -/
def isWordLetter (T : Tables) (c : Char) : Bool :=
  T.isWord c && !('0' ≤ c && c ≤ '9') && c != '_'

/-! ### per-match data -/

structure HData where
  /-- position of the match in `matches` -/
  idx : Nat
  unsure : Bool
  /-- `h.beg` (`-1` for a map entry `0`) -/
  beg : Int
  /-- `h.end` -/
  fin : Nat
  beglin : Nat
  endlin : Nat
  lin : Nat
deriving Repr, Inhabited, DecidableEq

/-- `h.end` after the two HACKs; `c = tex[h.beg]` -/
def hackEnd (T : Tables) (tex : Str) (unsure : Bool) (hb he : Int) (c : Char) : Int :=
  if he == hb + 1 && c == '\\' then hb + correctMarkMacroname hb 1 tex
  else if unsure && T.isAlpha c then
    -- re.search(r'\A.[^\W0-9_]+', tex[h.beg:]): `.` takes tex[h.beg] (a letter, no line break)
    let rest := if hb < 0 then [] else tex.drop (hb.toNat + 1)
    let n := (rest.takeWhile (isWordLetter T)).length
    if n == 0 then he else hb + 1 + n
  else he

/-- the body of the first loop of `generate_html` for one match -/
def computeH (T : Tables) (tex : Str) (charmap : List Int) (idx : Nat) (offset length : Int) : SOut HData :=
  let n : Int := charmap.length
  let e := offset + max 1 length
  if offset < 0 || e < 0 || offset ≥ n || e ≥ n then .fatal else
  match charmap[offset.toNat]?, charmap[(max offset (e - 1)).toNat]? with
  | some cb, some ce =>
    let unsure := decide (cb < 0) || decide (ce < 0)
    let hb : Int := iabs cb - 1
    let he0 : Int := iabs ce
    let he1 : Int := if unsure || he0 ≤ hb then hb + 1 else he0
    -- `tex[h.beg]` is evaluated iff `h.end == h.beg + 1` (an unsure match always has that)
    let cOpt : Option (Option Char) := if he1 == hb + 1 then some (pyIndex tex hb) else none
    match cOpt with
    | some none => .crash "genhtml.py:generate_html"
    | _ =>
      let he2 : Int := match cOpt with
        | some (some c) => hackEnd T tex unsure hb he1 c
        | _ => he1
      let bl := ((tex.take (pyEnd tex hb)).count '\n')
      .ok { idx := idx, unsure := unsure, beg := hb, fin := he2.toNat,
            beglin := bl, endlin := (tex.take he2.toNat).count '\n' + 1, lin := bl }
  | _, _ => .crash "genhtml.py:generate_html:charmap"

/-- the first loop: stops at the first match that is fatal or raises -/
def hdataFrom (T : Tables) (tex : Str) (charmap : List Int) : Nat → List (Int × Int) → SOut (List HData)
  | _, [] => .ok []
  | i, m :: ms =>
    match computeH T tex charmap i m.1 m.2 with
    | .ok h =>
      match hdataFrom T tex charmap (i + 1) ms with
      | .ok hs => .ok (h :: hs)
      | .fatal => .fatal
      | .crash s => .crash s
    | .fatal => .fatal
    | .crash s => .crash s

/-! ### regions -/

/-- `shell.py`: `if cmdline.context < 0: cmdline.context = int(1e8)` -/
def normContext (c : Int) : Nat := if c < 0 then 100000000 else c.toNat

/-- `h.beglin = max(h.beglin - context, 0)`, `h.endlin = min(h.endlin + context, len(starts) - 1)` -/
def widen (context nlast : Nat) (h : HData) : HData :=
  { h with beglin := h.beglin - context, endlin := min (h.endlin + context) nlast }

/-- `max(h.endlin for h in reg)` -/
def maxEndlin (reg : List HData) : Nat := reg.foldl (fun m h => max m h.endlin) 0

/-- second loop, `cur` = `regions[-1]` (non-empty) -/
def groupAux : List HData → List HData → List (List HData)
  | cur, [] => [cur]
  | cur, h :: hs =>
    if h.beglin ≥ maxEndlin cur then cur :: groupAux [h] hs
    else groupAux (cur ++ [h]) hs

def group : List HData → List (List HData)
  | [] => []
  | h :: hs => groupAux [h] hs

inductive Piece where
  | plain (s : Str)
  | hi (idx : Nat) (s : Str)
deriving Repr, Inhabited, DecidableEq

def Piece.text : Piece → Str
  | .plain s => s
  | .hi _ s => s

def Piece.tag : Piece → Option Nat
  | .plain _ => none
  | .hi i _ => some i

/-- an entry of `overlaps`: match, displayed line number `h.lin + 1`, text `tex[h.beg:h.end]` -/
structure Overlap where
  idx : Nat
  lin : Nat
  text : Str
deriving Repr, Inhabited, DecidableEq

/-- inner loop over the matches of one region plus the final `tex[last:starts[endlin]]` -/
def regionPieces (tex : Str) (stop : Nat) : Nat → List HData → List Piece
  | last, [] => [.plain (slice tex last stop)]
  | last, h :: hs =>
    if h.beg < (last : Int) then regionPieces tex stop last hs
    else .plain (slice tex last h.beg.toNat) :: .hi h.idx (slice tex h.beg.toNat h.fin)
           :: regionPieces tex stop h.fin hs

def regionOverlaps (tex : Str) : Nat → List HData → List Overlap
  | _, [] => []
  | last, h :: hs =>
    if h.beg < (last : Int) then
      { idx := h.idx, lin := h.lin + 1, text := sliceI tex h.beg h.fin } :: regionOverlaps tex last hs
    else regionOverlaps tex h.fin hs

structure Region where
  beglin : Nat
  endlin : Nat
  pieces : List Piece
  /-- `list(range(beglin, endlin)) + [-1]` -/
  lineNumbers : List Int
  overlaps : List Overlap
deriving Repr, Inhabited, DecidableEq

def regBeglin (reg : List HData) : Nat := (reg.head?.map (·.beglin)).getD 0

def mkRegion (tex : Str) (starts : List Nat) (reg : List HData) : Region :=
  let beglin := regBeglin reg
  let endlin := maxEndlin reg
  let last := starts.getD beglin 0
  { beglin := beglin, endlin := endlin,
    pieces := regionPieces tex (starts.getD endlin 0) last reg,
    lineNumbers := (List.range' beglin (endlin - beglin)).map Int.ofNat ++ [-1],
    overlaps := regionOverlaps tex last reg }

structure Report where
  hdata : List HData
  regions : List Region
  /-- the "no problems found" display: text `tex[:starts[endlin]]` and `range(endlin)`;
      present iff `line_numbers` is empty after the loop over the regions -/
  first : Option (Str × List Int)
deriving Repr, Inhabited, DecidableEq

/-- the list `overlaps` of `generate_html` -/
def Report.overlaps (r : Report) : List Overlap := r.regions.flatMap (·.overlaps)

/-- all `line_numbers` handed to `add_line_numbers` -/
def Report.lineNumbers (r : Report) : List Int :=
  match r.first with
  | some f => f.2
  | none => r.regions.flatMap (·.lineNumbers)

def noProblems (tex : Str) (starts : List Nat) (context : Nat) : Str × List Int :=
  let endlin := min context (starts.length - 1)
  (slice tex 0 (starts.getD endlin 0), (List.range endlin).map Int.ofNat)

/-- `generate_html(tex, charmap, matches, file)` with `cmdline.context = context`;
    a match is its `(offset, length)` -/
def generateHtml (T : Tables) (tex : Str) (charmap : List Int) (ms : List (Int × Int)) (context : Nat) : SOut Report :=
  match hdataFrom T tex charmap 0 ms with
  | .fatal => .fatal
  | .crash s => .crash s
  | .ok hs =>
    let starts := getLineStarts tex
    let regs := (group (hs.map (widen context (starts.length - 1)))).map (mkRegion tex starts)
    .ok { hdata := hs, regions := regs,
          first := if regs.isEmpty then some (noProblems tex starts context) else none }

/-! ### rows of the table -/

def taggedChars (ps : List Piece) : List (Option Nat × Char) :=
  ps.flatMap (fun p => p.text.map (fun c => (p.tag, c)))

/-- split at line breaks: one row per `<br>\n`, the line break itself belongs to no row -/
def splitRows {α} : List (α × Char) → List (List (α × Char))
  | [] => [[]]
  | x :: rest =>
    if x.2 == '\n' then [] :: splitRows rest
    else match splitRows rest with
      | r :: rs => (x :: r) :: rs
      | [] => [[x]]

/-- the table rows of one region: `res + '<br>\n'` cut at every `<br>\n` -/
def Region.rows (r : Region) : List (List (Option Nat × Char)) := splitRows (taggedChars r.pieces)

/-- concatenated text of a list of pieces -/
def piecesText (ps : List Piece) : Str := ps.flatMap Piece.text

def Region.text (r : Region) : Str := piecesText r.pieces

/-- the rows of the "no problems" display: `protect_html(tex[:starts[endlin]])` gets no extra
    `<br>\n`; the text ends in a line break (or is empty), and the empty rest behind the last
    `<br>\n` is no row for the regular expression of `add_line_numbers` (`(?!\Z)`): the last piece
    of the split is dropped.  (An empty text is not passed to `add_line_numbers` at all.) -/
def firstRows (s : Str) : List Str :=
  ((splitRows (s.map (fun c => ((), c)))).map (·.map (·.2))).dropLast

end Html
end Yalafi
