/-
  Model/ML.lean — `utils.get_txt_pos_ml` and helpers (utils.py 142–268).
-/
import YalafiVerif.Model.Utils
namespace Yalafi

structure Sec where
  lang : Str
  back : Bool
  brk : Bool
  txt : Str
  pos : List Nat
deriving Repr, DecidableEq, Inhabited

structure SecState where
  stack : List Str          -- top = head; never empty
  swBack : Bool
  swBrk : Bool
  cur : List Tok            -- current section, in order
  secs : List Sec           -- finished sections, in order
deriving Repr, Inhabited

def stackTop (st : List Str) : Str := st.headD []

def closeSec (s : SecState) : List Sec :=
  let r := getTxtPos s.cur
  if r.1.isEmpty then s.secs
  else s.secs ++ [{ lang := stackTop s.stack, back := s.swBack, brk := s.swBrk, txt := r.1, pos := r.2 }]

def secStep (s : SecState) (t : Tok) : SecState :=
  match t.kind with
  | .lang l back hard brk =>
    -- the stack is always updated; a new section starts only if the language in force changes
    let stack :=
      if back then (if s.stack.length > 1 then s.stack.tail else s.stack)
      else if hard then l :: s.stack.tail
      else l :: s.stack
    if stackTop stack == stackTop s.stack then { s with stack := stack }
    else { stack := stack, swBack := back, swBrk := brk, cur := [], secs := closeSec s }
  | _ => { s with cur := s.cur ++ [t] }

def sections (toks : List Tok) (mainLang : Str) : List Sec :=
  closeSec (toks.foldl secStep { stack := [mainLang], swBack := false, swBrk := false, cur := [], secs := [] })

def asciiLower (c : Char) : Char := if 'A' ≤ c && c ≤ 'Z' then Char.ofNat (c.toNat + 32) else c

/-- `Parameters.check_parser_lang` -/
def checkParserLang (known : List Str) (lang : Str) : Str :=
  let l := (lang.take 2).map asciiLower
  if known.contains l then l else "en".toList

/-- rotating `lang_change_repl` lists, keyed by settings code -/
abbrev LangChange := List (Str × List Str)

def rotate (l : List Str) : List Str := l.drop 1 ++ l.take 1

def lcGet (lc : LangChange) (k : Str) : Option (List Str) := (lc.find? (·.1 == k)).map (·.2)
def lcSet (lc : LangChange) (k : Str) (v : List Str) : LangChange :=
  lc.map (fun e => if e.1 == k then (k, v) else e)

/-- `ml_append_placeholder`; `none` = Python would raise (missing settings / empty list) -/
def appendPlaceholder (lc : LangChange) (sec incl : Sec) : Option (Sec × LangChange) :=
  if isBlank incl.txt then
    some ({ sec with txt := sec.txt ++ incl.txt, pos := sec.pos ++ incl.pos }, lc)
  else
    let lang := checkParserLang (lc.map (·.1)) sec.lang
    match lcGet lc lang with
    | none => none
    | some repl =>
      let repl' := rotate repl
      match repl'.head? with
      | none => none
      | some r0 =>
        let start := idxOf (fun c => !isSpace c) incl.txt
        match incl.pos[start]?, incl.txt.head?, incl.txt.getLast?, incl.pos.head?, incl.pos.getLast? with
        | some p, some c0, some cl, some p0, some pl =>
          let pre := if isSpace c0 then ([c0], [p0]) else ([], [])
          let post := if isSpace cl then ([cl], [pl]) else ([], [])
          some ({ sec with txt := sec.txt ++ pre.1 ++ r0 ++ post.1,
                           pos := sec.pos ++ pre.2 ++ List.replicate r0.length p ++ post.2 },
                lcSet lc lang repl')
        | _, _, _, _, _ => none

def checkLangSection (thresh : Nat) (s : Sec) : Bool := (splitWs s.txt).length ≤ thresh

/-- the joining loop; fuel = number of sections (each iteration removes ≥ 1) -/
def joinLoop (thresh : Nat) : Nat → LangChange → List Sec → List Sec → Option (List Sec × LangChange)
  | _, lc, [], out => some (out, lc)
  | 0, _, _ :: _, _ => none
  | fuel + 1, lc, s0 :: rest, out =>
    match rest with
    | s1 :: rest2 =>
      if !s1.brk && !s1.back
          && (match rest2 with | [] => true | s2 :: _ => s0.lang == s2.lang)
          && checkLangSection thresh s1 then
        match appendPlaceholder lc s0 s1 with
        | none => none
        | some (s0', lc') =>
          match rest2 with
          | [] => joinLoop thresh fuel lc' [s0'] (out ++ [s1])
          | s2 :: rest3 =>
            joinLoop thresh fuel lc' ({ s0' with txt := s0'.txt ++ s2.txt, pos := s0'.pos ++ s2.pos } :: rest3) (out ++ [s1])
      else joinLoop thresh fuel lc rest (out ++ [s0])
    | [] => joinLoop thresh fuel lc [] (out ++ [s0])

abbrev Parts := List (Str × List (Str × List Nat))

def groupParts : List Sec → Parts → Parts
  | [], acc => acc
  | s :: ss, acc =>
    if acc.any (·.1 == s.lang) then
      groupParts ss (acc.map (fun e => if e.1 == s.lang then (e.1, e.2 ++ [(s.txt, s.pos)]) else e))
    else groupParts ss (acc ++ [(s.lang, [(s.txt, s.pos)])])

/-- `get_txt_pos_ml` -/
def getTxtPosML (toks : List Tok) (mainLang : Str) (thresh : Nat) (lc : LangChange) : Option (Parts × LangChange) :=
  let secs := sections toks mainLang
  match joinLoop thresh secs.length lc secs [] with
  | none => none
  | some (out, lc') => some (groupParts out [], lc')

end Yalafi
