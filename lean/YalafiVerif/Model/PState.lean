/-
  Model/PState.lean — macro/environment tables, module table, parser state,
  the monad `M`, the push-back buffer and the non-recursive helpers of
  `yalafi/parser.py` (arg_buffer, generate_replacements, expand_verb_env_token …).
-/
import YalafiVerif.Model.Lines
import YalafiVerif.Model.Scanner
namespace Yalafi

/-! ### declared macros and environments -/

/-- Python handlers (`repl=` callables), identified by the translator through
    `__qualname__` and closure contents. -/
inductive Handler where
  | none
  | newcommand | newtheorem | theorem (title : Str) | heading | phantom | hspace | cite
  | loadDefs | loadModule (cls : Bool)
  | foreignlanguage | selectlanguage | beginOtherlang | endOtherlang | endOtherlangStar
  | substack | proof | bibCite | footcite | xspace
  | gls (key : Str) (capFirst capAll : Bool) | newacronym | newglossaryentry | parseGlsdefs
  | opaqueH (name : Str)
  /-- cleveref: `h_read_sed`, `h_cref_warning`, and the closures `h_make_cref(refs[ref])` /
      `h_make_crefrange(refs[ref])` with their captured dictionaries (`''` and `'*'` part; insertion
      order, a later entry for the same key overrides an earlier one) -/
  | readSed | crefWarn
  | cref (plain star : List (Str × Str))
  | crefrange (plain star : List ((Str × Str) × Str))
deriving Repr, DecidableEq, Inhabited

inductive ItemStyle where
  | dflt | enumerate | itemize
deriving Repr, DecidableEq, Inhabited

/-- `defs.Macro` / `defs.Environ` / `defs.EquEnv` -/
structure MacroDef where
  name : Str
  args : Str                       -- codes '*', 'O', 'A'
  repl : List Tok := []
  handler : Handler := .none
  defaults : List (List Tok) := []
  extract : List Tok := []
  -- environment part
  addPars : Bool := true
  remove : Bool := false
  items : Option ItemStyle := none
  endFunc : Handler := .none
  isEqu : Bool := false
deriving Repr, Inhabited

/-- one `(key, value)` of a parsed and expanded option list -/
structure KeyVal where
  key : Str
  val : Option Str
deriving Repr, DecidableEq, Inhabited

/-- what `init_module` of a package / class module does (translated per module) -/
structure ModuleDef where
  name : Str                        -- normalised module name
  requires : List Str
  macrosLatex : Str
  macros : List MacroDef
  envs : List MacroDef
  addMathText : List Str := []
  addMathOps : List Str := []
  addIgnore : List Str := []
  addsGlobalOptions : Bool := false
  babelInject : Bool := false       -- inject_tokens = get_language_token(global + options)
  isOpaque : Bool := false          -- not modelled
  /-- cleveref: inject_tokens = latex_error(msg_poorman_option) unless an option is / has value 'poorman' -/
  crefInject : Bool := false
deriving Repr, Inhabited

/-- message texts of `packages/cleveref.py` (translated).  The two `…Undef` messages are Python
    format strings: the literal pieces around the fields `{:}` -/
structure CrefMsgs where
  poorman : Str := []
  sedNotLoaded : Str := []
  crefUndef : List Str := []
  crefrangeUndef : List Str := []
deriving Repr, Inhabited

/-- translated constant data of the expander (extends `Tables`) -/
structure PTables extends Tables where
  macroDefsLatex : Str
  macroDefsPython : List MacroDef
  noSpecialsMacros : List MacroDef          -- appended by `no_specials()`
  environmentDefs : List MacroDef
  packageModules : List ModuleDef
  classModules : List ModuleDef
  loadTablePackages : List (Str × List Str)
  loadTableClasses : List (Str × List Str)
  babelMap : List (Str × Str)
  headingPunct : List Str
  itemDefaultLabel : List Str
  itemPunctuation : List Str
  newcommandIgnore : List Str
  mathIgnore : List Str
  mathSpace : List Str
  mathOperators : List Str
  mathTextMacros : List Str
  mathDefaultEnv : Str
  mathPunctuation : List Str
  xspaceExcl : List Str
  citeText : Str
  /-- `unicodedata.lookup` for the names the accent code can build -/
  unicodeNames : List (Str × Str)
  foreignBrk : Bool
  selectBrk : Bool
  otherBrk : Bool
  crefMsgs : CrefMsgs := {}
deriving Repr, Inhabited

/-! ### parser state -/

structure ItemGen where
  style : ItemStyle
  level : Nat
  count : Nat
  env : Str
deriving Repr, Inhabited

/-- rotating placeholder lists of one language setting -/
structure Rot where
  code : Str
  inl : List Str
  disp : List Str
  chg : List Str
deriving Repr, Inhabited

abbrev FS := List (Str × Str)

structure PState where
  macros : List MacroDef := []
  envs : List MacroDef := []
  packages : List (Str × List KeyVal) := []
  globalOptions : List KeyVal := []
  unknowns : List Str := []
  extracted : List (List Tok) := []
  itemStack : List ItemGen := []                 -- top = head
  langStack : List (Str × Str) := []             -- (settings code, language), top = head
  rots : List Rot := []
  mathTextMacros : List Str := []
  mathOperators : List Str := []
  newcommandIgnore : List Str := []
  latex : Str := []
  diags : List Diag := []
  multiLanguage : Bool := false
  displayedSimple : Bool := false
  skipBegin : Str := []
  skipEnd : Str := []
  glossary : List (Str × List (Str × Option (List Tok))) := []
  fs : FS := []
  readMacros : Bool := true
  /-- ghost (no effect on behaviour): number of enclosing `parser_work` frames; the root
      document is parsed at `nest = 1` (`parse` sets 0 before it), everything else (module definitions,
      `--defs`, `\LTinput` files) at `nest ≥ 2` -/
  nest : Nat := 2
  /-- ghost: a text flow was extracted while parsing something other than the root document
      and has not been discarded since -/
  foreign : Bool := false
deriving Repr, Inhabited

/-- state + outcome monad -/
def M (α : Type) := PState → Outcome (α × PState)

namespace M
@[inline] def pure' {α} (a : α) : M α := fun s => .ok (a, s)
@[inline] def bind' {α β} (x : M α) (f : α → M β) : M β := fun s =>
  match x s with
  | .ok (a, s') => f a s'
  | .fatal m => .fatal m
  | .crash c => .crash c
  | .outOfFuel => .outOfFuel
instance : Monad M where
  pure := pure'
  bind := bind'
def get : M PState := fun s => .ok (s, s)
def modify (f : PState → PState) : M Unit := fun s => .ok ((), f s)
def crash {α} (site : String) : M α := fun _ => .crash site
def fatal {α} (msg : Str) : M α := fun _ => .fatal msg
def outOfFuel {α} : M α := fun _ => .outOfFuel
end M

/-! ### buffer (`scanner.Buffer`): a list, current token = head -/

abbrev Buf := List Tok

def isSpaceTok (t : Tok) : Bool :=
  match t.kind with
  | .space | .comment | .action | .void | .lang .. => true
  | _ => false

def skipSpace (b : Buf) : Buf := b.dropWhile isSpaceTok

def isLangK (t : Tok) : Bool := match t.kind with | .lang .. => true | _ => false
/-- `skip_space(stop_lang=True)`: a language token ends the space behind a macro name -/
def skipSpaceStopLang (b : Buf) : Buf := b.dropWhile (fun t => isSpaceTok t && !isLangK t)
/-- `skip_space(stop_lang=True, stop_action=True)` (`expand_macro`): an action token marks the
    place of something that has vanished (the closing brace of an argument, …); it also ends the
    space behind a macro name and is not skipped itself -/
def skipSpaceStopLangAct (b : Buf) : Buf :=
  b.dropWhile (fun t => isSpaceTok t && !isLangK t && !(t.kind == .action))
/-- the language tokens `skip_space(langs)` passes over -/
def skippedLangs (b : Buf) : List Tok := (b.takeWhile isSpaceTok).filter isLangK
def lookAhead (b : Buf) : Option Tok := (skipSpace b).head?
/-- `look_ahead(stop_lang=True)`: the search also ends at a language token (the end of a language scope) -/
def lookAheadSL (b : Buf) : Option Tok := (b.dropWhile (fun t => isSpaceTok t && !isLangK t)).head?

def txtIs (t : Tok) (s : String) : Bool := t.txt == s.toList

def isVerb (t : Tok) : Bool := match t.kind with | .verb _ => true | _ => false
/-- `txt(tok)` of `arg_buffer`: the text of verbatim material never acts as a delimiter -/
def txtIsNV (t : Tok) (s : String) : Bool := !isVerb t && t.txt == s.toList

def mkAction (pos : Nat) : Tok := { kind := .action, pos := pos, txt := [] }
def mkVoid (pos : Nat) : Tok := { kind := .void, pos := pos, txt := [] }
def mkFix (k : Kind) (pos : Nat) (txt : Str) : Tok := { kind := k, pos := pos, txt := txt, fix := true }
def mkTok (k : Kind) (pos : Nat) (txt : Str) : Tok := { kind := k, pos := pos, txt := txt }
def mkLang (pos : Nat) (l : Str) (back hard brk : Bool) : Tok :=
  { kind := .lang l back hard brk, pos := pos, txt := [] }

/-! ### latex_error in the monad -/

def latexError (T : Tables) (err : Str) (pos : Nat) : M (List Tok) := fun s =>
  .ok (latexErrorToks T err pos s.latex.length,
       { s with diags := s.diags ++ [latexErrorDiag err pos s.latex] })

/-! ### arg_buffer -/

structure ArgRes where
  arg : List Tok
  buf : Buf
  err : Option Str := none       -- message for latex_error at `errPos`
  errPos : Nat := 0
deriving Repr, Inhabited

/-- the collecting loop of `arg_buffer`: returns (collected, rest after the closing
    token) or `none` if the end of the buffer was reached -/
def collectArg (endTxt : Str) : Int → Buf → List Tok → Option (List Tok × Buf)
  | _, [], _ => none
  | lev, t :: ts, acc =>
    let lev1 := if txtIsNV t "{" then lev + 1 else lev
    let lev2 := if txtIsNV t "}" then lev1 - 1 else lev1
    if !isVerb t && t.txt == endTxt && lev2 == 0 then some (acc.reverse, ts)
    else collectArg endTxt lev2 ts (t :: acc)

def errClosing (endTxt : Str) : Str := "cannot find closing \"".toList ++ endTxt ++ ['"']

/-- `Parser.arg_buffer` without the side effect; `markTok` is the twin mark -/
def argBufferPure (mark : Str) (buf : Buf) (start : Nat) (endBrace : Bool) : ArgRes :=
  match skipSpace buf with
  | [] => { arg := [mkVoid start], buf := [] }
  | tok :: rest =>
    if tok.kind == .par then { arg := [mkVoid tok.pos], buf := tok :: rest }
    else if endBrace && !txtIsNV tok "{" then { arg := [tok], buf := rest }
    else
      let endTxt : Str := if endBrace then ['}'] else [']']
      let lev : Int := if txtIsNV tok "{" then 1 else 0
      match collectArg endTxt lev rest [] with
      | some (out, rest') => { arg := if out.isEmpty then [mkVoid tok.pos] else out, buf := rest' }
      | none =>
        -- HACK of issue 23: push everything back behind an error mark
        { arg := [mkFix .text tok.pos ([' '] ++ mark ++ [' '])],
          buf := tok :: rest,      -- completed by the caller: opening ++ error ++ collected
          err := some (errClosing endTxt), errPos := tok.pos }

def argBuffer (T : Tables) (buf : Buf) (start : Nat) (endBrace : Bool) : M (List Tok × Buf) := do
  let r := argBufferPure T.mark buf start endBrace
  match r.err with
  | none => pure (r.arg, r.buf)
  | some e =>
    let errToks ← latexError T e r.errPos
    match r.buf with
    | opening :: collected => pure (r.arg, opening :: errToks ++ collected)
    | [] => pure (r.arg, errToks)

/-! ### generate_replacements -/

/-- Python `xs[i]` for `i = k - 1` with `k ≥ 0` (so `k = 0` is index −1, the last element) -/
def pyIndex {α} (xs : List α) (k : Nat) : Option α :=
  if k == 0 then xs.getLast? else xs[k - 1]?

def argRef (t : Tok) : Option Nat := match t.kind with | .arg n => some n | _ => none

/-- first loop: `cur_pos` = start of the last referenced non-empty argument -/
def initCurPos (arguments : List (List Tok)) : List Tok → Nat → Option Nat
  | [], cur => some cur
  | t :: ts, cur =>
    match argRef t with
    | none => initCurPos arguments ts cur
    | some k =>
      match pyIndex arguments k with
      | none => none
      | some a => initCurPos arguments ts (match a.head? with | some h => h.pos | none => cur)

def genReplLoop (arguments : List (List Tok)) : List Tok → Nat → List Tok → Option (List Tok)
  | [], _, out => some out
  | t :: ts, cur, out =>
    match argRef t with
    | some k =>
      match pyIndex arguments k with
      | none => none
      | some a =>
        match a.head?, a.getLast? with
        | some h, some l => genReplLoop arguments ts l.pos (out ++ [mkAction h.pos] ++ a ++ [mkAction l.pos])
        | _, _ => genReplLoop arguments ts cur out
    | none => genReplLoop arguments ts cur (out ++ [{ t with pos := cur, fix := true }])

/-- `Parser.generate_replacements`; `none` = IndexError -/
def generateReplacements (arguments : List (List Tok)) (repls : List Tok) (start : Nat) : Option (List Tok) :=
  match initCurPos arguments repls start with
  | none => none
  | some cur => genReplLoop arguments repls cur []

/-! ### expand_verb_env_token -/

/-- NB (documented deviation, DESIGN section 5): the eight synthesized tokens inherit `fix`
    from the verbatim token.  The Python code creates them position-counting; they are
    consumed as `\begin{verbatim}` / `\end{verbatim}` (only the *text* of the name is used), so
    the flag is unobservable — but with it the range invariant is token-local. -/
def expandVerbEnvToken (t : Tok) : List Tok :=
  let e := if t.fix then t.pos else t.pos + t.txt.length
  let v := "verbatim".toList
  let mk (k : Kind) (p : Nat) (s : Str) : Tok := { kind := k, pos := p, txt := s, fix := t.fix }
  [ mk .xbegin t.pos sBegin, mk .special t.pos ['{'], mk .text t.pos v, mk .special t.pos ['}'],
    { t with kind := .verb false },
    mk .xend e sEnd, mk .special e ['{'], mk .text e v, mk .special e ['}'] ]

/-! ### small table look-ups -/

def lookupMacro (st : PState) (name : Str) : Option MacroDef := st.macros.find? (·.name == name)
def lookupEnv (st : PState) (name : Str) : Option MacroDef := st.envs.find? (·.name == name)

/-- `the_macros[name] = m` -/
def setMacro (ms : List MacroDef) (m : MacroDef) : List MacroDef :=
  if ms.any (·.name == m.name) then ms.map (fun x => if x.name == m.name then m else x)
  else ms ++ [m]

def getTextDirect (ts : List Tok) : Str :=
  (ts.filter (fun t => t.kind != .comment)).flatMap (·.txt)

/-- item labels: `next(generator)` -/
def enumLabel (level count : Nat) : Str :=
  if level == 0 then natToStr (count + 1) ++ ['.']
  else [Char.ofNat ('a'.toNat + count % 26), '.']

def itemLabel (dflt : List Str) (g : ItemGen) : Option Str :=
  match g.style with
  | .enumerate => some (enumLabel g.level g.count)
  | .itemize => dflt[min g.level (dflt.length - 1)]?
  | .dflt => dflt.head?

end Yalafi
